(** C17: invalid requests are rejected before a single byte is emitted.
    Specification predicate [invalid], characterisation of [analyze] / [analyze_request], and the
    first write of a fresh call / flow. *)
From Coq Require Import Lia ZArith.
From Hoot Require Import Base Chunk Body Httparse Parser Url Request Call Flow.
From Hoot.proofs Require Import BytesLemmas.
Open Scope N_scope.

(* ------------------------------------------------------------------ specification *)

Definition is_nonempty {A} (l : list A) : bool := match l with [] => false | _ => true end.

(** Values of the effective header fields of a given (lower-case) name, in order. *)
Definition field_values (a : amended) (name : string) : list bytes := get_all (am_headers a) (s2b name).
Definition hosts (a : amended) : list bytes := field_values a "host".
Definition cls (a : amended) : list bytes := field_values a "content-length".
Definition tes (a : amended) : list bytes := field_values a "transfer-encoding".

Definition version_supported (v : version) : bool :=
  match v with V10 | V11 => true | _ => false end.

(** HTTP/1.0 defines GET, HEAD and POST only. *)
Definition method_defined (v : version) (m : method) : bool :=
  match v with
  | V10 => match m with GET | HEAD | POST => true | _ => false end
  | _ => true
  end.

(** Value of a decimal digit string (meaningful when every byte is a digit). *)
Definition dec_step (acc b : N) : N := acc * 10 + (b - 48).
Definition dec_from (s : bytes) (acc : N) : N := fold_left dec_step s acc.
Definition dec_value (s : bytes) : N := dec_from s 0.

(** Content-Length = 1*DIGIT, and the value fits 64 bits. *)
Definition content_length_ok (v : bytes) : bool :=
  is_nonempty v && forallb is_digit v && (dec_value v <? 2 ^ 64).

(** A Transfer-Encoding value that is text and equals "chunked" ignoring case. *)
Definition chunked_value (v : bytes) : bool := is_text v && beq_bytes (lower v) (s2b "chunked").

Definition has_chunked_te (a : amended) : bool := existsb chunked_value (tes a).

(** A framing header is present: a valid Content-Length or a chunked Transfer-Encoding. *)
Definition framing_present (a : amended) : bool :=
  existsb content_length_ok (cls a) || has_chunked_te a.

(** A request body is announced: by a framing header or by the with-body constructor. *)
Definition body_announced (a : amended) (wanted : writer) : bool :=
  framing_present a || has_body wanted.

(** The rejection classes of the statement. *)
Definition invalid (a : amended) (wanted : writer) (skip : bool) : bool :=
  negb (version_supported (am_version a))
  || negb (method_defined (am_version a) (am_method a))
  || (1 <? len (hosts a))
  || (1 <? len (cls a))
  || existsb (fun v => negb (is_text v)) (hosts a)
  || existsb (fun v => negb (content_length_ok v)) (cls a)
  || (negb skip &&
      (if need_request_body (am_method a)
       then negb (body_announced a wanted)
       else body_announced a wanted)).

(** The errors request analysis can produce. *)
Definition analysis_error (e : err) : bool :=
  match e with
  | UnsupportedVersion | MethodVersionMismatch | TooManyHostHeaders | TooManyContentLengthHeaders
  | BadHostHeader | BadContentLengthHeader | MethodForbidsBody | MethodRequiresBody => true
  | _ => false
  end.

Lemma analysis_error_not_overflow e : analysis_error e = true -> e <> OutputOverflow.
Proof. intros H ->. discriminate. Qed.

(** The body mode analysis settles on when it accepts. *)
Definition spec_mode (a : amended) (wanted : writer) : writer :=
  if has_chunked_te a then new_chunked
  else match cls a with
       | v :: _ => new_sized (dec_value v)
       | [] => wanted
       end.

(* ------------------------------------------------------------------ decimal parsing *)

Lemma u64_limit_pow : U64_LIMIT = 2 ^ 64.
Proof. reflexivity. Qed.

Lemma dec_from_ge s : forall acc, acc <= dec_from s acc.
Proof.
  induction s as [|b t IH]; intros acc; cbn [dec_from fold_left]; [lia|].
  fold (dec_from t (dec_step acc b)). specialize (IH (dec_step acc b)). unfold dec_step in *. lia.
Qed.

Lemma parse_digits_spec s : forall acc, acc < U64_LIMIT ->
  parse_digits 10 decval s acc =
    if forallb is_digit s && (dec_from s acc <? U64_LIMIT) then Some (dec_from s acc) else None.
Proof.
  induction s as [|b t IH]; intros acc Hacc.
  - cbn [parse_digits forallb dec_from fold_left andb].
    destruct (N.ltb_spec acc U64_LIMIT); [reflexivity|lia].
  - cbn [parse_digits forallb dec_from fold_left]. fold (dec_from t (dec_step acc b)).
    unfold decval. destruct (is_digit b) eqn:Hd; cbn [andb]; [|reflexivity].
    change (acc * 10 + (b - 48)) with (dec_step acc b).
    destruct (N.ltb_spec (dec_step acc b) U64_LIMIT) as [Hlt|Hge].
    + apply IH. exact Hlt.
    + pose proof (dec_from_ge t (dec_step acc b)) as Hm.
      destruct (forallb is_digit t); cbn [andb]; [|reflexivity].
      destruct (N.ltb_spec (dec_from t (dec_step acc b)) U64_LIMIT); [lia|reflexivity].
Qed.

Lemma digit_visible b : is_digit b = true -> is_visible_ascii b = true.
Proof.
  unfold is_digit, is_visible_ascii. intros H. apply andb_prop in H. destruct H as [H1 H2].
  apply N.leb_le in H1. apply N.leb_le in H2.
  destruct (N.leb_spec 32 b); [|lia]. destruct (N.ltb_spec b 127); [|lia]. reflexivity.
Qed.

Lemma all_digits_text s : all_digits s = true -> is_text s = true.
Proof.
  unfold all_digits, is_text. induction s as [|b t IH]; cbn [forallb]; [reflexivity|].
  intros H. apply andb_prop in H. destruct H as [H1 H2]. rewrite (digit_visible _ H1), (IH H2). reflexivity.
Qed.

(** The Content-Length check of [analyze], as a function of the field value. *)
Definition cl_check (h : bytes) : res (option N) :=
  if is_text h && all_digits h then
    match parse_dec_u64 h with Some n => Ok (Some n) | None => Err BadContentLengthHeader end
  else Err BadContentLengthHeader.

Lemma cl_check_spec h :
  cl_check h = if content_length_ok h then Ok (Some (dec_value h)) else Err BadContentLengthHeader.
Proof.
  unfold cl_check, content_length_ok. rewrite <- u64_limit_pow.
  destruct h as [|b t]; [reflexivity|].
  cbn [is_nonempty andb]. fold (all_digits (b :: t)).
  destruct (all_digits (b :: t)) eqn:Hd.
  - rewrite (all_digits_text _ Hd). cbn [andb].
    unfold parse_dec_u64. rewrite parse_digits_spec by (unfold U64_LIMIT; lia).
    fold (all_digits (b :: t)). rewrite Hd. cbn [andb]. fold (dec_value (b :: t)).
    destruct (dec_value (b :: t) <? U64_LIMIT); reflexivity.
  - rewrite andb_false_r. reflexivity.
Qed.

(* ------------------------------------------------------------------ chunked test *)

Lemma visible_lt_128 b : is_visible_ascii b = true -> (b <? 128) = true.
Proof.
  unfold is_visible_ascii. intros H. apply N.ltb_lt.
  apply orb_prop in H. destruct H as [H|H].
  - apply andb_prop in H. destruct H as [_ H]. apply N.ltb_lt in H. lia.
  - apply N.eqb_eq in H. lia.
Qed.

Lemma cmp_lower_text v : forall l, is_text v = true -> cmp_lower v l = beq_bytes (lower v) l.
Proof.
  unfold is_text. induction v as [|x v IH]; intros [|y l] H; cbn [cmp_lower lower map beq_bytes];
    try reflexivity.
  cbn [forallb] in H. apply andb_prop in H. destruct H as [H1 H2].
  rewrite (visible_lt_128 _ H1). cbn [andb]. fold (lower v). rewrite (IH l H2). reflexivity.
Qed.

Lemma chunked_test_eq v :
  (is_text v && cmp_lower v (s2b "chunked")) = chunked_value v.
Proof.
  unfold chunked_value. destruct (is_text v) eqn:Ht; cbn [andb]; [|reflexivity].
  apply cmp_lower_text. exact Ht.
Qed.

Lemma existsb_ext_eq {A} (f g : A -> bool) l : (forall x, f x = g x) -> existsb f l = existsb g l.
Proof. intros H. induction l as [|x l IH]; cbn [existsb]; [reflexivity|]. rewrite H, IH. reflexivity. Qed.

(* ------------------------------------------------------------------ analyze *)

(** [analyze] on abstract field-value lists (definitionally equal to the model function). *)
Definition analyze_core (m : method) (v : version) (hs cs ts : list bytes) (wanted : writer)
           (skip_check : bool) : res request_info :=
  do _ <- verify_version m v;
  if 1 <? len hs then Err TooManyHostHeaders else
  if 1 <? len cs then Err TooManyContentLengthHeaders else
  do req_host <-
     match hs with
     | h :: _ => if is_text h then Ok true else Err BadHostHeader
     | [] => Ok false
     end;
  do content_length <-
     match cs with
     | h :: _ => cl_check h
     | [] => Ok None
     end;
  let has_chunked :=
      existsb (fun v => is_text v && cmp_lower v (s2b "chunked")) ts in
  let '(mode, body_header) :=
      if has_chunked then (new_chunked, true)
      else match content_length with
           | Some n => (new_sized n, true)
           | None => (wanted, false)
           end in
  do _ <-
     (if skip_check then Ok tt
      else
        let need := need_request_body m in
        let has := has_body mode in
        if negb need && has then Err MethodForbidsBody
        else if need && negb has then Err MethodRequiresBody
        else Ok tt);
  Ok {| ri_mode := mode; ri_host := req_host; ri_body_header := body_header |}.

Lemma analyze_is_core a w s :
  analyze a w s = analyze_core (am_method a) (am_version a) (hosts a) (cls a) (tes a) w s.
Proof. reflexivity. Qed.

Definition invalid_core (m : method) (v : version) (hs cs ts : list bytes) (wanted : writer)
           (skip : bool) : bool :=
  let framing := existsb content_length_ok cs || existsb chunked_value ts in
  let announced := framing || has_body wanted in
  negb (version_supported v)
  || negb (method_defined v m)
  || (1 <? len hs)
  || (1 <? len cs)
  || existsb (fun v => negb (is_text v)) hs
  || existsb (fun v => negb (content_length_ok v)) cs
  || (negb skip && (if need_request_body m then negb announced else announced)).

Lemma invalid_is_core a w s :
  invalid a w s = invalid_core (am_method a) (am_version a) (hosts a) (cls a) (tes a) w s.
Proof. reflexivity. Qed.

Definition mode_core (cs ts : list bytes) (wanted : writer) : writer :=
  if existsb chunked_value ts then new_chunked
  else match cs with
       | v :: _ => new_sized (dec_value v)
       | [] => wanted
       end.

Lemma verify_version_spec m v :
  verify_version m v =
    if version_supported v then
      if method_defined v m then Ok tt else Err MethodVersionMismatch
    else Err UnsupportedVersion.
Proof. destruct v, m; reflexivity. Qed.

Lemma len_le1 {A} (l : list A) : (1 <? len l) = false -> l = [] \/ exists x, l = [x].
Proof.
  intros H. apply N.ltb_ge in H. destruct l as [|x [|y t]]; [auto|eauto|].
  rewrite !len_cons in H. lia.
Qed.

(** Complete case analysis: either the request is in a rejection class and analysis returns one of
    its errors, or it is not and analysis returns the expected information. Never a panic. *)
Lemma analyze_core_cases m v hs cs ts w s :
  (invalid_core m v hs cs ts w s = true /\
   exists e, analyze_core m v hs cs ts w s = Err e /\ analysis_error e = true) \/
  (invalid_core m v hs cs ts w s = false /\
   analyze_core m v hs cs ts w s =
     Ok {| ri_mode := mode_core cs ts w; ri_host := is_nonempty hs;
           ri_body_header := existsb content_length_ok cs || existsb chunked_value ts |}).
Proof.
  unfold analyze_core, invalid_core, mode_core. cbv zeta.
  rewrite verify_version_spec.
  rewrite (existsb_ext_eq _ chunked_value ts chunked_test_eq).
  destruct (version_supported v); cbn [negb orb bind]; [|left; split; [reflexivity|eauto]].
  destruct (method_defined v m); cbn [negb orb bind]; [|left; split; [reflexivity|eauto]].
  destruct (1 <? len hs) eqn:Hh; cbn [orb]; [left; split; [reflexivity|eauto]|].
  destruct (1 <? len cs) eqn:Hc; cbn [orb]; [left; split; [reflexivity|eauto]|].
  apply len_le1 in Hh. apply len_le1 in Hc.
  assert (Hhost : (existsb (fun x => negb (is_text x)) hs = true /\
                   exists e, match hs with h :: _ => if is_text h then Ok true else Err BadHostHeader
                                         | [] => Ok false end = Err e /\ analysis_error e = true) \/
                  (existsb (fun x => negb (is_text x)) hs = false /\
                   match hs with h :: _ => if is_text h then Ok true else Err BadHostHeader
                               | [] => Ok false end = Ok (is_nonempty hs))).
  { destruct Hh as [->|[h ->]]; [right; split; reflexivity|].
    cbn [existsb is_nonempty]. destruct (is_text h); cbn [negb orb]; [right; split; reflexivity|].
    left. split; [reflexivity|eauto]. }
  destruct Hhost as [[Hx (e & He & Hae)]|[Hx He]]; rewrite Hx, He; cbn [orb bind];
    [left; split; [reflexivity|eauto]|].
  clear Hx He.
  assert (Hcl : (existsb (fun x => negb (content_length_ok x)) cs = true /\
                 exists e, match cs with h :: _ => cl_check h | [] => Ok None end = Err e /\
                           analysis_error e = true) \/
                (existsb (fun x => negb (content_length_ok x)) cs = false /\
                 existsb content_length_ok cs = is_nonempty cs /\
                 match cs with h :: _ => cl_check h | [] => Ok None end =
                   Ok (match cs with h :: _ => Some (dec_value h) | [] => None end))).
  { destruct Hc as [->|[h ->]]; [right; repeat split; reflexivity|].
    cbn [existsb is_nonempty]. rewrite cl_check_spec.
    destruct (content_length_ok h); cbn [negb orb]; [right; repeat split; reflexivity|].
    left. split; [reflexivity|eauto]. }
  destruct Hcl as [[Hx (e & He & Hae)]|(Hx & Hy & He)]; rewrite Hx, He; cbn [orb bind];
    [left; split; [reflexivity|eauto]|].
  rewrite Hy. clear Hx Hy He Hc.
  destruct (existsb chunked_value ts) eqn:Hch.
  - (* chunked transfer-encoding *)
    rewrite orb_true_r. cbn [orb has_body new_chunked w_mode].
    destruct s; cbn [negb andb bind]; [right; split; reflexivity|].
    destruct (need_request_body m); cbn [negb andb bind].
    + right. split; reflexivity.
    + left. split; [reflexivity|eauto].
  - rewrite orb_false_r.
    destruct cs as [|h t]; cbn [is_nonempty orb].
    + (* no framing header: the constructor decides *)
      destruct s; cbn [negb andb bind]; [right; split; reflexivity|].
      destruct (need_request_body m), (has_body w); cbn [negb andb bind];
        try (right; split; reflexivity); left; (split; [reflexivity|eauto]).
    + cbn [has_body new_sized w_mode].
      destruct s; cbn [negb andb bind]; [right; split; reflexivity|].
      destruct (need_request_body m); cbn [negb andb bind].
      * right. split; reflexivity.
      * left. split; [reflexivity|eauto].
Qed.

Lemma analyze_invalid a w s :
  invalid a w s = true -> exists e, analyze a w s = Err e /\ analysis_error e = true.
Proof.
  rewrite invalid_is_core, analyze_is_core. intros H.
  destruct (analyze_core_cases (am_method a) (am_version a) (hosts a) (cls a) (tes a) w s)
    as [[_ He]|[Hf _]]; [exact He|congruence].
Qed.

Lemma analyze_valid a w s :
  invalid a w s = false ->
  analyze a w s = Ok {| ri_mode := spec_mode a w; ri_host := is_nonempty (hosts a);
                        ri_body_header := framing_present a |}.
Proof.
  rewrite invalid_is_core, analyze_is_core. intros H.
  destruct (analyze_core_cases (am_method a) (am_version a) (hosts a) (cls a) (tes a) w s)
    as [[Ht _]|[_ He]]; [congruence|exact He].
Qed.

Lemma analyze_iff a w s : (exists e, analyze a w s = Err e) <-> invalid a w s = true.
Proof.
  split.
  - intros (e & He). destruct (invalid a w s) eqn:Hi; [reflexivity|].
    rewrite (analyze_valid _ _ _ Hi) in He. discriminate.
  - intros H. destruct (analyze_invalid _ _ _ H) as (e & He & _). eauto.
Qed.

Lemma analyze_no_panic a w s site : analyze a w s <> Panic site.
Proof.
  destruct (invalid a w s) eqn:Hi.
  - destruct (analyze_invalid _ _ _ Hi) as (e & He & _). congruence.
  - rewrite (analyze_valid _ _ _ Hi). discriminate.
Qed.

Lemma analyze_err_class a w s e : analyze a w s = Err e -> analysis_error e = true.
Proof.
  intros He. destruct (invalid a w s) eqn:Hi.
  - destruct (analyze_invalid _ _ _ Hi) as (e' & He' & Hc). congruence.
  - rewrite (analyze_valid _ _ _ Hi) in He. discriminate.
Qed.

(* ------------------------------------------------------------------ analyze_request *)

(** What analysis appends to the added headers. *)
Definition host_added (a : amended) : list header :=
  match hosts a with
  | [] => match u_auth (am_eff_uri a) with
          | [] => []
          | _ => [(s2b "host", uri_host (am_eff_uri a))]
          end
  | _ => []
  end.

Definition framing_header (w : writer) : list header :=
  match w_mode w with
  | SNone => []
  | SSized n => [(s2b "content-length", dec_of n)]
  | SChunked => [(s2b "transfer-encoding", s2b "chunked")]
  end.

Definition framing_added (a : amended) (wanted : writer) : list header :=
  if framing_present a then [] else framing_header wanted.

Definition with_added (a : amended) (l : list header) : amended :=
  {| am_req := am_req a; am_uri := am_uri a; am_added := am_added a ++ l; am_unset := am_unset a |}.

Definition analysed_call (c : call) : call :=
  {| c_req := with_added (c_req c) (host_added (c_req c) ++ framing_added (c_req c) (c_writer c));
     c_analyzed := true; c_phase := c_phase c; c_writer := spec_mode (c_req c) (c_writer c);
     c_reader := c_reader c; c_skip := c_skip c; c_stop := c_stop c |}.

Lemma with_added_nil a : with_added a [] = a.
Proof. unfold with_added. rewrite app_nil_r. destruct a; reflexivity. Qed.

Lemma with_added_app a l1 l2 : with_added (with_added a l1) l2 = with_added a (l1 ++ l2).
Proof. unfold with_added. cbn [am_req am_uri am_added am_unset]. rewrite app_assoc. reflexivity. Qed.

Lemma set_header_ok a k v :
  valid_header_name k = true -> valid_header_value v = true -> len (am_added a) < MAX_EXTRA_HEADERS ->
  am_set_header a k v = Ok (with_added a [(lower k, v)]).
Proof.
  intros Hk Hv Hl. unfold am_set_header. rewrite Hk, Hv. cbn [andb negb].
  destruct (N.leb_spec MAX_EXTRA_HEADERS (len (am_added a))); [lia|]. reflexivity.
Qed.

(** Decimal rendering consists of digits, hence is a valid header value. *)
Lemma dec_aux_digits f : forall n acc,
  forallb is_digit acc = true -> forallb is_digit (dec_aux f n acc) = true.
Proof.
  induction f as [|f IH]; intros n acc H; cbn [dec_aux]; [exact H|].
  assert (Hd : forall d, d < 10 -> is_digit (dec_digit d) = true).
  { intros d Hd. unfold is_digit, dec_digit.
    destruct (N.leb_spec 48 (48 + d)); [|lia]. destruct (N.leb_spec (48 + d) 57); [|lia]. reflexivity. }
  destruct (N.ltb_spec n 10).
  - cbn [forallb]. rewrite Hd by assumption. exact H.
  - apply IH. cbn [forallb]. rewrite Hd by (apply N.mod_lt; lia). exact H.
Qed.

Lemma dec_of_digits n : forallb is_digit (dec_of n) = true.
Proof. unfold dec_of. apply dec_aux_digits. reflexivity. Qed.

Lemma digit_value_byte b : is_digit b = true -> is_http_value_byte b = true.
Proof.
  unfold is_digit, is_http_value_byte. intros H. apply andb_prop in H. destruct H as [H1 H2].
  apply N.leb_le in H1. apply N.leb_le in H2.
  destruct (N.leb_spec 32 b); [|lia]. destruct (N.leb_spec b 255); [|lia].
  destruct (N.eqb_spec b 127); [lia|]. cbn. apply orb_true_r.
Qed.

Lemma digits_valid_value s : forallb is_digit s = true -> valid_header_value s = true.
Proof.
  unfold valid_header_value. induction s as [|b t IH]; cbn [forallb]; [reflexivity|].
  intros H. apply andb_prop in H. destruct H as [H1 H2].
  rewrite (digit_value_byte _ H1), (IH H2). reflexivity.
Qed.

Lemma framing_header_set a w :
  has_body w = true -> len (am_added a) < MAX_EXTRA_HEADERS ->
  (do h <- body_header w; am_set_header a (fst h) (snd h)) = Ok (with_added a (framing_header w)).
Proof.
  unfold has_body, body_header, framing_header. intros Hb Hl.
  destruct (w_mode w) as [|n|]; [discriminate| |]; cbn [bind fst snd].
  - rewrite set_header_ok; [reflexivity|reflexivity| |exact Hl].
    apply digits_valid_value, dec_of_digits.
  - rewrite set_header_ok; [reflexivity|reflexivity|reflexivity|exact Hl].
Qed.

Lemma valid_no_framing_mode a w s :
  invalid a w s = false -> framing_present a = false -> spec_mode a w = w /\ cls a = [].
Proof.
  unfold invalid, framing_present, spec_mode. intros Hi Hf.
  apply orb_false_elim in Hf. destruct Hf as [H1 H2]. rewrite H2.
  apply orb_false_elim in Hi. destruct Hi as [Hi _].
  apply orb_false_elim in Hi. destruct Hi as [_ Hi].
  destruct (cls a) as [|v t]; [split; reflexivity|].
  cbn [existsb] in H1, Hi. apply orb_false_elim in H1. apply orb_false_elim in Hi.
  destruct H1 as [H1 _]. destruct Hi as [Hi _]. rewrite H1 in Hi. discriminate.
Qed.

Lemma valid_framing_mode_has_body a w :
  framing_present a = true -> has_body (spec_mode a w) = true.
Proof.
  unfold framing_present, spec_mode. intros Hf.
  destruct (has_chunked_te a); [reflexivity|]. rewrite orb_false_r in Hf.
  destruct (cls a) as [|v t]; [discriminate|reflexivity].
Qed.

(** [analyze_request] on a call that has not been analysed yet. *)
Lemma analyze_request_invalid c :
  c_analyzed c = false -> invalid (c_req c) (c_writer c) (c_skip c) = true ->
  exists e, analyze_request c = Err e /\ analysis_error e = true.
Proof.
  intros Ha Hi. unfold analyze_request. rewrite Ha.
  destruct (analyze_invalid _ _ _ Hi) as (e & He & Hc). rewrite He. cbn [bind]. eauto.
Qed.

Lemma host_value_lower : lower (s2b "Host") = s2b "host".
Proof. reflexivity. Qed.

(** Preconditions: two free slots in the added-header array (analysis pushes at most a Host and a framing
    header; [ArrayVec::push] panics beyond 64), and the host taken from the URI must be acceptable
    to [HeaderValue::from_bytes] (otherwise [set_header] fails with BadHeader). *)
Lemma analyze_request_valid c :
  c_analyzed c = false -> invalid (c_req c) (c_writer c) (c_skip c) = false ->
  len (am_added (c_req c)) + 2 <= MAX_EXTRA_HEADERS ->
  valid_header_value (uri_host (am_eff_uri (c_req c))) = true ->
  analyze_request c = Ok (analysed_call c).
Proof.
  intros Ha Hi Hl Hv. unfold analyze_request. rewrite Ha.
  rewrite (analyze_valid _ _ _ Hi). cbn [bind ri_host ri_mode ri_body_header].
  unfold analysed_call.
  set (a := c_req c) in *. set (w := c_writer c) in *.
  (* Host *)
  assert (H1 : (if is_nonempty (hosts a) then Ok a
                else match u_auth (am_eff_uri a) with
                     | [] => Ok a
                     | _ => am_set_header a (s2b "Host") (uri_host (am_eff_uri a))
                     end) = Ok (with_added a (host_added a)) /\
               len (host_added a) <= 1).
  { unfold host_added. destruct (hosts a) as [|h t]; cbn [is_nonempty].
    - destruct (u_auth (am_eff_uri a)) as [|x y].
      + rewrite with_added_nil. split; [reflexivity|cbn; lia].
      + rewrite set_header_ok; [|reflexivity|exact Hv|lia]. rewrite host_value_lower.
        split; [reflexivity|cbn; lia].
    - rewrite with_added_nil. split; [reflexivity|cbn; lia]. }
  destruct H1 as [H1 H1l]. rewrite H1. cbn [bind].
  (* framing *)
  unfold framing_added. destruct (framing_present a) eqn:Hf; cbn [negb andb bind].
  - rewrite app_nil_r. reflexivity.
  - destruct (valid_no_framing_mode _ _ _ Hi Hf) as [Hm _]. rewrite Hm.
    destruct (has_body w) eqn:Hb.
    + rewrite framing_header_set; [|exact Hb|].
      * cbn [bind]. rewrite with_added_app. reflexivity.
      * unfold with_added. cbn [am_added]. rewrite len_app. lia.
    + cbn [bind]. unfold framing_header. unfold has_body in Hb.
      destruct (w_mode w); try discriminate. rewrite app_nil_r. reflexivity.
Qed.

Lemma analysed_call_fix c :
  c_analyzed c = true -> analyze_request c = Ok c.
Proof. intros H. unfold analyze_request. rewrite H. reflexivity. Qed.

(** Effective headers = added ones, then the inherited ones that are not suppressed. *)
Definition am_inherited (a : amended) : list header :=
  filter (fun h => negb (mem_bytes (fst h) (am_unset a))) (rq_headers (am_request a)).

Lemma am_headers_split a : am_headers a = am_added a ++ am_inherited a.
Proof. reflexivity. Qed.

Lemma am_inherited_with_added a l : am_inherited (with_added a l) = am_inherited a.
Proof. reflexivity. Qed.

Lemma am_headers_with_added a l :
  am_headers (with_added a l) = am_added a ++ l ++ am_inherited a.
Proof. rewrite am_headers_split, am_inherited_with_added. cbn [with_added am_added]. rewrite app_assoc. reflexivity. Qed.

(** At least one effective header after analysis, provided the URI has an authority. *)
Lemma analysed_headers_nonempty c :
  u_auth (am_eff_uri (c_req c)) <> [] -> am_headers (c_req (analysed_call c)) <> [].
Proof.
  intros Hu. unfold analysed_call. cbn [c_req]. rewrite am_headers_with_added.
  unfold host_added.
  destruct (hosts (c_req c)) as [|h t] eqn:Eh.
  - destruct (u_auth (am_eff_uri (c_req c))) as [|x y]; [congruence|].
    intros H. apply (f_equal (@List.length header)) in H. rewrite !app_length in H. cbn in H. lia.
  - intros H. unfold hosts, field_values in Eh. rewrite am_headers_split in Eh.
    apply app_eq_nil in H. destruct H as [H1 H]. cbn [app] in H.
    apply app_eq_nil in H. destruct H as [_ H2]. rewrite H1, H2 in Eh. discriminate.
Qed.

(* ------------------------------------------------------------------ first write *)

Lemma prelude_first_ok_or_overflow a cap :
  am_headers a <> [] ->
  (exists r, try_write_prelude a PLine cap = Ok r) \/ try_write_prelude a PLine cap = Err OutputOverflow.
Proof.
  intros Hne. unfold try_write_prelude.
  destruct (len (prelude_line a) <=? cap); [|right; reflexivity].
  destruct (N.eqb_spec (len (am_headers a)) 0) as [E|E]; [apply len_zero_nil in E; congruence|].
  destruct (write_headers _ _ _ _ _) as [i' out'].
  destruct out' as [|b t]; [|left; eauto].
  destruct (is_body _); [left; eauto|right; reflexivity].
Qed.

Definition fresh (c : call) : Prop := c_analyzed c = false /\ c_phase c = PLine.

Definition call_invalid (c : call) : bool := invalid (c_req c) (c_writer c) (c_skip c).

(** Preconditions of the acceptance direction. *)
Definition sendable (c : call) : Prop :=
  u_auth (am_eff_uri (c_req c)) <> [] /\
  len (am_added (c_req c)) + 2 <= MAX_EXTRA_HEADERS /\
  valid_header_value (uri_host (am_eff_uri (c_req c))) = true.

Lemma nobody_invalid c :
  fresh c -> call_invalid c = true ->
  exists e, analysis_error e = true /\ forall cap, call_write_nobody c cap = Err e.
Proof.
  intros [Ha _] Hi. destruct (analyze_request_invalid c Ha Hi) as (e & He & Hc).
  exists e. split; [exact Hc|]. intros cap. unfold call_write_nobody. rewrite He. reflexivity.
Qed.

Lemma body_invalid c :
  fresh c -> call_invalid c = true ->
  exists e, analysis_error e = true /\ forall input cap, call_write_body c input cap = Err e.
Proof.
  intros [Ha _] Hi. destruct (analyze_request_invalid c Ha Hi) as (e & He & Hc).
  exists e. split; [exact Hc|]. intros input cap. unfold call_write_body. rewrite He. reflexivity.
Qed.

Lemma nobody_valid c cap :
  fresh c -> call_invalid c = false -> sendable c ->
  (exists c' out, call_write_nobody c cap = Ok (c', out)) \/ call_write_nobody c cap = Err OutputOverflow.
Proof.
  intros [Ha Hp] Hi (Hu & Hl & Hv). unfold call_write_nobody.
  rewrite (analyze_request_valid c Ha Hi Hl Hv). cbn [bind].
  replace (c_phase (analysed_call c)) with PLine by (symmetry; exact Hp).
  destruct (prelude_first_ok_or_overflow (c_req (analysed_call c)) cap (analysed_headers_nonempty c Hu))
    as [(r & Hr)|Hr]; rewrite Hr; cbn [bind]; [left; eauto|right; reflexivity].
Qed.

Lemma body_valid c input cap :
  fresh c -> call_invalid c = false -> sendable c ->
  (exists c' n out, call_write_body c input cap = Ok (c', n, out)) \/
  call_write_body c input cap = Err OutputOverflow.
Proof.
  intros [Ha Hp] Hi (Hu & Hl & Hv). unfold call_write_body.
  rewrite (analyze_request_valid c Ha Hi Hl Hv). cbn [bind].
  replace (c_phase (analysed_call c)) with PLine by (symmetry; exact Hp). cbn [is_prelude].
  destruct (prelude_first_ok_or_overflow (c_req (analysed_call c)) cap (analysed_headers_nonempty c Hu))
    as [(r & Hr)|Hr]; rewrite Hr; cbn [bind]; [left; eauto|right; reflexivity].
Qed.

(** The iff for the two single-call entry points, for every capacity. *)
Lemma nobody_iff c cap :
  fresh c -> sendable c ->
  ((exists e, call_write_nobody c cap = Err e /\ e <> OutputOverflow) <-> call_invalid c = true).
Proof.
  intros Hf Hs. split.
  - intros (e & He & Hne). destruct (call_invalid c) eqn:Hi; [reflexivity|].
    destruct (nobody_valid c cap Hf Hi Hs) as [(c' & out & H)|H]; congruence.
  - intros Hi. destruct (nobody_invalid c Hf Hi) as (e & Hc & He). exists e.
    split; [apply He|apply analysis_error_not_overflow; exact Hc].
Qed.

Lemma body_iff c input cap :
  fresh c -> sendable c ->
  ((exists e, call_write_body c input cap = Err e /\ e <> OutputOverflow) <-> call_invalid c = true).
Proof.
  intros Hf Hs. split.
  - intros (e & He & Hne). destruct (call_invalid c) eqn:Hi; [reflexivity|].
    destruct (body_valid c input cap Hf Hi Hs) as [(c' & n & out & H)|H]; congruence.
  - intros Hi. destruct (body_invalid c Hf Hi) as (e & Hc & He). exists e.
    split; [apply He|apply analysis_error_not_overflow; exact Hc].
Qed.

(* ------------------------------------------------------------------ flow level *)

Definition fresh_flow (f : inner) : Prop :=
  fresh (i_call f) /\ (i_holder f = HWithoutBody \/ i_holder f = HWithBody).

Lemma flow_invalid f :
  fresh_flow f -> call_invalid (i_call f) = true ->
  exists e, analysis_error e = true /\ forall cap, send_request_write f cap = Err e.
Proof.
  intros [Hf Hh] Hi. unfold send_request_write. destruct Hh as [Hh|Hh]; rewrite Hh.
  - destruct (nobody_invalid _ Hf Hi) as (e & Hc & He). exists e. split; [exact Hc|].
    intros cap. rewrite He. reflexivity.
  - destruct (body_invalid _ Hf Hi) as (e & Hc & He). exists e. split; [exact Hc|].
    intros cap. destruct Hf as [_ Hp]. rewrite Hp. cbn [is_body]. rewrite He. reflexivity.
Qed.

Lemma flow_valid f cap :
  fresh_flow f -> call_invalid (i_call f) = false -> sendable (i_call f) ->
  (exists f' out, send_request_write f cap = Ok (f', out)) \/
  send_request_write f cap = Err OutputOverflow.
Proof.
  intros [Hf Hh] Hi Hs. unfold send_request_write. destruct Hh as [Hh|Hh]; rewrite Hh.
  - destruct (nobody_valid _ cap Hf Hi Hs) as [(c' & out & H)|H]; rewrite H; cbn [bind];
      [left; eauto|right; reflexivity].
  - destruct Hf as [Ha Hp]. rewrite Hp. cbn [is_body].
    destruct (body_valid _ [] cap (conj Ha Hp) Hi Hs) as [(c' & n & out & H)|H]; rewrite H; cbn [bind];
      [left; eauto|right; reflexivity].
Qed.

Lemma flow_iff f cap :
  fresh_flow f -> sendable (i_call f) ->
  ((exists e, send_request_write f cap = Err e /\ e <> OutputOverflow) <->
   call_invalid (i_call f) = true).
Proof.
  intros Hf Hs. split.
  - intros (e & He & Hne). destruct (call_invalid (i_call f)) eqn:Hi; [reflexivity|].
    destruct (flow_valid f cap Hf Hi Hs) as [(f' & out & H)|H]; congruence.
  - intros Hi. destruct (flow_invalid f Hf Hi) as (e & Hc & He). exists e.
    split; [apply He|apply analysis_error_not_overflow; exact Hc].
Qed.

Lemma fresh_flow_cannot_proceed f : fresh_flow f -> send_request_can_proceed f = Ok false.
Proof.
  intros [[_ Hp] Hh]. unfold send_request_can_proceed. destruct Hh as [Hh|Hh]; rewrite Hh, Hp; reflexivity.
Qed.

(** Histories of writes: a refused write returns no new state, the caller keeps the flow it had.
    [fw_flow] is the flow after the history, [fw_out] everything emitted. *)
Record fwtrace := { fw_flow : inner; fw_out : bytes }.

Definition fwstep (t : fwtrace) (cap : N) : fwtrace :=
  match send_request_write (fw_flow t) cap with
  | Ok (f', out) => {| fw_flow := f'; fw_out := fw_out t ++ out |}
  | _ => t
  end.

Definition fwrun (f : inner) (caps : list N) : fwtrace :=
  fold_left fwstep caps {| fw_flow := f; fw_out := [] |}.

Lemma flow_invalid_repeatable f :
  fresh_flow f -> call_invalid (i_call f) = true ->
  exists e, analysis_error e = true /\
    forall caps cap,
      fwrun f caps = {| fw_flow := f; fw_out := [] |} /\
      send_request_write (fw_flow (fwrun f caps)) cap = Err e /\
      send_request_can_proceed (fw_flow (fwrun f caps)) = Ok false.
Proof.
  intros Hf Hi. destruct (flow_invalid f Hf Hi) as (e & Hc & He). exists e. split; [exact Hc|].
  assert (Hrun : forall caps, fwrun f caps = {| fw_flow := f; fw_out := [] |}).
  { unfold fwrun. induction caps as [|cap caps IH]; cbn [fold_left]; [reflexivity|].
    unfold fwstep at 2. cbn [fw_flow]. rewrite He. exact IH. }
  intros caps cap. rewrite Hrun. cbn [fw_flow].
  split; [reflexivity|]. split; [apply He|apply fresh_flow_cannot_proceed; exact Hf].
Qed.

(** Same for the single-call API. *)
Record cwtrace := { cw_call : call; cw_out : bytes }.
Inductive cwop := WNobody (cap : N) | WBody (input : bytes) (cap : N).

Definition cwstep (t : cwtrace) (o : cwop) : cwtrace :=
  match o with
  | WNobody cap =>
      match call_write_nobody (cw_call t) cap with
      | Ok (c', out) => {| cw_call := c'; cw_out := cw_out t ++ out |}
      | _ => t
      end
  | WBody input cap =>
      match call_write_body (cw_call t) input cap with
      | Ok (c', _, out) => {| cw_call := c'; cw_out := cw_out t ++ out |}
      | _ => t
      end
  end.

Definition cwrun (c : call) (ops : list cwop) : cwtrace :=
  fold_left cwstep ops {| cw_call := c; cw_out := [] |}.

Lemma call_invalid_repeatable c :
  fresh c -> call_invalid c = true ->
  exists e, analysis_error e = true /\
    forall ops,
      cwrun c ops = {| cw_call := c; cw_out := [] |} /\
      (forall cap, call_write_nobody (cw_call (cwrun c ops)) cap = Err e) /\
      (forall input cap, call_write_body (cw_call (cwrun c ops)) input cap = Err e).
Proof.
  intros Hf Hi. destruct Hf as [Ha Hp]. destruct (analyze_request_invalid c Ha Hi) as (e & Har & Hc).
  assert (He : forall cap, call_write_nobody c cap = Err e)
    by (intros; unfold call_write_nobody; rewrite Har; reflexivity).
  assert (He' : forall input cap, call_write_body c input cap = Err e)
    by (intros; unfold call_write_body; rewrite Har; reflexivity).
  exists e. split; [exact Hc|].
  assert (Hrun : forall ops, cwrun c ops = {| cw_call := c; cw_out := [] |}).
  { unfold cwrun. induction ops as [|o ops IH]; cbn [fold_left]; [reflexivity|].
    unfold cwstep at 2. cbn [cw_call]. destruct o; [rewrite He|rewrite He']; exact IH. }
  intros ops. rewrite Hrun. cbn [cw_call]. auto.
Qed.

(* ------------------------------------------------------------------ fresh flows exist *)

Lemma flow_new_ok r :
  exists rs, flow_new r =
    Ok {| i_call := call_new r (if need_request_body (rq_method r) then new_chunked else new_none);
          i_holder := if need_request_body (rq_method r) then HWithBody else HWithoutBody;
          i_reasons := rs;
          i_should_send_body := need_request_body (rq_method r);
          i_await_100 := headers_has (rq_headers r) (s2b "expect") (s2b "100-continue");
          i_status := None; i_location := None |}.
Proof.
  unfold flow_new.
  assert (H1 : exists rs1, (match rq_version r with V10 => push_reason [] Http10 | _ => Ok [] end) = Ok rs1
                           /\ len rs1 <= 1).
  { destruct (rq_version r); try (exists []; split; [reflexivity|cbn; lia]).
    exists [Http10]. split; [reflexivity|cbn; lia]. }
  destruct H1 as (rs1 & -> & Hl). cbn [bind].
  destruct (headers_has (rq_headers r) (s2b "connection") (s2b "close")).
  - unfold push_reason. destruct (N.leb_spec CLOSE_REASON_CAP (len rs1)) as [H|H];
      [unfold CLOSE_REASON_CAP in H; lia|]. cbn [bind]. eauto.
  - cbn [bind]. eauto.
Qed.

Lemma flow_new_fresh r f :
  flow_new r = Ok f ->
  fresh_flow f /\ c_req (i_call f) = am_new r /\ c_skip (i_call f) = false /\
  c_writer (i_call f) = (if need_request_body (rq_method r) then new_chunked else new_none).
Proof.
  destruct (flow_new_ok r) as (rs & ->). intros H. inversion H; subst; clear H.
  cbn [i_call i_holder]. unfold fresh_flow, fresh, call_new. cbn.
  repeat split. destruct (need_request_body (rq_method r)); auto.
Qed.

(** [send_body_despite_method] on a fresh flow: still fresh, body check skipped when the method
    takes no body. *)
Lemma despite_fresh f f' :
  fresh_flow f -> send_body_despite_method f = Ok f' ->
  fresh_flow f' /\ c_req (i_call f') = c_req (i_call f) /\
  (i_holder f = HWithoutBody -> c_skip (i_call f') = true /\ c_writer (i_call f') = new_chunked) /\
  (i_holder f = HWithBody -> i_call f' = i_call f).
Proof.
  intros [[Ha Hp] Hh] H. unfold send_body_despite_method in H.
  destruct Hh as [Hh|Hh]; rewrite Hh in H.
  - unfold into_send_body in H. rewrite Ha in H. cbn [bind] in H. inversion H; subst; clear H.
    unfold fresh_flow, fresh. cbn. repeat split; auto. intros; congruence.
  - inversion H; subst; clear H. unfold fresh_flow, fresh. cbn. rewrite Hh.
    repeat split; auto; intros; congruence.
Qed.
