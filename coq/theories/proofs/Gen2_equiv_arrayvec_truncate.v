(** src/util.rs ArrayVec::truncate, translated (Gen2.gen_arrayvec_truncate): shortens the visible part; its assert! refuses to
    lengthen it.  (Not used by any property; kept apart from Gen2_equiv_arrayvec.v so that it cannot affect one.) *)
From Coq Require Import NArith Bool List Lia String.
From Hoot Require Import Base GenLib Gen Gen2.
Open Scope N_scope.

Theorem gen_arrayvec_truncate_spec cur n :
  (n <= cur -> gen_arrayvec_truncate cur n = Ok (n, tt)) /\
  (cur < n -> exists site, gen_arrayvec_truncate cur n = Panic site).
Proof.
  unfold gen_arrayvec_truncate. split; intros H.
  - destruct (N.leb_spec n cur) as [_|Hc]; [reflexivity|lia].
  - destruct (N.leb_spec n cur) as [Hc|_]; [lia|eexists; reflexivity].
Qed.
