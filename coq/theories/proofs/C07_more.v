(** C07, strengthening: (1) the schedule theorem lifted through [Call<RecvBody>::read] and
    [Flow<RecvBody>::read] (with [set stop] before every read, the ended short-circuit and
    [can_proceed]); (2) a size line longer than SANITY_CHECK is rejected at every level as soon as
    it is visible, and only then. *)
From Coq Require Import Lia ZArith.
From Hoot Require Import Base Chunk Body Parser Request Call Flow.
From Hoot.proofs Require Import BytesLemmas C07_spec C07_sizeline C07_sim C07_proofs C07_call C08_flowrun.
Open Scope N_scope.

(** ** The ended decoder *)

Lemma parse_input_ended w room : parse_input DEnded w room = Ok (DEnded, 0, []).
Proof. unfold parse_input. rewrite Nat.add_comm. reflexivity. Qed.

Lemma read_chunked_ended w cap stop : read_chunked DEnded w cap stop = Ok (DEnded, 0, []).
Proof.
  unfold read_chunked. rewrite Nat.add_comm. cbn [Nat.add read_chunked_loop].
  rewrite parse_input_ended. reflexivity.
Qed.

(** ** One read through the call *)

Lemma call_read_chunked c st win cap st' i o :
  c_reader c = Some (RChunked st) ->
  read_chunked st win cap (c_stop c) = Ok (st', i, o) ->
  exists c', call_read c win cap = Ok (c', i, o) /\ c_reader c' = Some (RChunked st') /\ c_stop c' = c_stop c.
Proof.
  intros Hr Hread. unfold call_read. rewrite Hr. cbn [reader_is_ended].
  destruct (dech_is_ended st) eqn:He.
  - destruct st; try discriminate He. rewrite read_chunked_ended in Hread. inversion Hread; subst.
    exists c. auto.
  - cbn [reader_read]. rewrite Hread. cbn [bind].
    eexists. split; [reflexivity|]. split; reflexivity.
Qed.

Lemma call_read_chunked_err c st win cap e :
  c_reader c = Some (RChunked st) ->
  read_chunked st win cap (c_stop c) = Err e ->
  call_read c win cap = Err e.
Proof.
  intros Hr Hread. unfold call_read. rewrite Hr. cbn [reader_is_ended].
  destruct (dech_is_ended st) eqn:He.
  - destruct st; try discriminate He. rewrite read_chunked_ended in Hread. discriminate.
  - cbn [reader_read]. rewrite Hread. reflexivity.
Qed.

(** ** Decoder schedules versus flow schedules *)

Lemma frun_of_crun stream : forall sched f st consumed out ct,
  i_holder f = HRecvBody -> c_reader (i_call f) = Some (RChunked st) ->
  crun stream {| t_st := st; t_consumed := consumed; t_out := out |} sched = Ok ct ->
  exists t,
    frun stream {| ft_flow := f; ft_consumed := consumed; ft_out := out |} sched = Ok t /\
    i_holder (ft_flow t) = HRecvBody /\ c_reader (i_call (ft_flow t)) = Some (RChunked (t_st ct)) /\
    ft_consumed t = t_consumed ct /\ ft_out t = t_out ct /\ same_shell f (ft_flow t).
Proof.
  induction sched as [|[[k cap] stop] s IH]; intros f st consumed out ct Hh Hr Hrun; cbn [crun frun] in *.
  - inversion Hrun; subst. eexists. split; [reflexivity|]. cbn. repeat split; assumption.
  - destruct (cstep stream _ (k, cap, stop)) as [ct1|e|sx] eqn:Ec; cbn [bind] in Hrun; try discriminate.
    unfold cstep in Ec. cbn [t_st t_consumed t_out] in Ec.
    destruct (read_chunked st (take k (drop consumed stream)) cap stop) as [[[st' i] o]|e|sx] eqn:Er;
      cbn [bind] in Ec; try discriminate.
    inversion Ec; subst ct1. clear Ec.
    destruct (call_read_chunked (set_stop (i_call f) stop) st (take k (drop consumed stream)) cap st' i o Hr Er)
      as (c' & Hc & Hr' & _).
    rewrite (fstep_via_call stream {| ft_flow := f; ft_consumed := consumed; ft_out := out |} k cap stop c' i o Hh Hc).
    cbn [bind ft_flow ft_consumed ft_out].
    destruct (IH (set_call f c') st' (consumed + i) (out ++ o) ct Hh Hr' Hrun)
      as (t & Ht & H1 & H2 & H3 & H4 & H5).
    exists t. repeat (split; [assumption|]).
    eapply same_shell_trans; [|exact H5]. repeat split.
Qed.

Lemma frun_of_crun_err stream : forall sched f st consumed out e,
  i_holder f = HRecvBody -> c_reader (i_call f) = Some (RChunked st) ->
  crun stream {| t_st := st; t_consumed := consumed; t_out := out |} sched = Err e ->
  frun stream {| ft_flow := f; ft_consumed := consumed; ft_out := out |} sched = Err e.
Proof.
  induction sched as [|[[k cap] stop] s IH]; intros f st consumed out e Hh Hr Hrun; cbn [crun frun] in *.
  - discriminate.
  - destruct (cstep stream _ (k, cap, stop)) as [ct1|e1|sx] eqn:Ec; cbn [bind] in Hrun; try discriminate.
    + unfold cstep in Ec. cbn [t_st t_consumed t_out] in Ec.
      destruct (read_chunked st (take k (drop consumed stream)) cap stop) as [[[st' i] o]|e2|sx] eqn:Er;
        cbn [bind] in Ec; try discriminate.
      inversion Ec; subst ct1. clear Ec.
      destruct (call_read_chunked (set_stop (i_call f) stop) st (take k (drop consumed stream)) cap st' i o Hr Er)
        as (c' & Hc & Hr' & _).
      rewrite (fstep_via_call stream {| ft_flow := f; ft_consumed := consumed; ft_out := out |} k cap stop c' i o Hh Hc).
      cbn [bind ft_flow ft_consumed ft_out].
      apply (IH (set_call f c') st' (consumed + i) (out ++ o) e Hh Hr' Hrun).
    + inversion Hrun; subst e1. unfold cstep in Ec. cbn [t_st t_consumed t_out] in Ec.
      destruct (read_chunked st (take k (drop consumed stream)) cap stop) as [[[st' i] o]|e2|sx] eqn:Er;
        cbn [bind] in Ec; try discriminate.
      inversion Ec; subst e2.
      rewrite (fstep_err_via_call stream {| ft_flow := f; ft_consumed := consumed; ft_out := out |} k cap stop e Hh).
      * reflexivity.
      * apply (call_read_chunked_err (set_stop (i_call f) stop) st _ cap e Hr Er).
Qed.

Lemma can_proceed_chunked f st :
  i_holder f = HRecvBody -> c_reader (i_call f) = Some (RChunked st) ->
  recv_body_can_proceed f = Ok (dech_is_ended st).
Proof.
  intros Hh Hr. unfold recv_body_can_proceed, as_recv_body, reader_of. rewrite Hh. cbn [bind]. rewrite Hr.
  cbn [bind reader_is_ended reader_is_close]. rewrite Bool.orb_false_r. reflexivity.
Qed.

(** The schedule theorem at the observation points: any schedule of (arrival count, output space,
    stop flag) driven through [Flow<RecvBody>] -- stop flag set, then read -- over the coding followed
    by arbitrary bytes.  No read fails; never more than the coding is consumed; the output is a prefix
    of the payload; [can_proceed] is true exactly when the whole coding has been consumed, and then the
    output is the payload (reads after the end are short-circuited: they change nothing, as the
    statement holds for the longer schedule too); nothing else in the flow changes. *)
Theorem run_flow c rest sched f :
  valid c -> line_limit_F17 c ->
  i_holder f = HRecvBody -> c_reader (i_call f) = Some (RChunked DSize) ->
  exists t st,
    frun (enc c ++ rest) (fstart f) sched = Ok t /\
    i_holder (ft_flow t) = HRecvBody /\ c_reader (i_call (ft_flow t)) = Some (RChunked st) /\
    st <> DTrailer /\
    ft_consumed t <= len (enc c) /\
    (exists P', payload c = ft_out t ++ P') /\
    recv_body_can_proceed (ft_flow t) = Ok (ft_consumed t =? len (enc c)) /\
    (recv_body_can_proceed (ft_flow t) = Ok true <-> ft_consumed t = len (enc c)) /\
    (ft_consumed t = len (enc c) -> ft_out t = payload c) /\
    same_shell f (ft_flow t).
Proof.
  intros Hv Hl Hh Hr.
  destruct (run_safe c rest sched Hv Hl) as (ct & Hrun & H1 & H2 & H3 & H4 & H5).
  destruct (frun_of_crun (enc c ++ rest) sched f DSize 0 [] ct Hh Hr Hrun) as (t & Ht & G1 & G2 & G3 & G4 & G5).
  exists t, (t_st ct). split; [exact Ht|]. split; [exact G1|]. split; [exact G2|]. split; [exact H5|].
  rewrite G3, G4. split; [exact H1|]. split; [exact H2|].
  pose proof (can_proceed_chunked (ft_flow t) (t_st ct) G1 G2) as Hcp.
  assert (Eb : dech_is_ended (t_st ct) = (t_consumed ct =? len (enc c))).
  { destruct (dech_is_ended (t_st ct)) eqn:E.
    - symmetry. apply N.eqb_eq. apply H3. reflexivity.
    - symmetry. apply N.eqb_neq. intros Hc. apply H3 in Hc. congruence. }
  rewrite Eb in Hcp. split; [exact Hcp|]. split; [|split; [|exact G5]].
  - rewrite Hcp. split; [intros H; inversion H as [E]; apply N.eqb_eq; exact E|intros ->; rewrite N.eqb_refl; reflexivity].
  - intros Hc. apply H4. apply H3. exact Hc.
Qed.

(** The same through [Call<RecvBody>::read] alone (stop flag fixed in the call). *)
Fixpoint call_run (stream : bytes) (c : call) (consumed : N) (out : bytes) (sched : list (N * N))
  : res (call * N * bytes) :=
  match sched with
  | [] => Ok (c, consumed, out)
  | (k, cap) :: s =>
      do x <- call_read c (take k (drop consumed stream)) cap;
      let '(c', i, o) := x in call_run stream c' (consumed + i) (out ++ o) s
  end.

Lemma call_run_of_crun stream : forall sched c st consumed out ct,
  c_reader c = Some (RChunked st) ->
  crun stream {| t_st := st; t_consumed := consumed; t_out := out |}
       (map (fun o => (fst o, snd o, c_stop c)) sched) = Ok ct ->
  exists c', call_run stream c consumed out sched = Ok (c', t_consumed ct, t_out ct) /\
             c_reader c' = Some (RChunked (t_st ct)) /\ c_stop c' = c_stop c.
Proof.
  induction sched as [|[k cap] s IH]; intros c st consumed out ct Hr Hrun; cbn [map crun call_run fst snd] in *.
  - inversion Hrun; subst. exists c. auto.
  - destruct (cstep stream _ (k, cap, c_stop c)) as [ct1|e|sx] eqn:Ec; cbn [bind] in Hrun; try discriminate.
    unfold cstep in Ec. cbn [t_st t_consumed t_out] in Ec.
    destruct (read_chunked st (take k (drop consumed stream)) cap (c_stop c)) as [[[st' i] o]|e|sx] eqn:Er;
      cbn [bind] in Ec; try discriminate.
    inversion Ec; subst ct1. clear Ec.
    destruct (call_read_chunked c st (take k (drop consumed stream)) cap st' i o Hr Er) as (c' & Hc & Hr' & Hs').
    rewrite Hc. cbn [bind]. rewrite <- Hs' in Hrun.
    destruct (IH c' st' (consumed + i) (out ++ o) ct Hr' Hrun) as (c'' & H1 & H2 & H3).
    exists c''. split; [exact H1|]. split; [exact H2|]. congruence.
Qed.

Theorem run_call c0 c rest sched :
  valid c -> line_limit_F17 c -> c_reader c0 = Some (RChunked DSize) ->
  exists c' consumed out st,
    call_run (enc c ++ rest) c0 0 [] sched = Ok (c', consumed, out) /\
    c_reader c' = Some (RChunked st) /\ st <> DTrailer /\ c_stop c' = c_stop c0 /\
    consumed <= len (enc c) /\ (exists P', payload c = out ++ P') /\
    (reader_is_ended (RChunked st) = true <-> consumed = len (enc c)) /\
    (consumed = len (enc c) -> out = payload c).
Proof.
  intros Hv Hl Hr.
  destruct (run_safe c rest (map (fun o => (fst o, snd o, c_stop c0)) sched) Hv Hl)
    as (ct & Hrun & H1 & H2 & H3 & H4 & H5).
  destruct (call_run_of_crun (enc c ++ rest) sched c0 DSize 0 [] ct Hr Hrun) as (c' & G1 & G2 & G3).
  exists c', (t_consumed ct), (t_out ct), (t_st ct).
  split; [exact G1|]. split; [exact G2|]. split; [exact H5|]. split; [exact G3|].
  split; [exact H1|]. split; [exact H2|]. cbn [reader_is_ended]. split; [exact H3|].
  intros Hc. apply H4. apply H3. exact Hc.
Qed.

(** ** Size lines longer than SANITY_CHECK (finding F17): rejected when visible, and only then *)

Lemma long_line_read_size line k more :
  cr_free line -> SANITY_CHECK < len line -> len line + 2 <= k ->
  read_size (take k (line ++ CRLF ++ more)) = Err ChunkExpectedCrLf.
Proof.
  intros Hcr Hlong Hk. unfold read_size. rewrite find_crlf_window by assumption.
  destruct (N.leb_spec (len line + 2) k); [|lia].
  destruct (N.ltb_spec SANITY_CHECK (len line)); [reflexivity|lia].
Qed.

Lemma read_chunked_size_err w cap stop e :
  read_size w = Err e -> read_chunked DSize w cap stop = Err e.
Proof.
  intros H. unfold read_chunked. rewrite Nat.add_comm. cbn [Nat.add read_chunked_loop].
  unfold parse_input. rewrite (Nat.add_comm _ 3). cbn [Nat.add parse_input_loop dech_step].
  rewrite H. reflexivity.
Qed.

Lemma read_chunked_size_wait w cap stop :
  read_size w = Ok {| sr_st := DSize; sr_in := 0; sr_out := []; sr_more := false |} ->
  read_chunked DSize w cap stop = Ok (DSize, 0, []).
Proof.
  intros H. unfold read_chunked. rewrite Nat.add_comm. cbn [Nat.add read_chunked_loop].
  unfold parse_input. rewrite (Nat.add_comm _ 3). cbn [Nat.add parse_input_loop dech_step].
  rewrite H. reflexivity.
Qed.

(** At the decoder: in state Size in front of a CR-free line longer than SANITY_CHECK, a read fails
    with ChunkExpectedCrLf if the line and its CRLF are in the window, and otherwise waits (consumes
    and produces nothing, stays in Size). *)
Theorem long_line_read_chunked line k more cap stop :
  cr_free line -> SANITY_CHECK < len line ->
  read_chunked DSize (take k (line ++ CRLF ++ more)) cap stop =
    if len line + 2 <=? k then Err ChunkExpectedCrLf else Ok (DSize, 0, []).
Proof.
  intros Hcr Hlong. destruct (N.leb_spec (len line + 2) k) as [Hk|Hk].
  - apply read_chunked_size_err. apply long_line_read_size; assumption.
  - apply read_chunked_size_wait. apply read_size_wait; assumption.
Qed.

(** The same at the flow: the stream from the consumed position on starts with the long line. *)
Theorem long_line_flow stream t line more k cap stop :
  i_holder (ft_flow t) = HRecvBody -> c_reader (i_call (ft_flow t)) = Some (RChunked DSize) ->
  drop (ft_consumed t) stream = line ++ CRLF ++ more ->
  cr_free line -> SANITY_CHECK < len line ->
  (len line + 2 <= k -> fstep stream t (k, cap, stop) = Err ChunkExpectedCrLf) /\
  (k < len line + 2 ->
   exists f', fstep stream t (k, cap, stop) = Ok {| ft_flow := f'; ft_consumed := ft_consumed t; ft_out := ft_out t |} /\
              c_reader (i_call f') = Some (RChunked DSize) /\ i_holder f' = HRecvBody).
Proof.
  intros Hh Hr Hd Hcr Hlong.
  pose proof (long_line_read_chunked line k more cap stop Hcr Hlong) as Hread. rewrite <- Hd in Hread.
  split; intros Hk.
  - destruct (N.leb_spec (len line + 2) k); [|lia].
    apply fstep_err_via_call; [exact Hh|].
    apply (call_read_chunked_err (set_stop (i_call (ft_flow t)) stop) DSize); [exact Hr|exact Hread].
  - destruct (N.leb_spec (len line + 2) k); [lia|].
    destruct (call_read_chunked (set_stop (i_call (ft_flow t)) stop) DSize _ cap DSize 0 [] Hr Hread)
      as (c' & Hc & Hr' & _).
    rewrite (fstep_via_call stream t k cap stop c' 0 [] Hh Hc).
    exists (set_call (ft_flow t) c'). rewrite N.add_0_r, app_nil_r.
    split; [reflexivity|]. split; [exact Hr'|exact Hh].
Qed.
