(** The request-body writer of src/body.rs (translated: theories/Gen2.v) against the model: queries, finish, write_chunk, write, consume_direct_write.
    Split from the reader so that a change of the reader's code does not disturb the properties about the writer. *)
From Coq Require Import NArith ZArith Bool List Lia ZifyBool ZifyN.
From Hoot Require Import Base Chunk Body GenLib Gen Gen2.
From Hoot.proofs Require Import BytesLemmas Gen_equiv_body Gen2_equiv_rel.
Open Scope N_scope.

Lemma gen_bw_has_body_eq m e : gen_bw_has_body m e = has_body {| w_mode := m; w_ended := e |}.
Proof. destruct m; reflexivity. Qed.

Lemma gen_bw_is_chunked_eq m e : gen_bw_is_chunked m e = w_is_chunked {| w_mode := m; w_ended := e |}.
Proof. destruct m; reflexivity. Qed.

Lemma gen_bw_is_ended_eq m e : gen_bw_is_ended m e = e.
Proof. reflexivity. Qed.

Lemma gen_bw_left_to_send_eq m e : gen_bw_left_to_send m e = left_to_send {| w_mode := m; w_ended := e |}.
Proof. destruct m; reflexivity. Qed.

(* ------------------------------------------------------------------ B. writer *)

(** [finish]: writes the terminator iff the body is chunked and it fits. *)
Lemma gen_bw_finish_spec m e avail out :
  gen_bw_finish m e avail out =
  if w_is_chunked {| w_mode := m; w_ended := e |}
  then if len TERMINATOR <=? avail
       then Ok (avail - len TERMINATOR, out ++ TERMINATOR, true)
       else Ok (avail, out, false)
  else Ok (avail, out, true).
Proof.
  unfold gen_bw_finish. rewrite gen_bw_is_chunked_eq. cbv zeta.
  repeat split_if; try reflexivity; repeat apply f_equal2; try reflexivity; arith.
Qed.

(** One [write_chunk]. *)
Lemma gen_body_write_chunk_spec input input_used avail out maxc :
  gen_body_write_chunk input input_used avail out maxc =
  match write_chunk input avail maxc with
  | None => Ok (input_used, avail, out, false)
  | Some (n, o) => Ok (input_used + n, avail - len o, out ++ o, n <? len input)
  end.
Proof.
  unfold gen_body_write_chunk, write_chunk. rewrite gen_max_chunk_fit_eq.
  generalize (max_chunk_fit avail maxc). intros fit. cbv zeta.
  remember (N.min (N.min (len input) maxc) fit) as n eqn:Hn.
  (* the generated count is the model's *)
  repeat match goal with
         | |- context [hex_of ?k] => lazymatch k with n => fail | _ => replace k with n by lia end
         | |- context [take ?k input] => lazymatch k with n => fail | _ => replace k with n by lia end
         end.
  unfold enc_chunk_n, CRLF. rewrite <- ?app_assoc. cbn [app].
  repeat split_if; cbn [andb]; try reflexivity;
    repeat match goal with |- Ok _ = Ok _ => apply f_equal | |- (_, _) = (_, _) => apply f_equal2 end;
    try reflexivity; try arith.
Qed.

Lemma write_chunk_fits input avail maxc n o : write_chunk input avail maxc = Some (n, o) -> len o <= avail.
Proof.
  unfold write_chunk. cbv zeta. destruct (_ =? 0); [discriminate|].
  destruct (N.leb_spec (len (enc_chunk_n (N.min (N.min (len input) maxc) (max_chunk_fit avail maxc)) input)) avail) as [H|H];
    [|discriminate].
  intros E. inversion E; subst. exact H.
Qed.

(** The [while write_chunk(..) {}] loop: the generated loop keeps the input whole and advances [input_used], the model
    recurses on the rest of the input; same fuel, same behaviour when it runs out. *)
Definition wl_rel (m : smode) (e : bool) (avail : N) (gout mout : bytes)
           (g : res (smode * bool * N * bytes * N)) (r : N * bytes) : Prop :=
  match g, r with
  | Ok (m', e', avail', gout', u), (u2, mout') =>
      m' = m /\ e' = e /\ u = u2 /\
      exists delta, mout' = mout ++ delta /\ gout' = gout ++ delta /\ avail' = avail - len delta /\ len delta <= avail
  | _, _ => False
  end.

Lemma gen_bw_write_loop1_equiv input m e : forall fuel used avail gout mout rest used2,
  rest = drop used input -> used2 = used ->
  wl_rel m e avail gout mout (gen_bw_write_loop1 fuel input m e avail gout used) (chunk_loop fuel rest avail used2 mout).
Proof.
  induction fuel as [|f IH]; intros used avail gout mout rest used2 -> ->.
  - cbn [gen_bw_write_loop1 chunk_loop wl_rel]. repeat split. exists []. rewrite !app_nil_r. repeat split; arith.
  - cbn [gen_bw_write_loop1 chunk_loop]. rewrite gen_body_write_chunk_spec. unfold DEFAULT_CHUNK_SIZE.
    destruct (write_chunk (drop used input) avail 10240) as [[n o]|] eqn:Hwc; cbn [bind].
    + pose proof (write_chunk_fits _ _ _ _ _ Hwc) as Hfit.
      destruct (n <? len (drop used input)) eqn:Hlt.
      * specialize (IH (used + n) (avail - len o) (gout ++ o) (mout ++ o) (drop n (drop used input)) (used + n)
                       (drop_drop _ _ _) eq_refl).
        destruct (gen_bw_write_loop1 f input m e (avail - len o) (gout ++ o) (used + n)) as [[[[[m' e'] a'] g'] u']|?|?];
          destruct (chunk_loop f (drop n (drop used input)) (avail - len o) (used + n) (mout ++ o)) as [u2 mo'];
          cbn [wl_rel] in *; try contradiction.
        destruct IH as (-> & -> & -> & delta & -> & -> & -> & Hd).
        repeat split. exists (o ++ delta). rewrite !app_assoc. repeat split; arith.
      * cbn [wl_rel]. repeat split. exists o. repeat split; arith.
    + cbn [wl_rel]. repeat split. exists []. rewrite !app_nil_r. repeat split; arith.
Qed.

(** [BodyWriter::write]. *)
Theorem gen_bw_write_equiv m e input avail out0 :
  sized_fits m avail input ->
  wr_rel avail out0 (gen_bw_write m e input avail out0) (writer_write {| w_mode := m; w_ended := e |} input avail).
Proof.
  intros Hfit. destruct m as [|lft|].
  - exact I.
  - (* Sized: the assert!(success) branch is unreachable, the bytes written are a prefix no longer than the room *)
    unfold gen_bw_write, writer_write. cbn [w_mode w_ended]. cbv zeta.
    cbn [sized_fits] in Hfit. unfold U64_LIMIT in Hfit.
    rewrite ?len_take.
    repeat split_if; cbn [wr_rel]; leaf.
  - (* Chunked *)
    unfold gen_bw_write, writer_write. cbn [w_mode w_ended]. cbv zeta.
    destruct input as [|x t].
    + rewrite ?gen_bw_finish_spec. cbn [w_is_chunked w_mode].
      repeat (split_if; cbn [bind andb negb wr_rel] in * ); try discriminate; leaf.
    + set (input := x :: t) in *.
      pose proof (gen_bw_write_loop1_equiv input SChunked e (S (List.length input)) 0 avail out0 [] input 0
                                           (eq_sym (drop_0 _)) eq_refl) as H.
      assert (Hne : len input <> 0) by (subst input; rewrite len_cons; lia).
      repeat split_if.
      destruct (gen_bw_write_loop1 _ _ _ _ _ _ _) as [[[[[m' e'] a'] g'] u']|?|?];
        destruct (chunk_loop _ _ _ _ _) as [u2 mo']; cbn [wl_rel bind wr_rel] in *; try contradiction.
      destruct H as (-> & -> & -> & delta & -> & -> & -> & Hd). cbn [app]. leaf.
Qed.

Corollary gen_bw_write_equiv_u64 m e input avail out0 :
  smode_u64 m ->
  wr_rel avail out0 (gen_bw_write m e input avail out0) (writer_write {| w_mode := m; w_ended := e |} input avail).
Proof. intros H. apply gen_bw_write_equiv, smode_u64_fits, H. Qed.

(** [BodyWriter::consume_direct_write]. *)
Theorem gen_bw_direct_equiv m e amount :
  dw_rel (gen_bw_consume_direct_write m e amount) (writer_direct {| w_mode := m; w_ended := e |} amount).
Proof.
  destruct m as [|lft|]; try exact I.
  unfold gen_bw_consume_direct_write, writer_direct. cbn [w_mode w_ended]. cbv zeta.
  repeat split_if; cbn [dw_rel]; leaf.
Qed.

Ltac split_if_in H :=
  match type of H with
  | context [if ?c then _ else _] => destruct c eqn:?; try (exfalso; lia)
  end.

Lemma gen_bw_write_equiv_unrestricted_refuted :
  exists m e input avail out0,
    ~ wr_rel avail out0 (gen_bw_write m e input avail out0) (writer_write {| w_mode := m; w_ended := e |} input avail).
Proof.
  destruct huge_bytes as [input Hlen].
  exists (SSized U64_LIMIT), false, input, U64_LIMIT, []. intros H.
  unfold gen_bw_write, writer_write in H. cbn [w_mode w_ended] in H. cbv zeta in H.
  rewrite ?len_take, ?Hlen in H. unfold U64_LIMIT in *.
  repeat split_if_in H; cbn [wr_rel] in H; try contradiction;
    destruct H as (_ & _ & Hu & _); lia.
Qed.


Print Assumptions gen_bw_has_body_eq.
Print Assumptions gen_bw_is_chunked_eq.
Print Assumptions gen_bw_is_ended_eq.
Print Assumptions gen_bw_left_to_send_eq.
Print Assumptions gen_bw_finish_spec.
Print Assumptions gen_body_write_chunk_spec.
Print Assumptions write_chunk_fits.
Print Assumptions gen_bw_write_loop1_equiv.
Print Assumptions gen_bw_write_equiv.
Print Assumptions gen_bw_write_equiv_u64.
Print Assumptions gen_bw_direct_equiv.
Print Assumptions gen_bw_write_equiv_unrestricted_refuted.
