(** C06 specification: the body-framing rule of the property statement, written from the English
    text (and RFC 9110 section 8.6 / RFC 9112 sections 6.1-6.3 for the two header grammars) WITHOUT
    the model's header predicates ([all_digits], [parse_dec_u64], [te_has_chunked], [trim],
    [split_on], [cmp_lower] are not mentioned here).  Definitions only; the equivalences with the
    model are proved in proofs/C06_more.v.

      Content-Length    = 1*DIGIT                       (value must fit the 64-bit length the
                                                         library can count: below 2^64)
      Transfer-Encoding = #transfer-coding              (comma-separated elements, each with
                                                         optional white space SP / HTAB around it;
                                                         coding names are case-insensitive) *)
From Coq Require Import Lia ZArith.
From Hoot Require Import Base Chunk Body.
Open Scope N_scope.

(** ** Content-Length *)

Definition is_DIGIT (b : N) : Prop := 48 <= b /\ b <= 57.

(** Decimal value, most significant digit first. *)
Definition dec_value (v : bytes) : N := fold_left (fun acc b => acc * 10 + (b - 48)) v 0.

Definition TWO_64 : N := 18446744073709551616.

(** A numeric Content-Length: one or more digits, value below 2^64. *)
Definition cl_numeric (v : bytes) : Prop := v <> [] /\ Forall is_DIGIT v /\ dec_value v < TWO_64.

(** ** Transfer-Encoding *)

Definition COMMA : N := 44.
Definition is_OWS (b : N) : Prop := b = 32 \/ b = 9.

(** ASCII case-insensitive equality of two bytes / two strings. *)
Definition ci_byte (a b : N) : Prop :=
  a = b \/ (65 <= a /\ a <= 90 /\ b = a + 32) \/ (65 <= b /\ b <= 90 /\ a = b + 32).
Definition ci_equal (a b : bytes) : Prop := Forall2 ci_byte a b.

(** [e] is one element of the comma-separated list [v]: a maximal comma-free stretch (delimited on
    each side by a comma or by the end of the value). *)
Definition list_element (v e : bytes) : Prop :=
  ~ In COMMA e /\
  exists pre post, v = pre ++ e ++ post /\
                   (pre = [] \/ exists p, pre = p ++ [COMMA]) /\
                   (post = [] \/ exists q, post = COMMA :: q).

(** The element is the coding name "chunked" in any letter case, with optional white space around. *)
Definition is_chunked_element (e : bytes) : Prop :=
  exists l core r, e = l ++ core ++ r /\ Forall is_OWS l /\ Forall is_OWS r /\
                   ci_equal core (s2b "chunked").

(** The field value declares a chunked transfer coding: some element of the list is "chunked".
    (The statement says "declares a chunked transfer coding"; RFC 9112 6.3 speaks of chunked being
    the FINAL coding -- see the deviation example [c06_dev_any_element] in props/C06.v.) *)
Definition declares_chunked (v : bytes) : Prop :=
  exists e, list_element v e /\ is_chunked_element e.

(** ** The rule list of the statement *)

(** "no body for any response to HEAD, for 2xx responses to CONNECT, and for 1xx, 204 and 304" *)
Definition no_body_response (is_head_m is_connect_m : bool) (status : N) : Prop :=
  is_head_m = true \/ (is_connect_m = true /\ 200 <= status /\ status <= 299) \/
  (100 <= status /\ status <= 199) \/ status = 204 \/ status = 304.

Definition is_3xx (status : N) : Prop := 300 <= status /\ status <= 399.

Definition cl_acceptable (cl : option bytes) : Prop :=
  match cl with Some v => cl_numeric v | None => True end.

(** "chunked when the (HTTP/1.1) response declares a chunked transfer coding" *)
Definition chunked_declared (v11 : bool) (te : option bytes) : Prop :=
  v11 = true /\ exists v, te = Some v /\ declares_chunked v.

(** [framing is_head is_connect status v11 cl te out]: the outcome the statement prescribes.
    [cl] / [te]: the value of the Content-Length / Transfer-Encoding field, if present.
    The clauses, in the order of the statement:
      - a non-numeric Content-Length is an error;
      - no body for HEAD, CONNECT 2xx, 1xx, 204, 304;
      - otherwise chunked when an HTTP/1.1 response declares chunked (whatever Content-Length says);
      - otherwise exactly Content-Length bytes;
      - otherwise, a redirect (3xx) without ANY framing header has no body;
      - otherwise until the connection closes. *)
Inductive framing (is_head_m is_connect_m : bool) (status : N) (v11 : bool) (cl te : option bytes)
  : res reader -> Prop :=
| FR_bad_length v :
    cl = Some v -> ~ cl_numeric v ->
    framing is_head_m is_connect_m status v11 cl te (Err BadContentLengthHeader)
| FR_no_body :
    cl_acceptable cl -> no_body_response is_head_m is_connect_m status ->
    framing is_head_m is_connect_m status v11 cl te (Ok RNoBody)
| FR_chunked :
    cl_acceptable cl -> ~ no_body_response is_head_m is_connect_m status ->
    chunked_declared v11 te ->
    framing is_head_m is_connect_m status v11 cl te (Ok (RChunked DSize))
| FR_length v :
    ~ no_body_response is_head_m is_connect_m status -> ~ chunked_declared v11 te ->
    cl = Some v -> cl_numeric v ->
    framing is_head_m is_connect_m status v11 cl te (Ok (RLength (dec_value v)))
| FR_redirect :
    ~ no_body_response is_head_m is_connect_m status ->
    cl = None -> te = None -> is_3xx status ->
    framing is_head_m is_connect_m status v11 cl te (Ok RNoBody)
| FR_close :
    ~ no_body_response is_head_m is_connect_m status -> ~ chunked_declared v11 te ->
    cl = None -> (~ is_3xx status \/ te <> None) ->
    framing is_head_m is_connect_m status v11 cl te (Ok RClose).

(** The class of a former finding (repaired in the crate, commit 52d1294): a redirect that carries a
    Transfer-Encoding field (so it is not "without any framing header") which does not result in
    chunked framing (no chunked element, or an HTTP/1.0 response), and no Content-Length.  The
    statement prescribes close-delimited; the code used to answer "no body" and now answers
    close-delimited (regression theorems [c06_redirect_te_class], [c06_redirect_te_regression_flow]). *)
Definition redirect_te_class (is_head_m is_connect_m : bool) (status : N) (v11 : bool)
           (cl te : option bytes) : Prop :=
  ~ no_body_response is_head_m is_connect_m status /\ is_3xx status /\
  cl = None /\ te <> None /\ ~ chunked_declared v11 te.

(** Header values reach the rule only if they are text (visible ASCII, SP, HTAB): in particular they
    contain none of LF, VT, FF, CR, which Rust's [str::trim] would strip in addition to SP / HTAB. *)
Definition plain (v : bytes) : Prop := Forall (fun b => ~ (10 <= b /\ b <= 13)) v.
Definition te_plain (te : option bytes) : Prop :=
  match te with Some v => plain v | None => True end.
