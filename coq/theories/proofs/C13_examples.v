(** C13: a concrete two-hop chain a.test -> b.test -> a.test driven through [Script.step], and the
    proof that its flows are members of [chain] with the expected hops (non-vacuity of the chain
    theorems). *)
From Coq Require Import Lia ZArith List.
From Hoot Require Import Base Chunk Body Httparse Parser Url Request Call Flow Script.
From Hoot.proofs Require Import BytesLemmas C17_proofs C02_proofs C02_analysis C13_proofs.
Open Scope N_scope.

(** Observations of a list of operations, and the byte strings written by the write-head calls. *)
Fixpoint run_obs (s : sstate) (ops : list op) : list (list tok) :=
  match ops with [] => [] | o :: t => let '(s', ob) := step s o in ob :: run_obs s' t end.
Definition heads (obs : list (list tok)) : list bytes :=
  flat_map (fun o => match o with [TW _; TN _; TH b] => [b] | _ => [] end) obs.

Definition response_302 (loc : bytes) : bytes :=
  s2b "HTTP/1.1 302 Found" ++ CRLF ++ s2b "Location: " ++ loc ++ CRLF ++
  s2b "Content-Length: 0" ++ CRLF ++ CRLF.

(** One exchange on a Prepare flow that ends in a followed redirect (9 operations). *)
Definition exchange (loc : bytes) (p : auth_policy) : list op :=
  [OProceed; OWriteHead 4096; OProceed; OSetStream (response_302 loc);
   OArrive (len (response_302 loc)); OTryResponse; OProceed; OAsNewFlow p; OFollow].

Definition ex13_orig : request :=
  {| rq_method := GET; rq_version := V11;
     rq_uri := {| u_scheme := s2b "http"; u_auth := s2b "a.test"; u_pq := s2b "/start" |};
     rq_headers := [(s2b "authorization", s2b "secret"); (s2b "cookie", s2b "c=1");
                    (s2b "accept", s2b "*/*")] |}.

Definition loc_b : bytes := s2b "http://b.test/one".
Definition loc_a : bytes := s2b "http://a.test/two".
Definition uri_b : uri := {| u_scheme := s2b "http"; u_auth := s2b "b.test"; u_pq := s2b "/one" |}.
Definition uri_a : uri := {| u_scheme := s2b "http"; u_auth := s2b "a.test"; u_pq := s2b "/two" |}.

Definition two_hops : list op :=
  [ONew ex13_orig] ++ exchange loc_b SameHost ++ exchange loc_a SameHost.

Definition dummy_flow : inner :=
  {| i_call := call_new ex13_orig new_none; i_holder := HRecvBody; i_reasons := [];
     i_should_send_body := false; i_await_100 := false; i_status := None; i_location := None |}.

(** The flow the script holds after its first [n] operations. *)
Definition flow_at (n : nat) : inner :=
  match s_obj (run_ops s_init (firstn n two_hops)) with ObFlow _ f => f | _ => dummy_flow end.

Lemma ex13_hop1 : chain ex13_orig [(SameHost, uri_b)] (flow_at 10).
Proof.
  change [(SameHost, uri_b)] with ([] ++ [(SameHost, uri_b)]).
  eapply (ch_hop ex13_orig [] (flow_at 8) SameHost (flow_at 9) (flow_at 10) loc_b uri_b);
    [|vm_compute; reflexivity|vm_compute; reflexivity|vm_compute; reflexivity].
  eapply (ch_op _ _ (flow_at 7)); [|eapply fo_rr_proceed with (t := TRedirect); vm_compute; reflexivity].
  eapply (ch_op _ _ (flow_at 4)); [|eapply fo_try_response with (input := response_302 loc_b); vm_compute; reflexivity].
  eapply (ch_op _ _ (flow_at 3)); [|eapply fo_sr_proceed with (t := TRecvResponse); vm_compute; reflexivity].
  eapply (ch_op _ _ (flow_at 1)); [|eapply fo_write with (cap := 4096); vm_compute; reflexivity].
  apply ch_new. vm_compute. reflexivity.
Qed.

Lemma ex13_hop2 : chain ex13_orig [(SameHost, uri_b); (SameHost, uri_a)] (flow_at 19).
Proof.
  change [(SameHost, uri_b); (SameHost, uri_a)] with ([(SameHost, uri_b)] ++ [(SameHost, uri_a)]).
  eapply (ch_hop ex13_orig _ (flow_at 17) SameHost (flow_at 18) (flow_at 19) loc_a uri_a);
    [|vm_compute; reflexivity|vm_compute; reflexivity|vm_compute; reflexivity].
  eapply (ch_op _ _ (flow_at 16)); [|eapply fo_rr_proceed with (t := TRedirect); vm_compute; reflexivity].
  eapply (ch_op _ _ (flow_at 13)); [|eapply fo_try_response with (input := response_302 loc_a); vm_compute; reflexivity].
  eapply (ch_op _ _ (flow_at 12)); [|eapply fo_sr_proceed with (t := TRecvResponse); vm_compute; reflexivity].
  eapply (ch_op _ _ (flow_at 10)); [|eapply fo_write with (cap := 4096); vm_compute; reflexivity].
  exact ex13_hop1.
Qed.
