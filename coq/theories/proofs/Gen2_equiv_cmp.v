(** src/util.rs compare_lowercase_ascii (translated, with its loop) equals the model's cmp_lower; split from Gen2_equiv_framing so that
    the request analysis (C17) does not depend on the response-framing proofs. *)
From Coq Require Import NArith ZArith Bool List Btauto Lia ZifyBool ZifyN.
From Hoot Require Import Base Chunk Body Url Request GenLib Gen Gen2.
From Hoot.proofs Require Import BytesLemmas.
Open Scope N_scope.

Ltac bool_simpl := cbn [andb orb negb]; cbv beta iota.

(** The leftmost atom of a boolean combination. *)
Ltac atom_of x :=
  lazymatch x with
  | negb ?y => atom_of y
  | andb ?y _ => atom_of y
  | orb ?y _ => atom_of y
  | _ => x
  end.

(** Destruct one scrutinee of the goal which does not itself contain a [match] (innermost first).  A boolean
    combination is split on its atoms, one at a time, so that [if negb c then a else b] and [if c then b else a], or
    [if a && negb b then x else y] and [if negb a || b then y else x], meet. *)
Ltac break_step :=
  match goal with
  | |- context [match ?x with _ => _ end] =>
      lazymatch x with
      | context [match _ with _ => _ end] => fail
      | _ => let a := atom_of x in destruct a eqn:?
      end
  end; bool_simpl.

(** Case analysis on every comparison of the goal, one at a time, simplifying the boolean connectives in between (so
    that the number of cases stays small). *)
Ltac split_atom :=
  match goal with
  | |- context [N.eqb ?a ?b] => destruct (N.eqb_spec a b)
  | |- context [N.leb ?a ?b] => destruct (N.leb_spec a b)
  | |- context [N.ltb ?a ?b] => destruct (N.ltb_spec a b)
  | |- context [Nat.eqb ?a ?b] => destruct (Nat.eqb_spec a b)
  end; bool_simpl.
Ltac bool_leaf := first [ reflexivity | discriminate | exfalso; lia | exfalso; congruence | congruence | lia ].
Ltac bool_cases := bool_simpl; repeat (try bool_leaf; split_atom); bool_leaf.

(** An equation between boolean combinations of comparisons and opaque boolean atoms. *)
Ltac bool_eq := first [ reflexivity | btauto | lia | bool_cases ].

(** Both sides branch on a boolean: equate the conditions. *)
Ltac if_cond_eq :=
  match goal with
  | |- (if ?a then ?x else ?y) = (if ?b then ?x else ?y) =>
      let H := fresh "Hab" in assert (H : a = b) by bool_eq; rewrite H; reflexivity
  | |- (if ?a then ?x else ?y) = (if ?b then ?y else ?x) =>
      let H := fresh "Hab" in assert (H : a = negb b) by bool_eq; rewrite H; destruct b; reflexivity
  end.

(** ** 0. List helpers *)


Lemma existsb_map_compose {A B} (f : B -> bool) (g : A -> B) l :
  existsb f (map g l) = existsb (fun x => f (g x)) l.
Proof. induction l as [|x t IH]; [reflexivity|]. cbn [map existsb]. rewrite IH. reflexivity. Qed.

Lemma existsb_ext_all {A} (f g : A -> bool) l : (forall x, f x = g x) -> existsb f l = existsb g l.
Proof. intros H. induction l as [|x t IH]; [reflexivity|]. cbn [existsb]. rewrite H, IH. reflexivity. Qed.

Lemma cmp_lower_zip : forall a l,
  cmp_lower a l = Nat.eqb (List.length a) (List.length l) && gen_compare_lowercase_ascii_for1 (combine a l).
Proof.
  induction a as [|x a IH]; intros [|y l]; try reflexivity.
  cbn [cmp_lower combine List.length Nat.eqb gen_compare_lowercase_ascii_for1]. cbv zeta.
  rewrite (IH l).
  destruct (Nat.eqb (List.length a) (List.length l)); bool_simpl.
  - generalize (gen_compare_lowercase_ascii_for1 (combine a l)); intros r.
    repeat break_step; bool_cases.
  - rewrite !andb_false_r. reflexivity.
Qed.

Lemma gen_compare_lowercase_ascii_eq : forall a l, gen_compare_lowercase_ascii a l = cmp_lower a l.
Proof.
  intros a l. rewrite cmp_lower_zip. unfold gen_compare_lowercase_ascii.
  generalize (gen_compare_lowercase_ascii_for1 (combine a l)); intros r.
  rewrite !len_length.
  destruct (Nat.eqb_spec (List.length a) (List.length l)) as [E|E]; bool_simpl.
  - rewrite E. repeat break_step; bool_cases.
  - repeat break_step; bool_cases.
Qed.

Print Assumptions existsb_map_compose.
Print Assumptions existsb_ext_all.
Print Assumptions cmp_lower_zip.
Print Assumptions gen_compare_lowercase_ascii_eq.
