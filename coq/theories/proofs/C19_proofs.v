(** C19: sending a body always makes progress when progress is possible. *)
From Coq Require Import Lia ZArith ZifyN ZifyBool.
From Hoot Require Import Base Chunk Body Request Call.
From Hoot.proofs Require Import BytesLemmas C18_hex C18_proofs C04_proofs.
Open Scope N_scope.
Ltac Zify.zify_post_hook ::= Z.div_mod_to_equations.
Opaque fit hexlen.

(** One chunked write through the public entry point: always [Ok], the call is unchanged, the count
    is [consumed_n]. *)
Lemma call_chunked_ok c input cap :
  chunked_body c false -> input <> [] ->
  exists out, call_write_body c input cap = Ok (c, consumed_n (len input) cap, out) /\ len out <= cap.
Proof.
  intros Hc Hne. rewrite (call_write_chunked c false input cap Hc). rewrite andb_false_r.
  destruct (writer_write_chunked false input cap Hne) as (out & Hw & Hlen & _).
  rewrite Hw. exists out. split; [|exact Hlen].
  rewrite set_writer_same; [reflexivity|]. apply Hc.
Qed.

(** ** Progress *)

Lemma progress_n inlen cap : 1 <= inlen -> 6 <= cap -> 1 <= consumed_n inlen cap.
Proof.
  intros Hi Hc. destruct (N.lt_ge_cases cap 10248) as [Hs|Hb].
  - rewrite consumed_n_small by exact Hs. pose proof (fit_pos cap Hc). lia.
  - unfold consumed_n, DEFAULT_CHUNK_SIZE, DEFAULT_CHUNK_OVERHEAD. cbv zeta.
    change (10240 + 8) with 10248.
    assert (Hk : 1 <= cap / 10248) by lia.
    set (k := cap / 10248) in *. clearbody k.
    destruct (N.leb_spec inlen (k * 10240)); lia.
Qed.

(** Six bytes are necessary as well: with less room nothing is consumed. *)
Lemma no_room_n inlen cap : cap < 6 -> consumed_n inlen cap = 0.
Proof.
  intros Hc. rewrite consumed_n_small by lia.
  assert (fit cap = 0) by (fit_destruct cap; lia). lia.
Qed.

Lemma progress_sized cap inlen lft :
  1 <= cap -> 1 <= lft -> 1 <= inlen -> 1 <= N.min (N.min cap inlen) lft.
Proof. lia. Qed.

Lemma progress_call c input cap :
  chunked_body c false -> 1 <= len input -> 6 <= cap ->
  exists used out, call_write_body c input cap = Ok (c, used, out) /\ 1 <= used.
Proof.
  intros Hc Hi Hcap.
  assert (Hne : input <> []) by (intros ->; cbn [len] in Hi; lia).
  destruct (call_chunked_ok c input cap Hc Hne) as (out & Hw & _).
  exists (consumed_n (len input) cap), out. split; [exact Hw|apply progress_n; assumption].
Qed.

Lemma progress_sized_call c lft input cap :
  sized_body c lft false -> 1 <= cap -> 1 <= lft -> 1 <= len input <= lft ->
  exists c' used out, call_write_body c input cap = Ok (c', used, out) /\ 1 <= used.
Proof.
  intros Hs Hcap Hl Hi. rewrite (write_sized c lft false input cap Hs).
  rewrite andb_false_r. destruct (N.ltb_spec lft (len input)) as [Hlt|_]; [lia|].
  cbv zeta. do 3 eexists. split; [reflexivity|]. lia.
Qed.

(** ** Not below the advertised maximum *)

Lemma not_below_max_n inlen cap :
  calculate_max_input cap <= inlen -> calculate_max_input cap <= consumed_n inlen cap.
Proof.
  intros H. rewrite <- (consumed_max cap) at 1. apply consumed_mono_input. exact H.
Qed.

(** ** The caller loop *)

(** "Offer the unconsumed rest of the input, always with [cap] bytes of output space, until the
    input is empty." [None] means that the fuel ran out or a write was refused. *)
Fixpoint send_all (fuel : nat) (c : call) (input : bytes) (cap : N) (out : bytes)
  : option (call * bytes) :=
  match input with
  | [] => Some (c, out)
  | _ :: _ =>
      match fuel with
      | O => None
      | S f =>
          match call_write_body c input cap with
          | Ok (c', used, o) => send_all f c' (drop used input) cap (out ++ o)
          | _ => None
          end
      end
  end.

Lemma send_all_chunked_gen fuel : forall c input cap out,
  chunked_body c false -> 6 <= cap -> len input <= N.of_nat fuel ->
  exists out', send_all fuel c input cap out = Some (c, out').
Proof.
  induction fuel as [|f IH]; intros c input cap out Hc Hcap Hf.
  - destruct input as [|x t]; [cbn [send_all]; eauto|]. rewrite len_cons in Hf. lia.
  - destruct input as [|x t]; [cbn [send_all]; eauto|].
    cbn [send_all].
    destruct (call_chunked_ok c (x :: t) cap Hc ltac:(discriminate)) as (o & Hw & _).
    rewrite Hw.
    assert (Hp : 1 <= consumed_n (len (x :: t)) cap)
      by (apply progress_n; [rewrite len_cons; lia|exact Hcap]).
    apply IH; [exact Hc|exact Hcap|]. rewrite len_drop. lia.
Qed.

Lemma send_all_chunked c input cap out :
  chunked_body c false -> 6 <= cap ->
  exists out', send_all (List.length input) c input cap out = Some (c, out').
Proof.
  intros Hc Hcap. apply send_all_chunked_gen; [exact Hc|exact Hcap|]. rewrite len_length. lia.
Qed.

Lemma send_all_sized_gen fuel : forall c lft ended input cap out,
  sized_body c lft ended -> (ended = true -> lft = 0) ->
  1 <= cap -> len input <= lft -> len input <= N.of_nat fuel ->
  exists c' ended',
    send_all fuel c input cap out = Some (c', out ++ input) /\
    sized_body c' (lft - len input) ended'.
Proof.
  induction fuel as [|f IH]; intros c lft ended input cap out Hc He Hcap Hl Hf.
  - destruct input as [|x t]; [|rewrite len_cons in Hf; lia].
    cbn [send_all len]. rewrite app_nil_r, N.sub_0_r. eauto.
  - destruct input as [|x t].
    + cbn [send_all len]. rewrite app_nil_r, N.sub_0_r. eauto.
    + cbn [send_all]. rewrite (write_sized c lft ended (x :: t) cap Hc).
      assert (Hpos : 1 <= len (x :: t)) by (rewrite len_cons; lia).
      assert (Hen : ended = false) by (destruct ended; [specialize (He eq_refl); lia|reflexivity]).
      subst ended. rewrite andb_false_r.
      destruct (N.ltb_spec lft (len (x :: t))) as [Hlt|_]; [lia|]. cbv zeta.
      set (n := N.min (N.min cap (len (x :: t))) lft).
      assert (Hn : 1 <= n <= len (x :: t)) by (unfold n; lia).
      edestruct (IH (set_writer c {| w_mode := SSized (lft - n);
                                     w_ended := if lft - n =? 0 then true else false |})
                    (lft - n) (if lft - n =? 0 then true else false)
                    (drop n (x :: t)) cap (out ++ take n (x :: t)))
        as (c' & ended' & Hs & Hb).
      * eapply sized_body_set_writer; eauto.
      * destruct (N.eqb_spec (lft - n) 0); [auto|discriminate].
      * exact Hcap.
      * rewrite len_drop. lia.
      * rewrite len_drop. lia.
      * exists c', ended'. rewrite Hs. rewrite <- app_assoc, take_drop. split; [reflexivity|].
        rewrite len_drop in Hb. replace (lft - len (x :: t)) with (lft - n - (len (x :: t) - n)) by lia.
        exact Hb.
Qed.

Lemma send_all_sized c lft input cap out :
  sized_body c lft false -> 1 <= cap -> len input <= lft ->
  exists c' ended',
    send_all (List.length input) c input cap out = Some (c', out ++ input) /\
    sized_body c' (lft - len input) ended'.
Proof.
  intros Hc Hcap Hl. eapply send_all_sized_gen; eauto; [discriminate|]. rewrite len_length. lia.
Qed.
