(** [BodyReader::read] (translated) against the model for every reader state: the non-chunked half (Gen2_equiv_reader) and the chunked
    half (Gen2_equiv_reader_chunked) together.  Kept apart so that properties about one half do not depend on the other half's code. *)
From Coq Require Import NArith ZArith Bool List Lia.
From Hoot Require Import Base Chunk Body GenLib Gen Gen2.
From Hoot.proofs Require Import BytesLemmas Gen2_equiv_rel Gen2_equiv_reader Gen2_equiv_reader_chunked.
Open Scope N_scope.

Theorem gen_br_read_equiv r src dst stop :
  limit_fits r src dst ->
  rd_rel dst (gen_br_read r src dst stop) (reader_read r src (len dst) stop).
Proof.
  intros Hfit. destruct r as [|lft|d|].
  - apply gen_br_read_nonchunked_equiv; [discriminate|exact Hfit].
  - apply gen_br_read_nonchunked_equiv; [discriminate|exact Hfit].
  - unfold gen_br_read. cbv zeta. apply rd_rel_forward, gen_br_read_chunked_equiv.
  - apply gen_br_read_nonchunked_equiv; [discriminate|exact Hfit].
Qed.

Corollary gen_br_read_equiv_u64 r src dst stop :
  reader_u64 r ->
  rd_rel dst (gen_br_read r src dst stop) (reader_read r src (len dst) stop).
Proof. intros H. apply gen_br_read_equiv, reader_u64_fits, H. Qed.

Print Assumptions gen_br_read_equiv.
Print Assumptions gen_br_read_equiv_u64.
