(** [Call::analyze_request] (src/client/call.rs), translated from the source on every run (theories/Gen2.v,
    [gen_call_analyze_request]: the analysis' result, the URI's host and the list of added headers are values; [set_header] is the
    model's reading of AmendedRequest::set_header on that list), equals the model's [analyze_request]: runs once; Host from the URI
    when the caller gave none and the URI has an authority; the framing header of the body when the caller gave none; the writer the
    analysis chose; the flag set only when all of that succeeded. *)
From Coq Require Import Lia.
From Hoot Require Import Base Chunk Body Httparse Parser Url Request Call GenLib Gen Gen2.
Open Scope N_scope.

Definition lift_info3 (r : res request_info) : res (writer * bool * bool) :=
  match r with Ok ri => Ok (ri_mode ri, ri_host ri, ri_body_header ri) | Err e => Err e | Panic s => Panic s end.

Definition host_of_call (c : call) : option bytes :=
  match u_auth (am_eff_uri (c_req c)) with [] => None | _ => Some (uri_host (am_eff_uri (c_req c))) end.

Definition lift_call (r : res call) : res (bool * list header * writer * unit) :=
  match r with Ok c' => Ok (c_analyzed c', am_added (c_req c'), c_writer c', tt) | Err e => Err e | Panic s => Panic s end.

Lemma set_header_list_eq a k v :
  set_header_list (am_added a) k v =
  match am_set_header a k v with Ok a' => Ok (am_added a', tt) | Err e => Err e | Panic s => Panic s end.
Proof.
  unfold set_header_list, am_set_header.
  destruct (negb (valid_header_name k && valid_header_value v)); [reflexivity|].
  destruct (MAX_EXTRA_HEADERS <=? len (am_added a)); reflexivity.
Qed.

Theorem gen_call_analyze_request_eq c :
  gen_call_analyze_request (c_analyzed c) (am_added (c_req c)) (c_writer c)
                           (lift_info3 (analyze (c_req c) (c_writer c) (c_skip c))) (host_of_call c)
  = lift_call (analyze_request c).
Proof.
  unfold gen_call_analyze_request, analyze_request, host_of_call, lift_info3, lift_call.
  destruct (c_analyzed c) eqn:Ea; [rewrite Ea; reflexivity|].
  destruct (analyze (c_req c) (c_writer c) (c_skip c)) as [[mode hostf bodyf]|e|s]; cbn [bind ri_mode ri_host ri_body_header]; try reflexivity.
  destruct hostf; cbn [negb].
  - (* the caller gave a Host *)
    destruct (negb bodyf && has_body mode); cbn [bind].
    + destruct (body_header mode) as [h|e|s]; cbn [bind]; try reflexivity.
      rewrite set_header_list_eq. destruct (am_set_header (c_req c) (fst h) (snd h)) as [a2|e|s]; cbn [bind]; reflexivity.
    + reflexivity.
  - destruct (u_auth (am_eff_uri (c_req c))) as [|x t] eqn:Eu.
    + destruct (negb bodyf && has_body mode); cbn [bind].
      * destruct (body_header mode) as [h|e|s]; cbn [bind]; try reflexivity.
        rewrite set_header_list_eq. destruct (am_set_header (c_req c) (fst h) (snd h)) as [a2|e|s]; cbn [bind]; reflexivity.
      * reflexivity.
    + rewrite set_header_list_eq.
      destruct (am_set_header (c_req c) (s2b "Host") (uri_host (am_eff_uri (c_req c)))) as [a1|e|s]; cbn [bind]; try reflexivity.
      destruct (negb bodyf && has_body mode); cbn [bind].
      * destruct (body_header mode) as [h|e|s]; cbn [bind]; try reflexivity.
        rewrite set_header_list_eq. destruct (am_set_header a1 (fst h) (snd h)) as [a2|e|s]; cbn [bind]; reflexivity.
      * reflexivity.
Qed.
Print Assumptions set_header_list_eq.
Print Assumptions gen_call_analyze_request_eq.

(* ------------------------------------------------------------------ what a failed analysis leaves behind *)
(** [gen_call_analyze_request_errst] is the translation of the same Rust function in "error-state mode": the values its mutable
    fields have at the point where it returns an error.  When the request analysis fails, nothing has changed -- in particular the
    flag is still unset, so the next call analyses (and fails) again instead of writing a request that was never validated. *)
Theorem gen_call_analyze_request_errst_unchanged c e :
  c_analyzed c = false ->
  analyze (c_req c) (c_writer c) (c_skip c) = Err e ->
  gen_call_analyze_request_errst (c_analyzed c) (am_added (c_req c)) (c_writer c)
                                 (lift_info3 (analyze (c_req c) (c_writer c) (c_skip c))) (host_of_call c)
  = Some (false, am_added (c_req c), c_writer c).
Proof.
  intros Ha He. unfold gen_call_analyze_request_errst. rewrite Ha, He. reflexivity.
Qed.
Print Assumptions gen_call_analyze_request_errst_unchanged.
