(** C10, part 2: the invariant is preserved by every [Script.step], hence holds after every history. *)
From Coq Require Import Lia ZArith.
From Hoot Require Import Base Chunk Body Httparse Parser Url Request Call Flow Script.
From Hoot.proofs Require Import BytesLemmas Reasons AfterErr C10_proofs.
Open Scope N_scope.

Lemma Inv_with_flow s g t f' : Inv s g -> flow_inv g f' -> Inv (with_flow s t f') g.
Proof. intros Hi Hf. apply (Inv_flow s g _ g t f' Hi); [reflexivity|reflexivity|reflexivity|exact Hf]. Qed.

Lemma Inv_with_flow_c s g t f' n : Inv s g -> flow_inv g f' -> Inv (add_consumed (with_flow s t f') n) g.
Proof. intros Hi Hf. apply (Inv_flow s g _ g t f' Hi); [reflexivity|reflexivity|reflexivity|exact Hf]. Qed.

Lemma Inv_with_flow_s s g t f' n : Inv s g -> flow_inv g f' -> Inv (add_sent (with_flow s t f') n) g.
Proof. intros Hi Hf. apply (Inv_flow s g _ g t f' Hi); [reflexivity|reflexivity|reflexivity|exact Hf]. Qed.

Lemma Inv_none s g : Inv s g -> Inv (with_obj s ObNone) g.
Proof. intros Hi. apply (Inv_noflow s g _ Hi); [reflexivity|cbn; discriminate]. Qed.

Lemma Inv_call s g h c : Inv s g -> Inv (with_obj s (ObCall h c)) g.
Proof. intros Hi. apply (Inv_noflow s g _ Hi); [reflexivity|cbn; discriminate]. Qed.

Lemma upd_inv {A} s g t0 f t (r : res A) getf k :
  Inv s g -> s_obj s = ObFlow t0 f -> (forall a, r = Ok a -> keeps f (getf a)) ->
  Inv (fst (upd s t r getf k)) g.
Proof.
  intros Hi Ho Hk. unfold upd. destruct r as [a|e|p]; cbn [fst]; try exact Hi.
  apply Inv_with_flow; [exact Hi|]. eapply flow_inv_keeps; [eapply Hi; exact Ho|]. apply Hk. reflexivity.
Qed.

(** The ghost update of [proceed] in the RecvResponse state. *)
Definition g_proceed (g : facts) (f : inner) : facts :=
  match recv_response_proceed f with
  | Ok (Some (TRecvBody, f')) => set_cdl g (cdl g || reader_close_of f')
  | _ => g
  end.

Lemma g_proceed_eq g f t f' :
  recv_response_proceed f = Ok (Some (t, f')) ->
  g_proceed g f = fact_or g CloseDelimitedBody (match t with TRecvBody => reader_close_of f' | _ => false end).
Proof.
  intros H. unfold g_proceed. rewrite H. destruct t; try (rewrite fact_or_false; reflexivity). reflexivity.
Qed.

Lemma do_proceed_inv s g t f :
  Inv s g -> s_obj s = ObFlow t f ->
  Inv (fst (do_proceed s t f)) (match t with TRecvResponse => g_proceed g f | _ => g end).
Proof.
  intros Hi Ho. pose proof (proj1 Hi t f Ho) as Hf.
  assert (Hopt : forall r, (forall t' f', r = Ok (Some (t', f')) -> keeps f f') ->
            Inv (fst (match r with
                      | Ok (Some (t', f')) => (with_flow s t' f', [w "state"; tag_name t'])
                      | Ok None => (s, [w "stay"])
                      | Err e => (with_obj s ObNone, obs_err e)
                      | Panic _ => (s, obs_panic)
                      end)) g).
  { intros r Hk. destruct r as [[[t' f']|]|e|p]; cbn [fst]; try exact Hi.
    - apply Inv_with_flow; [exact Hi|]. eapply flow_inv_keeps; [exact Hf|]. eapply Hk; reflexivity.
    - apply Inv_none; exact Hi. }
  unfold do_proceed. cbv zeta beta. destruct t.
  - cbn [fst]. apply Inv_with_flow; assumption.
  - apply (Hopt (send_request_proceed f)). intros t' f' H. exact (send_request_proceed_keeps f t' f' H).
  - apply (Hopt (do x <- await_100_proceed f; Ok (Some x))). intros t' f' H. destruct (await_100_proceed f) as [[t1 f1]|e|p] eqn:E; cbn [bind] in H; try discriminate.
    inversion H; subst. eapply await_100_proceed_keeps; eassumption.
  - apply (Hopt (send_body_proceed f)). intros t' f' H. exact (send_body_proceed_keeps f t' f' H).
  - destruct (recv_response_proceed f) as [[[t' f']|]|e|p] eqn:E; cbn [fst].
    + rewrite (g_proceed_eq g f t' f' E).
      pose proof (recv_response_proceed_spec f t' f' (proj1 Hf) E) as Ha.
      eapply Inv_flow; [exact Hi| | reflexivity | reflexivity |].
      * destruct (match t' with TRecvBody => reader_close_of f' | _ => false end); reflexivity.
      * apply (flow_inv_adds g f); auto.
    + unfold g_proceed. rewrite E. exact Hi.
    + unfold g_proceed. rewrite E. apply Inv_none; exact Hi.
    + unfold g_proceed. rewrite E. exact Hi.
  - apply (Hopt (recv_body_proceed f)). intros t' f' H. apply recv_body_proceed_keeps in H. subst. apply keeps_refl.
  - cbn [fst]. apply Inv_with_flow; assumption.
  - cbn [fst]. exact Hi.
Qed.

Lemma do_premature_inv s g t f : Inv s g -> Inv (fst (do_premature s t f)) g.
Proof.
  intros Hi. unfold do_premature. destruct t; cbn [fst]; try exact Hi; apply Inv_none; exact Hi.
Qed.

Lemma do_try100_inv s g f win track :
  Inv s g -> s_obj s = ObFlow TAwait100 f ->
  Inv (fst (do_try100 s f win track)) (set_n100 g (n100 g || refusal_seen win)).
Proof.
  intros Hi Ho. pose proof (proj1 Hi _ f Ho) as Hf.
  destruct (try_read_100_spec f win (proj1 Hf)) as [Ha _].
  unfold do_try100. destruct (try_read_100 f win) as [f' r]. cbn [fst] in Ha.
  assert (Hf' : flow_inv (fact_or g Not100Continue (refusal_seen win)) f') by (apply (flow_inv_adds g f); auto).
  change (set_n100 g (n100 g || refusal_seen win)) with (fact_or g Not100Continue (refusal_seen win)).
  destruct r as [n|e|p]; [destruct track|..]; cbn [fst];
    (eapply Inv_flow; [exact Hi|reflexivity|reflexivity|reflexivity|exact Hf']).
Qed.

Definition g_try_response (g : facts) (f : inner) (win : bytes) : facts :=
  match recv_try_response f win with
  | Ok (_, _, Some rsp) => set_scl g (scl g || resp_close rsp)
  | _ => g
  end.

Lemma do_try_response_inv s g f win track :
  Inv s g -> s_obj s = ObFlow TRecvResponse f ->
  Inv (fst (do_try_response s f win track)) (g_try_response g f win).
Proof.
  intros Hi Ho. pose proof (proj1 Hi _ f Ho) as Hf.
  unfold do_try_response, g_try_response.
  destruct (recv_try_response f win) as [[[f' used] got]|e|p] eqn:E; cbn [fst]; try exact Hi.
  pose proof (recv_try_response_spec f win f' used got (proj1 Hf) E) as Ha.
  assert (Hf' : flow_inv (fact_or g ServerConnectionClose
                            (match got with Some rsp => resp_close rsp | None => false end)) f')
    by (apply (flow_inv_adds g f); auto).
  destruct got as [rsp|].
  - change (set_scl g (scl g || resp_close rsp)) with (fact_or g ServerConnectionClose (resp_close rsp)).
    destruct track; cbn [fst]; (eapply Inv_flow; [exact Hi|reflexivity|reflexivity|reflexivity|exact Hf']).
  - rewrite fact_or_false in Hf'.
    destruct track; cbn [fst]; (eapply Inv_flow; [exact Hi|reflexivity|reflexivity|reflexivity|exact Hf']).
Qed.

(** A failed read only moves the decoder (proofs/AfterErr.v): reasons and request are untouched. *)
Lemma recv_body_after_err_keeps f win cap : keeps f (recv_body_after_err f win cap).
Proof.
  split; [apply recv_body_after_err_reasons|].
  unfold freq, creq. rewrite recv_body_after_err_req. reflexivity.
Qed.

Lemma do_read_inv s g f win cap track :
  Inv s g -> s_obj s = ObFlow TRecvBody f -> Inv (fst (do_read s f win cap track)) g.
Proof.
  intros Hi Ho. pose proof (proj1 Hi _ f Ho) as Hf. unfold do_read.
  destruct (recv_body_read f win cap) as [[[f' i] o]|e|p] eqn:E; cbn [fst]; try exact Hi.
  - apply recv_body_read_keeps in E. pose proof (flow_inv_keeps g f f' Hf E) as Hf'.
    destruct track; cbn [fst]; (eapply Inv_flow; [exact Hi|reflexivity|reflexivity|reflexivity|exact Hf']).
  - (* a failed read: the flow continues with the decoder state it reached; reasons and request unchanged *)
    apply Inv_with_flow; [exact Hi|]. apply (flow_inv_keeps g f); [exact Hf|]. apply recv_body_after_err_keeps.
Qed.

Lemma do_write_body_inv s g input cap track sum :
  Inv s g -> Inv (fst (do_write_body s input cap track sum)) g.
Proof.
  intros Hi. unfold do_write_body.
  destruct (s_obj s) as [|t f|h c] eqn:Ho; [exact Hi| |].
  - destruct t; try exact Hi. pose proof (proj1 Hi _ f Ho) as Hf.
    destruct (send_body_write f input cap) as [[[f' u] o]|e|p] eqn:E; cbn [fst]; try exact Hi.
    apply send_body_write_keeps in E. pose proof (flow_inv_keeps g f f' Hf E) as Hf'.
    destruct track; cbn [fst]; (eapply Inv_flow; [exact Hi|reflexivity|reflexivity|reflexivity|exact Hf']).
  - destruct h; try exact Hi.
    destruct (call_write_body c input cap) as [[[c' u] o]|e|p]; cbn [fst]; try exact Hi.
    + destruct track; cbn [fst]; (eapply Inv_noflow; [exact Hi|reflexivity|cbn; discriminate]).
    + apply Inv_call; exact Hi.
Qed.

Lemma facts_new_base r g : req_h10 r = h10 g -> req_ccl r = ccl g -> facts_new r = facts_base g.
Proof. intros H1 H2. unfold facts_new, facts_base. rewrite H1, H2. reflexivity. Qed.

(** The arms of [step] for the single call past the request: the object stays a call or is gone. *)
Ltac call_arms Hi :=
  unfold do_call_into_receive;
  repeat match goal with
  | |- context [match into_receive ?c with _ => _ end] => destruct (into_receive c)
  | |- context [match c_reader ?c with _ => _ end] => destruct (c_reader c) as [[| | |]|]
  | |- context [match call_try_response ?c ?b with _ => _ end] => destruct (call_try_response c b) as [[? ?]|?|?]
  | |- context [match call_read ?c ?b ?cap with _ => _ end] => destruct (call_read c b cap) as [[[? ?] ?]|?|?]
  end; cbn [fst]; first [exact Hi | apply Inv_call; exact Hi | apply Inv_none; exact Hi].

Lemma step_inv s g o : Inv s g -> Inv (fst (step s o)) (gstep s g o).
Proof.
  intros Hi.
  destruct o; unfold step, gstep.
  - (* ONew *)
    destruct (new_spec r) as (f & Hf & Hnd & _ & Hin & Hq). rewrite Hf. cbn [fst].
    split; cbn [s_obj s_next]; [|discriminate].
    intros t f0 H. inversion H; subst. split; [exact Hnd|]. split; [exact Hin|].
    intros r0 Hr. rewrite Hq in Hr. inversion Hr; subst. split; reflexivity.
  - apply Inv_call; exact Hi.
  - apply Inv_call; exact Hi.
  - (* OHeader *)
    destruct (s_obj s) as [|t f|h c] eqn:Ho; [| destruct t | destruct h]; cbn [fst]; try exact Hi.
    eapply upd_inv; [exact Hi|exact Ho|]. intros a Ha. eapply prepare_header_keeps; exact Ha.
  - (* ODespite *)
    destruct (s_obj s) as [|t f|h c] eqn:Ho; [| destruct t | destruct h]; cbn [fst]; try exact Hi.
    eapply upd_inv; [exact Hi|exact Ho|]. intros a Ha. eapply send_body_despite_method_keeps; exact Ha.
  - (* OProceed *)
    destruct (s_obj s) as [|t f|h c] eqn:Ho; [exact Hi| |destruct h; call_arms Hi].
    pose proof (do_proceed_inv s g t f Hi Ho) as H. destruct t; exact H.
  - (* OPremature *)
    destruct (s_obj s) as [|t f|h c] eqn:Ho; [exact Hi| |exact Hi]. apply do_premature_inv; exact Hi.
  - (* OWriteHead *)
    destruct (s_obj s) as [|t f|h c] eqn:Ho; [| destruct t | destruct h]; cbn [fst]; try exact Hi.
    + eapply upd_inv; [exact Hi|exact Ho|]. intros [a o] Ha. eapply send_request_write_keeps; exact Ha.
    + destruct (call_write_nobody c cap) as [[c' out]|e|p]; cbn [fst]; try exact Hi; apply Inv_call; exact Hi.
  - destruct (s_obj s) as [|t f|h c] eqn:Ho; [| destruct t | destruct h]; apply do_write_body_inv; exact Hi.
  - destruct (s_obj s) as [|t f|h c] eqn:Ho; [| destruct t | destruct h]; apply do_write_body_inv; exact Hi.
  - destruct (s_obj s) as [|t f|h c] eqn:Ho; [| destruct t | destruct h]; apply do_write_body_inv; exact Hi.
  - (* OSetBody *)
    cbn [fst]; (eapply Inv_same; [exact Hi|reflexivity|reflexivity]).
  - (* ODirect *)
    destruct (s_obj s) as [|t f|h c] eqn:Ho; [| destruct t | destruct h]; cbn [fst]; try exact Hi.
    eapply upd_inv; [exact Hi|exact Ho|]. intros a Ha. eapply send_body_direct_keeps; exact Ha.
  - cbn [fst]; (eapply Inv_same; [exact Hi|reflexivity|reflexivity]).
  - cbn [fst]; (eapply Inv_same; [exact Hi|reflexivity|reflexivity]).
  - (* OTry100 *)
    destruct (s_obj s) as [|t f|h c] eqn:Ho; [| destruct t | destruct h]; cbn [fst]; try exact Hi.
    apply do_try100_inv; assumption.
  - destruct (s_obj s) as [|t f|h c] eqn:Ho; [| destruct t | destruct h]; cbn [fst]; try exact Hi.
    apply do_try100_inv; assumption.
  - (* OTryResponse *)
    destruct (s_obj s) as [|t f|h c] eqn:Ho; [| destruct t | destruct h]; cbn [fst]; try exact Hi.
    apply (do_try_response_inv s g f (window s) true); assumption.
  - destruct (s_obj s) as [|t f|h c] eqn:Ho; [| destruct t | destruct h]; cbn [fst]; try exact Hi.
    + apply (do_try_response_inv s g f w false); assumption.
    + call_arms Hi.
  - (* ORead *)
    destruct (s_obj s) as [|t f|h c] eqn:Ho; [| destruct t | destruct h]; cbn [fst]; try exact Hi.
    apply do_read_inv; assumption.
  - destruct (s_obj s) as [|t f|h c] eqn:Ho; [| destruct t | destruct h]; cbn [fst]; try exact Hi.
    + apply do_read_inv; assumption.
    + call_arms Hi.
  - (* OStop *)
    destruct (s_obj s) as [|t f|h c] eqn:Ho; [| destruct t | destruct h]; cbn [fst]; try exact Hi.
    + eapply upd_inv; [exact Hi|exact Ho|]. intros a Ha. eapply recv_body_stop_keeps; exact Ha.
    + apply Inv_call; exact Hi.
  - (* OAsNewFlow *)
    destruct (s_obj s) as [|t f|h c] eqn:Ho; [| destruct t | destruct h]; cbn [fst]; try exact Hi.
    destruct (as_new_flow f p) as [[f' nxt]|e|pn] eqn:E; cbn [fst]; try exact Hi.
    destruct (as_new_flow_spec f p f' nxt E) as (Hr & Hq & Hn).
    pose proof (proj1 Hi _ f Ho) as (Hnd & Hin & Hrq).
    split; cbn [s_obj s_next].
    + intros t f0 H. inversion H; subst. split; [rewrite Hr; exact Hnd|]. split.
      * intros x. rewrite Hr. apply Hin.
      * intros r Hr'. apply Hrq. apply Hq. exact Hr'.
    + intros n H. destruct nxt as [n'|]; [|apply (proj2 Hi); exact H]. inversion H; subst n'.
      destruct Hn as (orig & nm & nf & Ho' & Hnf & Hrn & Hqn).
      destruct (Hrq orig Ho') as [H1 H2].
      destruct (new_spec (rebuilt orig nm)) as (nf' & Hnf' & Hnd' & _ & Hin' & _).
      rewrite Hnf in Hnf'. inversion Hnf'; subst nf'.
      rewrite (facts_new_base (rebuilt orig nm) g H1 H2) in Hin'.
      split; [rewrite Hrn; exact Hnd'|]. split.
      * intros x. rewrite Hrn. apply Hin'.
      * intros r Hr'. rewrite Hqn in Hr'. inversion Hr'; subst r. split; [exact H1|exact H2].
  - (* OFollow *)
    destruct (s_next s) as [n|] eqn:En.
    + assert (Hn : flow_inv (facts_base g) n) by (apply (proj2 Hi); exact En).
      destruct (s_obj s) as [|t f|h c] eqn:Ho; [| destruct t | destruct h]; cbn [fst];
        (split; cbn [s_obj s_next]; [intros t0 f0 H; inversion H; subst; exact Hn|discriminate]).
    + destruct (s_obj s) as [|t f|h c] eqn:Ho; [| destruct t | destruct h]; cbn [fst]; exact Hi.
  - destruct (s_obj s) as [|t f|h c] eqn:Ho; [| destruct t | destruct h]; cbn [fst]; exact Hi.
  - destruct (s_obj s) as [|t f|h c] eqn:Ho; [| destruct t | destruct h]; cbn [fst]; exact Hi.
  - destruct (s_obj s) as [|t f|h c] eqn:Ho; [| destruct t | destruct h]; cbn [fst]; exact Hi.
  - destruct (s_obj s) as [|t f|h c] eqn:Ho; [| destruct t | destruct h]; cbn [fst]; exact Hi.
  - destruct (s_obj s) as [|t f|h c] eqn:Ho; [| destruct t | destruct h]; cbn [fst]; exact Hi.
  - destruct (s_obj s) as [|t f|h c] eqn:Ho; [| destruct t | destruct h]; cbn [fst]; exact Hi.
  - destruct (s_obj s) as [|t f|h c] eqn:Ho; [| destruct t | destruct h]; cbn [fst]; exact Hi.
  - destruct (s_obj s) as [|t f|h c] eqn:Ho; [| destruct t | destruct h]; cbn [fst]; exact Hi.
  - destruct (s_obj s) as [|t f|h c] eqn:Ho; [| destruct t | destruct h]; cbn [fst]; exact Hi.
  - destruct (s_obj s) as [|t f|h c] eqn:Ho; [| destruct t | destruct h]; cbn [fst]; exact Hi.
  - destruct (s_obj s) as [|t f|h c] eqn:Ho; [| destruct t | destruct h]; cbn [fst]; exact Hi.
  - destruct (s_obj s) as [|t f|h c] eqn:Ho; [| destruct t | destruct h]; cbn [fst]; exact Hi.
  - destruct (s_obj s) as [|t f|h c] eqn:Ho; [| destruct t | destruct h]; cbn [fst]; exact Hi.
  - destruct (s_obj s) as [|t f|h c] eqn:Ho; [| destruct t | destruct h]; cbn [fst]; exact Hi.
  - destruct (s_obj s) as [|t f|h c] eqn:Ho; [| destruct t | destruct h]; cbn [fst]; exact Hi.
  - destruct (s_obj s) as [|t f|h c] eqn:Ho; [| destruct t | destruct h]; cbn [fst]; exact Hi.
  - destruct (s_obj s) as [|t f|h c] eqn:Ho; [| destruct t | destruct h]; cbn [fst]; exact Hi.
  - destruct (s_obj s) as [|t f|h c] eqn:Ho; [| destruct t | destruct h]; cbn [fst]; exact Hi.
Qed.

(* ------------------------------------------------------------------ every history *)

Definition facts0 : facts := {| h10 := false; ccl := false; n100 := false; scl := false; cdl := false |}.

(** The facts of a history: the ghost component of the instrumented run from the initial state. *)
Definition facts_of (ops : list op) : facts := snd (grun (s_init, facts0) ops).

Lemma Inv_init g : Inv s_init g.
Proof. split; cbn; discriminate. Qed.

Lemma grun_inv ops : forall sg, Inv (fst sg) (snd sg) -> Inv (fst (grun sg ops)) (snd (grun sg ops)).
Proof.
  induction ops as [|o ops IH]; intros sg Hi; [exact Hi|].
  unfold grun in *. cbn [fold_left]. apply IH. cbn [fst snd]. apply step_inv. exact Hi.
Qed.

Lemma invariant ops : Inv (run_ops s_init ops) (facts_of ops).
Proof.
  rewrite <- (grun_fst ops s_init facts0). apply grun_inv. apply Inv_init.
Qed.

Lemma flow_invariant ops t f :
  s_obj (run_ops s_init ops) = ObFlow t f -> flow_inv (facts_of ops) f.
Proof. intros H. exact (proj1 (invariant ops) t f H). Qed.

Lemma verdict_of_inv g f :
  flow_inv g f -> must_close f = h10 g || ccl g || scl g || n100 g || cdl g.
Proof.
  intros (_ & Hin & _). unfold must_close. destruct (i_reasons f) as [|x l].
  - assert (Hf : forall x, fact_holds x g = false).
    { intros x. destruct (fact_holds x g) eqn:E; [|reflexivity]. apply Hin in E. destruct E. }
    pose proof (Hf Http10) as H1. pose proof (Hf ClientConnectionClose) as H2.
    pose proof (Hf ServerConnectionClose) as H3. pose proof (Hf Not100Continue) as H4.
    pose proof (Hf CloseDelimitedBody) as H5. cbn in H1, H2, H3, H4, H5.
    rewrite H1, H2, H3, H4, H5. reflexivity.
  - assert (Hx : fact_holds x g = true) by (apply Hin; left; reflexivity).
    destruct x; cbn in Hx; rewrite Hx; rewrite ?orb_true_r; reflexivity.
Qed.

Lemma reason_iff f : (exists b, close_reason f = Some b) <-> must_close f = true.
Proof.
  unfold close_reason, must_close. destruct (i_reasons f); split; intros H; eauto; try discriminate.
  destruct H as [b H]; discriminate.
Qed.

Lemma reason_none_iff f : close_reason f = None <-> must_close f = false.
Proof.
  unfold close_reason, must_close. destruct (i_reasons f); split; intros H; auto; discriminate.
Qed.

Lemma explain_inj x y : explain x = explain y -> x = y.
Proof. destruct x, y; intros H; try reflexivity; vm_compute in H; discriminate. Qed.

Lemma reason_true_of_inv g f x :
  flow_inv g f -> close_reason f = Some (explain x) -> fact_holds x g = true.
Proof.
  intros (_ & Hin & _). unfold close_reason. destruct (i_reasons f) as [|y l] eqn:E; [discriminate|].
  intros H. inversion H as [H1]. apply explain_inj in H1. subst y. apply Hin. left; reflexivity.
Qed.

Lemma reason_names_of_inv g f b :
  flow_inv g f -> close_reason f = Some b -> exists x, b = explain x /\ fact_holds x g = true.
Proof.
  intros (_ & Hin & _). unfold close_reason. destruct (i_reasons f) as [|y l] eqn:E; [discriminate|].
  intros H. inversion H; subst. exists y. split; [reflexivity|]. apply Hin. left; reflexivity.
Qed.

(* ------------------------------------------------------------------ within one exchange nothing is lost *)

(** Operations that start another exchange. *)
Definition restarts (o : op) : bool := match o with ONew _ | OFollow => true | _ => false end.
Definition same_exchange (ops : list op) : bool := forallb (fun o => negb (restarts o)) ops.

Definition fact_le (g g' : facts) : Prop := forall x, fact_holds x g = true -> fact_holds x g' = true.

Lemma fact_le_refl g : fact_le g g.
Proof. intros x H; exact H. Qed.

Lemma fact_le_or g x b : fact_le g (fact_or g x b).
Proof. intros y H. destruct x, y; cbn in *; rewrite ?H; auto. Qed.

Lemma gstep_mono s g o : restarts o = false -> fact_le g (gstep s g o).
Proof.
  intros Hr. destruct o; try discriminate; unfold gstep; try apply fact_le_refl.
  - destruct (s_obj s) as [|t f|h c]; [| destruct t |]; try apply fact_le_refl.
    destruct (recv_response_proceed f) as [[[t' f']|]|e|p]; try apply fact_le_refl.
    destruct t'; try apply fact_le_refl. apply (fact_le_or g CloseDelimitedBody).
  - destruct (s_obj s) as [|t f|h c]; [| destruct t |]; try apply fact_le_refl.
    apply (fact_le_or g Not100Continue).
  - destruct (s_obj s) as [|t f|h c]; [| destruct t |]; try apply fact_le_refl.
    apply (fact_le_or g Not100Continue).
  - destruct (s_obj s) as [|t f|h c]; [| destruct t |]; try apply fact_le_refl.
    destruct (recv_try_response f (window s)) as [[[f' u] [rsp|]]|e|p]; try apply fact_le_refl.
    apply (fact_le_or g ServerConnectionClose).
  - destruct (s_obj s) as [|t f|h c]; [| destruct t |]; try apply fact_le_refl.
    destruct (recv_try_response f w) as [[[f' u] [rsp|]]|e|p]; try apply fact_le_refl.
    apply (fact_le_or g ServerConnectionClose).
Qed.

Lemma grun_mono ops : forall sg, same_exchange ops = true -> fact_le (snd sg) (snd (grun sg ops)).
Proof.
  induction ops as [|o ops IH]; intros sg Hs; [apply fact_le_refl|].
  unfold same_exchange in Hs. cbn [forallb] in Hs. apply andb_true_iff in Hs. destruct Hs as [Ho Hs].
  apply negb_true_iff in Ho.
  unfold grun in *. cbn [fold_left]. intros x Hx. apply IH; [exact Hs|]. cbn [snd].
  apply gstep_mono; assumption.
Qed.

Lemma facts_of_app ops1 ops2 :
  facts_of (ops1 ++ ops2) = snd (grun (run_ops s_init ops1, facts_of ops1) ops2).
Proof.
  unfold facts_of. rewrite grun_app. rewrite <- (grun_fst ops1 s_init facts0).
  destruct (grun (s_init, facts0) ops1); reflexivity.
Qed.

(** Facts only grow until the next [ONew]/[OFollow]. *)
Lemma facts_monotone ops1 ops2 :
  same_exchange ops2 = true -> fact_le (facts_of ops1) (facts_of (ops1 ++ ops2)).
Proof.
  intros Hs. rewrite facts_of_app.
  apply (grun_mono ops2 (run_ops s_init ops1, facts_of ops1) Hs).
Qed.

(** Hence a reason, once recorded, is never removed during the exchange. *)
Lemma reasons_monotone ops1 ops2 t1 f1 t2 f2 x :
  same_exchange ops2 = true ->
  s_obj (run_ops s_init ops1) = ObFlow t1 f1 ->
  s_obj (run_ops s_init (ops1 ++ ops2)) = ObFlow t2 f2 ->
  In x (i_reasons f1) -> In x (i_reasons f2).
Proof.
  intros Hs H1 H2 Hin.
  apply (proj1 (proj2 (flow_invariant _ _ _ H2))).
  apply (facts_monotone ops1 ops2 Hs).
  apply (proj1 (proj2 (flow_invariant _ _ _ H1))). exact Hin.
Qed.

(** Entering the body state with a close-delimited reader makes every later state of the
    exchange must-close. *)
Lemma close_delimited_never_reused ops1 ops2 f f' :
  s_obj (run_ops s_init ops1) = ObFlow TRecvResponse f ->
  recv_response_proceed f = Ok (Some (TRecvBody, f')) ->
  reader_close_of f' = true ->
  same_exchange ops2 = true ->
  forall t f2, s_obj (run_ops s_init (ops1 ++ OProceed :: ops2)) = ObFlow t f2 ->
               cdl (facts_of (ops1 ++ OProceed :: ops2)) = true /\ must_close f2 = true.
Proof.
  intros Ho Hp Hc Hs t f2 H2.
  assert (Hcdl : cdl (facts_of (ops1 ++ OProceed :: ops2)) = true).
  { change (OProceed :: ops2) with ([OProceed] ++ ops2). rewrite app_assoc.
    apply (facts_monotone (ops1 ++ [OProceed]) ops2 Hs CloseDelimitedBody).
    rewrite facts_of_app. unfold grun. cbn [fold_left fst snd fact_holds].
    unfold gstep. rewrite Ho, Hp, Hc. cbn. apply orb_true_r. }
  split; [exact Hcdl|].
  rewrite (verdict_of_inv _ _ (flow_invariant _ _ _ H2)). rewrite Hcdl. apply orb_true_r.
Qed.

(* ------------------------------------------------------------------ demo histories *)

Definition demo_uri : uri := {| u_scheme := s2b "http"; u_auth := s2b "a.test"; u_pq := s2b "/x" |}.

(** HTTP/1.1 POST with Expect, refused by a 403 with Connection: close and no framing. *)
Definition demo_refused_head : bytes :=
  s2b "HTTP/1.1 403 Forbidden" ++ CRLF ++ s2b "Connection: close" ++ CRLF ++ CRLF.

Definition demo_refused : list op :=
  [ONew {| rq_method := POST; rq_version := V11; rq_uri := demo_uri;
           rq_headers := [(s2b "expect", s2b "100-continue")] |};
   OProceed; OWriteHead 1000; OProceed;
   ORawTry100 demo_refused_head; OProceed;
   ORawTryResponse demo_refused_head; OProceed; OProceed].

(** HTTP/1.1 GET answered by a 200 with Content-Length: 0: reusable. *)
Definition demo_keepalive : list op :=
  [ONew {| rq_method := GET; rq_version := V11; rq_uri := demo_uri; rq_headers := [] |};
   OProceed; OWriteHead 1000; OProceed;
   ORawTryResponse (s2b "HTTP/1.1 200 OK" ++ CRLF ++ s2b "Content-Length: 0" ++ CRLF ++ CRLF);
   OProceed].

(** HTTP/1.0 GET with Connection: close, redirected (302, empty body) and followed. *)
Definition demo_redirect : list op :=
  [ONew {| rq_method := GET; rq_version := V10; rq_uri := demo_uri;
           rq_headers := [(s2b "connection", s2b "close")] |};
   OProceed; OWriteHead 1000; OProceed;
   ORawTryResponse (s2b "HTTP/1.1 302 Found" ++ CRLF ++ s2b "Location: /y" ++ CRLF
                    ++ s2b "Content-Length: 0" ++ CRLF ++ CRLF);
   OProceed].

Definition final_view (ops : list op) : option (tag * list reason * bool * option bytes) :=
  match s_obj (run_ops s_init ops) with
  | ObFlow t f => Some (t, i_reasons f, must_close f, close_reason f)
  | _ => None
  end.

(* ------------------------------------------------------------------ further corollaries *)

(** One more operation: the facts move by [gstep] from the state the history reached. *)
Lemma facts_step ops o : facts_of (ops ++ [o]) = gstep (run_ops s_init ops) (facts_of ops) o.
Proof. rewrite facts_of_app. reflexivity. Qed.

Lemma next_invariant ops n :
  s_next (run_ops s_init ops) = Some n -> flow_inv (facts_base (facts_of ops)) n.
Proof. intros H. exact (proj2 (invariant ops) n H). Qed.

(** The flow made by [as_new_flow] starts from the two facts of the original request only. *)
Lemma new_flow_fresh f p f' n :
  as_new_flow f p = Ok (f', Some n) ->
  exists orig nm nf,
    freq f = Some orig /\ flow_new (rebuilt orig nm) = Ok nf /\ i_reasons n = i_reasons nf /\
    freq n = Some (rebuilt orig nm) /\ NoDup (i_reasons n) /\
    (forall x, In x (i_reasons n) <->
               (x = Http10 /\ rq_version orig = V10) \/
               (x = ClientConnectionClose /\
                headers_has (rq_headers orig) (s2b "connection") (s2b "close") = true)) /\
    i_reasons f' = i_reasons f.
Proof.
  intros H. destruct (as_new_flow_spec f p f' (Some n) H) as (Hr & _ & orig & nm & nf & Ho & Hnf & Hrn & Hq).
  exists orig, nm, nf. repeat (split; [assumption|]).
  destruct (new_spec (rebuilt orig nm)) as (nf' & Hnf' & Hnd & Hin & _).
  rewrite Hnf in Hnf'. inversion Hnf'; subst nf'. rewrite Hrn.
  split; [exact Hnd|]. split; [exact Hin|exact Hr].
Qed.

(** What the script observes with [q_must_close] in the two final states. *)
Lemma verdict_observed ops t f :
  s_obj (run_ops s_init ops) = ObFlow t f -> t = TRedirect \/ t = TCleanup ->
  snd (step (run_ops s_init ops) OQMustClose) =
  obs_bool (h10 (facts_of ops) || ccl (facts_of ops) || scl (facts_of ops) || n100 (facts_of ops)
            || cdl (facts_of ops)).
Proof.
  intros Ho Ht. rewrite <- (verdict_of_inv _ _ (flow_invariant ops t f Ho)).
  unfold step. rewrite Ho. destruct Ht as [-> | ->]; reflexivity.
Qed.
