(** The tests behind the can_proceed functions of the sending and response states (src/client/call.rs, src/client/flow.rs),
    translated (Gen2.v), against the model: Phase::is_prelude / is_body, Call<WithoutBody>::is_finished, Call<WithBody>::is_finished,
    Call<RecvResponse>::is_finished and into_body, the guard of do_into_receive, Flow<SendRequest>::can_proceed. *)
From Coq Require Import NArith Bool List String.
From Hoot Require Import Base Chunk Body Request Call Flow GenLib Gen Gen2.
Open Scope N_scope.

Theorem gen_phase_is_prelude_eq p : gen_phase_is_prelude p = is_prelude p.
Proof. destruct p; reflexivity. Qed.
Theorem gen_phase_is_body_eq p : gen_phase_is_body p = is_body p.
Proof. destruct p; reflexivity. Qed.

Theorem gen_call_wob_is_finished_eq c : gen_call_wob_is_finished (c_phase c) = negb (is_prelude (c_phase c)).
Proof. destruct (c_phase c); reflexivity. Qed.

Theorem gen_call_wb_is_finished_eq c :
  gen_call_wb_is_finished (w_mode (c_writer c)) (w_ended (c_writer c)) = w_ended (c_writer c).
Proof. destruct (w_ended (c_writer c)), (w_mode (c_writer c)); reflexivity. Qed.

Theorem gen_call_rr_is_finished_eq c :
  gen_call_rr_is_finished (c_reader c) = match c_reader c with Some _ => true | None => false end.
Proof. destruct (c_reader c); reflexivity. Qed.

(** The conversion to the receiving call is refused exactly while the body writer has not ended: the model's [into_receive]. *)
Theorem gen_do_into_receive_eq c :
  match into_receive c with
  | Ok _ => gen_do_into_receive (w_mode (c_writer c)) (w_ended (c_writer c)) = Ok (w_mode (c_writer c), w_ended (c_writer c), tt)
  | Err e => gen_do_into_receive (w_mode (c_writer c)) (w_ended (c_writer c)) = Err e
  | Panic _ => False
  end.
Proof.
  unfold into_receive, gen_do_into_receive, gen_bw_is_ended. destruct (w_ended (c_writer c)); reflexivity.
Qed.

(** Call<RecvResponse>::into_body: no response yet is an error; a response without a body ends the call; otherwise the body call. *)
Theorem gen_call_into_body_table r :
  gen_call_into_body r =
  match r with
  | None => Err IncompleteResponse
  | Some RNoBody => Ok None
  | Some _ => Ok (Some tt)
  end.
Proof. destruct r as [[| | |]|]; reflexivity. Qed.

(** Flow<SendRequest>::can_proceed, on what it sees of the holder. *)
Definition holder_view_of (f : inner) : holder_view :=
  match i_holder f with
  | HWithoutBody => HvWithoutBody (c_phase (i_call f))
  | HWithBody => HvWithBody (c_phase (i_call f))
  | _ => HvOther
  end.

Theorem gen_send_request_can_proceed_eq f :
  match send_request_can_proceed f, gen_send_request_can_proceed (holder_view_of f) with
  | Ok a, Ok b => a = b
  | Panic _, Panic _ => True
  | _, _ => False
  end.
Proof.
  unfold send_request_can_proceed, gen_send_request_can_proceed, holder_view_of.
  destruct (i_holder f); try exact I.
  - destruct (c_phase (i_call f)); reflexivity.
  - destruct (c_phase (i_call f)); reflexivity.
Qed.
