(** C08: length- and close-delimited response bodies arrive verbatim, never over-read. *)
From Coq Require Import Lia ZArith.
From Hoot Require Import Base Chunk Body Parser Request Call Flow.
From Hoot.proofs Require Import BytesLemmas Reasons.
Open Scope N_scope.

(** One read on a length-delimited body. *)
Lemma read_length c lft win cap :
  c_reader c = Some (RLength lft) ->
  call_read c win cap =
    let n := N.min (N.min (len win) cap) lft in
    Ok (set_reader c (Some (RLength (lft - n))), n, take n win).
Proof.
  intros Hr. unfold call_read. rewrite Hr. cbn [reader_is_ended].
  destruct (N.eqb_spec lft 0) as [->|Hl].
  - cbv zeta. rewrite N.min_0_r. rewrite take_0. cbn.
    f_equal. f_equal. f_equal. destruct c; cbn in *; subst; reflexivity.
  - cbn [reader_read bind]. reflexivity.
Qed.

Lemma read_close c win cap :
  c_reader c = Some RClose ->
  call_read c win cap = let n := N.min (len win) cap in Ok (set_reader c (Some RClose), n, take n win).
Proof. intros Hr. unfold call_read. rewrite Hr. cbn. reflexivity. Qed.

(** Schedules: each read sees the first [k] unconsumed bytes of the stream (whatever has arrived;
    the caller re-presents unconsumed bytes) and offers [cap] bytes of output space. *)
Record rtrace := { r_call : call; r_consumed : N; r_delivered : bytes }.

Definition rstep (stream : bytes) (t : rtrace) (o : N * N) : rtrace :=
  let win := take (fst o) (drop (r_consumed t) stream) in
  match call_read (r_call t) win (snd o) with
  | Ok (c', i, out) =>
      {| r_call := c'; r_consumed := r_consumed t + i; r_delivered := r_delivered t ++ out |}
  | _ => t
  end.

Definition rrun (stream : bytes) (t : rtrace) (sched : list (N * N)) : rtrace :=
  fold_left (rstep stream) sched t.

Definition rstart (c : call) : rtrace := {| r_call := c; r_consumed := 0; r_delivered := [] |}.

Lemma take_snoc_window (stream : bytes) (consumed n k : N) :
  n <= len (take k (drop consumed stream)) ->
  take consumed stream ++ take n (take k (drop consumed stream)) = take (consumed + n) stream.
Proof.
  intros Hn. rewrite take_take. rewrite len_take in Hn.
  replace (N.min n k) with n by lia. symmetry. apply take_add.
Qed.

Definition InvLen (stream : bytes) (total : N) (t : rtrace) : Prop :=
  exists lft,
    c_reader (r_call t) = Some (RLength lft) /\
    r_consumed t + lft = total /\
    r_delivered t = take (r_consumed t) stream.

Lemma invlen_step stream total t o : InvLen stream total t -> InvLen stream total (rstep stream t o).
Proof.
  intros (lft & Hr & Hacc & Hd). unfold rstep.
  rewrite (read_length _ _ _ _ Hr). cbv zeta.
  set (win := take (fst o) (drop (r_consumed t) stream)).
  set (n := N.min (N.min (len win) (snd o)) lft).
  exists (lft - n). cbn [r_call r_consumed r_delivered]. split; [reflexivity|]. split; [lia|].
  rewrite Hd. apply take_snoc_window. fold win. lia.
Qed.

Lemma invlen_run stream total sched : forall t, InvLen stream total t -> InvLen stream total (rrun stream t sched).
Proof.
  induction sched as [|o sched IH]; intros t H; cbn [rrun fold_left]; [exact H|].
  apply IH. apply invlen_step. exact H.
Qed.

Lemma invlen_start stream total c :
  c_reader c = Some (RLength total) -> InvLen stream total (rstart c).
Proof. intros H. exists total. cbn. rewrite take_0. auto. Qed.

Definition InvClose (stream : bytes) (t : rtrace) : Prop :=
  c_reader (r_call t) = Some RClose /\ r_delivered t = take (r_consumed t) stream.

Lemma invclose_step stream t o : InvClose stream t -> InvClose stream (rstep stream t o).
Proof.
  intros (Hr & Hd). unfold rstep. rewrite (read_close _ _ _ Hr). cbv zeta.
  split; [reflexivity|]. cbn [r_consumed r_delivered]. rewrite Hd. apply take_snoc_window. lia.
Qed.

Lemma invclose_run stream sched : forall t, InvClose stream t -> InvClose stream (rrun stream t sched).
Proof.
  induction sched as [|o sched IH]; intros t H; cbn [rrun fold_left]; [exact H|].
  apply IH. apply invclose_step. exact H.
Qed.

(** Entering the body state with a close-delimited reader records the close reason. *)
Lemma close_delimited_marks f :
  i_holder f = HRecvResponse -> c_reader (i_call f) = Some RClose -> NoDup (i_reasons f) ->
  exists f', recv_response_proceed f = Ok (Some (TRecvBody, f')) /\
             In CloseDelimitedBody (i_reasons f') /\ must_close f' = true /\
             c_reader (i_call f') = Some RClose /\ i_holder f' = HRecvBody.
Proof.
  intros Hh Hr Hnd. unfold recv_response_proceed, recv_response_can_proceed, as_recv_response.
  rewrite Hh. cbn [bind]. rewrite Hr. cbn [negb].
  unfold need_response_body. rewrite Hr. cbn [set_phase c_reader reader_is_close].
  destruct (add_reason_ok (i_reasons f) CloseDelimitedBody Hnd) as (rs' & Ha & _ & Hin & _).
  rewrite Ha. rewrite Hr. cbn [reader_is_close bind]. eexists. split; [reflexivity|]. cbn.
  split; [exact Hin|]. split; [|auto]. unfold must_close. cbn.
  destruct rs'; [destruct Hin|reflexivity].
Qed.
