(** Transport lemmas, non-chunked readers only. *)
From Coq Require Import Lia.
From Hoot Require Import Base Chunk Body GenLib Gen Gen2.
From Hoot.proofs Require Import BytesLemmas Gen2_equiv_rel Gen2_equiv_reader.
Open Scope N_scope.

Lemma gen_read_nc_ok_of_model : forall r src dst stop r' i out,
  (forall d, r <> RChunked d) -> limit_fits r src dst ->
  reader_read r src (len dst) stop = Ok (r', i, out) ->
  gen_br_read r src dst stop = Ok (r', out ++ drop (len out) dst, (i, len out)).
Proof.
  intros r src dst stop r' i out Hnc Hf Hm.
  pose proof (gen_br_read_nonchunked_equiv r src dst stop Hnc Hf) as H. rewrite Hm in H. unfold rd_rel in H.
  destruct (gen_br_read r src dst stop) as [[[r1 d1] [i1 o1]]|e|s]; try contradiction.
  destruct H as (-> & -> & -> & ->). reflexivity.
Qed.
