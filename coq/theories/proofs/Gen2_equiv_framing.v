(** (response framing, src/body.rs [BodyReader::header_defined] / [BodyReader::for_response], src/util.rs
    [compare_lowercase_ascii], src/chunk.rs [Dechunker::new]) The functions translated from the Rust sources by
    tools/rs2coq2.py (theories/Gen2.v, regenerated on every run) equal the corresponding functions of the hand-written model
    (theories/Body.v), for ALL arguments: every header lookup closure, method, status code, HTTP version flag.

    The proofs are written to survive harmless rewrites of the Rust code.  Both sides are unfolded; the header lookups, the
    method and the outcome of the header analysis are generalised / destructed (terms which only the statement fixes);
    the generated [existsb] over the transfer-encoding list is recognised by the function it mentions, not by its shape;
    a [match] of the status code against numerals is turned into equality tests by walking its decision tree; what is left
    is an equation between boolean combinations of comparisons, closed by [btauto] / [lia] / exhaustive case analysis. *)
From Coq Require Import NArith ZArith Bool List Btauto Lia ZifyBool ZifyN.
From Hoot Require Import Base Chunk Body Url Request GenLib Gen Gen2.
From Hoot.proofs Require Import BytesLemmas Gen2_equiv_cmp.
Open Scope N_scope.

(** ** Tactics *)

(** Simplify decided boolean connectives (a decided disjunction / conjunction does not look at its other operand). *)


(** ** 1. compare_lowercase_ascii *)

(** The model's simultaneous recursion is "same length, and the loop over the zipped lists succeeds". *)


(** ** 2. Dechunker::new *)

Lemma gen_dech_new_eq : gen_dech_new = DSize.
Proof. reflexivity. Qed.

(** ** 3. header_defined *)

(** Whatever way the generated code spells "some element of the comma separated list, trimmed, is chunked": an [existsb]
    whose predicate mentions the generated comparison, over the split list or over the [map] of a function over it. *)
Lemma te_has_chunked_gen (f : bytes -> bool) (g : bytes -> bytes) v :
  (forall e, f (g e) = cmp_lower (trim e) (s2b "chunked")) ->
  existsb f (map g (split_on 44 v [])) = te_has_chunked v.
Proof.
  intros H. unfold te_has_chunked. rewrite existsb_map_compose. apply existsb_ext_all. exact H.
Qed.

Lemma te_has_chunked_gen_nomap (f : bytes -> bool) v :
  (forall e, f e = cmp_lower (trim e) (s2b "chunked")) ->
  existsb f (split_on 44 v []) = te_has_chunked v.
Proof. intros H. unfold te_has_chunked. apply existsb_ext_all. exact H. Qed.

Ltac fold_te_has_chunked :=
  repeat match goal with
         | |- context [existsb ?f (map ?g (split_on 44 ?v []))] =>
             lazymatch f with context [gen_compare_lowercase_ascii] => idtac
                            | _ => lazymatch g with context [gen_compare_lowercase_ascii] => idtac end end;
             rewrite (te_has_chunked_gen f g v)
               by (intros; cbv beta; rewrite ?gen_compare_lowercase_ascii_eq; reflexivity)
         | |- context [existsb ?f (split_on 44 ?v [])] =>
             lazymatch f with context [gen_compare_lowercase_ascii] => idtac end;
             rewrite (te_has_chunked_gen_nomap f v)
               by (intros; cbv beta; rewrite ?gen_compare_lowercase_ascii_eq; reflexivity)
         end.

Lemma gen_br_header_defined_eq : forall http10 lk,
  gen_br_header_defined http10 lk =
  header_defined http10 (lk (s2b "content-length")) (lk (s2b "transfer-encoding")).
Proof.
  intros http10 lk.
  unfold gen_br_header_defined, header_defined, bind, all_digits. rewrite ?gen_dech_new_eq.
  generalize (lk (s2b "content-length")) (lk (s2b "transfer-encoding")); intros cl te.
  cbv beta zeta.
  destruct cl as [cl|]; destruct te as [te|]; cbv beta iota; bool_simpl;
    fold_te_has_chunked;
    repeat (try reflexivity; break_step); try reflexivity; try congruence.
Qed.

(** ** 4. for_response *)

(** A [match] of a number against numerals, as an equality test: walk the decision tree of the match. *)
Ltac walk_numeral_match :=
  repeat (cbv beta iota;
          match goal with
          | |- context [match ?q with _ => _ end] => is_var q; destruct q
          end);
  cbv beta iota; reflexivity.

(** Every [match st with <numerals> => .. end] of the goal which is one of the tests the model makes on the status. *)
Ltac status_match_to_eqb st :=
  repeat match goal with
         | |- context [?t] =>
             lazymatch t with
             | match st with N0 => _ | Npos _ => _ end => idtac
             end;
             let H := fresh "Hst" in
             first [ assert (H : t = ((st =? 204) || (st =? 304))%bool) by (clear; walk_numeral_match)
                   | assert (H : t = (st =? 204)) by (clear; walk_numeral_match)
                   | assert (H : t = (st =? 304)) by (clear; walk_numeral_match)
                   | assert (H : t = negb ((st =? 204) || (st =? 304))%bool) by (clear; walk_numeral_match)
                   | assert (H : t = negb (st =? 204)) by (clear; walk_numeral_match)
                   | assert (H : t = negb (st =? 304)) by (clear; walk_numeral_match) ];
             rewrite H; clear H
         end.

Lemma gen_br_for_response_eq : forall http10 m status lk,
  gen_br_for_response http10 m status lk =
  for_response http10 (method_eqb m HEAD) (method_eqb m CONNECT) status
               (lk (s2b "content-length")) (lk (s2b "transfer-encoding")).
Proof.
  intros http10 m status lk.
  unfold gen_br_for_response, for_response. cbv zeta. rewrite !gen_br_header_defined_eq.
  generalize (lk (s2b "content-length")) (lk (s2b "transfer-encoding")); intros cl te.
  unfold bind. destruct (header_defined http10 cl te) as [hd|e|s]; [|reflexivity|reflexivity].
  cbv beta zeta.
  status_match_to_eqb status.
  destruct cl as [cl|]; destruct te as [te|]; cbv beta iota;
    destruct m; cbn [method_eqb]; bool_simpl;
    first [ reflexivity | if_cond_eq | bool_cases ].
Qed.

Print Assumptions gen_dech_new_eq.
Print Assumptions te_has_chunked_gen.
Print Assumptions te_has_chunked_gen_nomap.
Print Assumptions gen_br_header_defined_eq.
Print Assumptions gen_br_for_response_eq.
