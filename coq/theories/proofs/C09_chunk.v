(** C09 (auxiliary): the chunked decoder never panics and never runs out of fuel on ANY input, from
    every state other than the transient Trailer state, and it never hands back the Trailer state.
    (The Trailer state only exists inside one [parse_input] call, right after Ending has seen a
    non-empty line in the very same window, which is why [assert!(i > 0)] cannot fire.) *)
From Coq Require Import Lia ZArith.
From Hoot Require Import Base Chunk Body.
From Hoot.proofs Require Import BytesLemmas.
Open Scope N_scope.

Lemma find_crlf_aux_bound b : forall k i, find_crlf_aux b k = Some i -> k <= i /\ i + 2 <= k + len b.
Proof.
  induction b as [|c t IH]; intros k i H; cbn [find_crlf_aux] in H; [discriminate|].
  rewrite len_cons.
  destruct (c =? 13).
  - destruct t as [|d t']; [discriminate|]. destruct (d =? 10); [|discriminate].
    inversion H; subst. rewrite len_cons. lia.
  - apply IH in H. lia.
Qed.

Lemma find_crlf_bound src i : find_crlf src = Some i -> i + 2 <= len src.
Proof. intros H. apply find_crlf_aux_bound in H. lia. Qed.

(** What the Trailer state needs of its window. *)
Definition trailer_ok (d : dechunker) (src : bytes) : Prop :=
  d = DTrailer -> exists i, find_crlf src = Some i /\ i <> 0.

Definition mu (d : dechunker) (k : N) : N := 2 * k + match d with DTrailer => 0 | _ => 1 end.

Lemma dech_step_safe d src room :
  trailer_ok d src ->
  match dech_step d src room with
  | Panic _ => False
  | Err _ => True
  | Ok r =>
      if sr_more r
      then trailer_ok (sr_st r) (drop (sr_in r) src) /\
           mu (sr_st r) (len (drop (sr_in r) src)) < mu d (len src)
      else sr_st r <> DTrailer
  end.
Proof.
  intros Hpre. destruct d; cbn [dech_step].
  - (* Size *)
    unfold read_size. destruct (find_crlf src) as [i|] eqn:Ef; [|cbn; discriminate].
    destruct (SANITY_CHECK <? i); [exact I|].
    destruct (negb _); [exact I|].
    destruct (parse_hex_usize _) as [n|]; [|exact I].
    cbn [sr_more sr_st sr_in]. apply find_crlf_bound in Ef. rewrite len_drop. split.
    + intros E. destruct (n =? 0); discriminate.
    + unfold mu. destruct (n =? 0); lia.
  - (* Chunk *)
    unfold read_data. cbn [sr_more sr_st sr_in].
    destruct (N.ltb_spec 0 (N.min (N.min (len src) room) lft)) as [Hp|Hp].
    + rewrite len_drop. split.
      * intros E. destruct (_ =? 0); discriminate.
      * unfold mu. destruct (_ =? 0); lia.
    + destruct (_ =? 0); discriminate.
  - (* CrLf *)
    unfold expect_crlf. destruct (find_crlf src) as [i|]; [|cbn; discriminate].
    destruct (0 <? i); [exact I|]. cbn. discriminate.
  - (* Ending *)
    unfold trailer_or_ended. destruct (find_crlf src) as [i|] eqn:Ef; [|cbn; discriminate].
    destruct (N.eqb_spec i 0) as [E|E]; cbn [sr_more sr_st sr_in].
    + apply find_crlf_bound in Ef. rewrite len_drop. split; [intros; discriminate|unfold mu; lia].
    + rewrite drop_0. split; [|unfold mu; lia]. intros _. exists i. split; assumption.
  - (* Trailer *)
    destruct (Hpre eq_refl) as (i & Ef & Hi). unfold trailer. rewrite Ef.
    destruct (N.eqb_spec i 0) as [E|E]; [congruence|]. cbn [sr_more sr_st sr_in].
    apply find_crlf_bound in Ef. rewrite len_drop. split; [intros; discriminate|unfold mu; lia].
  - cbn. discriminate.
Qed.

Lemma parse_loop_safe : forall fuel d src room used out,
  trailer_ok d src -> mu d (len src) < N.of_nat fuel ->
  match parse_input_loop fuel d src room used out with
  | Panic _ => False
  | Err _ => True
  | Ok (d', _, _) => d' <> DTrailer
  end.
Proof.
  induction fuel as [|fuel IH]; intros d src room used out Hpre Hmu; [lia|].
  cbn [parse_input_loop].
  pose proof (dech_step_safe d src room Hpre) as Hs.
  destruct (dech_step d src room) as [r|e|s]; cbn [bind]; [|exact I|exact Hs].
  destruct (sr_more r).
  - destruct Hs as [Hp Hm]. apply IH; [exact Hp|lia].
  - exact Hs.
Qed.

Lemma parse_input_safe d src room :
  d <> DTrailer ->
  match parse_input d src room with
  | Panic _ => False
  | Err _ => True
  | Ok (d', _, _) => d' <> DTrailer
  end.
Proof.
  intros Hd. unfold parse_input. apply parse_loop_safe.
  - intros E. congruence.
  - unfold mu. rewrite len_length. destruct d; lia.
Qed.

Lemma read_loop_safe : forall fuel d src room stop used out,
  d <> DTrailer -> len src < N.of_nat fuel ->
  match read_chunked_loop fuel d src room stop used out with
  | Panic _ => False
  | Err _ => True
  | Ok (d', _, _) => d' <> DTrailer
  end.
Proof.
  induction fuel as [|fuel IH]; intros d src room stop used out Hd Hf; [lia|].
  cbn [read_chunked_loop].
  pose proof (parse_input_safe d src room Hd) as Hs.
  destruct (parse_input d src room) as [[[d' i] o]|e|s]; cbn [bind]; [|exact I|exact Hs].
  destruct (N.eqb_spec i 0) as [Ei|Ei]; cbn [orb]; [exact Hs|].
  destruct (N.eqb_spec (len (drop i src)) 0) as [El|El]; cbn [orb]; [exact Hs|].
  destruct (room - len o =? 0); [exact Hs|].
  destruct (dech_is_ended d'); [exact Hs|].
  destruct (stop && is_on_chunk_boundary d'); [exact Hs|].
  apply IH; [exact Hs|]. rewrite len_drop in *. lia.
Qed.

Lemma read_chunked_safe d src room stop :
  d <> DTrailer ->
  match read_chunked d src room stop with
  | Panic _ => False
  | Err _ => True
  | Ok (d', _, _) => d' <> DTrailer
  end.
Proof.
  intros Hd. unfold read_chunked. apply read_loop_safe; [exact Hd|]. rewrite len_length. lia.
Qed.

(** The body reader as a whole. *)
Lemma reader_read_safe r src room stop :
  r <> RChunked DTrailer ->
  match reader_read r src room stop with
  | Panic _ => False
  | Err _ => True
  | Ok (r', _, _) => r' <> RChunked DTrailer
  end.
Proof.
  intros Hr. destruct r as [|lft|d|]; cbn [reader_read]; try discriminate.
  assert (Hd : d <> DTrailer) by congruence.
  pose proof (read_chunked_safe d src room stop Hd) as Hs.
  destruct (read_chunked d src room stop) as [[[d' i] o]|e|s]; cbn [bind]; [|exact I|exact Hs].
  congruence.
Qed.
