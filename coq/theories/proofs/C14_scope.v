(** C14: the flow-level theorems restated with their domain of validity -- Locations of the grammar
    (C14_grammar.v).  Outside it the model is not claimed to be faithful to the url crate. *)
From Coq Require Import Lia ZArith List.
From Hoot Require Import Base Chunk Body Httparse Parser Url Request Call Flow.
From Hoot.proofs Require Import BytesLemmas C17_proofs C02_proofs C02_analysis.
From Hoot.proofs Require Import C14_proofs C14_spec C14_grammar C14_rfc C14_rds C14_resolve C14_more
                                C14_ingrammar C14_origin.
Open Scope N_scope.

(* ------------------------------------------------------------------ authority bytes *)

(** An authority made of host bytes and ":" only (no SP, control, "@", "[", "%", non-ASCII). *)
Definition auth_wellformed (u : uri) : Prop := forall b, In b (u_auth u) -> g_auth_byte b = true.

Lemma auth_byte_lower b : g_auth_byte b = true -> g_auth_byte (to_lower b) = true.
Proof.
  unfold to_lower. destruct (is_upper b) eqn:E; [|auto]. intros _.
  unfold is_upper in E. apply andb_true_iff in E. destruct E as [E1 E2]. apply N.leb_le in E1, E2.
  unfold g_auth_byte, g_host_char, is_alpha, is_lower.
  replace ((97 <=? b + 32) && (b + 32 <=? 122)) with true
    by (symmetry; apply andb_true_iff; split; apply N.leb_le; lia).
  rewrite orb_true_r. reflexivity.
Qed.

Lemma digit_auth_byte b : is_digit b = true -> g_auth_byte b = true.
Proof. intros H. unfold g_auth_byte, g_host_char. rewrite H. rewrite !orb_true_r. reflexivity. Qed.

Lemma canonical_digits_digits p : forallb is_digit p = true -> forallb is_digit (canonical_digits p) = true.
Proof.
  intros H. unfold canonical_digits. pose proof (strip_zeros_digits p H) as K.
  destruct (strip_zeros p); [reflexivity|exact K].
Qed.

Lemma norm_auth_bytes s a x :
  norm_auth s a = Some x -> (forall b, In b a -> g_auth_byte b = true) ->
  forall b, In b x -> g_auth_byte b = true.
Proof.
  rewrite norm_auth_spec. destruct (span (not_in [58]) a) as [host rest] eqn:E.
  destruct (span_spec _ _ _ _ E) as (Ha & _ & _).
  destruct (is_nil host); [discriminate|].
  destruct (normal_port_suffix s rest) as [port|] eqn:Ep; [|discriminate].
  intros H Hall b Hb. inversion H; subst x; clear H.
  apply in_app_or in Hb. destruct Hb as [Hb|Hb].
  - unfold lower in Hb. apply in_map_iff in Hb. destruct Hb as (c & <- & Hc).
    apply auth_byte_lower. apply Hall. rewrite Ha. apply in_or_app. left. exact Hc.
  - unfold normal_port_suffix in Ep. destruct rest as [|c p]; [inversion Ep; subst; contradiction|].
    destruct (is_nil p); [inversion Ep; subst; contradiction|].
    destruct (forallb is_digit p) eqn:Hd; cbn [andb] in Ep; [|discriminate].
    destruct (digits_value p <? 65536); [|discriminate].
    assert (K : port = [] \/ port = 58 :: canonical_digits p).
    { destruct (scheme_default_port s) as [d|]; [destruct (digits_value p =? d)|];
        inversion Ep; auto. }
    destruct K as [->| ->]; [contradiction|].
    destruct Hb as [<-|Hb]; [reflexivity|].
    apply digit_auth_byte. revert Hb. apply forallb_forall. apply canonical_digits_digits. exact Hd.
Qed.

Lemma g_authority_bytes a : g_authority a = true -> forall b, In b a -> g_auth_byte b = true.
Proof.
  unfold g_authority. destruct (span (not_in [58]) a) as [host rest] eqn:E.
  destruct (span_spec _ _ _ _ E) as (Ha & _ & Hr).
  intros H. apply andb_true_iff in H. destruct H as [H Hp]. apply andb_true_iff in H. destruct H as [_ Hh].
  intros b Hb. rewrite Ha in Hb. apply in_app_or in Hb. destruct Hb as [Hb|Hb].
  - unfold g_auth_byte. rewrite (proj1 (forallb_forall _ _) Hh b Hb). reflexivity.
  - destruct rest as [|c p]; [contradiction|].
    rewrite not_in_1 in Hr. apply negb_false_iff in Hr. apply N.eqb_eq in Hr. subst c.
    destruct Hb as [<-|Hb]; [reflexivity|].
    apply digit_auth_byte. revert Hb. apply forallb_forall. exact Hp.
Qed.

(** The authority of the target of a Location of the grammar is well-formed if the base's is. *)
Lemma resolve_auth_wellformed base loc t :
  loc_in_grammar loc = true -> auth_wellformed base -> resolve base loc = Some t -> auth_wellformed t.
Proof.
  intros Hg Hb Hr. pose proof (resolve_origin_in_grammar _ _ _ Hg Hr) as Ho.
  destruct (in_grammar_parts _ Hg) as (_ & _ & Hs).
  unfold g_origin_of in Ho. unfold g_shape, g_net_path in Hs.
  destruct (is_prefix (s2b "http://") (lower (g_ref_part loc))).
  - destruct Ho as [_ Ho]. intros b. eapply norm_auth_bytes; [exact Ho|]. apply g_authority_bytes. exact Hs.
  - destruct (is_prefix (s2b "https://") (lower (g_ref_part loc))).
    + destruct Ho as [_ Ho]. intros b. eapply norm_auth_bytes; [exact Ho|]. apply g_authority_bytes. exact Hs.
    + destruct (is_prefix (s2b "//") (g_ref_part loc)).
      * destruct Ho as [_ Ho]. intros b. eapply norm_auth_bytes; [exact Ho|]. apply g_authority_bytes. exact Hs.
      * destruct Ho as [_ Ho]. intros b. eapply norm_auth_bytes; [exact Ho|]. exact Hb.
Qed.

Lemma g_auth_byte_range b : g_auth_byte b = true -> 45 <= b <= 122 /\ b <> 64 /\ b <> 91 /\ b <> 92 /\ b <> 93.
Proof.
  unfold g_auth_byte, g_host_char, is_alpha, is_upper, is_lower, is_digit.
  rewrite !orb_true_iff, !andb_true_iff, !N.leb_le, !N.eqb_eq. lia.
Qed.

(* ------------------------------------------------------------------ outcomes, on the grammar *)

(** [as_new_flow] in the Redirect state for a Location of the grammar: it is text, so the only
    errors are a scheme-less current URI and an unresolvable target (on the grammar: a port above
    65535, [unresolvable_in_grammar]); a flow is produced only for the resolved URI, whose scheme
    and authority are those of the grammar class ("never a request to a wrong origin"). *)
Lemma as_new_flow_outcomes_in_grammar f p loc :
  redirect_state f -> i_location f = Some loc -> loc_in_grammar loc = true ->
  ((u_scheme (cur_uri f) = [] \/ resolve (cur_uri f) loc = None) /\
   as_new_flow f p = Err BadLocationHeader)
  \/
  (u_scheme (cur_uri f) <> [] /\
   exists target, resolve (cur_uri f) loc = Some target /\
     match g_origin_of loc with
     | GAbsolute s a => u_scheme target = s /\ norm_auth s a = Some (u_auth target)
     | GSchemeRelative a =>
         u_scheme target = lower (u_scheme (cur_uri f)) /\
         norm_auth (lower (u_scheme (cur_uri f))) a = Some (u_auth target)
     | GSameOrigin =>
         u_scheme target = lower (u_scheme (cur_uri f)) /\
         norm_auth (lower (u_scheme (cur_uri f))) (u_auth (cur_uri f)) = Some (u_auth target)
     end /\
     (as_new_flow f p = Ok (f, None) \/
      exists f' next, as_new_flow f p = Ok (f', Some next) /\ cur_uri next = target)).
Proof.
  intros Hr Hl Hg.
  destruct (as_new_flow_outcomes_all f p Hr) as [[Hn _]|(loc' & Hl' & H)]; [congruence|].
  assert (loc' = loc) by congruence. subst loc'.
  destruct H as [([H|[H|H]] & He)|(Ht & Hu & target & Hres & H)].
  - rewrite (in_grammar_text _ Hg) in H. discriminate.
  - left. split; [left; exact H|exact He].
  - left. split; [right; exact H|exact He].
  - right. split; [exact Hu|]. exists target. split; [exact Hres|]. split; [|exact H].
    apply resolve_origin_in_grammar; assumption.
Qed.

(* ------------------------------------------------------------------ the next head, on the grammar *)

(** The request line of the next hop for a Location of the grammar and a well-formed current URI:
    method SP target SP version CRLF where the target is non-empty and consists of URI bytes only
    (visible ASCII without SP, so the line has exactly two SP and no stray CR / LF); the Host value
    (outside the known class F14) is the host part of a well-formed authority. *)
Lemma next_wire_in_grammar f p f' next g c' loc :
  as_new_flow f p = Ok (f', Some next) -> i_location f = Some loc -> loc_in_grammar loc = true ->
  pq_wellformed (cur_uri f) -> auth_wellformed (cur_uri f) ->
  prepared next g -> analyze_request (i_call g) = Ok c' ->
  let target := cur_uri next in
  prelude_line (c_req c') =
    method_name (am_method (c_req (i_call next))) ++ [32] ++ u_pq target ++ [32] ++
    version_name (am_version (c_req (i_call f))) ++ CRLF /\
  u_pq target <> [] /\
  (forall b, In b (u_pq target) ->
     33 <= b <= 126 /\ ~ In b [34; 35; 60; 62; 91; 92; 93; 94; 96; 123; 124; 125]) /\
  pq_wellformed target /\ auth_wellformed target /\
  (get_all (rq_headers (am_request (c_req (i_call f)))) (s2b "host") = [] ->
   get_all (am_headers (c_req c')) (s2b "host") = [uri_host target] /\
   forall b, In b (uri_host target) -> g_host_char b = true).
Proof.
  intros H Hl Hg Hpq Hau Hp Ha. cbv zeta.
  destruct (next_wire _ _ _ _ _ _ H Hp Ha) as (W1 & W2 & _ & W4).
  destruct (as_new_flow_uri _ _ _ _ H) as (loc' & target & Hl' & Hr & Hu).
  assert (loc' = loc) by congruence. subst loc'.
  pose proof (as_new_flow_wellformed _ _ _ _ _ H Hl Hg Hpq) as Wpq.
  assert (Wau : auth_wellformed (cur_uri next)).
  { rewrite Hu. eapply resolve_auth_wellformed; eauto. }
  split; [exact W2|]. split; [exact W1|]. split; [|split; [exact Wpq|split; [exact Wau|]]].
  - intros b Hb. apply g_uri_byte_range. apply Wpq. exact Hb.
  - intros Hh. split.
    + apply W4. intros K. apply K. exact Hh.
    + intros b Hb. unfold uri_host in Hb.
      assert (Hin : In b (u_auth (cur_uri next))) by (eapply until_incl; eauto).
      specialize (Wau b Hin). unfold g_auth_byte in Wau. apply orb_true_iff in Wau.
      destruct Wau as [K|K]; [exact K|]. apply N.eqb_eq in K. subst b.
      exfalso. exact (until_not_in 58 _ Hb).
Qed.

(** Both conditions on the current URI are inherited along a chain of Locations of the grammar. *)
Lemma chain_auth_wellformed f locs fin :
  redirect_chain f locs fin -> Forall (fun l => loc_in_grammar l = true) locs ->
  auth_wellformed (cur_uri f) -> auth_wellformed (cur_uri fin).
Proof.
  induction 1 as [f f' Hs|f f1 f1' p loc next locs fin Hs Hl Ha _ IH]; intros HF Hb.
  - rewrite (flow_steps_cur_uri _ _ Hs). exact Hb.
  - inversion HF; subst. apply IH; [assumption|].
    destruct (as_new_flow_uri _ _ _ _ Ha) as (loc' & target & Hl' & Hr & Hu).
    assert (loc' = loc) by congruence. subst loc'. rewrite Hu.
    apply (resolve_auth_wellformed (cur_uri f1) loc target); [assumption| |exact Hr].
    rewrite (flow_steps_cur_uri _ _ Hs). exact Hb.
Qed.

(* ------------------------------------------------------------------ deciding the side conditions *)

Lemma pq_wellformed_b u : forallb g_uri_byte (u_pq u) = true -> pq_wellformed u.
Proof. intros H b Hb. revert Hb. apply forallb_forall. exact H. Qed.

Lemma auth_wellformed_b u : forallb g_auth_byte (u_auth u) = true -> auth_wellformed u.
Proof. intros H b Hb. revert Hb. apply forallb_forall. exact H. Qed.

(** The hypotheses of the theorems of this file hold for a flow reached by the script: an absolute
    request, a 302 with two Location fields (the last one wins: path-relative with dot segments,
    query and fragment). *)
Lemma in_grammar_script :
  let loc := s2b "../p/./q?k=v#frag" in
  let f := redirect_flow_of abs_req [s2b "/ignored"; loc] in
  redirect_state f /\ i_location f = Some loc /\ loc_in_grammar loc = true /\
  pq_wellformed (cur_uri f) /\ auth_wellformed (cur_uri f) /\
  g_origin_of loc = GSameOrigin /\
  exists f' next, as_new_flow f Never = Ok (f', Some next) /\
    cur_uri next = {| u_scheme := s2b "http"; u_auth := s2b "a.test"; u_pq := s2b "/p/q?k=v" |} /\
    exists c', analyze_request (i_call next) = Ok c' /\
      prelude_line (c_req c') = s2b "GET /p/q?k=v HTTP/1.1" ++ CRLF.
Proof.
  cbv zeta.
  split; [split; vm_compute; discriminate|]. split; [vm_compute; reflexivity|].
  split; [vm_compute; reflexivity|].
  split; [apply pq_wellformed_b; vm_compute; reflexivity|].
  split; [apply auth_wellformed_b; vm_compute; reflexivity|].
  split; [vm_compute; reflexivity|].
  destruct (as_new_flow (redirect_flow_of abs_req [s2b "/ignored"; s2b "../p/./q?k=v#frag"]) Never)
    as [[f' [next|]]| |] eqn:E; try (vm_compute in E; discriminate).
  exists f', next. split; [reflexivity|].
  assert (En : Some next = match as_new_flow (redirect_flow_of abs_req [s2b "/ignored"; s2b "../p/./q?k=v#frag"]) Never with
                           | Ok (_, n) => n | _ => None end) by (rewrite E; reflexivity).
  vm_compute in En. inversion En; subst next; clear En E.
  split; [vm_compute; reflexivity|].
  eexists. split; vm_compute; reflexivity.
Qed.
