(** src/util.rs Writer::try_write, translated (Gen2.gen_writer_try_write): the all-or-nothing write that the translator assumes
    when it renders `w.try_write(|w| write!(..))` in the translated writer functions as
      "if the bytes fit: appended, true; otherwise: nothing written, false".
    The cursor is its position; the closure is a function from the position to (new position, succeeded). *)
From Coq Require Import NArith Bool List Lia.
From Hoot Require Import Base GenLib Gen Gen2.
Open Scope N_scope.

(** Whatever the closure does: on success the cursor is where the closure left it, on failure it is put back. *)
Theorem gen_writer_try_write_spec position capacity block :
  gen_writer_try_write position capacity block =
  Ok (if snd (block position) then fst (block position) else position, snd (block position)).
Proof.
  unfold gen_writer_try_write, run_block. cbn [bind]. destruct (block position) as [p ok]. cbn [fst snd].
  destruct ok; reflexivity.
Qed.

(** std: `write_all` of [n] bytes on a `Cursor<&mut [u8]>` of capacity [cap] at position [pos] (pos <= cap): all of them fit and the
    position advances by [n], or as many as fit are copied, the position ends at the capacity and the call fails (WriteZero).
    A closure that performs several `write!` / `write_all` calls in sequence with `?` is the composition. *)
Definition cursor_write_all (cap n : N) (pos : N) : N * bool :=
  if n <=? cap - pos then (pos + n, true) else (cap, false).

(** ... with that closure: the visible output (the first [position] bytes of the buffer) grows by exactly the bytes when they fit
    and does not change at all when they do not -- the reading the translator gives every `try_write` in the writer functions. *)
Theorem gen_writer_try_write_all_or_nothing cap n position :
  position <= cap ->
  gen_writer_try_write position cap (cursor_write_all cap n) =
  Ok (if n <=? cap - position then position + n else position, n <=? cap - position).
Proof.
  intros _. rewrite gen_writer_try_write_spec. unfold cursor_write_all.
  destruct (n <=? cap - position); reflexivity.
Qed.

(** Two writes in one closure (`write!(w, ..)?; write!(w, ..)`): still all or nothing of the sum. *)
Definition cursor_write_two (cap n m : N) (pos : N) : N * bool :=
  let '(p1, ok1) := cursor_write_all cap n pos in
  if ok1 then cursor_write_all cap m p1 else (p1, false).

Theorem gen_writer_try_write_two cap n m position :
  position <= cap ->
  gen_writer_try_write position cap (cursor_write_two cap n m) =
  Ok (if n + m <=? cap - position then position + (n + m) else position, n + m <=? cap - position).
Proof.
  intros Hp. rewrite gen_writer_try_write_spec. unfold cursor_write_two, cursor_write_all.
  destruct (n <=? cap - position) eqn:E1.
  - apply N.leb_le in E1.
    destruct (m <=? cap - (position + n)) eqn:E2.
    + apply N.leb_le in E2. assert (H : (n + m <=? cap - position) = true) by (apply N.leb_le; lia).
      rewrite H. cbn [fst snd]. f_equal. f_equal. lia.
    + apply N.leb_gt in E2. assert (H : (n + m <=? cap - position) = false) by (apply N.leb_gt; lia).
      rewrite H. reflexivity.
  - apply N.leb_gt in E1. assert (H : (n + m <=? cap - position) = false) by (apply N.leb_gt; lia).
    rewrite H. reflexivity.
Qed.
