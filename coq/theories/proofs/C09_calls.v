(** C09 (part 1): panic-freedom and invariant preservation of the call-level operations
    (request analysis, head / body writes, response parsing, body reads) under the call-level parts
    of the flow invariant of C09_inv.v. *)
From Coq Require Import Lia ZArith.
From Hoot Require Import Base Chunk Body Httparse Parser Url Request Call Flow.
From Hoot.proofs Require Import BytesLemmas Reasons C17_proofs C09_inv C09_chunk.
Open Scope N_scope.

(* ------------------------------------------------------------------ outcome predicates *)

(** [safe P r]: [r] is not a panic, and a value satisfies [P] (errors are allowed). *)
Definition safe {A} (P : A -> Prop) (r : res A) : Prop :=
  match r with Ok a => P a | Err _ => True | Panic _ => False end.

(** [total P r]: [r] is a value satisfying [P]. *)
Definition total {A} (P : A -> Prop) (r : res A) : Prop :=
  match r with Ok a => P a | _ => False end.

Lemma safe_bind {A B} (Q : A -> Prop) (P : B -> Prop) (r : res A) (k : A -> res B) :
  safe Q r -> (forall a, Q a -> safe P (k a)) -> safe P (bind r k).
Proof. destruct r; cbn; auto. Qed.

Lemma safe_impl {A} (P Q : A -> Prop) (r : res A) : safe P r -> (forall a, P a -> Q a) -> safe Q r.
Proof. destruct r; cbn; auto. Qed.

Lemma total_safe {A} (P : A -> Prop) (r : res A) : total P r -> safe P r.
Proof. destruct r; cbn; auto. Qed.

Lemma safe_not_panic {A} (P : A -> Prop) (r : res A) s : safe P r -> r <> Panic s.
Proof. destruct r; cbn; intros H E; try discriminate; exact H. Qed.

(* ------------------------------------------------------------------ small facts *)

Lemma set_header_cases a k v :
  len (am_added a) < MAX_EXTRA_HEADERS ->
  am_set_header a k v = Err BadHeader \/ am_set_header a k v = Ok (with_added a [(lower k, v)]).
Proof.
  intros Hl. unfold am_set_header.
  destruct (negb (valid_header_name k && valid_header_value v)); [left; reflexivity|].
  destruct (N.leb_spec MAX_EXTRA_HEADERS (len (am_added a))); [lia|]. right. reflexivity.
Qed.

Lemma am_eff_uri_with_added a l : am_eff_uri (with_added a l) = am_eff_uri a.
Proof. reflexivity. Qed.

Lemma am_method_with_added a l : am_method (with_added a l) = am_method a.
Proof. reflexivity. Qed.

Lemma hosts_nonempty_headers a : is_nonempty (hosts a) = true -> am_headers a <> [].
Proof.
  unfold hosts, field_values. intros H E. rewrite E in H. discriminate.
Qed.

Lemma headers_with_added_nonempty a l :
  am_headers a <> [] \/ l <> [] -> am_headers (with_added a l) <> [].
Proof.
  rewrite am_headers_with_added. rewrite am_headers_split. intros H E.
  apply app_eq_nil in E. destruct E as [E1 E]. apply app_eq_nil in E. destruct E as [E2 E3].
  destruct H as [H|H]; [apply H; rewrite E1, E3; reflexivity|exact (H E2)].
Qed.

Lemma spec_mode_wb a w : w_mode w <> SNone -> w_mode (spec_mode a w) <> SNone.
Proof.
  intros H. unfold spec_mode. destruct (has_chunked_te a); [cbn; discriminate|].
  destruct (cls a); [exact H|cbn; discriminate].
Qed.

(** Without the body check skipped and with a method that takes no body, an accepted request keeps
    the writer the constructor installed. *)
Lemma spec_mode_nb a w :
  invalid a w false = false -> need_request_body (am_method a) = false -> has_body w = false ->
  spec_mode a w = w.
Proof.
  intros Hi Hn Hb. pose proof Hi as Hi0. unfold invalid in Hi. rewrite Hn in Hi.
  apply orb_false_elim in Hi. destruct Hi as [_ Hi]. cbn [negb andb] in Hi.
  unfold body_announced in Hi. apply orb_false_elim in Hi. destruct Hi as [Hf _].
  exact (proj1 (valid_no_framing_mode _ _ _ Hi0 Hf)).
Qed.

(* ------------------------------------------------------------------ request analysis *)

(** On a call that has not been analysed: an error, or the analysed call with some headers
    appended; with an authority in the URI the head then has at least one field line. *)
Lemma analyze_request_fresh c :
  c_analyzed c = false -> len (am_added (c_req c)) <= HEADER_BUDGET ->
  u_auth (am_eff_uri (c_req c)) <> [] ->
  (exists e, analyze_request c = Err e) \/
  (exists l, analyze_request c =
             Ok {| c_req := with_added (c_req c) l; c_analyzed := true; c_phase := c_phase c;
                   c_writer := spec_mode (c_req c) (c_writer c); c_reader := c_reader c;
                   c_skip := c_skip c; c_stop := c_stop c |} /\
             invalid (c_req c) (c_writer c) (c_skip c) = false /\
             am_headers (with_added (c_req c) l) <> []).
Proof.
  intros Ha Hl Hu. unfold HEADER_BUDGET in Hl. unfold analyze_request. rewrite Ha.
  destruct (invalid (c_req c) (c_writer c) (c_skip c)) eqn:Hi.
  { destruct (analyze_invalid _ _ _ Hi) as (e & He & _). rewrite He. left. eexists. reflexivity. }
  rewrite (analyze_valid _ _ _ Hi). cbn [bind ri_host ri_mode ri_body_header].
  set (a := c_req c) in *. set (w := c_writer c) in *.
  (* Host *)
  assert (H1 : (exists e, (if is_nonempty (hosts a) then Ok a
                else match u_auth (am_eff_uri a) with
                     | [] => Ok a
                     | _ => am_set_header a (s2b "Host") (uri_host (am_eff_uri a))
                     end) = Err e) \/
               (exists l1, (if is_nonempty (hosts a) then Ok a
                else match u_auth (am_eff_uri a) with
                     | [] => Ok a
                     | _ => am_set_header a (s2b "Host") (uri_host (am_eff_uri a))
                     end) = Ok (with_added a l1) /\ len l1 <= 1 /\
                     (am_headers a <> [] \/ l1 <> []))).
  { destruct (is_nonempty (hosts a)) eqn:Eh.
    - right. exists []. rewrite with_added_nil. split; [reflexivity|]. split; [cbn; lia|].
      left. apply hosts_nonempty_headers. exact Eh.
    - destruct (u_auth (am_eff_uri a)) as [|x y] eqn:Eu; [congruence|].
      destruct (set_header_cases a (s2b "Host") (uri_host (am_eff_uri a))) as [E|E];
        [unfold MAX_EXTRA_HEADERS; lia| |]; rewrite E.
      + left. eexists. reflexivity.
      + right. eexists. split; [reflexivity|]. split; [cbn; lia|]. right. discriminate. }
  destruct H1 as [(e & ->)|(l1 & -> & Hl1 & Hne)]; [left; eexists; reflexivity|]. cbn [bind].
  destruct (negb (framing_present a) && has_body (spec_mode a w)) eqn:Ef; cbn [bind].
  - apply andb_prop in Ef. destruct Ef as [_ Hb]. unfold has_body in Hb. unfold body_header.
    assert (Hlen : len (am_added (with_added a l1)) < MAX_EXTRA_HEADERS).
    { unfold with_added. cbn [am_added]. rewrite len_app. unfold MAX_EXTRA_HEADERS. lia. }
    destruct (w_mode (spec_mode a w)) as [|n|]; [discriminate| |]; cbn [bind fst snd].
    + destruct (set_header_cases (with_added a l1) (s2b "content-length") (dec_of n) Hlen) as [E|E];
        rewrite E; [left; eexists; reflexivity|]. right. rewrite with_added_app. eexists. split; [reflexivity|].
      split; [reflexivity|]. apply headers_with_added_nonempty. right.
      intros E0. apply app_eq_nil in E0. destruct E0 as [_ E0]. discriminate.
    + destruct (set_header_cases (with_added a l1) (s2b "transfer-encoding") (s2b "chunked") Hlen) as [E|E];
        rewrite E; [left; eexists; reflexivity|]. right. rewrite with_added_app. eexists. split; [reflexivity|].
      split; [reflexivity|]. apply headers_with_added_nonempty. right.
      intros E0. apply app_eq_nil in E0. destruct E0 as [_ E0]. discriminate.
  - right. exists l1. split; [reflexivity|]. split; [reflexivity|].
    apply headers_with_added_nonempty. exact Hne.
Qed.

(** What analysis guarantees on a call of the sending half. *)
Definition analysed_from (c c' : call) : Prop :=
  SendCommon c' /\ c_analyzed c' = true /\ c_phase c' = c_phase c /\
  (WB c -> WB c') /\ (NB c -> NB c') /\ (c_analyzed c = true -> c' = c) /\ body_due c' = body_due c.

Lemma analyze_request_safe c : SendCommon c -> safe (analysed_from c) (analyze_request c).
Proof.
  intros Hc. pose proof Hc as (Hreq & [Hsch Hau] & Hbud & Hhd & Hpa & Hph & Hrd).
  destruct (c_analyzed c) eqn:Ha.
  - rewrite (analysed_call_fix c Ha). cbn. unfold analysed_from. rewrite Ha. auto 12.
  - destruct (analyze_request_fresh c Ha (Hbud eq_refl) Hau) as [(e & ->)|(l & -> & Hi & Hne)]; [exact I|].
    cbn. unfold analysed_from. cbn [c_analyzed c_phase].
    split; [|split; [reflexivity|split; [reflexivity|split; [|split; [|split; [|reflexivity]]]]]].
    + unfold SendCommon. cbn [c_req c_analyzed c_phase c_reader].
      rewrite am_eff_uri_with_added. repeat split; auto; intros; congruence.
    + unfold WB. cbn [c_writer]. apply spec_mode_wb.
    + intros (Hw & Hs & Hn). unfold NB. cbn [c_writer c_skip c_req]. rewrite am_method_with_added.
      rewrite Hs in Hi. split; [|auto].
      rewrite Hw in *. apply spec_mode_nb; [exact Hi|exact Hn|reflexivity].
    + intros E; congruence.
Qed.

(* ------------------------------------------------------------------ head and body writes *)

Lemma try_write_prelude_safe a p cap :
  am_headers a <> [] -> send_phase p = true ->
  safe (fun r => send_phase (fst r) = true) (try_write_prelude a p cap).
Proof.
  intros Hne Hp. unfold try_write_prelude.
  assert (Hc : (len (am_headers a) =? 0) = false).
  { destruct (N.eqb_spec (len (am_headers a)) 0) as [E|E]; [apply len_zero_nil in E; congruence|reflexivity]. }
  assert (Hpart : forall i avail out,
    safe (fun r : phase * bytes => send_phase (fst r) = true)
      (if len (am_headers a) =? 0 then Panic "call.rs: header_count - 1 underflow" else
       let '(i', out') := write_headers (drop i (am_headers a)) i (len (am_headers a) - 1) avail out in
       let p' := if i' =? len (am_headers a) then PBody else PHeaders i' in
       match out' with
       | [] => if is_body p' then Ok (p', out') else Err OutputOverflow
       | _ => Ok (p', out')
       end)).
  { intros i avail out. rewrite Hc. destruct (write_headers _ _ _ _ _) as [i' out'].
    destruct (i' =? len (am_headers a)); destruct out'; cbn; auto. }
  destruct p; cbn [send_phase is_prelude is_body orb] in Hp; try discriminate.
  - destruct (len (prelude_line a) <=? cap); [apply Hpart|exact I].
  - apply Hpart.
  - cbn. reflexivity.
Qed.

Lemma send_common_set_phase c p :
  SendCommon c -> c_analyzed c = true -> send_phase p = true -> SendCommon (set_phase c p).
Proof.
  intros (H1 & H2 & H3 & H4 & H5 & H6 & H7) Ha Hp. unfold SendCommon, set_phase.
  cbn [c_req c_analyzed c_phase c_reader]. auto 10.
Qed.

Lemma send_common_set_writer c w : SendCommon c -> SendCommon (set_writer c w).
Proof. intros H. exact H. Qed.

Definition written_from (c c' : call) : Prop :=
  SendCommon c' /\ c_analyzed c' = true /\ (WB c -> WB c') /\ (NB c -> NB c') /\ body_due c' = body_due c.

Lemma call_write_nobody_safe c cap :
  SendCommon c -> safe (fun r => written_from c (fst r)) (call_write_nobody c cap).
Proof.
  intros Hc. unfold call_write_nobody.
  apply (safe_bind (analysed_from c)); [apply analyze_request_safe; exact Hc|].
  intros c1 (Hc1 & Ha1 & Hp1 & Hw1 & Hn1 & _ & Hd1).
  pose proof Hc1 as (_ & _ & _ & Hhd & _ & Hph & _).
  apply (safe_bind (fun r : phase * bytes => send_phase (fst r) = true));
    [apply try_write_prelude_safe; auto|].
  intros r Hr. cbn [safe fst]. unfold written_from.
  split; [apply send_common_set_phase; assumption|]. auto.
Qed.

Lemma writer_write_total w input cap :
  w_mode w <> SNone ->
  total (fun r => w_mode (fst (fst r)) <> SNone) (writer_write w input cap).
Proof.
  intros Hw. unfold writer_write. destruct (w_mode w) as [|lft|] eqn:Em; [congruence| |].
  - cbn. discriminate.
  - destruct input as [|b t].
    + destruct (negb (w_ended w) && (len TERMINATOR <=? cap)); cbn; [discriminate|].
      rewrite Em. discriminate.
    + destruct (chunk_loop _ _ _ _ _) as [used out]. cbn. rewrite Em. discriminate.
Qed.

Definition body_written_from (c c' : call) : Prop :=
  SendCommon c' /\ WB c' /\ c_analyzed c' = true /\ (c_phase c = PBody -> c_phase c' = PBody) /\
  body_due c' = body_due c.

Lemma call_write_body_safe c input cap :
  SendCommon c -> WB c ->
  safe (fun r => body_written_from c (fst (fst r))) (call_write_body c input cap).
Proof.
  intros Hc Hw. unfold call_write_body.
  apply (safe_bind (analysed_from c)); [apply analyze_request_safe; exact Hc|].
  intros c1 (Hc1 & Ha1 & Hp1 & Hw1 & _ & _ & Hd1).
  pose proof Hc1 as (_ & _ & _ & Hhd & _ & Hph & _). specialize (Hw1 Hw).
  destruct (is_prelude (c_phase c1)) eqn:Epre.
  - apply (safe_bind (fun r : phase * bytes => send_phase (fst r) = true));
      [apply try_write_prelude_safe; auto|].
    intros r Hr. cbn [safe fst]. unfold body_written_from.
    split; [apply send_common_set_phase; assumption|]. split; [exact Hw1|]. split; [exact Ha1|].
    split; [|exact Hd1]. intros Hb. rewrite Hp1, Hb in Epre. discriminate.
  - destruct (is_body (c_phase c1)) eqn:Ebody.
    + destruct (_ && w_ended (c_writer c1)); [exact I|].
      destruct (match left_to_send (c_writer c1) with Some l => l <? len input | None => false end); [exact I|].
      pose proof (writer_write_total (c_writer c1) input cap Hw1) as Ht.
      destruct (writer_write (c_writer c1) input cap) as [[[w' used] out]|e|s]; cbn in Ht; try contradiction.
      cbn [bind safe fst]. unfold body_written_from. cbn [set_writer c_phase c_analyzed].
      split; [apply send_common_set_writer; exact Hc1|]. split; [exact Ht|]. split; [exact Ha1|].
      split; [|exact Hd1]. intros Hb. rewrite Hp1. exact Hb.
    + cbn [safe fst]. unfold body_written_from. split; [exact Hc1|]. split; [exact Hw1|].
      split; [exact Ha1|]. split; [|exact Hd1]. intros Hb. rewrite Hp1. exact Hb.
Qed.

Lemma call_direct_write_safe c amount :
  WB c -> safe (fun c' => exists w', c' = set_writer c w' /\ w_mode w' <> SNone) (call_direct_write c amount).
Proof.
  intros Hw. unfold call_direct_write, left_to_send, writer_direct.
  destruct (w_mode (c_writer c)) as [|l|] eqn:Em; [exact I| |exact I].
  destruct (l <? amount); [exact I|]. cbn. eexists. split; [reflexivity|]. cbn. discriminate.
Qed.

(* ------------------------------------------------------------------ response head *)

Lemma try_parse_response_safe slots input : safe (fun _ => True) (try_parse_response slots input).
Proof.
  unfold try_parse_response. destruct (parse_response slots input) as [st v].
  destruct st as [k| |e]; [|exact I|exact I].
  unfold version_ok, status_ok.
  destruct (hv_version v) as [vn|]; [|exact I].
  destruct ((vn =? 0) || (vn =? 1)); [|exact I]. cbn [bind].
  destruct (hv_code v) as [m|]; [|exact I].
  destruct ((100 <=? m) && (m <=? 999)); [|exact I]. cbn [bind].
  destruct (builder_ok (hv_headers v)); exact I.
Qed.

Lemma try_parse_partial_safe slots input : safe (fun _ => True) (try_parse_partial_response slots input).
Proof.
  unfold try_parse_partial_response. destruct (parse_response slots input) as [st v].
  assert (H : safe (fun _ : option response => True)
     match hv_version v with
      | None => Ok None
      | Some ver =>
          match hv_code v with
          | None => Ok None
          | Some _ =>
              do code <- status_ok (hv_code v);
              let hs := until_empty_value (hv_headers v) in
              if builder_ok hs
              then Ok (Some {| rs_version := ver; rs_status := code; rs_headers := hm_of_list hs |})
              else Err HttpParseFail
          end
      end).
  { destruct (hv_version v) as [vn|]; [|exact I]. destruct (hv_code v) as [m|]; [|exact I].
    unfold status_ok. destruct ((100 <=? m) && (m <=? 999)); [|exact I]. cbn [bind].
    destruct (builder_ok _); exact I. }
  destruct st; auto. exact I.
Qed.

Lemma header_defined_safe http10 cl te : safe reader_ok (header_defined http10 cl te).
Proof.
  unfold header_defined.
  assert (H : forall o : option N,
    safe reader_ok
      (if match te with Some v => te_has_chunked v | None => false end && negb http10
       then Ok (RChunked DSize)
       else match o with Some n => Ok (RLength n) | None => Ok RClose end)).
  { intros o. destruct (_ && _); [cbn; unfold reader_ok; discriminate|].
    destruct o; cbn; unfold reader_ok; discriminate. }
  destruct cl as [v|]; [|apply H].
  destruct (negb (all_digits v)); [exact I|]. destruct (parse_dec_u64 v); [apply H|exact I].
Qed.

Lemma for_response_safe http10 hd cn status cl te : safe reader_ok (for_response http10 hd cn status cl te).
Proof.
  unfold for_response.
  apply (safe_bind reader_ok); [apply header_defined_safe|].
  intros r Hr. destruct (_ || _); [cbn; unfold reader_ok; discriminate|exact Hr].
Qed.

(** [try_response] on the call: never a panic; the call is unchanged or gets a usable reader. *)
Definition responded_from (c c' : call) : Prop :=
  c' = c \/ exists rd, c' = set_reader c (Some rd) /\ reader_ok rd.

Lemma call_try_response_safe c input :
  safe (fun r => responded_from c (fst r)) (call_try_response c input).
Proof.
  unfold call_try_response.
  apply (safe_bind (fun _ => True)); [apply try_parse_response_safe|]. intros first _.
  apply (safe_bind (fun _ => True)).
  { destruct first; [exact I|].
    apply (safe_bind (fun _ => True)); [apply try_parse_partial_safe|]. intros p _.
    destruct p as [r|]; [|exact I]. destruct (_ && _); exact I. }
  intros got _. destruct got as [[used r]|]; [|cbn; left; reflexivity].
  destruct (rs_status r =? 100).
  - destruct (rs_headers r); [cbn; left; reflexivity|exact I].
  - destruct (match hm_get (rs_headers r) (s2b "content-length") with Some v => negb (is_text v) | None => false end);
      [exact I|].
    apply (safe_bind reader_ok); [apply for_response_safe|].
    intros rd Hrd. cbn. right. eauto.
Qed.

(* ------------------------------------------------------------------ response body *)

Definition read_from (c c' : call) : Prop :=
  c' = c \/ exists rd, c' = set_reader c (Some rd) /\ reader_ok rd.

Lemma call_read_safe c input cap r :
  c_reader c = Some r -> reader_ok r ->
  safe (fun x => read_from c (fst (fst x))) (call_read c input cap).
Proof.
  intros Hr Hok. unfold call_read. rewrite Hr.
  destruct (reader_is_ended r); [cbn; left; reflexivity|].
  pose proof (reader_read_safe r input cap (c_stop c) Hok) as Hs.
  destruct (reader_read r input cap (c_stop c)) as [[[r' i] o]|e|s]; cbn [bind]; [|exact I|exact Hs].
  cbn. right. eauto.
Qed.
