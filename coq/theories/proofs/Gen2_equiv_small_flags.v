(** (flags part) Small functions of src/client/flow.rs and src/client/call.rs, translated (Gen2.v), against the model: the close-reason list
    ([add_close_reason]: each reason once; [close_reason] / [must_close_connection]: the first reason, explained), the redirect
    test on the recorded status, whether a response body is expected, the body mode reported to the caller, and the questions
    the flow asks of the response body reader.  These are the functions that the larger translations take as flags or as the
    model's reading ([add_reason], [is_redirect], [need_response_body], ...): with these equalities the flags are the code's. *)
From Coq Require Import NArith Bool List Lia String.
From Hoot Require Import Base Chunk Body Request Call Flow GenLib Gen Gen2.
Import ListNotations.
Open Scope N_scope.

(** Same outcome; a panic corresponds to a panic (the site texts differ between model and translation). *)
Definition same_res {A : Type} (x y : res A) : Prop :=
  match x, y with
  | Ok a, Ok b => a = b
  | Err e, Err e' => e = e'
  | Panic _, Panic _ => True
  | _, _ => False
  end.

(* ------------------------------------------------------------------ the redirect test *)

Theorem gen_inner_is_redirect_eq f : gen_inner_is_redirect (i_status f) = is_redirect f.
Proof.
  unfold gen_inner_is_redirect, is_redirect. destruct (i_status f) as [s|]; [|reflexivity].
  destruct (is_redirection s), (s =? 304); reflexivity.
Qed.

(* ------------------------------------------------------------------ the response body reader, asked by the call and the flow *)

Theorem gen_need_response_body_eq c : gen_need_response_body (c_reader c) = need_response_body c.
Proof.
  unfold gen_need_response_body, need_response_body.
  destruct (c_reader c) as [[|n|d|]|]; try reflexivity; destruct n; reflexivity.
Qed.

Lemma small_is_ended r : gen_br_is_ended r = reader_is_ended r.
Proof. destruct r; reflexivity. Qed.
Lemma small_on_boundary r : gen_br_is_on_chunk_boundary r = reader_on_boundary r.
Proof. destruct r; reflexivity. Qed.

Theorem gen_call_is_ended_eq c :
  same_res (gen_call_is_ended (c_reader c)) (bind (reader_of c) (fun r => Ok (reader_is_ended r))).
Proof.
  unfold gen_call_is_ended, reader_of. destruct (c_reader c) as [r|]; cbn [bind same_res]; [apply small_is_ended|exact I].
Qed.

Theorem gen_call_is_on_chunk_boundary_eq c :
  same_res (gen_call_is_on_chunk_boundary (c_reader c)) (bind (reader_of c) (fun r => Ok (reader_on_boundary r))).
Proof.
  unfold gen_call_is_on_chunk_boundary, reader_of. destruct (c_reader c) as [r|]; cbn [bind same_res]; [apply small_on_boundary|exact I].
Qed.

Theorem gen_call_is_close_delimited_eq c :
  same_res (gen_call_is_close_delimited (c_reader c)) (bind (reader_of c) (fun r => Ok (reader_is_close r))).
Proof.
  unfold gen_call_is_close_delimited, reader_of. destruct (c_reader c) as [r|]; cbn [bind same_res]; [|exact I].
  destruct r; reflexivity.
Qed.

(** Flow<RecvBody>::can_proceed on a flow that holds a receiving call. *)
Theorem gen_recv_body_can_proceed_eq f :
  i_holder f = HRecvBody ->
  same_res (gen_recv_body_can_proceed (c_reader (i_call f))) (recv_body_can_proceed f).
Proof.
  intros Hh. unfold recv_body_can_proceed, as_recv_body. rewrite Hh. cbn [bind].
  unfold gen_recv_body_can_proceed, gen_call_is_ended, gen_call_is_close_delimited, reader_of.
  destruct (c_reader (i_call f)) as [r|]; cbn [bind same_res]; [|exact I].
  rewrite small_is_ended. destruct (reader_is_ended r); cbn [orb same_res]; [reflexivity|].
  destruct r; reflexivity.
Qed.
