(** * Script: the operation language shared by the model and the Rust harness.
    A script is a list of lines, a line a list of tokens; [run_script] maps it to one observation
    line per operation.  The same [step] is what the history theorems are stated about. *)
From Hoot Require Import Base Chunk Body Httparse Parser Url Request Call Flow.
Open Scope N_scope.

Inductive tok :=
| TW (w : bytes)     (* bare word, ASCII *)
| TN (n : N)         (* number *)
| TH (h : bytes).    (* byte string (hex on the wire) *)

Inductive op :=
| ONew (r : request)
| OCallWithout (r : request)
| OCallWith (r : request)
| OHeader (k v : bytes)
| ODespite
| OProceed
| OPremature                                 (* call proceed() whatever can_proceed says; the object is gone afterwards *)
| OWriteHead (cap : N)
| OWriteBody (input : bytes) (cap : N)      (* explicit input *)
| OWriteSum (input : bytes) (cap : N)       (* like OWriteBody, output reported as a checksum *)
| OWriteFrom (take_n cap : N)               (* next [take_n] bytes of the script's body *)
| OSetBody (b : bytes)
| ODirect (amount : N)
| OSetStream (b : bytes)
| OArrive (k : N)
| OTry100                                    (* on the window stream[consumed..arrived] *)
| ORawTry100 (w : bytes)
| OTryResponse
| ORawTryResponse (w : bytes)
| ORead (cap : N)
| ORawRead (w : bytes) (cap : N)
| OStop (b : bool)
| OAsNewFlow (p : auth_policy)
| OFollow
| OQCanProceed | OQKeepAwait | OQIsChunked | OQMaxInput (n : N) | OQBoundary | OQBodyMode
| OQMustClose | OQCloseReason | OQStatus | OQMethod | OQUri | OQVersion | OQIsFinished
| OQHeaders
| OHeadersMap                                (* Flow<SendRequest>::headers_map: runs the request analysis, returns the effective headers as a map *)
| OParseResponse (slots : N) (w : bytes)
| OParsePartial (slots : N) (w : bytes)
| OParseRequest (slots : N) (w : bytes).

(* ------------------------------------------------------------------ parsing of lines *)

Definition method_of (w : bytes) : option method :=
  if beq_bytes w (s2b "GET") then Some GET else if beq_bytes w (s2b "HEAD") then Some HEAD
  else if beq_bytes w (s2b "POST") then Some POST else if beq_bytes w (s2b "PUT") then Some PUT
  else if beq_bytes w (s2b "DELETE") then Some DELETE else if beq_bytes w (s2b "CONNECT") then Some CONNECT
  else if beq_bytes w (s2b "OPTIONS") then Some OPTIONS else if beq_bytes w (s2b "TRACE") then Some TRACE
  else if beq_bytes w (s2b "PATCH") then Some PATCH else None.

Definition version_of (w : bytes) : option version :=
  if beq_bytes w (s2b "0.9") then Some V09 else if beq_bytes w (s2b "1.0") then Some V10
  else if beq_bytes w (s2b "1.1") then Some V11 else if beq_bytes w (s2b "2") then Some V2
  else if beq_bytes w (s2b "3") then Some V3 else None.

Fixpoint headers_of (l : list tok) : option (list header) :=
  match l with
  | [] => Some []
  | TH k :: TH v :: t => option_map (cons (k, v)) (headers_of t)
  | _ => None
  end.

Definition request_of (l : list tok) : option request :=
  match l with
  | TW m :: TW v :: TH scheme :: TH auth :: TH pq :: hs =>
      match method_of m, version_of v, headers_of hs with
      | Some m', Some v', Some hs' =>
          Some {| rq_method := m'; rq_version := v';
                  (* http::Uri reports "/" for an empty path after an authority *)
                  rq_uri := {| u_scheme := scheme; u_auth := auth;
                               u_pq := match pq with [] => [47] | _ => pq end |};
                  rq_headers := hs' |}
      | _, _, _ => None
      end
  | _ => None
  end.

Definition is_w (w : bytes) (s : string) : bool := beq_bytes w (s2b s).

Definition parse_op (l : list tok) : option op :=
  match l with
  | TW w :: args =>
      if is_w w "new" then option_map ONew (request_of args)
      else if is_w w "call_without" then option_map OCallWithout (request_of args)
      else if is_w w "call_with" then option_map OCallWith (request_of args)
      else if is_w w "header" then match args with [TH k; TH v] => Some (OHeader k v) | _ => None end
      else if is_w w "despite" then Some ODespite
      else if is_w w "proceed" then Some OProceed
      else if is_w w "premature" then Some OPremature
      else if is_w w "write_head" then match args with [TN c] => Some (OWriteHead c) | _ => None end
      else if is_w w "write_body" then match args with [TH i; TN c] => Some (OWriteBody i c) | _ => None end
      else if is_w w "write_sum" then match args with [TH i; TN c] => Some (OWriteSum i c) | _ => None end
      else if is_w w "write_from" then match args with [TN t; TN c] => Some (OWriteFrom t c) | _ => None end
      else if is_w w "body" then match args with [TH b] => Some (OSetBody b) | _ => None end
      else if is_w w "direct" then match args with [TN a] => Some (ODirect a) | _ => None end
      else if is_w w "stream" then match args with [TH b] => Some (OSetStream b) | _ => None end
      else if is_w w "arrive" then match args with [TN k] => Some (OArrive k) | _ => None end
      else if is_w w "try100" then Some OTry100
      else if is_w w "raw_try100" then match args with [TH b] => Some (ORawTry100 b) | _ => None end
      else if is_w w "try_response" then Some OTryResponse
      else if is_w w "raw_try_response" then match args with [TH b] => Some (ORawTryResponse b) | _ => None end
      else if is_w w "read" then match args with [TN c] => Some (ORead c) | _ => None end
      else if is_w w "raw_read" then match args with [TH b; TN c] => Some (ORawRead b c) | _ => None end
      else if is_w w "stop" then match args with [TN b] => Some (OStop (negb (b =? 0))) | _ => None end
      else if is_w w "as_new_flow" then
        match args with
        | [TW p] => if is_w p "never" then Some (OAsNewFlow Never)
                    else if is_w p "same_host" then Some (OAsNewFlow SameHost) else None
        | _ => None
        end
      else if is_w w "follow" then Some OFollow
      else if is_w w "q_can_proceed" then Some OQCanProceed
      else if is_w w "q_keep_await" then Some OQKeepAwait
      else if is_w w "q_is_chunked" then Some OQIsChunked
      else if is_w w "q_max_input" then match args with [TN n] => Some (OQMaxInput n) | _ => None end
      else if is_w w "q_boundary" then Some OQBoundary
      else if is_w w "q_body_mode" then Some OQBodyMode
      else if is_w w "q_must_close" then Some OQMustClose
      else if is_w w "q_close_reason" then Some OQCloseReason
      else if is_w w "q_status" then Some OQStatus
      else if is_w w "q_method" then Some OQMethod
      else if is_w w "q_uri" then Some OQUri
      else if is_w w "q_version" then Some OQVersion
      else if is_w w "q_is_finished" then Some OQIsFinished
      else if is_w w "q_headers" then Some OQHeaders
      else if is_w w "headers_map" then Some OHeadersMap
      else if is_w w "parse_response" then match args with [TN n; TH b] => Some (OParseResponse n b) | _ => None end
      else if is_w w "parse_partial" then match args with [TN n; TH b] => Some (OParsePartial n b) | _ => None end
      else if is_w w "parse_request" then match args with [TN n; TH b] => Some (OParseRequest n b) | _ => None end
      else None
  | _ => None
  end.

(* ------------------------------------------------------------------ state *)

Inductive obj :=
| ObNone
| ObFlow (t : tag) (f : inner)
| ObCall (h : holder) (c : call).

Record sstate := {
  s_obj : obj;
  s_next : option inner;     (* flow produced by the last successful as_new_flow *)
  s_stream : bytes;          (* server bytes of the script *)
  s_arrived : N;
  s_consumed : N;
  s_body : bytes;            (* request body of the script *)
  s_sent : N
}.

Definition s_init : sstate :=
  {| s_obj := ObNone; s_next := None; s_stream := []; s_arrived := 0; s_consumed := 0;
     s_body := []; s_sent := 0 |}.

Definition with_obj (s : sstate) (o : obj) : sstate :=
  {| s_obj := o; s_next := s_next s; s_stream := s_stream s; s_arrived := s_arrived s;
     s_consumed := s_consumed s; s_body := s_body s; s_sent := s_sent s |}.
Definition with_flow (s : sstate) (t : tag) (f : inner) : sstate := with_obj s (ObFlow t f).
Definition add_consumed (s : sstate) (n : N) : sstate :=
  {| s_obj := s_obj s; s_next := s_next s; s_stream := s_stream s; s_arrived := s_arrived s;
     s_consumed := s_consumed s + n; s_body := s_body s; s_sent := s_sent s |}.
Definition add_sent (s : sstate) (n : N) : sstate :=
  {| s_obj := s_obj s; s_next := s_next s; s_stream := s_stream s; s_arrived := s_arrived s;
     s_consumed := s_consumed s; s_body := s_body s; s_sent := s_sent s + n |}.

(** The window the caller presents: stream[consumed .. arrived]. *)
Definition window (s : sstate) : bytes :=
  take (s_arrived s - s_consumed s) (drop (s_consumed s) (s_stream s)).

(* ------------------------------------------------------------------ observations *)

Definition w (s : string) : tok := TW (s2b s).

Definition tag_name (t : tag) : tok :=
  w match t with
    | TPrepare => "Prepare" | TSendRequest => "SendRequest" | TAwait100 => "Await100"
    | TSendBody => "SendBody" | TRecvResponse => "RecvResponse" | TRecvBody => "RecvBody"
    | TRedirect => "Redirect" | TCleanup => "Cleanup"
    end.

Definition obs_err (e : err) : list tok := [w "err"; TW (err_name e)].
Definition obs_panic : list tok := [w "panic"].
Definition obs_np : list tok := [w "np"].
Definition obs_bool (b : bool) : list tok := [w (if b then "true" else "false")].

Definition obs_res {A} (r : res A) (k : A -> list tok) : list tok :=
  match r with Ok a => k a | Err e => obs_err e | Panic _ => obs_panic end.

Definition obs_headers (hs : list header) : list tok :=
  TN (len hs) :: flat_map (fun h => [TH (fst h); TH (snd h)]) hs.

Definition obs_response (r : response) : list tok :=
  [TN (rs_version r); TN (rs_status r)] ++ obs_headers (hm_iter (rs_headers r)).

Definition obs_mode (m : body_mode) : list tok :=
  match m with
  | BMNoBody => [w "nobody"]
  | BMLength n => [w "length"; TN n]
  | BMChunked => [w "chunked"]
  | BMClose => [w "close"]
  end.

(* ------------------------------------------------------------------ step *)

Definition upd {A} (s : sstate) (t : tag) (r : res A) (getf : A -> inner) (k : A -> list tok)
  : sstate * list tok :=
  match r with
  | Ok a => (with_flow s t (getf a), k a)
  | Err e => (s, obs_err e)
  | Panic _ => (s, obs_panic)
  end.

Definition do_proceed (s : sstate) (t : tag) (f : inner) : sstate * list tok :=
  let opt (r : res (option (tag * inner))) :=
      match r with
      | Ok (Some (t', f')) => (with_flow s t' f', [w "state"; tag_name t'])
      | Ok None => (s, [w "stay"])
      | Err e => (with_obj s ObNone, obs_err e)
      | Panic _ => (s, obs_panic)
      end in
  match t with
  | TPrepare => (with_flow s TSendRequest f, [w "state"; tag_name TSendRequest])
  | TSendRequest => opt (send_request_proceed f)
  | TAwait100 => opt (do x <- await_100_proceed f; Ok (Some x))
  | TSendBody => opt (send_body_proceed f)
  | TRecvResponse => opt (recv_response_proceed f)
  | TRecvBody => opt (recv_body_proceed f)
  | TRedirect => (with_flow s TCleanup f, [w "state"; tag_name TCleanup])
  | TCleanup => (s, obs_np)
  end.

(** The real [proceed()] consumes the flow: called when not ready it returns None and the flow is gone. *)
Definition do_premature (s : sstate) (t : tag) (f : inner) : sstate * list tok :=
  let opt (r : res (option (tag * inner))) :=
      (with_obj s ObNone,
       match r with
       | Ok (Some _) => [w "some"]
       | Ok None => [w "none"]
       | Err e => obs_err e
       | Panic _ => obs_panic
       end) in
  match t with
  | TSendRequest => opt (send_request_proceed f)
  | TSendBody => opt (send_body_proceed f)
  | TRecvResponse => opt (recv_response_proceed f)
  | TRecvBody => opt (recv_body_proceed f)
  | _ => (s, obs_np)
  end.

Definition do_try100 (s : sstate) (f : inner) (win : bytes) (track : bool) : sstate * list tok :=
  let '(f', r) := try_read_100 f win in
  let s' := with_flow s TAwait100 f' in
  match r with
  | Ok n => (if track then add_consumed s' n else s', [w "ok"; TN n])
  | Err e => (s', obs_err e)
  | Panic _ => (s', obs_panic)
  end.

Definition do_try_response (s : sstate) (f : inner) (win : bytes) (track : bool) : sstate * list tok :=
  match recv_try_response f win with
  | Ok (f', used, got) =>
      let s' := with_flow s TRecvResponse f' in
      (if track then add_consumed s' used else s',
       match got with
       | None => [w "none"; TN used]
       | Some r => [w "some"; TN used] ++ obs_response r
       end)
  | Err e => (s, obs_err e)
  | Panic _ => (s, obs_panic)
  end.

Definition do_read (s : sstate) (f : inner) (win : bytes) (cap : N) (track : bool) : sstate * list tok :=
  match recv_body_read f win cap with
  | Ok (f', i, o) =>
      let s' := with_flow s TRecvBody f' in
      (if track then add_consumed s' i else s', [w "ok"; TN i; TN (len o); TH o])
  | Err e => (with_flow s TRecvBody (recv_body_after_err f win cap), obs_err e)   (* the decoder keeps the state it reached *)
  | Panic _ => (s, obs_panic)
  end.

(** Position-sensitive checksum with additions only (Fletcher style, no modulus): cheap in the
    extracted model. *)
Definition checksum (b : bytes) : N :=
  snd (fold_left (fun acc x => let s1 := fst acc + x in (s1, snd acc + s1)) b (7, 0)).

Definition obs_written (sum : bool) (used : N) (out : bytes) : list tok :=
  if sum then [w "ok"; TN used; TN (len out); TN (checksum out)]
  else [w "ok"; TN used; TN (len out); TH out].

(** A write on a single-call object that fails AFTER the request analysis succeeded (the head does not fit the output, the body write
    is refused) leaves the Rust call analysed -- headers amended, body writer installed --; only a failing analysis leaves it as it was.
    For a call inside a flow this is not observable (every later operation analyses again and the flow cannot leave SendRequest before
    a write succeeded); for the single-call API it is: [Call::into_receive] looks at the installed writer. *)
Definition call_after_failed_write (c : call) : call :=
  match analyze_request c with Ok c1 => c1 | _ => c end.

Definition do_write_body (s : sstate) (input : bytes) (cap : N) (track sum : bool) : sstate * list tok :=
  match s_obj s with
  | ObFlow TSendBody f =>
      match send_body_write f input cap with
      | Ok (f', used, out) =>
          let s' := with_flow s TSendBody f' in
          (if track then add_sent s' used else s', obs_written sum used out)
      | Err e => (s, obs_err e)
      | Panic _ => (s, obs_panic)
      end
  | ObCall HWithBody c =>
      match call_write_body c input cap with
      | Ok (c', used, out) =>
          let s' := with_obj s (ObCall HWithBody c') in
          (if track then add_sent s' used else s', obs_written sum used out)
      | Err e => (with_obj s (ObCall HWithBody (call_after_failed_write c)), obs_err e)
      | Panic _ => (s, obs_panic)
      end
  | _ => (s, obs_np)
  end.

Definition obs_opt_bytes (o : option bytes) : list tok :=
  match o with Some b => [w "some"; TH b] | None => [w "none"] end.

Definition flow_request (f : inner) : amended := c_req (i_call f).

Definition do_call_into_receive (s : sstate) (c : call) : sstate * list tok :=
  match into_receive c with
  | Ok c' => (with_obj s (ObCall HRecvResponse c'), [w "call"; w "RecvResponse"])
  | Err e => (with_obj s ObNone, obs_err e)
  | Panic _ => (s, obs_panic)
  end.

Definition step (s : sstate) (o : op) : sstate * list tok :=
  match o, s_obj s with
  | ONew r, _ =>
      match flow_new r with
      | Ok f => ({| s_obj := ObFlow TPrepare f; s_next := None; s_stream := s_stream s;
                    s_arrived := s_arrived s; s_consumed := s_consumed s;
                    s_body := s_body s; s_sent := 0 |}, [w "ok"])
      | Err e => (s, obs_err e)
      | Panic _ => (s, obs_panic)
      end
  | OCallWithout r, _ => (with_obj s (ObCall HWithoutBody (call_new r new_none)), [w "ok"])
  | OCallWith r, _ => (with_obj s (ObCall HWithBody (call_new r new_chunked)), [w "ok"])
  | OSetBody b, _ =>
      ({| s_obj := s_obj s; s_next := s_next s; s_stream := s_stream s; s_arrived := s_arrived s;
          s_consumed := s_consumed s; s_body := b; s_sent := 0 |}, [w "ok"])
  | OSetStream b, _ =>
      ({| s_obj := s_obj s; s_next := s_next s; s_stream := b; s_arrived := 0;
          s_consumed := 0; s_body := s_body s; s_sent := s_sent s |}, [w "ok"])
  | OArrive k, _ =>
      ({| s_obj := s_obj s; s_next := s_next s; s_stream := s_stream s;
          s_arrived := N.min (len (s_stream s)) (s_arrived s + k);
          s_consumed := s_consumed s; s_body := s_body s; s_sent := s_sent s |}, [w "ok"])
  | OParseResponse n b, _ =>
      (s, obs_res (try_parse_response (N.to_nat n) b)
                  (fun r => match r with
                            | None => [w "none"]
                            | Some (used, rsp) => [w "some"; TN used] ++ obs_response rsp
                            end))
  | OParsePartial n b, _ =>
      (s, obs_res (try_parse_partial_response (N.to_nat n) b)
                  (fun r => match r with
                            | None => [w "none"]
                            | Some rsp => [w "some"] ++ obs_response rsp
                            end))
  | OParseRequest n b, _ =>
      (s, obs_res (try_parse_request (N.to_nat n) b)
                  (fun r => match r with
                            | None => [w "none"]
                            | Some (used, rq) =>
                                [w "some"; TN used; TH (pq_method rq); TN (pq_version rq)]
                                  ++ obs_headers (hm_iter (pq_headers rq))
                            end))
  | OHeader k v, ObFlow TPrepare f => upd s TPrepare (prepare_header f k v) (fun x => x) (fun _ => [w "ok"])
  | ODespite, ObFlow TPrepare f => upd s TPrepare (send_body_despite_method f) (fun x => x) (fun _ => [w "ok"])
  | OProceed, ObFlow t f => do_proceed s t f
  | OPremature, ObFlow t f => do_premature s t f
  | OWriteHead cap, ObFlow TSendRequest f =>
      upd s TSendRequest (send_request_write f cap) fst (fun r => [w "ok"; TN (len (snd r)); TH (snd r)])
  | OWriteHead cap, ObCall HWithoutBody c =>
      match call_write_nobody c cap with
      | Ok (c', out) => (with_obj s (ObCall HWithoutBody c'), [w "ok"; TN (len out); TH out])
      | Err e => (with_obj s (ObCall HWithoutBody (call_after_failed_write c)), obs_err e)
      | Panic _ => (s, obs_panic)
      end
  | OWriteBody input cap, _ => do_write_body s input cap false false
  | OWriteSum input cap, _ => do_write_body s input cap false true
  | OWriteFrom t cap, _ => do_write_body s (take t (drop (s_sent s) (s_body s))) cap true true
  | ODirect a, ObFlow TSendBody f => upd s TSendBody (send_body_direct f a) (fun x => x) (fun _ => [w "ok"])
  | OTry100, ObFlow TAwait100 f => do_try100 s f (window s) true
  | ORawTry100 b, ObFlow TAwait100 f => do_try100 s f b false
  | OTryResponse, ObFlow TRecvResponse f => do_try_response s f (window s) true
  | ORawTryResponse b, ObFlow TRecvResponse f => do_try_response s f b false
  | ORead cap, ObFlow TRecvBody f => do_read s f (window s) cap true
  | ORawRead b cap, ObFlow TRecvBody f => do_read s f b cap false
  | OStop b, ObFlow TRecvBody f => upd s TRecvBody (recv_body_stop f b) (fun x => x) (fun _ => [w "ok"])
  | OAsNewFlow p, ObFlow TRedirect f =>
      match as_new_flow f p with
      | Ok (f', nxt) =>
          ({| s_obj := ObFlow TRedirect f'; s_next := match nxt with Some n => Some n | None => s_next s end;
              s_stream := s_stream s; s_arrived := s_arrived s; s_consumed := s_consumed s;
              s_body := s_body s; s_sent := s_sent s |},
           [w (match nxt with Some _ => "some" | None => "none" end)])
      | Err e => (s, obs_err e)
      | Panic _ => (s, obs_panic)
      end
  | OFollow, _ =>
      match s_next s with
      | Some n => ({| s_obj := ObFlow TPrepare n; s_next := None; s_stream := s_stream s;
                      s_arrived := s_arrived s; s_consumed := s_consumed s;
                      s_body := s_body s; s_sent := 0 |}, [w "ok"])
      | None => (s, obs_np)
      end
  | OQCanProceed, ObFlow t f =>
      match t with
      | TSendRequest => (s, obs_res (send_request_can_proceed f) obs_bool)
      | TSendBody => (s, obs_res (send_body_can_proceed f) obs_bool)
      | TRecvResponse => (s, obs_res (recv_response_can_proceed f) obs_bool)
      | TRecvBody => (s, obs_res (recv_body_can_proceed f) obs_bool)
      | _ => (s, obs_np)
      end
  | OQKeepAwait, ObFlow TAwait100 f => (s, obs_bool (i_await_100 f))
  | OQIsChunked, ObFlow TSendBody f => (s, obs_res (send_body_is_chunked f) obs_bool)
  | OQMaxInput n, ObFlow TSendBody f => (s, obs_res (send_body_max_input f n) (fun x => [TN x]))
  | OQBoundary, ObFlow TRecvBody f => (s, obs_res (recv_body_on_boundary f) obs_bool)
  | OQBodyMode, ObFlow TRecvBody f => (s, obs_mode (call_body_mode (i_call f)))
  | OQMustClose, ObFlow TRedirect f => (s, obs_bool (must_close f))
  | OQMustClose, ObFlow TCleanup f => (s, obs_bool (must_close f))
  | OQCloseReason, ObFlow TRedirect f => (s, obs_opt_bytes (close_reason f))
  | OQCloseReason, ObFlow TCleanup f => (s, obs_opt_bytes (close_reason f))
  | OQStatus, ObFlow TRedirect f =>
      (s, match i_status f with Some n => [TN n] | None => obs_panic end)
  | OQMethod, ObFlow TPrepare f => (s, [TW (method_name (am_method (flow_request f)))])
  | OQMethod, ObFlow TSendRequest f => (s, [TW (method_name (am_method (flow_request f)))])
  | OQUri, ObFlow TPrepare f =>
      let u := am_eff_uri (flow_request f) in (s, [TH (u_scheme u); TH (u_auth u); TH (u_pq u)])
  | OQUri, ObFlow TSendRequest f =>
      let u := am_eff_uri (flow_request f) in (s, [TH (u_scheme u); TH (u_auth u); TH (u_pq u)])
  | OQVersion, ObFlow TPrepare f => (s, [TW (version_name (am_version (flow_request f)))])
  | OQVersion, ObFlow TSendRequest f => (s, [TW (version_name (am_version (flow_request f)))])
  | OQHeaders, ObFlow TPrepare f => (s, obs_headers (rq_headers (am_request (flow_request f))))
  | OHeadersMap, ObFlow TSendRequest f =>
      (* The request analysis runs as for a write and the effective headers are collected with HeaderMap::insert, which keeps the
         position of the first occurrence of a name and the value of the last.  In the Rust code the call remembers that it was
         analysed; the model does not record that here, because analysis is deterministic and idempotent: every later operation
         analyses again and obtains the same call (checked, like everything else, by the correspondence runs). *)
      (s, obs_res (analyze_request (i_call f))
                  (fun c => obs_headers (hm_iter (fold_left (fun m h => hm_insert m (fst h) (snd h)) (am_headers (c_req c)) []))))
  | OQIsFinished, ObCall HWithoutBody c => (s, obs_bool (negb (is_prelude (c_phase c))))
  | OQIsFinished, ObCall HWithBody c => (s, obs_bool (w_ended (c_writer c)))
  (* ---- the single-call API past the request: Call::into_receive, Call<RecvResponse>::try_response / is_finished / into_body,
          Call<RecvBody>::read / stop_on_chunk_boundary / is_on_chunk_boundary / is_ended.
          into_receive and into_body consume the call: on an error, or when into_body answers "no body", the object is gone. *)
  | OProceed, ObCall HWithoutBody c => do_call_into_receive s c
  | OProceed, ObCall HWithBody c => do_call_into_receive s c
  | OProceed, ObCall HRecvResponse c =>
      match c_reader c with
      | None => (with_obj s ObNone, obs_err IncompleteResponse)
      | Some RNoBody => (with_obj s ObNone, [w "none"])
      | Some _ => (with_obj s (ObCall HRecvBody (set_phase c PRecvBody)), [w "call"; w "RecvBody"])
      end
  | ORawTryResponse b, ObCall HRecvResponse c =>
      match call_try_response c b with
      | Ok (c', got) =>
          (with_obj s (ObCall HRecvResponse c'),
           match got with
           | None => [w "none"; TN 0]
           | Some (used, r) => [w "some"; TN used] ++ obs_response r
           end)
      | Err e => (s, obs_err e)
      | Panic _ => (s, obs_panic)
      end
  | ORawRead b cap, ObCall HRecvBody c =>
      match call_read c b cap with
      | Ok (c', i, o) => (with_obj s (ObCall HRecvBody c'), [w "ok"; TN i; TN (len o); TH o])
      | Err e => (with_obj s (ObCall HRecvBody (call_read_after_err c b cap)), obs_err e)
      | Panic _ => (s, obs_panic)
      end
  | OStop b, ObCall HRecvBody c => (with_obj s (ObCall HRecvBody (set_stop c b)), [w "ok"])
  | OQIsFinished, ObCall HRecvResponse c => (s, obs_bool (match c_reader c with Some _ => true | None => false end))
  | OQIsFinished, ObCall HRecvBody c => (s, obs_res (reader_of c) (fun r => obs_bool (reader_is_ended r)))
  | OQBoundary, ObCall HRecvBody c => (s, obs_res (reader_of c) (fun r => obs_bool (reader_on_boundary r)))
  | _, _ => (s, obs_np)
  end.

Definition run_line (s : sstate) (l : list tok) : sstate * list tok :=
  match parse_op l with
  | Some o => step s o
  | None => (s, [w "badop"])
  end.

Fixpoint run_from (s : sstate) (ls : list (list tok)) : list (list tok) :=
  match ls with
  | [] => []
  | l :: t => let '(s', o) := run_line s l in o :: run_from s' t
  end.

Definition run_script (ls : list (list tok)) : list (list tok) := run_from s_init ls.

(** Execution of already parsed operations (what the history theorems quantify over). *)
Definition run_ops (s : sstate) (ops : list op) : sstate := fold_left (fun st o => fst (step st o)) ops s.
