(** * Base: result type with panics as values, error enum, string literals. *)
From Coq Require Export String Ascii.
From Hoot Require Export Bytes Constants.
Open Scope N_scope.

(** ASCII string literal to bytes. *)
Fixpoint s2b (s : string) : bytes :=
  match s with
  | EmptyString => []
  | String a t => N_of_ascii a :: s2b t
  end.

(** Mirrors [ureq_proto::Error], payloads dropped. *)
Inductive err :=
| BadHeader | UnsupportedVersion | MethodVersionMismatch | TooManyHostHeaders
| TooManyContentLengthHeaders | BadHostHeader | BadContentLengthHeader
| MethodForbidsBody | MethodRequiresBody | OutputOverflow
| ChunkLenNotAscii | ChunkLenNotANumber | ChunkExpectedCrLf
| BodyContentAfterFinish | BodyLargerThanContentLength | UnfinishedRequest
| HttpParseFail | HttpParseTooManyHeaders | MissingResponseVersion
| ResponseMissingStatus | ResponseInvalidStatus | IncompleteResponse
| NoLocationHeader | BadLocationHeader | HeadersWith100 | BodyIsChunked
| RequestMissingMethod | RequestInvalidMethod.

Definition err_name (e : err) : bytes :=
  s2b match e with
  | BadHeader => "BadHeader" | UnsupportedVersion => "UnsupportedVersion"
  | MethodVersionMismatch => "MethodVersionMismatch" | TooManyHostHeaders => "TooManyHostHeaders"
  | TooManyContentLengthHeaders => "TooManyContentLengthHeaders" | BadHostHeader => "BadHostHeader"
  | BadContentLengthHeader => "BadContentLengthHeader" | MethodForbidsBody => "MethodForbidsBody"
  | MethodRequiresBody => "MethodRequiresBody" | OutputOverflow => "OutputOverflow"
  | ChunkLenNotAscii => "ChunkLenNotAscii" | ChunkLenNotANumber => "ChunkLenNotANumber"
  | ChunkExpectedCrLf => "ChunkExpectedCrLf" | BodyContentAfterFinish => "BodyContentAfterFinish"
  | BodyLargerThanContentLength => "BodyLargerThanContentLength" | UnfinishedRequest => "UnfinishedRequest"
  | HttpParseFail => "HttpParseFail" | HttpParseTooManyHeaders => "HttpParseTooManyHeaders"
  | MissingResponseVersion => "MissingResponseVersion" | ResponseMissingStatus => "ResponseMissingStatus"
  | ResponseInvalidStatus => "ResponseInvalidStatus" | IncompleteResponse => "IncompleteResponse"
  | NoLocationHeader => "NoLocationHeader" | BadLocationHeader => "BadLocationHeader"
  | HeadersWith100 => "HeadersWith100" | BodyIsChunked => "BodyIsChunked"
  | RequestMissingMethod => "RequestMissingMethod" | RequestInvalidMethod => "RequestInvalidMethod"
  end.

(** Outcome of an operation: a value, a library error, or a panic (with the site that raised it). *)
Inductive res (A : Type) :=
| Ok (a : A)
| Err (e : err)
| Panic (site : string).
Arguments Ok {A} a.
Arguments Err {A} e.
Arguments Panic {A} site.

Definition bind {A B : Type} (r : res A) (f : A -> res B) : res B :=
  match r with
  | Ok a => f a
  | Err e => Err e
  | Panic s => Panic s
  end.
Notation "'do' x <- r ; k" := (bind r (fun x => k)) (at level 200, x pattern, r at level 100, k at level 200).

Definition header := (bytes * bytes)%type.
