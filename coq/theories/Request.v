(** * Request: model of src/ext.rs and src/client/amended.rs. *)
From Hoot Require Import Base Body Url.
Open Scope N_scope.

Inductive method := GET | HEAD | POST | PUT | DELETE | CONNECT | OPTIONS | TRACE | PATCH.
Inductive version := V09 | V10 | V11 | V2 | V3.

Definition method_eqb (a b : method) : bool :=
  match a, b with
  | GET, GET | HEAD, HEAD | POST, POST | PUT, PUT | DELETE, DELETE | CONNECT, CONNECT
  | OPTIONS, OPTIONS | TRACE, TRACE | PATCH, PATCH => true
  | _, _ => false
  end.

Definition method_name (m : method) : bytes :=
  s2b match m with
      | GET => "GET" | HEAD => "HEAD" | POST => "POST" | PUT => "PUT" | DELETE => "DELETE"
      | CONNECT => "CONNECT" | OPTIONS => "OPTIONS" | TRACE => "TRACE" | PATCH => "PATCH"
      end.

(** [Version]'s Debug output. *)
Definition version_name (v : version) : bytes :=
  s2b match v with
      | V09 => "HTTP/0.9" | V10 => "HTTP/1.0" | V11 => "HTTP/1.1" | V2 => "HTTP/2.0" | V3 => "HTTP/3.0"
      end.

Definition is_http10 (m : method) : bool := match m with GET | HEAD | POST => true | _ => false end.
Definition is_http11 (m : method) : bool :=
  match m with PUT | DELETE | CONNECT | OPTIONS | TRACE | PATCH => true | _ => false end.
Definition need_request_body (m : method) : bool :=
  match m with POST | PUT | PATCH => true | _ => false end.

Definition verify_version (m : method) (v : version) : res unit :=
  match v with
  | V10 | V11 =>
      if is_http10 m || (match v with V11 => true | _ => false end && is_http11 m)
      then Ok tt else Err MethodVersionMismatch
  | _ => Err UnsupportedVersion
  end.

(** The request the caller handed over (headers in [HeaderMap::iter] order, names lower case). *)
Record request := {
  rq_method : method;
  rq_version : version;
  rq_uri : uri;
  rq_headers : list header
}.

(** [AmendedRequest]. [am_req = None] after [take_request] (the Rust value is then an empty
    placeholder request whose body is [None]). *)
Record amended := {
  am_req : option request;
  am_uri : option uri;          (* override installed by a redirect *)
  am_added : list header;       (* caller-added / analysis-added headers, in order *)
  am_unset : list bytes         (* inherited headers to suppress *)
}.

Definition placeholder : request :=
  {| rq_method := GET; rq_version := V11;
     rq_uri := {| u_scheme := []; u_auth := []; u_pq := [47] |}; rq_headers := [] |}.

Definition am_request (a : amended) : request :=
  match am_req a with Some r => r | None => placeholder end.

Definition am_new (r : request) : amended :=
  {| am_req := Some r; am_uri := None; am_added := []; am_unset := [] |}.

Definition am_eff_uri (a : amended) : uri :=
  match am_uri a with Some u => u | None => rq_uri (am_request a) end.

Definition am_method (a : amended) : method := rq_method (am_request a).
Definition am_version (a : amended) : version := rq_version (am_request a).

(** Effective headers: added ones first, then the original ones that are not unset. *)
Definition am_headers (a : amended) : list header :=
  am_added a ++ filter (fun h => negb (mem_bytes (fst h) (am_unset a))) (rq_headers (am_request a)).

Definition get_all (hs : list header) (k : bytes) : list bytes :=
  map snd (filter (fun h => beq_bytes (fst h) k) hs).

(** http::HeaderName::from_bytes: non-empty, valid characters, at most 65535 bytes; lower-cased.
    http::HeaderValue::from_bytes: HTAB, 0x20..0x7e, 0x80..0xff. *)
Definition is_http_name_char (b : N) : bool :=
  is_digit b || is_alpha b ||
  (b =? 33) || (b =? 34) || (b =? 35) || (b =? 36) || (b =? 37) || (b =? 38) || (b =? 39) ||
  (b =? 42) || (b =? 43) || (b =? 45) || (b =? 46) ||
  (b =? 94) || (b =? 95) || (b =? 96) || (b =? 124) || (b =? 126).
Definition is_http_value_byte (b : N) : bool :=
  (b =? 9) || ((32 <=? b) && (b <=? 255) && negb (b =? 127)).

Definition valid_header_name (k : bytes) : bool :=
  match k with [] => false | _ => forallb is_http_name_char k && (len k <=? MAX_HEADER_NAME_LEN) end.
Definition valid_header_value (v : bytes) : bool := forallb is_http_value_byte v.

(** [set_header]: validation errors are BadHeader; pushing beyond the capacity panics. *)
Definition am_set_header (a : amended) (k v : bytes) : res amended :=
  if negb (valid_header_name k && valid_header_value v) then Err BadHeader
  else if MAX_EXTRA_HEADERS <=? len (am_added a) then Panic "util.rs: ArrayVec::push (extra headers)"
  else Ok {| am_req := am_req a; am_uri := am_uri a;
             am_added := am_added a ++ [(lower k, v)]; am_unset := am_unset a |}.

Definition am_unset_header (a : amended) (k : bytes) : res amended :=
  if UNSET_CAP <=? len (am_unset a) then Panic "util.rs: ArrayVec::push (unset)"
  else Ok {| am_req := am_req a; am_uri := am_uri a; am_added := am_added a;
             am_unset := am_unset a ++ [k] |}.

Definition am_set_uri (a : amended) (u : uri) : amended :=
  {| am_req := am_req a; am_uri := Some u; am_added := am_added a; am_unset := am_unset a |}.

(** [prelude]: method, path-and-query ("/" if empty), version. *)
Definition prelude_line (a : amended) : bytes :=
  method_name (am_method a) ++ [32] ++
  (match u_pq (am_eff_uri a) with [] => [47] | p => p end) ++ [32] ++
  version_name (am_version a) ++ CRLF.

Record request_info := { ri_mode : writer; ri_host : bool; ri_body_header : bool }.

Definition analyze (a : amended) (wanted : writer) (skip_check : bool) : res request_info :=
  let hs := am_headers a in
  do _ <- verify_version (am_method a) (am_version a);
  if 1 <? len (get_all hs (s2b "host")) then Err TooManyHostHeaders else
  if 1 <? len (get_all hs (s2b "content-length")) then Err TooManyContentLengthHeaders else
  do req_host <-
     match get_all hs (s2b "host") with
     | h :: _ => if is_text h then Ok true else Err BadHostHeader
     | [] => Ok false
     end;
  do content_length <-
     match get_all hs (s2b "content-length") with
     | h :: _ =>
         if is_text h && all_digits h then
           match parse_dec_u64 h with Some n => Ok (Some n) | None => Err BadContentLengthHeader end
         else Err BadContentLengthHeader
     | [] => Ok None
     end;
  let has_chunked :=
      existsb (fun v => is_text v && cmp_lower v (s2b "chunked")) (get_all hs (s2b "transfer-encoding")) in
  let '(mode, body_header) :=
      if has_chunked then (new_chunked, true)
      else match content_length with
           | Some n => (new_sized n, true)
           | None => (wanted, false)
           end in
  do _ <-
     (if skip_check then Ok tt
      else
        let need := need_request_body (am_method a) in
        let has := has_body mode in
        if negb need && has then Err MethodForbidsBody
        else if need && negb has then Err MethodRequiresBody
        else Ok tt);
  Ok {| ri_mode := mode; ri_host := req_host; ri_body_header := body_header |}.
