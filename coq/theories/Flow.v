(** * Flow: model of src/client/flow.rs and src/client/holder.rs. *)
From Hoot Require Import Base Chunk Body Httparse Parser Url Request Call.
Open Scope N_scope.

Inductive tag := TPrepare | TSendRequest | TAwait100 | TSendBody | TRecvResponse | TRecvBody
               | TRedirect | TCleanup.

Inductive holder := HWithoutBody | HWithBody | HRecvResponse | HRecvBody.

Inductive reason := Http10 | ClientConnectionClose | ServerConnectionClose | Not100Continue
                  | CloseDelimitedBody.

Definition reason_eqb (a b : reason) : bool :=
  match a, b with
  | Http10, Http10 | ClientConnectionClose, ClientConnectionClose
  | ServerConnectionClose, ServerConnectionClose | Not100Continue, Not100Continue
  | CloseDelimitedBody, CloseDelimitedBody => true
  | _, _ => false
  end.

Definition explain (r : reason) : bytes :=
  s2b match r with
      | Http10 => "version is http1.0"
      | ClientConnectionClose => "client sent Connection: close"
      | ServerConnectionClose => "server sent Connection: close"
      | Not100Continue => "got non-100 response before sending body"
      | CloseDelimitedBody => "response body is close delimited"
      end.

Record inner := {
  i_call : call;
  i_holder : holder;
  i_reasons : list reason;
  i_should_send_body : bool;
  i_await_100 : bool;
  i_status : option N;
  i_location : option bytes
}.

Definition set_call (f : inner) (c : call) : inner :=
  {| i_call := c; i_holder := i_holder f; i_reasons := i_reasons f;
     i_should_send_body := i_should_send_body f; i_await_100 := i_await_100 f;
     i_status := i_status f; i_location := i_location f |}.
Definition set_call_holder (f : inner) (c : call) (h : holder) : inner :=
  {| i_call := c; i_holder := h; i_reasons := i_reasons f;
     i_should_send_body := i_should_send_body f; i_await_100 := i_await_100 f;
     i_status := i_status f; i_location := i_location f |}.

(** Raw push: panics beyond the capacity ([ArrayVec::push] indexes out of bounds). *)
Definition push_reason (rs : list reason) (r : reason) : res (list reason) :=
  if CLOSE_REASON_CAP <=? len rs then Panic "util.rs: ArrayVec::push (close reasons)"
  else Ok (rs ++ [r]).

(** [add_close_reason]: each reason at most once. *)
Definition add_reason (rs : list reason) (r : reason) : res (list reason) :=
  if existsb (reason_eqb r) rs then Ok rs else push_reason rs r.

Definition is_redirect (f : inner) : bool :=
  match i_status f with
  | Some s => is_redirection s && negb (s =? 304)
  | None => false
  end.

(** [Flow::new]. *)
Definition flow_new (r : request) : res inner :=
  do rs1 <- (match rq_version r with V10 => push_reason [] Http10 | _ => Ok [] end);
  do rs2 <- (if headers_has (rq_headers r) (s2b "connection") (s2b "close")
             then push_reason rs1 ClientConnectionClose else Ok rs1);
  let need := need_request_body (rq_method r) in
  Ok {| i_call := call_new r (if need then new_chunked else new_none);
        i_holder := if need then HWithBody else HWithoutBody;
        i_reasons := rs2;
        i_should_send_body := need;
        i_await_100 := headers_has (rq_headers r) (s2b "expect") (s2b "100-continue");
        i_status := None; i_location := None |}.

(* ---------------------------------------------------------------- Prepare *)

Definition prepare_header (f : inner) (k v : bytes) : res inner :=
  do a <- am_set_header (c_req (i_call f)) k v;
  Ok (set_call f (set_req (i_call f) a)).

Definition send_body_despite_method (f : inner) : res inner :=
  let f1 := {| i_call := i_call f; i_holder := i_holder f; i_reasons := i_reasons f;
               i_should_send_body := true; i_await_100 := i_await_100 f;
               i_status := i_status f; i_location := i_location f |} in
  match i_holder f with
  | HWithoutBody => do c <- into_send_body (i_call f); Ok (set_call_holder f1 c HWithBody)
  | _ => Ok f1
  end.

(* ------------------------------------------------------------ SendRequest *)

Definition send_request_write (f : inner) (cap : N) : res (inner * bytes) :=
  match i_holder f with
  | HWithoutBody => do r <- call_write_nobody (i_call f) cap; Ok (set_call f (fst r), snd r)
  | HWithBody =>
      if is_body (c_phase (i_call f)) then Ok (f, [])
      else do r <- call_write_body (i_call f) [] cap;
           let '(c, _, out) := r in Ok (set_call f c, out)
  | _ => Panic "flow.rs: unreachable in SendRequest::write"
  end.

Definition send_request_can_proceed (f : inner) : res bool :=
  match i_holder f with
  | HWithoutBody => Ok (negb (is_prelude (c_phase (i_call f))))
  | HWithBody => Ok (is_body (c_phase (i_call f)))
  | _ => Panic "flow.rs: unreachable in SendRequest::can_proceed"
  end.

(** [proceed]: [None] = stays; otherwise the new state tag and flow. *)
Definition send_request_proceed (f : inner) : res (option (tag * inner)) :=
  do ok <- send_request_can_proceed f;
  if negb ok then Ok None else
  if i_should_send_body f then
    if i_await_100 f then Ok (Some (TAwait100, f))
    else do c <- analyze_request (i_call f); Ok (Some (TSendBody, set_call f c))
  else
    match i_holder f with
    | HWithoutBody =>
        match into_receive (i_call f) with
        | Ok c => Ok (Some (TRecvResponse, set_call_holder f c HRecvResponse))
        | Err _ => Panic "flow.rs: into_receive().unwrap() in SendRequest::proceed"
        | Panic s => Panic s
        end
    | _ => Panic "flow.rs: unreachable in SendRequest::proceed"
    end.

(* --------------------------------------------------------------- Await100 *)

Definition set_await (f : inner) (b : bool) : inner :=
  {| i_call := i_call f; i_holder := i_holder f; i_reasons := i_reasons f;
     i_should_send_body := i_should_send_body f; i_await_100 := b;
     i_status := i_status f; i_location := i_location f |}.

Definition refuse (f : inner) : res inner :=
  do rs <- add_reason (i_reasons f) Not100Continue;
  Ok {| i_call := i_call f; i_holder := i_holder f; i_reasons := rs;
        i_should_send_body := false; i_await_100 := false;
        i_status := i_status f; i_location := i_location f |}.

(** [try_read_100]: an error still clears [await_100_continue]. The flow is returned in both cases. *)
Definition try_read_100 (f : inner) (input : bytes) : inner * res N :=
  match try_parse_response 0 input with
  | Ok (Some (used, r)) =>
      if rs_status r =? 100 then
        if i_should_send_body f then (set_await f false, Ok used)
        else (set_await f false, Panic "flow.rs: assert!(self.inner.should_send_body)")
      else
        match refuse f with
        | Ok f' => (f', Ok 0)
        | Err e => (f, Err e)
        | Panic s => (f, Panic s)
        end
  | Ok None => (f, Ok 0)
  | Err HttpParseTooManyHeaders =>
      match refuse f with
      | Ok f' => (f', Ok 0)
      | Err e => (f, Err e)
      | Panic s => (f, Panic s)
      end
  | Err e => (set_await f false, Err e)
  | Panic s => (f, Panic s)
  end.

Definition await_100_proceed (f : inner) : res (tag * inner) :=
  if i_should_send_body f then
    do c <- analyze_request (i_call f); Ok (TSendBody, set_call f c)
  else
    match i_holder f with
    | HWithBody => Ok (TRecvResponse, set_call_holder f (set_phase (i_call f) PRecvResponse) HRecvResponse)
    | _ => Panic "flow.rs: unreachable in Await100::proceed"
    end.

(* --------------------------------------------------------------- SendBody *)

Definition as_with_body (f : inner) : res call :=
  match i_holder f with HWithBody => Ok (i_call f) | _ => Panic "holder.rs: as_with_body" end.

Definition send_body_write (f : inner) (input : bytes) (cap : N) : res (inner * N * bytes) :=
  do c <- as_with_body f;
  do r <- call_write_body c input cap;
  let '(c', used, out) := r in Ok (set_call f c', used, out).

Definition send_body_direct (f : inner) (amount : N) : res inner :=
  do c <- as_with_body f;
  do c' <- call_direct_write c amount;
  Ok (set_call f c').

Definition send_body_max_input (f : inner) (output_len : N) : res N :=
  do c <- as_with_body f;
  Ok (if w_is_chunked (c_writer c) then calculate_max_input output_len else output_len).

Definition send_body_is_chunked (f : inner) : res bool :=
  do c <- as_with_body f; Ok (w_is_chunked (c_writer c)).

Definition send_body_can_proceed (f : inner) : res bool :=
  do c <- as_with_body f; Ok (w_ended (c_writer c)).

Definition send_body_proceed (f : inner) : res (option (tag * inner)) :=
  do ok <- send_body_can_proceed f;
  if negb ok then Ok None else
  match into_receive (i_call f) with
  | Ok c => Ok (Some (TRecvResponse, set_call_holder f c HRecvResponse))
  | Err _ => Panic "flow.rs: into_receive().unwrap() in SendBody::proceed"
  | Panic s => Panic s
  end.

(* ----------------------------------------------------------- RecvResponse *)

Definition as_recv_response (f : inner) : res call :=
  match i_holder f with HRecvResponse => Ok (i_call f) | _ => Panic "holder.rs: as_recv_response" end.

Definition last_opt {A} (l : list A) : option A :=
  match l with [] => None | x :: t => Some (last t x) end.

Definition recv_try_response (f : inner) (input : bytes) : res (inner * N * option response) :=
  do c <- as_recv_response f;
  do r <- call_try_response c input;
  let '(c', got) := r in
  let f1 := set_call f c' in
  match got with
  | None => Ok (f1, 0, None)
  | Some (used, rsp) =>
      if (rs_status rsp =? 100) && i_await_100 f1
      then Ok (set_await f1 false, used, None)
      else
        do rs <- (if headers_has (hm_iter (rs_headers rsp)) (s2b "connection") (s2b "close")
                  then add_reason (i_reasons f1) ServerConnectionClose else Ok (i_reasons f1));
        Ok ({| i_call := i_call f1; i_holder := i_holder f1; i_reasons := rs;
               i_should_send_body := i_should_send_body f1; i_await_100 := i_await_100 f1;
               i_status := Some (rs_status rsp);
               i_location := last_opt (hm_get_all (rs_headers rsp) (s2b "location")) |},
            used, Some rsp)
  end.

Definition recv_response_can_proceed (f : inner) : res bool :=
  do c <- as_recv_response f;
  Ok (match c_reader c with Some _ => true | None => false end).

Definition recv_response_proceed (f : inner) : res (option (tag * inner)) :=
  do ok <- recv_response_can_proceed f;
  if negb ok then Ok None else
  let c := set_phase (i_call f) PRecvBody in
  if need_response_body (i_call f) then
    do rs <- (if match c_reader c with Some r => reader_is_close r | None => false end
              then add_reason (i_reasons f) CloseDelimitedBody else Ok (i_reasons f));
    Ok (Some (TRecvBody,
              {| i_call := c; i_holder := HRecvBody; i_reasons := rs;
                 i_should_send_body := i_should_send_body f; i_await_100 := i_await_100 f;
                 i_status := i_status f; i_location := i_location f |}))
  else
    let f' := set_call_holder f c HRecvBody in
    Ok (Some (if is_redirect f' then TRedirect else TCleanup, f')).

(* --------------------------------------------------------------- RecvBody *)

Definition as_recv_body (f : inner) : res call :=
  match i_holder f with HRecvBody => Ok (i_call f) | _ => Panic "holder.rs: as_recv_body" end.

Definition recv_body_read (f : inner) (input : bytes) (cap : N) : res (inner * N * bytes) :=
  do c <- as_recv_body f;
  do r <- call_read c input cap;
  let '(c', i, o) := r in Ok (set_call f c', i, o).

(** The flow after a [read] that returned an error. *)
Definition recv_body_after_err (f : inner) (input : bytes) (cap : N) : inner :=
  match i_holder f with
  | HRecvBody => set_call f (call_read_after_err (i_call f) input cap)
  | _ => f
  end.

Definition recv_body_stop (f : inner) (b : bool) : res inner :=
  do c <- as_recv_body f; Ok (set_call f (set_stop c b)).

Definition reader_of (c : call) : res reader :=
  match c_reader c with Some r => Ok r | None => Panic "call.rs: reader.unwrap()" end.

Definition recv_body_on_boundary (f : inner) : res bool :=
  do c <- as_recv_body f; do r <- reader_of c; Ok (reader_on_boundary r).

Definition recv_body_can_proceed (f : inner) : res bool :=
  do c <- as_recv_body f; do r <- reader_of c; Ok (reader_is_ended r || reader_is_close r).

Definition recv_body_proceed (f : inner) : res (option (tag * inner)) :=
  do ok <- recv_body_can_proceed f;
  if negb ok then Ok None
  else Ok (Some (if is_redirect f then TRedirect else TCleanup, f)).

(* --------------------------------------------------------------- Redirect *)

Inductive auth_policy := Never | SameHost.

Definition is_retaining (status : N) : bool := (status =? 307) || (status =? 308).

Definition can_redirect_auth_header (prev next : uri) : bool :=
  beq_bytes (uri_host prev) (uri_host next) &&
  (beq_bytes (u_scheme prev) (u_scheme next) || beq_bytes (u_scheme next) (s2b "https")).

(** [as_new_flow]: the (mutated) redirect flow, and [None] (not followed) or the new Prepare flow. *)
Definition as_new_flow (f : inner) (policy : auth_policy) : res (inner * option inner) :=
  match i_location f with
  | None => Err NoLocationHeader
  | Some loc =>
      if negb (is_text loc) then Err BadLocationHeader else
      let prev := c_req (i_call f) in
      match i_status f with
      | None => Panic "flow.rs: status.unwrap() in as_new_flow"
      | Some status =>
          let m := am_method prev in
          (* new_uri_from_location: a base that does not parse as a URL (no scheme: origin-form request URI, or the
             placeholder left behind by take_request) is reported as an error *)
          match u_scheme (am_eff_uri prev) with
          | [] => Err BadLocationHeader
          | _ =>
              match resolve (am_eff_uri prev) loc with
              | None => Err BadLocationHeader
              | Some target =>
                  let new_method :=
                      if is_retaining status then
                        if need_request_body m then None
                        else if method_eqb m DELETE then None
                        else Some m
                      else
                        match m with GET | HEAD => Some m | _ => Some GET end in
                  match new_method with
                  | None => Ok (f, None)
                  | Some nm =>
                      match am_req prev with
                      | None => Panic "amended.rs: body.unwrap() in take_request"
                      | Some orig =>
                          let f_taken :=
                              set_call f (set_req (i_call f)
                                 {| am_req := None; am_uri := am_uri prev;
                                    am_added := am_added prev; am_unset := am_unset prev |}) in
                          let req := {| rq_method := nm; rq_version := rq_version orig;
                                        rq_uri := rq_uri orig; rq_headers := rq_headers orig |} in
                          do next <- flow_new req;
                          let keep_auth :=
                              match policy with
                              | Never => false
                              | SameHost => can_redirect_auth_header (rq_uri orig) target
                              end in
                          let a0 := am_set_uri (c_req (i_call next)) target in
                          do a1 <- (if keep_auth then Ok a0 else am_unset_header a0 (s2b "authorization"));
                          do a2 <- am_unset_header a1 (s2b "cookie");
                          do a3 <- am_unset_header a2 (s2b "content-length");
                          Ok (f_taken, Some (set_call next (set_req (i_call next) a3)))
                      end
                  end
              end
          end
      end
  end.

Definition close_reason (f : inner) : option bytes :=
  match i_reasons f with r :: _ => Some (explain r) | [] => None end.
Definition must_close (f : inner) : bool :=
  match i_reasons f with _ :: _ => true | [] => false end.
