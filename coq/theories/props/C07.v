(** Property C07 -- Chunked response decoding yields exactly the payload and never over-reads.
    Statements only; the specification (codings as data, [enc], [valid], [payload], the named
    premise [line_limit_F17], grammar positions [SizePos]/[EndPos], the relation [rel] between
    decoder states and positions, schedules [cstep]/[crun]) is in proofs/C07_spec.v, the proofs are in
    proofs/C07_sizeline.v, C07_sim.v, C07_proofs.v.

    Reading guide.  A position in a coding is (R, ds): R the remaining coding bytes, ds the remaining
    chunk datas (the head possibly partly delivered); the remaining payload is [concat ds].  Every
    window offered to the decoder is [take k (R ++ rest)]: the first k bytes (any k: any arrival cut)
    of the remaining coding followed by arbitrary bytes [rest] of a next message. *)
From Hoot Require Import Base Chunk Body Parser Url Request Call Flow Script.
From Hoot.proofs Require Import BytesLemmas C07_spec C07_sizeline C07_sim C07_proofs C07_call
     C08_flowrun C07_more C07_f17.
Open Scope N_scope.

(** The one fact about arrival cuts everything rests on: on any window of  line CRLF more  with a
    CR-free line, [find_crlf] answers exactly when the whole CRLF has arrived. *)
Theorem c07_find_crlf_window : forall line k more,
  cr_free line ->
  find_crlf (take k (line ++ CRLF ++ more)) = if len line + 2 <=? k then Some (len line) else None.
Proof. exact find_crlf_window. Qed.

(** The size-line parser (cut at ';' within the first 100 bytes, below-128 check, trim, radix 16)
    returns exactly the value of a valid size line: upper/lower-case hex, leading zeros, blanks,
    extension.  The premise [len line <= SANITY_CHECK] is the known finding F17. *)
Theorem c07_size_line : forall line n k more,
  cr_free line -> size_line line n -> len line <= SANITY_CHECK -> len line + 2 <= k ->
  read_size (take k (line ++ CRLF ++ more)) =
    Ok {| sr_st := if n =? 0 then DEnding else DChunk n; sr_in := len line + 2; sr_out := []; sr_more := true |}.
Proof. exact read_size_ok. Qed.

(** The initial decoder state is related to the start of every valid coding. *)
Theorem c07_start : forall c,
  valid c -> line_limit_F17 c ->
  rel DSize (enc c) (map ck_data (cd_chunks c)) /\ concat (map ck_data (cd_chunks c)) = payload c.
Proof. intros c Hv Hl. split; [apply rel_start; assumption|reflexivity]. Qed.

(** One read from a related state, for every [rest], every arrival count [k], every output space
    [cap], every [stop] flag: returns [Ok] (never [Err], never [Panic]: the fuel of both loops
    suffices and the assertion in [trailer] is unreachable); the consumed bytes [C] are a prefix of the
    remaining coding (never a byte of [rest]); the output is a prefix of the remaining payload and fits
    the output space; the new state is related to the new position and is never [DTrailer]. *)
Theorem c07_step : forall st R ds rest k cap stop,
  rel st R ds ->
  exists st' C R' out ds',
    read_chunked st (take k (R ++ rest)) cap stop = Ok (st', len C, out) /\
    R = C ++ R' /\ len C <= k /\
    concat ds = out ++ concat ds' /\ len out <= cap /\
    rel st' R' ds' /\ st' <> DTrailer.
Proof. exact step_safe. Qed.

(** The same read through [BodyReader::read]. *)
Theorem c07_step_reader : forall st src cap stop st' i out,
  read_chunked st src cap stop = Ok (st', i, out) ->
  reader_read (RChunked st) src cap stop = Ok (RChunked st', i, out).
Proof. exact reader_read_chunked. Qed.

(** The same read through [Call<RecvBody>::read] (stop flag taken from the call; an ended reader is
    short-circuited), including the boundary clause. *)
Theorem c07_step_call : forall c st R ds rest k cap,
  c_reader c = Some (RChunked st) -> rel st R ds ->
  exists c' st' C R' out ds',
    call_read c (take k (R ++ rest)) cap = Ok (c', len C, out) /\
    c_reader c' = Some (RChunked st') /\ c_stop c' = c_stop c /\
    R = C ++ R' /\ len C <= k /\
    concat ds = out ++ concat ds' /\ len out <= cap /\
    rel st' R' ds' /\ st' <> DTrailer /\
    (c_stop c = true -> out = [] \/ exists p tl d2, ds = p :: tl /\ p = out ++ d2).
Proof. exact step_call. Qed.

(** A related state is ended exactly when no coding byte remains. *)
Theorem c07_ended_iff : forall st R ds, rel st R ds -> (dech_is_ended st = true <-> R = []).
Proof. exact rel_ended_iff. Qed.

(** Every schedule of (arrival count, output space, stop flag), of any length, over the coding
    followed by arbitrary bytes: no read fails; the input consumed never exceeds the coding; the
    outputs concatenate to a prefix of the payload; the body is reported ended exactly when the whole
    coding (up to and including its final CRLF) has been consumed, and then the output is exactly the
    payload; the state between reads is never [DTrailer]. *)
Theorem c07_run : forall c rest sched,
  valid c -> line_limit_F17 c ->
  exists t, crun (enc c ++ rest) cstart sched = Ok t /\
    t_consumed t <= len (enc c) /\
    (exists P', payload c = t_out t ++ P') /\
    (dech_is_ended (t_st t) = true <-> t_consumed t = len (enc c)) /\
    (dech_is_ended (t_st t) = true -> t_out t = payload c) /\
    t_st t <> DTrailer.
Proof. exact run_safe. Qed.

(** Boundary stop, one read: the output is a prefix of the (rest of the) chunk at the position. *)
Theorem c07_boundary_step : forall st R ds rest k cap st' i out,
  rel st R ds ->
  read_chunked st (take k (R ++ rest)) cap true = Ok (st', i, out) ->
  out = [] \/ exists p tl d2, ds = p :: tl /\ p = out ++ d2.
Proof. exact step_boundary. Qed.

(** Boundary stop, after any history: a read with [stop = true] returns bytes lying inside the data
    of a single chunk of the coding. *)
Theorem c07_boundary : forall c rest sched k cap t,
  valid c -> line_limit_F17 c ->
  crun (enc c ++ rest) cstart sched = Ok t ->
  exists t' out,
    cstep (enc c ++ rest) t (k, cap, true) = Ok t' /\ t_out t' = t_out t ++ out /\
    (out = [] \/ exists ck d1 d2, In ck (cd_chunks c) /\ ck_data ck = d1 ++ out ++ d2).
Proof. exact run_boundary. Qed.

(** The positional form: the output continues exactly the chunk in which delivery stands ([pre] = the
    chunk datas completely delivered so far, [d1] = the delivered part of the current chunk) and does
    not go beyond its end. *)
Theorem c07_boundary_pos : forall c rest sched k cap t,
  valid c -> line_limit_F17 c ->
  crun (enc c ++ rest) cstart sched = Ok t ->
  exists t' out,
    cstep (enc c ++ rest) t (k, cap, true) = Ok t' /\ t_out t' = t_out t ++ out /\
    (out = [] \/ exists pre d1 d2 post,
                   map ck_data (cd_chunks c) = pre ++ (d1 ++ out ++ d2) :: post /\
                   t_out t = concat pre ++ d1).
Proof. exact run_boundary_pos. Qed.

(** Liveness, so that safety is not vacuous: with the remaining coding visible and room for one
    byte, a read in a non-ended state consumes at least one byte ... *)
Theorem c07_progress : forall st R ds rest k cap stop st' i out,
  rel st R ds -> len R <= k -> 1 <= cap -> dech_is_ended st = false ->
  read_chunked st (take k (R ++ rest)) cap stop = Ok (st', i, out) ->
  1 <= i.
Proof. exact step_progress. Qed.

(** ... hence any schedule of at least [len (enc c)] reads, each seeing the whole coding and offering
    room for one byte, ends the body with exactly the payload delivered. *)
Theorem c07_reaches_end : forall c rest sched,
  valid c -> line_limit_F17 c ->
  Forall (all_visible c) sched -> len (enc c) <= len sched ->
  exists t, crun (enc c ++ rest) cstart sched = Ok t /\
    dech_is_ended (t_st t) = true /\ t_consumed t = len (enc c) /\ t_out t = payload c.
Proof. exact run_reaches_end. Qed.

(** ** Concrete codings *)

(** Known finding F17: a coding that is valid but has a 33-byte size line is rejected. *)
Definition f17_coding : coding :=
  {| cd_chunks := [ {| ck_line := s2b "5;name=abcdefghijklmnopqrstuvwxyz"; ck_data := s2b "hello" |} ];
     cd_last := s2b "0"; cd_trailers := [] |}.

Theorem c07_known_refuted :
  exists c, valid c /\ ~ line_limit_F17 c /\
            read_chunked DSize (enc c ++ s2b "HTTP/1.1 200 OK") 100 false = Err ChunkExpectedCrLf.
Proof.
  exists f17_coding. split; [|split].
  - unfold valid, f17_coding; cbn [cd_chunks cd_last cd_trailers]. split; [|split; [|split]].
    + constructor; [|constructor]. unfold valid_chunk; cbn [ck_line ck_data].
      split; [apply cr_free_b; reflexivity|]. split; [|vm_compute; reflexivity].
      size_line_tac (s2b "5") (@nil N) (s2b ";name=abcdefghijklmnopqrstuvwxyz").
    + apply cr_free_b; reflexivity.
    + size_line_tac (s2b "0") (@nil N) (@nil N).
    + constructor.
  - intros [H _]. inversion H as [|? ? Hlen _]; subst. vm_compute in Hlen. apply Hlen. reflexivity.
  - vm_compute. reflexivity.
Qed.

(** Non-vacuity: two chunks, the first with upper-case hex, a leading zero, a blank and an extension
    and with CR LF inside its data, one trailer field; followed by the start of a next message.
    Bytes arrive one at a time: before each read one more byte of the stream has arrived, and the
    window is everything arrived and not yet consumed. *)
Definition demo : coding :=
  {| cd_chunks := [ {| ck_line := s2b "0B ;ext=1"; ck_data := s2b "hello" ++ [13; 10] ++ s2b "worl" |};
                    {| ck_line := s2b "3"; ck_data := s2b "abc" |} ];
     cd_last := s2b "00"; cd_trailers := [ s2b "X-T: v" ] |}.

Definition demo_next : bytes := s2b "HTTP/1.1 200 OK".

Fixpoint arrival_sched (stream : bytes) (t : ctrace) (arrived : N) (n : nat) (cap : N) (stop : bool)
  : list (N * N * bool) :=
  match n with
  | O => []
  | S m =>
      let o := (arrived + 1 - t_consumed t, cap, stop) in
      match cstep stream t o with
      | Ok t' => o :: arrival_sched stream t' (arrived + 1) m cap stop
      | _ => [o]
      end
  end.

Lemma demo_valid : valid demo /\ line_limit_F17 demo.
Proof.
  split.
  - unfold valid, demo; cbn [cd_chunks cd_last cd_trailers]. split; [|split; [|split]].
    + constructor; [|constructor; [|constructor]]; unfold valid_chunk; cbn [ck_line ck_data].
      * split; [apply cr_free_b; reflexivity|]. split; [|vm_compute; reflexivity].
        size_line_tac (s2b "0B") (s2b " ") (s2b ";ext=1").
      * split; [apply cr_free_b; reflexivity|]. split; [|vm_compute; reflexivity].
        size_line_tac (s2b "3") (@nil N) (@nil N).
    + apply cr_free_b; reflexivity.
    + size_line_tac (s2b "00") (@nil N) (@nil N).
    + constructor; [|constructor]. split; [discriminate|apply cr_free_b; reflexivity].
  - unfold line_limit_F17, demo; cbn [cd_chunks cd_last]. split.
    + repeat constructor; vm_compute; discriminate.
    + vm_compute; discriminate.
Qed.

Example c07_nonvacuous :
  valid demo /\ line_limit_F17 demo /\
  let stream := enc demo ++ demo_next in
  forall stop,
  let sched := arrival_sched stream cstart 0 (List.length stream) 4 stop in
  exists t, crun stream cstart sched = Ok t /\
    List.length sched = List.length stream /\
    t_st t = DEnded /\ t_consumed t = len (enc demo) /\ t_out t = payload demo /\
    t_out t = s2b "hello" ++ [13; 10] ++ s2b "worlabc".
Proof.
  split; [apply demo_valid|]. split; [apply demo_valid|].
  intros stream stop sched. destruct stop; vm_compute; eexists; repeat split.
Qed.

(* ====================================================================================== *)
(** * Strengthening after review 2

    ** 1. The schedule theorem at the observation points

    [frun] (proofs/C08_flowrun.v): each schedule item (k, cap, stop) sets stop-on-chunk-boundary to
    [stop] through the flow and then calls [Flow<RecvBody>::read] with the first [k] unconsumed bytes
    of the stream and [cap] bytes of output space; a failing read fails the run.  [call_run]
    (proofs/C07_more.v) is the same through [Call<RecvBody>::read] alone, the stop flag being the one
    stored in the call.  Both include the short-circuit for an ended reader. *)

(** Any schedule through the flow over a valid coding followed by arbitrary bytes: no read fails;
    the flow never consumes beyond the coding; the output is a prefix of the payload; [can_proceed] is
    true exactly when the whole coding, final CRLF included, has been consumed, and then the output
    is exactly the payload; reads issued after that (the schedule is arbitrary) change nothing;
    nothing else in the flow (holder, close reasons, status, location) changes. *)
Theorem c07_run_flow : forall c rest sched f,
  valid c -> line_limit_F17 c ->
  i_holder f = HRecvBody -> c_reader (i_call f) = Some (RChunked DSize) ->
  exists t st,
    frun (enc c ++ rest) (fstart f) sched = Ok t /\
    i_holder (ft_flow t) = HRecvBody /\ c_reader (i_call (ft_flow t)) = Some (RChunked st) /\
    st <> DTrailer /\
    ft_consumed t <= len (enc c) /\
    (exists P', payload c = ft_out t ++ P') /\
    recv_body_can_proceed (ft_flow t) = Ok (ft_consumed t =? len (enc c)) /\
    (recv_body_can_proceed (ft_flow t) = Ok true <-> ft_consumed t = len (enc c)) /\
    (ft_consumed t = len (enc c) -> ft_out t = payload c) /\
    same_shell f (ft_flow t).
Proof. exact run_flow. Qed.

(** The same through [Call<RecvBody>::read], with [reader_is_ended] as the completion test. *)
Theorem c07_run_call : forall c0 c rest sched,
  valid c -> line_limit_F17 c -> c_reader c0 = Some (RChunked DSize) ->
  exists c' consumed out st,
    call_run (enc c ++ rest) c0 0 [] sched = Ok (c', consumed, out) /\
    c_reader c' = Some (RChunked st) /\ st <> DTrailer /\ c_stop c' = c_stop c0 /\
    consumed <= len (enc c) /\ (exists P', payload c = out ++ P') /\
    (reader_is_ended (RChunked st) = true <-> consumed = len (enc c)) /\
    (consumed = len (enc c) -> out = payload c).
Proof. exact run_call. Qed.

(** A decoder-level run that succeeds is reproduced by the flow, read by read (this is how the two
    theorems above, and the boundary theorems, transfer). *)
Theorem c07_flow_simulates : forall stream sched f st consumed out ct,
  i_holder f = HRecvBody -> c_reader (i_call f) = Some (RChunked st) ->
  crun stream {| t_st := st; t_consumed := consumed; t_out := out |} sched = Ok ct ->
  exists t,
    frun stream {| ft_flow := f; ft_consumed := consumed; ft_out := out |} sched = Ok t /\
    i_holder (ft_flow t) = HRecvBody /\ c_reader (i_call (ft_flow t)) = Some (RChunked (t_st ct)) /\
    ft_consumed t = t_consumed ct /\ ft_out t = t_out ct /\ same_shell f (ft_flow t).
Proof. exact frun_of_crun. Qed.

(** ** 2. Finding F17: a size line longer than SANITY_CHECK is rejected when visible, and only then *)

(** The parser of size lines, on ANY CR-free line longer than the limit (valid or not), once the line
    and its CRLF are in the window. *)
Theorem c07_long_line_rejected : forall line k more,
  cr_free line -> SANITY_CHECK < len line -> len line + 2 <= k ->
  read_size (take k (line ++ CRLF ++ more)) = Err ChunkExpectedCrLf.
Proof. exact long_line_read_size. Qed.

(** A whole [read_chunked] call in state Size in front of such a line: fails iff the line is visible,
    otherwise waits without consuming. *)
Theorem c07_long_line_read : forall line k more cap stop,
  cr_free line -> SANITY_CHECK < len line ->
  read_chunked DSize (take k (line ++ CRLF ++ more)) cap stop =
    if len line + 2 <=? k then Err ChunkExpectedCrLf else Ok (DSize, 0, []).
Proof. exact long_line_read_chunked. Qed.

(** At the flow. *)
Theorem c07_long_line_flow : forall stream t line more k cap stop,
  i_holder (ft_flow t) = HRecvBody -> c_reader (i_call (ft_flow t)) = Some (RChunked DSize) ->
  drop (ft_consumed t) stream = line ++ CRLF ++ more ->
  cr_free line -> SANITY_CHECK < len line ->
  (len line + 2 <= k -> fstep stream t (k, cap, stop) = Err ChunkExpectedCrLf) /\
  (k < len line + 2 ->
   exists f', fstep stream t (k, cap, stop) = Ok {| ft_flow := f'; ft_consumed := ft_consumed t; ft_out := ft_out t |} /\
              c_reader (i_call f') = Some (RChunked DSize) /\ i_holder f' = HRecvBody).
Proof. exact long_line_flow. Qed.

(** EXACTNESS of the class of F17 (the dual of [c07_run] / [c07_reaches_end]).  For EVERY valid coding
    outside the line limit, followed by anything:
    - safety, any schedule: either all reads succeed -- then strictly less than the coding has been
      consumed, a prefix of the payload delivered, the body not reported ended -- or the run fails, and
      the only possible failure is ChunkExpectedCrLf (never a panic, never another error);
    - rejection: when every read sees the whole coding and has room for a byte, [len (enc c)] reads
      always fail.
    So no member of the class is ever decoded to its end, and every member is refused once visible.
    (Proof: the simulation redone for streams that run into a long line, proofs/C07_f17.v.) *)
Theorem c07_f17_class : forall c rest,
  valid c -> ~ line_limit_F17 c ->
  (forall sched,
     (exists t, crun (enc c ++ rest) cstart sched = Ok t /\
                t_consumed t < len (enc c) /\ (exists P', payload c = t_out t ++ P') /\
                dech_is_ended (t_st t) = false /\ t_st t <> DTrailer) \/
     crun (enc c ++ rest) cstart sched = Err ChunkExpectedCrLf) /\
  (forall sched, Forall (all_visible c) sched -> len (enc c) <= len sched ->
                 crun (enc c ++ rest) cstart sched = Err ChunkExpectedCrLf).
Proof. exact f17_class. Qed.

(** Where it stops: [cs1] = the chunks in front of the first long size line [line]; no run consumes
    more than their encoding (nothing of the long line) or delivers more than their data. *)
Theorem c07_f17_class_precise : forall c,
  valid c -> ~ line_limit_F17 c ->
  exists cs1 cs2 line more,
    cd_chunks c = cs1 ++ cs2 /\
    enc c = concat (map enc_chunk cs1) ++ line ++ CRLF ++ more /\
    Forall within_limit cs1 /\ cr_free line /\ SANITY_CHECK < len line /\
    forall rest sched,
      (exists t, crun (enc c ++ rest) cstart sched = Ok t /\
                 t_consumed t <= len (concat (map enc_chunk cs1)) /\
                 (exists P', concat (map ck_data cs1) = t_out t ++ P') /\
                 dech_is_ended (t_st t) = false) \/
      crun (enc c ++ rest) cstart sched = Err ChunkExpectedCrLf.
Proof. exact f17_class_precise. Qed.

(** The class at the flow: [can_proceed] is never true, and the flow's reads fail as the decoder's. *)
Theorem c07_f17_class_flow : forall c rest f,
  valid c -> ~ line_limit_F17 c ->
  i_holder f = HRecvBody -> c_reader (i_call f) = Some (RChunked DSize) ->
  (forall sched,
     (exists t, frun (enc c ++ rest) (fstart f) sched = Ok t /\
                ft_consumed t < len (enc c) /\ (exists P', payload c = ft_out t ++ P') /\
                recv_body_can_proceed (ft_flow t) = Ok false) \/
     frun (enc c ++ rest) (fstart f) sched = Err ChunkExpectedCrLf) /\
  (forall sched, Forall (all_visible c) sched -> len (enc c) <= len sched ->
                 frun (enc c ++ rest) (fstart f) sched = Err ChunkExpectedCrLf).
Proof. exact f17_class_flow. Qed.

(** A member with a well-formed chunk in front of the long line: "3" CRLF "abc" CRLF, then the
    33-byte line.  One read (everything visible, 2 bytes of room) succeeds; a second one fails; with
    windows of 10 bytes the line is never visible and the decoder waits in front of it for ever,
    having delivered "abc". *)
Definition f17_coding2 : coding :=
  {| cd_chunks := [ {| ck_line := s2b "3"; ck_data := s2b "abc" |};
                    {| ck_line := s2b "5;name=abcdefghijklmnopqrstuvwxyz"; ck_data := s2b "hello" |} ];
     cd_last := s2b "0"; cd_trailers := [] |}.

Example c07_f17_class_nonvacuous :
  valid f17_coding2 /\ ~ line_limit_F17 f17_coding2 /\
  let stream := enc f17_coding2 ++ demo_next in
  (exists t, crun stream cstart [(100, 2, false)] = Ok t /\ t_consumed t = 5 /\ t_out t = s2b "ab") /\
  crun stream cstart [(100, 2, false); (100, 2, false)] = Err ChunkExpectedCrLf /\
  crun stream cstart (repeat (100, 100, true) 50) = Err ChunkExpectedCrLf /\
  (exists t, crun stream cstart (repeat (10, 10, false) 30) = Ok t /\
             t_consumed t = 8 /\ t_out t = s2b "abc" /\ t_st t = DSize).
Proof.
  split; [|split].
  - unfold valid, f17_coding2; cbn [cd_chunks cd_last cd_trailers]. split; [|split; [|split]].
    + constructor; [|constructor; [|constructor]]; unfold valid_chunk; cbn [ck_line ck_data].
      * split; [apply cr_free_b; reflexivity|]. split; [|vm_compute; reflexivity].
        size_line_tac (s2b "3") (@nil N) (@nil N).
      * split; [apply cr_free_b; reflexivity|]. split; [|vm_compute; reflexivity].
        size_line_tac (s2b "5") (@nil N) (s2b ";name=abcdefghijklmnopqrstuvwxyz").
    + apply cr_free_b; reflexivity.
    + size_line_tac (s2b "0") (@nil N) (@nil N).
    + constructor.
  - intros [H _]. inversion H as [|? ? _ H2]; subst. inversion H2 as [|? ? Hlen _]; subst.
    vm_compute in Hlen. apply Hlen. reflexivity.
  - cbv zeta. split; [eexists; split; [vm_compute; reflexivity|split; vm_compute; reflexivity]|].
    split; [vm_compute; reflexivity|]. split; [vm_compute; reflexivity|].
    eexists. split; [vm_compute; reflexivity|]. repeat split; vm_compute; reflexivity.
Qed.

(** ** Non-vacuity on a flow produced by RUNNING the model: GET http://a.test/x, head written, a
    response head with "Transfer-Encoding: chunked" parsed, body state entered. *)

Definition ex_uri : uri := {| u_scheme := s2b "http"; u_auth := s2b "a.test"; u_pq := s2b "/x" |}.
Definition ex_get : request := {| rq_method := GET; rq_version := V11; rq_uri := ex_uri; rq_headers := [] |}.
Definition resp_chunked : bytes :=
  s2b "HTTP/1.1 200 OK" ++ CRLF ++ s2b "Transfer-Encoding: gzip, Chunked" ++ CRLF ++ CRLF.
Definition to_chunked_body : list op :=
  [ONew ex_get; OProceed; OWriteHead 1000; OProceed; OSetStream resp_chunked; OArrive 1000; OTryResponse; OProceed].
Definition flow_at (ops : list op) : option (tag * inner) :=
  match s_obj (run_ops s_init ops) with ObFlow t f => Some (t, f) | _ => None end.

(** [demo] followed by the start of a next response, windows of 12 bytes, 3 bytes of output space,
    boundary stop on: after 5 reads the flow may not proceed, after 60 it may, exactly the coding has
    been consumed and exactly the payload delivered; 40 further reads change nothing. *)
Example c07_run_flow_nonvacuous :
  exists f, flow_at to_chunked_body = Some (TRecvBody, f) /\
    i_holder f = HRecvBody /\ c_reader (i_call f) = Some (RChunked DSize) /\
    (exists t, frun (enc demo ++ demo_next) (fstart f) (repeat (12, 3, true) 5) = Ok t /\
               recv_body_can_proceed (ft_flow t) = Ok false /\ ft_consumed t <> len (enc demo)) /\
    (exists t, frun (enc demo ++ demo_next) (fstart f) (repeat (12, 3, true) 60) = Ok t /\
               recv_body_can_proceed (ft_flow t) = Ok true /\
               ft_consumed t = len (enc demo) /\ ft_out t = payload demo) /\
    (exists t, frun (enc demo ++ demo_next) (fstart f) (repeat (12, 3, true) 60 ++ repeat (100, 100, false) 40) = Ok t /\
               ft_consumed t = len (enc demo) /\ ft_out t = payload demo).
Proof.
  eexists. split; [vm_compute; reflexivity|]. split; [vm_compute; reflexivity|]. split; [vm_compute; reflexivity|].
  split; [|split].
  - eexists. split; [vm_compute; reflexivity|]. split; [vm_compute; reflexivity|]. vm_compute. discriminate.
  - eexists. split; [vm_compute; reflexivity|]. repeat split; vm_compute; reflexivity.
  - eexists. split; [vm_compute; reflexivity|]. split; vm_compute; reflexivity.
Qed.

(** The 33-byte size line of [f17_coding] on the same flow: with 34 bytes visible the read waits, with
    35 (the line and its CRLF) it fails. *)
Example c07_long_line_nonvacuous :
  exists f, flow_at to_chunked_body = Some (TRecvBody, f) /\
    let line := s2b "5;name=abcdefghijklmnopqrstuvwxyz" in
    let stream := enc f17_coding ++ demo_next in
    cr_free line /\ SANITY_CHECK < len line /\
    (exists more, drop (ft_consumed (fstart f)) stream = line ++ CRLF ++ more) /\
    fstep stream (fstart f) (35, 100, false) = Err ChunkExpectedCrLf /\
    exists f', fstep stream (fstart f) (34, 100, false) = Ok {| ft_flow := f'; ft_consumed := 0; ft_out := [] |}.
Proof.
  eexists. split; [vm_compute; reflexivity|]. cbv zeta.
  split; [apply cr_free_b; reflexivity|]. split; [vm_compute; reflexivity|].
  split; [exists (drop 35 (enc f17_coding ++ demo_next)); vm_compute; reflexivity|].
  split; [vm_compute; reflexivity|].
  eexists. vm_compute. reflexivity.
Qed.

Print Assumptions c07_find_crlf_window.
Print Assumptions c07_size_line.
Print Assumptions c07_start.
Print Assumptions c07_step.
Print Assumptions c07_step_reader.
Print Assumptions c07_step_call.
Print Assumptions c07_ended_iff.
Print Assumptions c07_run.
Print Assumptions c07_boundary_step.
Print Assumptions c07_boundary.
Print Assumptions c07_boundary_pos.
Print Assumptions c07_progress.
Print Assumptions c07_reaches_end.
Print Assumptions c07_known_refuted.
Print Assumptions demo_valid.
Print Assumptions c07_nonvacuous.
Print Assumptions c07_run_flow.
Print Assumptions c07_run_call.
Print Assumptions c07_flow_simulates.
Print Assumptions c07_long_line_rejected.
Print Assumptions c07_long_line_read.
Print Assumptions c07_long_line_flow.
Print Assumptions c07_run_flow_nonvacuous.
Print Assumptions c07_long_line_nonvacuous.
Print Assumptions c07_f17_class.
Print Assumptions c07_f17_class_precise.
Print Assumptions c07_f17_class_flow.
Print Assumptions c07_f17_class_nonvacuous.

(* ================================================================== the code's own arithmetic (translated fragments) *)
(** The expression that sizes one copy of chunk data and the one that delimits the hexadecimal number inside a size line are
    translated from src/chunk.rs on every run (theories/Gen.v, FRAGMENTS of tools/rs2coq.py); proofs/Gen_equiv_frag.v proves them
    equal to the statement's formulas for all arguments and to what the model's decoder computes. *)
From Hoot Require Import Gen.
From Hoot.proofs Require Import Gen_equiv_frag_c07.
Theorem c07_code_read_data : forall src_len dst_len left, gen_chunk_read_n src_len dst_len left = N.min (N.min src_len dst_len) left.
Proof. exact gen_chunk_read_n_spec. Qed.
Theorem c07_code_read_data_is_model : forall lft src room,
  exists r, read_data lft src room = Ok r /\
            sr_in r = gen_chunk_read_n (len src) room lft /\
            sr_out r = take (gen_chunk_read_n (len src) room lft) src /\
            sr_st r = (if lft - gen_chunk_read_n (len src) room lft =? 0 then DCrLf
                       else DChunk (lft - gen_chunk_read_n (len src) room lft)).
Proof. exact read_data_gen. Qed.
Theorem c07_code_len_end : forall meta_some meta_val i,
  gen_size_len_end meta_some meta_val i = N.min (if meta_some then meta_val else SANITY_CHECK + 1) i.
Proof. exact gen_size_len_end_spec. Qed.
Theorem c07_code_read_size_is_model : forall src i,
  find_crlf src = Some i -> (SANITY_CHECK <? i) = false ->
  let mm := position (fun c => c =? 59) (take META_WINDOW src) in
  let raw := take (gen_size_len_end (match mm with Some _ => true | None => false end)
                                    (match mm with Some m => m | None => 0 end) i) src in
  read_size src =
  if negb (forallb (fun c => c <? 128) raw) then Err ChunkLenNotAscii else
  match parse_hex_usize (trim raw) with
  | None => Err ChunkLenNotANumber
  | Some n => Ok {| sr_st := if n =? 0 then DEnding else DChunk n; sr_in := i + 2; sr_out := []; sr_more := true |}
  end.
Proof. exact read_size_gen. Qed.
Print Assumptions c07_code_read_data.
Print Assumptions c07_code_read_data_is_model.
Print Assumptions c07_code_len_end.
Print Assumptions c07_code_read_size_is_model.

(* ================================================================== framing bytes need no output room *)
(** The CRLF after chunk data, the size line of the last-chunk, trailer lines and the final CRLF produce no output, so a read
    whose output buffer is EMPTY (cap = 0) must still consume them.  [c07_progress] and [c07_reaches_end] assume [1 <= cap];
    the statements below do not (proofs/C07_zero.v). *)
From Hoot.proofs Require Import C07_zero.

(** [c07_progress] without the premise [1 <= cap], for every state that is not inside chunk data: with the remaining coding
    visible, a read in a state that is neither ended nor [DChunk _] consumes at least one byte, whatever the output room
    (zero included) and the stop flag.  (In [DChunk _] with cap = 0 nothing can be consumed: data needs room.)  The line-length
    premise of F17 is part of [rel] (through [SizePos]), as for [c07_progress]. *)
Theorem c07_progress_no_room : forall st R ds rest k cap stop st' i out,
  rel st R ds -> len R <= k -> dech_is_ended st = false -> (forall n, st <> DChunk n) ->
  read_chunked st (take k (R ++ rest)) cap stop = Ok (st', i, out) ->
  1 <= i.
Proof. exact step_progress_no_room. Qed.

(** Draining the tail.  Once all chunk data has been delivered (the relation holds with no piece of payload left: the decoder
    stands at the CRLF after the last data chunk, at the last-chunk size line, at a trailer line or the final CRLF, or has
    ended), every schedule of reads that each see the [len R] remaining coding bytes ([sees n (k, cap, stop)] is [n <= k]: NO
    condition on [cap], so all of them may have cap = 0) and that has at least [len R] items ends the body: the decoder is ended,
    exactly [len R] bytes have been consumed (so no byte of [rest]), nothing has been output. *)
Theorem c07_drain_no_room : forall stream rest sched t R,
  rel (t_st t) R [] -> drop (t_consumed t) stream = R ++ rest ->
  Forall (sees (len R)) sched -> len R <= len sched ->
  exists t', crun stream t sched = Ok t' /\
    dech_is_ended (t_st t') = true /\ t_consumed t' = t_consumed t + len R /\ t_out t' = t_out t.
Proof. exact drain_no_room. Qed.

(** The sharp bound: TWO such reads always suffice (a read at the CRLF after the last data chunk may return right after it:
    [expect_crlf] does not ask for more, and with cap = 0 the outer loop stops; the next read runs through the last-chunk line,
    all trailers and the final CRLF), and ONE suffices unless the decoder stands at that CRLF. *)
Theorem c07_drain_no_room_two_reads : forall stream rest sched t R,
  rel (t_st t) R [] -> drop (t_consumed t) stream = R ++ rest ->
  Forall (sees (len R)) sched ->
  (if dechunker_eqb (t_st t) DCrLf then 2 else 1) <= len sched ->
  exists t', crun stream t sched = Ok t' /\
    dech_is_ended (t_st t') = true /\ t_consumed t' = t_consumed t + len R /\ t_out t' = t_out t.
Proof. exact drain_no_room_two_reads. Qed.

(** The same after ANY history over a valid coding: as soon as the whole payload has been delivered, two reads that see the rest
    of the coding, with any output room (none included), complete the body: exactly the coding consumed, exactly the payload
    delivered. *)
Theorem c07_drain_no_room_run : forall c rest sched1 t sched2,
  valid c -> line_limit_F17 c ->
  crun (enc c ++ rest) cstart sched1 = Ok t -> t_out t = payload c ->
  Forall (sees (len (enc c) - t_consumed t)) sched2 -> 2 <= len sched2 ->
  exists t', crun (enc c ++ rest) t sched2 = Ok t' /\
    dech_is_ended (t_st t') = true /\ t_consumed t' = len (enc c) /\ t_out t' = payload c.
Proof. exact run_drain_no_room. Qed.

(** Non-vacuity on [demo] (two chunks, an extension, one trailer) followed by the start of a next message.
    (A) Output buffers exactly as large as the chunks (11 and 3 bytes), everything visible: the decoder stands at the last-chunk
        line with the whole payload delivered and 14 coding bytes left; the premises of the theorems above hold there, and ONE
        read with cap = 0 consumes these 14 bytes and ends the body.
    (B) The second read sees only  3 CRLF abc : the decoder stands at the CRLF after the last data chunk, 16 bytes left; a first
        read with cap = 0 consumes that CRLF only, a second one ends the body. *)
Example c07_no_room_nonvacuous :
  let stream := enc demo ++ demo_next in
  (exists t R,
     crun stream cstart [(100, 11, false); (100, 3, false)] = Ok t /\
     t_st t = DSize /\ t_consumed t = 32 /\ t_out t = payload demo /\
     drop (t_consumed t) stream = R ++ demo_next /\ rel (t_st t) R [] /\ len R = 14 /\
     dech_is_ended (t_st t) = false /\ (forall n, t_st t <> DChunk n) /\
     read_chunked (t_st t) (take 14 (R ++ demo_next)) 0 false = Ok (DEnded, 14, []) /\
     Forall (sees (len R)) [(14, 0, false)] /\
     exists t', crun stream t [(14, 0, false)] = Ok t' /\
                t_st t' = DEnded /\ t_consumed t' = len (enc demo) /\ t_out t' = payload demo) /\
  (exists t R,
     crun stream cstart [(100, 11, false); (6, 3, false)] = Ok t /\
     t_st t = DCrLf /\ t_consumed t = 30 /\ t_out t = payload demo /\
     drop (t_consumed t) stream = R ++ demo_next /\ rel (t_st t) R [] /\ len R = 16 /\
     dech_is_ended (t_st t) = false /\ (forall n, t_st t <> DChunk n) /\
     read_chunked (t_st t) (take 16 (R ++ demo_next)) 0 true = Ok (DSize, 2, []) /\
     Forall (sees (len R)) [(16, 0, true); (16, 0, false)] /\
     (exists t1, crun stream t [(16, 0, true)] = Ok t1 /\ t_st t1 = DSize /\ t_consumed t1 = 32) /\
     exists t', crun stream t [(16, 0, true); (16, 0, false)] = Ok t' /\
                t_st t' = DEnded /\ t_consumed t' = len (enc demo) /\ t_out t' = payload demo).
Proof.
  assert (HS : SizePos (s2b "00" ++ CRLF ++ (s2b "X-T: v" ++ CRLF ++ CRLF)) []).
  { apply SP_last.
    - apply cr_free_b; reflexivity.
    - size_line_tac (s2b "00") (@nil N) (@nil N).
    - vm_compute; discriminate.
    - apply EP_trailer; [discriminate|apply cr_free_b; reflexivity|apply EP_end]. }
  cbv zeta. split.
  - eexists. exists (s2b "00" ++ CRLF ++ (s2b "X-T: v" ++ CRLF ++ CRLF)).
    split; [vm_compute; reflexivity|]. cbn [t_st t_consumed t_out].
    split; [reflexivity|]. split; [reflexivity|]. split; [vm_compute; reflexivity|].
    split; [vm_compute; reflexivity|]. split; [exact HS|]. split; [vm_compute; reflexivity|].
    split; [reflexivity|]. split; [intros n; discriminate|]. split; [vm_compute; reflexivity|].
    split; [repeat constructor; vm_compute; discriminate|].
    eexists. split; [vm_compute; reflexivity|]. repeat split; vm_compute; reflexivity.
  - eexists. exists (CRLF ++ s2b "00" ++ CRLF ++ (s2b "X-T: v" ++ CRLF ++ CRLF)).
    split; [vm_compute; reflexivity|]. cbn [t_st t_consumed t_out].
    split; [reflexivity|]. split; [reflexivity|]. split; [vm_compute; reflexivity|].
    split; [vm_compute; reflexivity|]. split; [eexists; split; [reflexivity|exact HS]|].
    split; [vm_compute; reflexivity|].
    split; [reflexivity|]. split; [intros n; discriminate|]. split; [vm_compute; reflexivity|].
    split; [repeat constructor; vm_compute; discriminate|].
    split; [eexists; split; [vm_compute; reflexivity|split; vm_compute; reflexivity]|].
    eexists. split; [vm_compute; reflexivity|]. repeat split; vm_compute; reflexivity.
Qed.

Print Assumptions c07_progress_no_room.
Print Assumptions c07_drain_no_room.
Print Assumptions c07_drain_no_room_two_reads.
Print Assumptions c07_drain_no_room_run.
Print Assumptions c07_no_room_nonvacuous.

(* ================================================================== the decoder's code itself (whole functions translated from the source) *)
(** [theories/Gen2.v] is regenerated on every run by tools/rs2coq2.py from src/util.rs (find_crlf) and src/chunk.rs (every method
    of Dechunker, including the parse_input loop), in state-passing style: the output buffer is a byte list that is overwritten
    in place, positions are explicit.  proofs/Gen2_equiv_chunk.v proves that translation equal to the hand-written model this file's
    theorems are about, for every decoder state, every input and every output buffer: the generated decoder returns the model's
    state and counts, the model's output is what it wrote at the front of the buffer, and the rest of the buffer is untouched.
    So c07_step .. c07_run above are statements about the code as it is in the repository now, not about a transcription of it
    (trusted: the translator, tools/rs2coq2.py; what an object is left as after an error is not translated). *)
From Hoot Require Import GenLib Gen2.
From Hoot.proofs Require Import Gen2_equiv_chunk.
Theorem c07_code_find_crlf : forall b, gen_find_crlf b = find_crlf b.
Proof. exact gen_find_crlf_eq. Qed.
Theorem c07_code_is_ended : forall d, gen_dech_is_ended d = dech_is_ended d.
Proof. exact gen_dech_is_ended_eq. Qed.
Theorem c07_code_on_boundary : forall d, gen_dech_is_on_chunk_boundary d = is_on_chunk_boundary d.
Proof. exact gen_dech_is_on_chunk_boundary_eq. Qed.
Theorem c07_code_read_size : forall src pin pout,
  gen_dech_read_size DSize src pin pout = lift_step DSize pin pout (read_size (drop pin src)).
Proof. exact gen_dech_read_size_eq. Qed.
Theorem c07_code_read_data_whole : forall lft src buf pin pout,
  gen_dech_read_data (DChunk lft) src buf pin pout = lift_data buf pin pout (read_data lft (drop pin src) (len buf - pout)).
Proof. exact gen_dech_read_data_eq. Qed.
Theorem c07_code_expect_crlf : forall src pin pout,
  gen_dech_expect_crlf DCrLf src pin pout = lift_step DCrLf pin pout (expect_crlf (drop pin src)).
Proof. exact gen_dech_expect_crlf_eq. Qed.
Theorem c07_code_trailer_or_ended : forall src pin pout,
  gen_dech_trailer_or_ended DEnding src pin pout = lift_step DEnding pin pout (trailer_or_ended (drop pin src)).
Proof. exact gen_dech_trailer_or_ended_eq. Qed.
Theorem c07_code_trailer : forall src pin pout,
  res_rel (gen_dech_trailer DTrailer src pin pout) (lift_step DTrailer pin pout (trailer (drop pin src))).
Proof. exact gen_dech_trailer_rel. Qed.
Theorem c07_code_parse_input : forall d src dst,
  pi_rel dst (gen_dech_parse_input d src dst) (parse_input d src (len dst)).
Proof. exact gen_parse_input_equiv. Qed.
Theorem c07_code_parse_input_frame : forall d src dst d1 dst1 i1 o1,
  gen_dech_parse_input d src dst = Ok (d1, dst1, (i1, o1)) ->
  exists out, parse_input d src (len dst) = Ok (d1, i1, out) /\ o1 = len out /\ o1 <= len dst /\
              take o1 dst1 = out /\ drop o1 dst1 = drop o1 dst /\ len dst1 = len dst.
Proof. exact gen_parse_input_frame. Qed.
Example c07_code_nonvacuous :
  gen_dech_parse_input DSize (s2b "3" ++ CRLF ++ s2b "abc" ++ CRLF ++ s2b "0" ++ CRLF ++ CRLF ++ s2b "NEXT") [0; 0; 0; 0; 0]
  = Ok (DSize, s2b "abc" ++ [0; 0], (8, 3)).
Proof. vm_compute. reflexivity. Qed.

Print Assumptions c07_code_find_crlf.
Print Assumptions c07_code_is_ended.
Print Assumptions c07_code_on_boundary.
Print Assumptions c07_code_read_size.
Print Assumptions c07_code_read_data_whole.
Print Assumptions c07_code_expect_crlf.
Print Assumptions c07_code_trailer_or_ended.
Print Assumptions c07_code_trailer.
Print Assumptions c07_code_parse_input.
Print Assumptions c07_code_parse_input_frame.
Print Assumptions c07_code_nonvacuous.

(* ---- the same step through the translated [BodyReader::read] / [read_chunked] (src/body.rs, outer loop included) *)
From Hoot.proofs Require Import Gen2_equiv_rel Gen2_equiv_reader_chunked Gen2_transport_read_chunked.
Theorem c07_code_read_equiv : forall d src dst stop,
  rd_rel dst (gen_br_read (RChunked d) src dst stop) (reader_read (RChunked d) src (len dst) stop).
Proof. exact gen_br_read_on_chunked. Qed.
(** c07_step, stated about the code: from a decoder state related to a position of a valid coding, one call of the translated
    [BodyReader::read] on ANY window of the stream and ANY output buffer returns Ok, writes a prefix of the remaining payload at the
    front of the buffer and nothing else, consumes a prefix of the remaining coding and lands in a related state. *)
Theorem c07_code_step : forall st R ds rest k dst stop,
  rel st R ds ->
  exists st' C R' out ds',
    gen_br_read (RChunked st) (take k (R ++ rest)) dst stop
      = Ok (RChunked st', out ++ drop (len out) dst, (len C, len out)) /\
    R = C ++ R' /\ len C <= k /\
    concat ds = out ++ concat ds' /\ len out <= len dst /\
    rel st' R' ds' /\ st' <> DTrailer.
Proof.
  intros st R ds rest k dst stop Hrel.
  destruct (c07_step st R ds rest k (len dst) stop Hrel) as (st' & C & R' & out & ds' & Hr & H1 & H2 & H3 & H4 & H5 & H6).
  exists st', C, R', out, ds'. repeat split; try assumption.
  apply gen_read_chunked_ok_of_model. apply c07_step_reader. exact Hr.
Qed.
Print Assumptions c07_code_read_equiv.
Print Assumptions c07_code_step.
