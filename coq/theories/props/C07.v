(** Property C07 -- Chunked response decoding yields exactly the payload and never over-reads.
    Statements only; the specification (codings as data, [enc], [valid], [payload], the named
    premise [line_limit_F17], grammar positions [SizePos]/[EndPos], the relation [rel] between
    decoder states and positions, schedules [cstep]/[crun]) is in proofs/C07_spec.v, the proofs are in
    proofs/C07_sizeline.v, C07_sim.v, C07_proofs.v.

    Reading guide.  A position in a coding is (R, ds): R the remaining coding bytes, ds the remaining
    chunk datas (the head possibly partly delivered); the remaining payload is [concat ds].  Every
    window offered to the decoder is [take k (R ++ rest)]: the first k bytes (any k: any arrival cut)
    of the remaining coding followed by arbitrary bytes [rest] of a next message. *)
From Hoot Require Import Base Chunk Body Call.
From Hoot.proofs Require Import BytesLemmas C07_spec C07_sizeline C07_sim C07_proofs C07_call.
Open Scope N_scope.

(** The one fact about arrival cuts everything rests on: on any window of  line CRLF more  with a
    CR-free line, [find_crlf] answers exactly when the whole CRLF has arrived. *)
Theorem c07_find_crlf_window : forall line k more,
  cr_free line ->
  find_crlf (take k (line ++ CRLF ++ more)) = if len line + 2 <=? k then Some (len line) else None.
Proof. exact find_crlf_window. Qed.

(** The size-line parser (cut at ';' within the first 100 bytes, below-128 check, trim, radix 16)
    returns exactly the value of a valid size line: upper/lower-case hex, leading zeros, blanks,
    extension.  The premise [len line <= SANITY_CHECK] is the known finding F17. *)
Theorem c07_size_line : forall line n k more,
  cr_free line -> size_line line n -> len line <= SANITY_CHECK -> len line + 2 <= k ->
  read_size (take k (line ++ CRLF ++ more)) =
    Ok {| sr_st := if n =? 0 then DEnding else DChunk n; sr_in := len line + 2; sr_out := []; sr_more := true |}.
Proof. exact read_size_ok. Qed.

(** The initial decoder state is related to the start of every valid coding. *)
Theorem c07_start : forall c,
  valid c -> line_limit_F17 c ->
  rel DSize (enc c) (map ck_data (cd_chunks c)) /\ concat (map ck_data (cd_chunks c)) = payload c.
Proof. intros c Hv Hl. split; [apply rel_start; assumption|reflexivity]. Qed.

(** One read from a related state, for every [rest], every arrival count [k], every output space
    [cap], every [stop] flag: returns [Ok] (never [Err], never [Panic]: the fuel of both loops
    suffices and the assertion in [trailer] is unreachable); the consumed bytes [C] are a prefix of the
    remaining coding (never a byte of [rest]); the output is a prefix of the remaining payload and fits
    the output space; the new state is related to the new position and is never [DTrailer]. *)
Theorem c07_step : forall st R ds rest k cap stop,
  rel st R ds ->
  exists st' C R' out ds',
    read_chunked st (take k (R ++ rest)) cap stop = Ok (st', len C, out) /\
    R = C ++ R' /\ len C <= k /\
    concat ds = out ++ concat ds' /\ len out <= cap /\
    rel st' R' ds' /\ st' <> DTrailer.
Proof. exact step_safe. Qed.

(** The same read through [BodyReader::read]. *)
Theorem c07_step_reader : forall st src cap stop st' i out,
  read_chunked st src cap stop = Ok (st', i, out) ->
  reader_read (RChunked st) src cap stop = Ok (RChunked st', i, out).
Proof. exact reader_read_chunked. Qed.

(** The same read through [Call<RecvBody>::read] (stop flag taken from the call; an ended reader is
    short-circuited), including the boundary clause. *)
Theorem c07_step_call : forall c st R ds rest k cap,
  c_reader c = Some (RChunked st) -> rel st R ds ->
  exists c' st' C R' out ds',
    call_read c (take k (R ++ rest)) cap = Ok (c', len C, out) /\
    c_reader c' = Some (RChunked st') /\ c_stop c' = c_stop c /\
    R = C ++ R' /\ len C <= k /\
    concat ds = out ++ concat ds' /\ len out <= cap /\
    rel st' R' ds' /\ st' <> DTrailer /\
    (c_stop c = true -> out = [] \/ exists p tl d2, ds = p :: tl /\ p = out ++ d2).
Proof. exact step_call. Qed.

(** A related state is ended exactly when no coding byte remains. *)
Theorem c07_ended_iff : forall st R ds, rel st R ds -> (dech_is_ended st = true <-> R = []).
Proof. exact rel_ended_iff. Qed.

(** Every schedule of (arrival count, output space, stop flag), of any length, over the coding
    followed by arbitrary bytes: no read fails; the input consumed never exceeds the coding; the
    outputs concatenate to a prefix of the payload; the body is reported ended exactly when the whole
    coding (up to and including its final CRLF) has been consumed, and then the output is exactly the
    payload; the state between reads is never [DTrailer]. *)
Theorem c07_run : forall c rest sched,
  valid c -> line_limit_F17 c ->
  exists t, crun (enc c ++ rest) cstart sched = Ok t /\
    t_consumed t <= len (enc c) /\
    (exists P', payload c = t_out t ++ P') /\
    (dech_is_ended (t_st t) = true <-> t_consumed t = len (enc c)) /\
    (dech_is_ended (t_st t) = true -> t_out t = payload c) /\
    t_st t <> DTrailer.
Proof. exact run_safe. Qed.

(** Boundary stop, one read: the output is a prefix of the (rest of the) chunk at the position. *)
Theorem c07_boundary_step : forall st R ds rest k cap st' i out,
  rel st R ds ->
  read_chunked st (take k (R ++ rest)) cap true = Ok (st', i, out) ->
  out = [] \/ exists p tl d2, ds = p :: tl /\ p = out ++ d2.
Proof. exact step_boundary. Qed.

(** Boundary stop, after any history: a read with [stop = true] returns bytes lying inside the data
    of a single chunk of the coding. *)
Theorem c07_boundary : forall c rest sched k cap t,
  valid c -> line_limit_F17 c ->
  crun (enc c ++ rest) cstart sched = Ok t ->
  exists t' out,
    cstep (enc c ++ rest) t (k, cap, true) = Ok t' /\ t_out t' = t_out t ++ out /\
    (out = [] \/ exists ck d1 d2, In ck (cd_chunks c) /\ ck_data ck = d1 ++ out ++ d2).
Proof. exact run_boundary. Qed.

(** The positional form: the output continues exactly the chunk in which delivery stands ([pre] = the
    chunk datas completely delivered so far, [d1] = the delivered part of the current chunk) and does
    not go beyond its end. *)
Theorem c07_boundary_pos : forall c rest sched k cap t,
  valid c -> line_limit_F17 c ->
  crun (enc c ++ rest) cstart sched = Ok t ->
  exists t' out,
    cstep (enc c ++ rest) t (k, cap, true) = Ok t' /\ t_out t' = t_out t ++ out /\
    (out = [] \/ exists pre d1 d2 post,
                   map ck_data (cd_chunks c) = pre ++ (d1 ++ out ++ d2) :: post /\
                   t_out t = concat pre ++ d1).
Proof. exact run_boundary_pos. Qed.

(** Liveness, so that safety is not vacuous: with the remaining coding visible and room for one
    byte, a read in a non-ended state consumes at least one byte ... *)
Theorem c07_progress : forall st R ds rest k cap stop st' i out,
  rel st R ds -> len R <= k -> 1 <= cap -> dech_is_ended st = false ->
  read_chunked st (take k (R ++ rest)) cap stop = Ok (st', i, out) ->
  1 <= i.
Proof. exact step_progress. Qed.

(** ... hence any schedule of at least [len (enc c)] reads, each seeing the whole coding and offering
    room for one byte, ends the body with exactly the payload delivered. *)
Theorem c07_reaches_end : forall c rest sched,
  valid c -> line_limit_F17 c ->
  Forall (all_visible c) sched -> len (enc c) <= len sched ->
  exists t, crun (enc c ++ rest) cstart sched = Ok t /\
    dech_is_ended (t_st t) = true /\ t_consumed t = len (enc c) /\ t_out t = payload c.
Proof. exact run_reaches_end. Qed.

(** ** Concrete codings *)

(** Known finding F17: a coding that is valid but has a 33-byte size line is rejected. *)
Definition f17_coding : coding :=
  {| cd_chunks := [ {| ck_line := s2b "5;name=abcdefghijklmnopqrstuvwxyz"; ck_data := s2b "hello" |} ];
     cd_last := s2b "0"; cd_trailers := [] |}.

Theorem c07_known_refuted :
  exists c, valid c /\ ~ line_limit_F17 c /\
            read_chunked DSize (enc c ++ s2b "HTTP/1.1 200 OK") 100 false = Err ChunkExpectedCrLf.
Proof.
  exists f17_coding. split; [|split].
  - unfold valid, f17_coding; cbn [cd_chunks cd_last cd_trailers]. split; [|split; [|split]].
    + constructor; [|constructor]. unfold valid_chunk; cbn [ck_line ck_data].
      split; [apply cr_free_b; reflexivity|]. split; [|vm_compute; reflexivity].
      size_line_tac (s2b "5") (@nil N) (s2b ";name=abcdefghijklmnopqrstuvwxyz").
    + apply cr_free_b; reflexivity.
    + size_line_tac (s2b "0") (@nil N) (@nil N).
    + constructor.
  - intros [H _]. inversion H as [|? ? Hlen _]; subst. vm_compute in Hlen. apply Hlen. reflexivity.
  - vm_compute. reflexivity.
Qed.

(** Non-vacuity: two chunks, the first with upper-case hex, a leading zero, a blank and an extension
    and with CR LF inside its data, one trailer field; followed by the start of a next message.
    Bytes arrive one at a time: before each read one more byte of the stream has arrived, and the
    window is everything arrived and not yet consumed. *)
Definition demo : coding :=
  {| cd_chunks := [ {| ck_line := s2b "0B ;ext=1"; ck_data := s2b "hello" ++ [13; 10] ++ s2b "worl" |};
                    {| ck_line := s2b "3"; ck_data := s2b "abc" |} ];
     cd_last := s2b "00"; cd_trailers := [ s2b "X-T: v" ] |}.

Definition demo_next : bytes := s2b "HTTP/1.1 200 OK".

Fixpoint arrival_sched (stream : bytes) (t : ctrace) (arrived : N) (n : nat) (cap : N) (stop : bool)
  : list (N * N * bool) :=
  match n with
  | O => []
  | S m =>
      let o := (arrived + 1 - t_consumed t, cap, stop) in
      match cstep stream t o with
      | Ok t' => o :: arrival_sched stream t' (arrived + 1) m cap stop
      | _ => [o]
      end
  end.

Lemma demo_valid : valid demo /\ line_limit_F17 demo.
Proof.
  split.
  - unfold valid, demo; cbn [cd_chunks cd_last cd_trailers]. split; [|split; [|split]].
    + constructor; [|constructor; [|constructor]]; unfold valid_chunk; cbn [ck_line ck_data].
      * split; [apply cr_free_b; reflexivity|]. split; [|vm_compute; reflexivity].
        size_line_tac (s2b "0B") (s2b " ") (s2b ";ext=1").
      * split; [apply cr_free_b; reflexivity|]. split; [|vm_compute; reflexivity].
        size_line_tac (s2b "3") (@nil N) (@nil N).
    + apply cr_free_b; reflexivity.
    + size_line_tac (s2b "00") (@nil N) (@nil N).
    + constructor; [|constructor]. split; [discriminate|apply cr_free_b; reflexivity].
  - unfold line_limit_F17, demo; cbn [cd_chunks cd_last]. split.
    + repeat constructor; vm_compute; discriminate.
    + vm_compute; discriminate.
Qed.

Example c07_nonvacuous :
  valid demo /\ line_limit_F17 demo /\
  let stream := enc demo ++ demo_next in
  forall stop,
  let sched := arrival_sched stream cstart 0 (List.length stream) 4 stop in
  exists t, crun stream cstart sched = Ok t /\
    List.length sched = List.length stream /\
    t_st t = DEnded /\ t_consumed t = len (enc demo) /\ t_out t = payload demo /\
    t_out t = s2b "hello" ++ [13; 10] ++ s2b "worlabc".
Proof.
  split; [apply demo_valid|]. split; [apply demo_valid|].
  intros stream stop sched. destruct stop; vm_compute; eexists; repeat split.
Qed.

Print Assumptions c07_find_crlf_window.
Print Assumptions c07_size_line.
Print Assumptions c07_start.
Print Assumptions c07_step.
Print Assumptions c07_step_reader.
Print Assumptions c07_step_call.
Print Assumptions c07_ended_iff.
Print Assumptions c07_run.
Print Assumptions c07_boundary_step.
Print Assumptions c07_boundary.
Print Assumptions c07_boundary_pos.
Print Assumptions c07_progress.
Print Assumptions c07_reaches_end.
Print Assumptions c07_known_refuted.
Print Assumptions demo_valid.
Print Assumptions c07_nonvacuous.
