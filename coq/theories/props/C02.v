(** Property C02 -- the request head on the wire is well-formed and faithful to the request.
    Statements only; spec definitions and proofs are in proofs/C02_proofs.v (writer),
    proofs/C02_analysis.v (Host / framing) and proofs/C17_proofs.v (analysis). *)
From Hoot Require Import Base Body Url Request Call Flow.
From Hoot.proofs Require Import BytesLemmas C17_proofs C02_proofs C02_analysis.
Open Scope N_scope.

(* ------------------------------------------------------------------ the specification *)

(** Request line: method SP path-and-query ("/" if empty) SP version CRLF, over the effective URI. *)
Theorem c02_request_line_def : forall a,
  prelude_line a =
    method_name (am_method a) ++ [32] ++
    (match u_pq (am_eff_uri a) with [] => [47] | p => p end) ++ [32] ++
    version_name (am_version a) ++ CRLF.
Proof. reflexivity. Qed.

(** name ": " value CRLF *)
Theorem c02_field_line_def : forall h, field_line h = fst h ++ [58; 32] ++ snd h ++ CRLF.
Proof. reflexivity. Qed.

(** The lines of the head: request line, every effective header (caller-added ones first, then the
    inherited ones) on its own line; the empty line that ends the head is glued to the last line. *)
Theorem c02_head_lines_def : forall a,
  head_lines a = glue_last (prelude_line a :: map field_line (am_headers a)) CRLF /\
  render_request_head a = concat (head_lines a).
Proof. split; reflexivity. Qed.

(** Gluing changes nothing in the byte string: the rendered head is the request line, the field
    lines, and one empty line. *)
Theorem c02_render : forall a,
  render_request_head a = prelude_line a ++ concat (map field_line (am_headers a)) ++ CRLF.
Proof. exact render_flat. Qed.

(** [greedy ls cap] is the number of whole lines of [ls], from the front, that a buffer of [cap]
    bytes takes: they fit, the next one (if any) does not; these facts determine the number. *)
Theorem c02_greedy_spec : forall (ls : list bytes) cap j,
  j = greedy ls cap <->
  (j <= len ls /\ len (concat (take j ls)) <= cap /\
   (j < len ls -> cap < len (concat (take (j + 1) ls)))).
Proof.
  intros ls cap j. split.
  - intros ->. split; [apply greedy_le|]. split; [apply greedy_fits|apply greedy_next].
  - intros (H1 & H2 & H3). apply greedy_unique; assumption.
Qed.

(* ------------------------------------------------------------------ the writer *)

(** [flow_head a f k]: the flow [f] is in SendRequest, is sending the head of the analysed request
    [a], and [k] lines are out.  Fresh flows that analysis accepts are in this state with k = 0 and
    [a] = the request after analysis ([sendable]: see C17).  *)
Theorem c02_fresh : forall f,
  fresh_flow f -> call_invalid (i_call f) = false -> sendable (i_call f) ->
  flow_head (c_req (analysed_call (i_call f))) f 0 /\
  am_headers (c_req (analysed_call (i_call f))) <> [].
Proof.
  intros f Hf Hi Hs. split; [apply fresh_flow_head; assumption|apply fresh_flow_headers_nonempty; exact Hs].
Qed.

(** One call, any capacity, any state of the head (at least one effective header): it emits the
    concatenation of the greedy block of whole lines starting at line k, and moves to line k + j;
    it fails with OutputOverflow -- the caller keeps the flow as it was -- when not even the next
    line fits. *)
Theorem c02_step : forall a f k cap,
  am_headers a <> [] -> flow_head a f k ->
  let L := head_lines a in
  let j := greedy (drop k L) cap in
  if (j =? 0) && (k <? len L) then send_request_write f cap = Err OutputOverflow
  else exists f', send_request_write f cap = Ok (f', concat (take j (drop k L))) /\
                  flow_head a f' (k + j).
Proof. exact flow_step. Qed.

(** The same for the single-call API. *)
Theorem c02_call_step : forall a c k cap,
  am_headers a <> [] -> call_head a c k ->
  let L := head_lines a in
  let j := greedy (drop k L) cap in
  if (j =? 0) && (k <? len L) then call_write_nobody c cap = Err OutputOverflow
  else exists c', call_write_nobody c cap = Ok (c', concat (take j (drop k L))) /\
                  call_head a c' (k + j).
Proof. exact nobody_step. Qed.

Theorem c02_call_with_body_step : forall c cap,
  is_prelude (c_phase c) = true ->
  call_write_body c [] cap =
    match call_write_nobody c cap with
    | Ok (c', o) => Ok (c', 0, o)
    | Err e => Err e
    | Panic s => Panic s
    end.
Proof. exact write_body_prelude. Qed.

(** Any sequence of output buffers: what has been emitted so far is the first k lines, where k is
    the position the flow is at. *)
Theorem c02_prefix : forall a f caps,
  am_headers a <> [] -> flow_head a f 0 ->
  exists k, flow_head a (fw_flow (fwrun f caps)) k /\
            fw_out (fwrun f caps) = concat (take k (head_lines a)).
Proof. exact head_prefix. Qed.

Theorem c02_prefix_fresh : forall f caps,
  fresh_flow f -> call_invalid (i_call f) = false -> sendable (i_call f) ->
  let a := c_req (analysed_call (i_call f)) in
  exists k, flow_head a (fw_flow (fwrun f caps)) k /\
            fw_out (fwrun f caps) = concat (take k (head_lines a)).
Proof.
  intros f caps Hf Hi Hs. cbv zeta. apply head_prefix.
  - apply fresh_flow_headers_nonempty; exact Hs.
  - apply fresh_flow_head; assumption.
Qed.

(** OutputOverflow exactly when the head is incomplete and the next line does not fit. *)
Theorem c02_overflow_iff : forall a f k cap,
  am_headers a <> [] -> flow_head a f k ->
  (send_request_write f cap = Err OutputOverflow <->
   exists l, next_line (head_lines a) k = Some l /\ cap < len l).
Proof. exact overflow_iff. Qed.

(** Ready to advance exactly when all lines are out, i.e. when the emitted bytes are the whole
    rendered head; from then on a write emits nothing and returns the same flow. *)
Theorem c02_complete : forall a f k,
  am_headers a <> [] -> flow_head a f k ->
  (send_request_can_proceed f = Ok true <-> k = len (head_lines a)) /\
  (k = len (head_lines a) <-> concat (take k (head_lines a)) = render_request_head a) /\
  (k = len (head_lines a) -> forall cap, send_request_write f cap = Ok (f, [])).
Proof.
  intros a f k Hne Hf. destruct (complete_iff a f k Hne Hf) as [H1 H2].
  split; [exact H1|]. split; [exact H2|]. intros -> cap. apply (flow_complete_fix a); assumption.
Qed.

Theorem c02_with_body_after_head : forall f cap,
  i_holder f = HWithBody -> c_phase (i_call f) = PBody -> send_request_write f cap = Ok (f, []).
Proof. intros f cap Hh Hp. unfold send_request_write. rewrite Hh, Hp. reflexivity. Qed.

(* ------------------------------------------------------------------ faithful to the request *)

(** What the first write turns the request into ([analysed_call]), and its effective headers:
    caller-added in order, Host if it had to be derived, the framing header if it had to be added,
    then the original fields that are not suppressed. *)
Theorem c02_faithful : forall c,
  c_analyzed c = false -> call_invalid c = false ->
  len (am_added (c_req c)) + 2 <= MAX_EXTRA_HEADERS ->
  valid_header_value (uri_host (am_eff_uri (c_req c))) = true ->
  analyze_request c = Ok (analysed_call c) /\
  am_method (c_req (analysed_call c)) = am_method (c_req c) /\
  am_version (c_req (analysed_call c)) = am_version (c_req c) /\
  am_eff_uri (c_req (analysed_call c)) = am_eff_uri (c_req c) /\
  am_headers (c_req (analysed_call c)) =
    am_added (c_req c) ++ host_added (c_req c) ++ framing_added (c_req c) (c_writer c) ++
    am_inherited (c_req c).
Proof.
  intros c Ha Hi Hl Hv. split; [apply analyze_request_valid; assumption|].
  repeat split. apply analysed_headers.
Qed.

Theorem c02_added_def : forall a w,
  host_added a =
    match hosts a with
    | [] => match u_auth (am_eff_uri a) with
            | [] => []
            | _ => [(s2b "host", uri_host (am_eff_uri a))]
            end
    | _ => []
    end /\
  framing_added a w =
    (if framing_present a then []
     else match w_mode w with
          | SNone => []
          | SSized n => [(s2b "content-length", dec_of n)]
          | SChunked => [(s2b "transfer-encoding", s2b "chunked")]
          end) /\
  am_inherited a =
    filter (fun h => negb (mem_bytes (fst h) (am_unset a))) (rq_headers (am_request a)).
Proof. intros; repeat split. Qed.

(** Exactly one Host among the effective headers: the caller's, or the URI host. *)
Theorem c02_host_once : forall c,
  call_invalid c = false -> u_auth (am_eff_uri (c_req c)) <> [] ->
  exists v, hosts (c_req (analysed_call c)) = [v] /\
            (hosts (c_req c) = [] -> v = uri_host (am_eff_uri (c_req c))) /\
            (hosts (c_req c) <> [] -> hosts (c_req c) = [v]).
Proof. exact host_once. Qed.

(** The body mode the writer will use agrees with the framing headers that go out:
    no body  <-> neither a content-length nor a chunked transfer-encoding is effective;
    sized n  <-> no chunked transfer-encoding and exactly one content-length, 1*DIGIT, of value n;
    chunked  <-> a chunked transfer-encoding is effective (the caller's, or the one added by default;
                 a caller-supplied content-length next to a caller-supplied "chunked" is sent as
                 given, chunked wins). *)
Theorem c02_framing : forall c,
  call_invalid c = false ->
  let a' := c_req (analysed_call c) in
  let w' := c_writer (analysed_call c) in
  (w_mode w' = SNone <-> cls a' = [] /\ has_chunked_te a' = false) /\
  (forall n, w_mode w' = SSized n <->
             has_chunked_te a' = false /\
             exists v, cls a' = [v] /\ is_nonempty v = true /\ forallb is_digit v = true /\
                       dec_value v = n) /\
  (w_mode w' = SChunked <-> has_chunked_te a' = true).
Proof. exact framing_mode_iff. Qed.

Theorem c02_body_iff_announced : forall c,
  call_invalid c = false ->
  has_body (c_writer (analysed_call c)) = body_announced (c_req c) (c_writer c).
Proof. exact mode_has_body. Qed.

(* ------------------------------------------------------------------ example / non-vacuity *)

Definition ex_req : request :=
  {| rq_method := POST; rq_version := V11;
     rq_uri := {| u_scheme := s2b "http"; u_auth := s2b "a.test:8080"; u_pq := [] |};
     rq_headers := [(s2b "accept", s2b "*/*"); (s2b "x-a", [255; 9])] |}.
Definition ex_flow : inner :=
  match flow_new ex_req with
  | Ok f => match prepare_header f (s2b "Cookie") (s2b "k=v") with Ok f' => f' | _ => f end
  | _ => {| i_call := call_new ex_req new_none; i_holder := HRecvBody; i_reasons := [];
            i_should_send_body := false; i_await_100 := false; i_status := None; i_location := None |}
  end.

Example c02_nonvacuous :
  fresh_flow ex_flow /\ call_invalid (i_call ex_flow) = false /\ sendable (i_call ex_flow) /\
  let a := c_req (analysed_call (i_call ex_flow)) in
  head_lines a =
    [s2b "POST / HTTP/1.1" ++ CRLF;
     s2b "cookie: k=v" ++ CRLF;
     s2b "host: a.test" ++ CRLF;
     s2b "transfer-encoding: chunked" ++ CRLF;
     s2b "accept: */*" ++ CRLF;
     s2b "x-a: " ++ [255; 9] ++ CRLF ++ CRLF] /\
  (* capacities: too small, request line only, too small for the next line, two lines, rest, extra *)
  let t := fwrun ex_flow [3; 20; 5; 43; 1000; 7; 0] in
  fw_out t = render_request_head a /\
  fw_out (fwrun ex_flow [3; 20; 5; 43]) = concat (take 3 (head_lines a)) /\
  send_request_can_proceed (fw_flow (fwrun ex_flow [3; 20; 5; 43])) = Ok false /\
  send_request_can_proceed (fw_flow t) = Ok true /\
  w_mode (c_writer (i_call (fw_flow t))) = SChunked.
Proof. vm_compute. repeat split; auto; discriminate. Qed.


(* ================================================================== additions (review 1) *)
From Hoot Require Import Httparse Parser.
From Hoot.proofs Require Import C02_parseback C02_entry.
From Hoot.proofs Require C05_spec C04_proofs C18_proofs.

(* ------------------------------------------------------------------ exactly one HTTP/1.x request head *)

(** Input assumptions, explicit.  Names: what [http::HeaderName] guarantees AND no double quote (the
    http crate's name table contains byte 34, which is not a token character; see
    [c02_parse_back_dquote_refuted]).  Values: what [http::HeaderValue] guarantees.  Target: visible
    ASCII other than '<' '>'. *)
Theorem c02_wf_headers_def : forall hs,
  wf_headers hs <->
  Forall (fun h => (valid_header_name (fst h) = true /\
                    forallb (fun b => negb (b =? 34)) (fst h) = true) /\
                   valid_header_value (snd h) = true) hs.
Proof. intros hs. reflexivity. Qed.

Theorem c02_target_ok_def : forall a,
  target_ok a <->
  forallb (fun b => (33 <=? b) && (b <=? 126) && negb (b =? 60) && negb (b =? 62)) (u_pq (am_eff_uri a)) = true.
Proof. intros a. reflexivity. Qed.

(** What a reader reports for the head of [a]: the method, the version digit, and the effective
    headers in order (as the http crate's multimap: names lower-cased, values in order per name), each
    value without its surrounding optional white space. *)
Theorem c02_parsed_head_def : forall a,
  parsed_head a =
    {| pq_method := method_name (am_method a);
       pq_version := (match am_version a with V10 => 0 | _ => 1 end);
       pq_headers := hm_of_list (map (fun h => (fst h, trim_ows (snd h))) (am_headers a)) |} /\
  (forall v, trim_ows v = rev (drop_while is_sp_tab (rev (drop_while is_sp_tab v)))).
Proof. intros a. split; reflexivity. Qed.

Theorem c02_trim_ows_id : forall v, C05_spec.no_edge_ws v = true -> trim_ows v = v.
Proof. exact trim_ows_id. Qed.

(** The rendered head is the rendering, by the independent grammar of proofs/C05_spec.v (RFC 9112:
    request-line, field-lines, empty line), of a WELL-FORMED request head with this method, target,
    version and these fields. *)
Theorem c02_head_grammar : forall a,
  version_supported (am_version a) = true -> target_ok a -> wf_headers (am_headers a) ->
  exists h,
    C05_spec.wf_req_head h /\
    C05_spec.qh_method h = method_name (am_method a) /\
    C05_spec.qh_target h = (match u_pq (am_eff_uri a) with [] => [47] | p => p end) /\
    C05_spec.qh_version h = (match am_version a with V10 => 0 | _ => 1 end) /\
    C05_spec.headers_of (C05_spec.qh_fields h) = map trim_header (am_headers a) /\
    List.length (C05_spec.qh_fields h) = List.length (am_headers a) /\
    C05_spec.render_request_head h = render_request_head a.
Proof. exact head_grammar. Qed.

(** Parse-back through the crate's own request parser (model: [try_parse_request], C20): the head,
    followed by anything, is read as exactly this request, and exactly the head is consumed. *)
Theorem c02_parse_back_amended : forall a rest slots,
  version_supported (am_version a) = true -> target_ok a -> wf_headers (am_headers a) ->
  (List.length (am_headers a) <= slots)%nat ->
  try_parse_request slots (render_request_head a ++ rest) =
    Ok (Some (len (render_request_head a), parsed_head a)).
Proof. exact parse_back_amended. Qed.

(** ... for the request as analysis leaves it, from assumptions on the caller's inputs only (what
    analysis adds is well-formed). *)
Theorem c02_parse_back : forall c rest slots,
  call_invalid c = false -> sendable c ->
  target_ok (c_req c) ->
  wf_headers (am_added (c_req c)) -> wf_headers (rq_headers (am_request (c_req c))) ->
  let a := c_req (analysed_call c) in
  (List.length (am_headers a) <= slots)%nat ->
  try_parse_request slots (render_request_head a ++ rest) =
    Ok (Some (len (render_request_head a), parsed_head a)).
Proof. exact parse_back. Qed.

(** ... and no proper prefix of the head is a complete head. *)
Theorem c02_parse_back_prefix : forall a p x slots,
  version_supported (am_version a) = true -> target_ok a -> wf_headers (am_headers a) ->
  (List.length (am_headers a) <= slots)%nat ->
  render_request_head a = p ++ x -> x <> [] ->
  try_parse_request slots p = Ok None.
Proof. exact parse_back_prefix. Qed.

(** ... for the bytes a flow has actually emitted, over any sequence of buffers, at the moment it
    reports the head complete. *)
Theorem c02_parse_back_flow : forall f caps rest slots,
  fresh_flow f -> call_invalid (i_call f) = false -> sendable (i_call f) ->
  target_ok (c_req (i_call f)) ->
  wf_headers (am_added (c_req (i_call f))) ->
  wf_headers (rq_headers (am_request (c_req (i_call f)))) ->
  let a := c_req (analysed_call (i_call f)) in
  let t := fwrun f caps in
  (List.length (am_headers a) <= slots)%nat ->
  send_request_can_proceed (fw_flow t) = Ok true ->
  fw_out t = render_request_head a /\
  try_parse_request slots (fw_out t ++ rest) = Ok (Some (len (fw_out t), parsed_head a)).
Proof. exact parse_back_flow. Qed.

(** The request line through the parser's sub-parsers: method, request-target, version come back
    (the target is not part of what [try_parse_request] returns). *)
Theorem c02_request_line_parses : forall a rest,
  version_supported (am_version a) = true -> target_ok a ->
  exists r1 r2,
    parse_method (prelude_line a ++ rest) = Done (method_name (am_method a)) r1 /\
    parse_uri r1 = Done (match u_pq (am_eff_uri a) with [] => [47] | p => p end) r2 /\
    parse_version r2 = Done (match am_version a with V10 => 0 | _ => 1 end) (CRLF ++ rest).
Proof. exact request_line_parses. Qed.

(** FINDING (statement false without [no_dquote]): [header] accepts a field name containing a double
    quote (http 1.1.0 [HEADER_CHARS] has an entry for byte 34); the name is emitted verbatim; the
    result is not an HTTP/1.x head (field-name = token, RFC 9110 5.6.2) and the crate's own request
    parser rejects it. *)
Definition dq_flow : inner :=
  match flow_new ex_req with
  | Ok f => match prepare_header f [97; 34; 98] (s2b "v") with Ok f' => f' | _ => f end
  | _ => ex_flow
  end.

Example c02_parse_back_dquote_refuted :
  (exists f0, flow_new ex_req = Ok f0 /\ prepare_header f0 [97; 34; 98] (s2b "v") = Ok dq_flow) /\
  fresh_flow dq_flow /\ call_invalid (i_call dq_flow) = false /\ sendable (i_call dq_flow) /\
  let a := c_req (analysed_call (i_call dq_flow)) in
  let t := fwrun dq_flow [1000] in
  send_request_can_proceed (fw_flow t) = Ok true /\ fw_out t = render_request_head a /\
  nth 1 (head_lines a) [] = [97; 34; 98] ++ s2b ": v" ++ CRLF /\
  try_parse_request 100 (fw_out t) = Err HttpParseFail.
Proof. split; [eexists; split; vm_compute; reflexivity|]. vm_compute. repeat split; auto; discriminate. Qed.

(* ------------------------------------------------------------------ Host, case made explicit *)

(** [hosts] (used by [c02_host_once]) compares names byte for byte with "host".  The model's input
    convention -- original names are lower case, as [http::HeaderMap] stores them; [header] lower-cases
    what it stores -- as an explicit hypothesis, and the count under case-insensitive comparison. *)
Theorem c02_hosts_ci_def : forall a,
  hosts_ci a = map snd (filter (fun h => beq_bytes (lower (fst h)) (s2b "host")) (am_headers a)).
Proof. reflexivity. Qed.

Theorem c02_host_once_ci : forall c,
  call_invalid c = false -> u_auth (am_eff_uri (c_req c)) <> [] ->
  lower_names (am_added (c_req c)) -> lower_names (rq_headers (am_request (c_req c))) ->
  exists v, hosts_ci (c_req (analysed_call c)) = [v] /\
            (hosts_ci (c_req c) = [] -> v = uri_host (am_eff_uri (c_req c))) /\
            (hosts_ci (c_req c) <> [] -> hosts_ci (c_req c) = [v]).
Proof. exact host_once_ci. Qed.

Theorem c02_header_lower : forall f k v f',
  prepare_header f k v = Ok f' -> lower_names (am_added (c_req (i_call f))) ->
  lower_names (am_added (c_req (i_call f'))) /\
  am_req (c_req (i_call f')) = am_req (c_req (i_call f)).
Proof. exact prepare_header_lower. Qed.

(** The hypothesis is needed: an original field named "Host" (impossible for an [http::Request], whose
    map holds lower-case names) is not recognised, and two Host lines go out. *)
Definition upper_host_req : request :=
  {| rq_method := GET; rq_version := V11;
     rq_uri := {| u_scheme := s2b "http"; u_auth := s2b "a.test"; u_pq := s2b "/" |};
     rq_headers := [(s2b "Host", s2b "b.test")] |}.

Example c02_host_upper_refuted :
  exists f, flow_new upper_host_req = Ok f /\ call_invalid (i_call f) = false /\
    hosts (c_req (analysed_call (i_call f))) = [s2b "a.test"] /\
    hosts_ci (c_req (analysed_call (i_call f))) = [s2b "a.test"; s2b "b.test"].
Proof. eexists. split; [vm_compute; reflexivity|]. vm_compute. auto. Qed.

(* ------------------------------------------------------------------ from the request to the body phase *)

(** What Prepare establishes ([prepared], proofs/C02_entry.v): a fresh flow; either the method decides
    (body intended iff the method takes one, with-body call expecting chunked iff so) or
    [send_body_despite_method] switched a body-less method to a with-body call with the body check
    skipped. *)
Theorem c02_prepared_def : forall f,
  prepared f <->
  (fresh_flow f /\
   let need := need_request_body (am_method (c_req (i_call f))) in
   ((c_skip (i_call f) = false /\ i_should_send_body f = need /\
     c_writer (i_call f) = (if need then new_chunked else new_none) /\
     i_holder f = (if need then HWithBody else HWithoutBody))
    \/
    (c_skip (i_call f) = true /\ i_should_send_body f = true /\
     c_writer (i_call f) = new_chunked /\ i_holder f = HWithBody))).
Proof. intros f. reflexivity. Qed.

Theorem c02_prepared_reachable :
  (forall r f, flow_new r = Ok f -> prepared f) /\
  (forall f k v f', prepared f -> prepare_header f k v = Ok f' -> prepared f') /\
  (forall f f', prepared f -> send_body_despite_method f = Ok f' -> prepared f') /\
  (forall f p f1 g, as_new_flow f p = Ok (f1, Some g) -> prepared g).
Proof.
  split; [exact flow_new_prepared|]. split; [exact prepare_header_prepared|].
  split; [exact despite_prepared|exact as_new_flow_prepared].
Qed.

(** Head complete, over any sequence of buffers: the flow is the flow it was with the call replaced by
    the analysed call in phase Body -- in particular the writer it holds in SendBody is the one of
    [c02_framing], and the request it holds is the one whose head went out. *)
Theorem c02_head_done_state : forall f caps,
  fresh_flow f -> call_invalid (i_call f) = false -> sendable (i_call f) ->
  let f' := fw_flow (fwrun f caps) in
  send_request_can_proceed f' = Ok true ->
  f' = set_call f (set_phase (analysed_call (i_call f)) PBody).
Proof. exact head_done_state. Qed.

(** "When a body follows": for an accepted request the flow intends to send a body iff the writer
    chosen by analysis has one (iff a framing header is among the effective headers, [c02_framing]),
    and it holds a with-body call exactly then. *)
Theorem c02_body_follows : forall f,
  prepared f -> call_invalid (i_call f) = false ->
  has_body (c_writer (analysed_call (i_call f))) = i_should_send_body f /\
  (i_should_send_body f = true -> i_holder f = HWithBody) /\
  (i_should_send_body f = false -> i_holder f = HWithoutBody).
Proof. exact body_follows. Qed.

(** The writer in SendBody, read off the effective headers that went out: the no-body writer, the
    fresh Content-Length writer for n, the fresh chunked writer. *)
Theorem c02_entry_modes : forall f,
  prepared f -> call_invalid (i_call f) = false ->
  let a' := c_req (analysed_call (i_call f)) in
  let w' := c_writer (analysed_call (i_call f)) in
  (w' = new_none <-> cls a' = [] /\ has_chunked_te a' = false) /\
  (forall n, w' = new_sized n <->
             has_chunked_te a' = false /\
             exists v, cls a' = [v] /\ is_nonempty v = true /\ forallb is_digit v = true /\
                       dec_value v = n) /\
  (w' = new_chunked <-> has_chunked_te a' = true).
Proof. exact entry_modes. Qed.

(** Advancing from the completed head: with a body to send, to Await100 or SendBody with the very
    same flow (and Await100 hands the same flow to SendBody); without, to RecvResponse, the writer
    being the finished no-body writer. *)
Theorem c02_proceed_to_body : forall f,
  i_should_send_body f = true -> i_holder f = HWithBody ->
  let f' := set_call f (set_phase (analysed_call (i_call f)) PBody) in
  send_request_proceed f' = Ok (Some (if i_await_100 f then TAwait100 else TSendBody, f')) /\
  await_100_proceed f' = Ok (TSendBody, f').
Proof. exact proceed_to_body. Qed.

Theorem c02_proceed_no_body : forall f,
  prepared f -> call_invalid (i_call f) = false -> i_should_send_body f = false ->
  let f' := set_call f (set_phase (analysed_call (i_call f)) PBody) in
  c_writer (i_call f') = new_none /\
  send_request_proceed f' =
    Ok (Some (TRecvResponse, set_call_holder f' (set_phase (i_call f') PRecvResponse) HRecvResponse)).
Proof. exact proceed_no_body. Qed.

(** The two entry points used by C04 and C03. *)
Theorem c02_sized_entry : forall f caps n,
  prepared f -> call_invalid (i_call f) = false -> sendable (i_call f) ->
  let a' := c_req (analysed_call (i_call f)) in
  let f' := fw_flow (fwrun f caps) in
  send_request_can_proceed f' = Ok true ->
  has_chunked_te a' = false ->
  (exists v, cls a' = [v] /\ is_nonempty v = true /\ forallb is_digit v = true /\ dec_value v = n) ->
  c_req (i_call f') = a' /\ i_holder f' = HWithBody /\ i_should_send_body f' = true /\
  C04_proofs.sized_body (i_call f') n false /\
  send_request_proceed f' = Ok (Some (if i_await_100 f then TAwait100 else TSendBody, f')) /\
  await_100_proceed f' = Ok (TSendBody, f').
Proof. exact c04_entry_lemma. Qed.

Theorem c02_chunked_entry : forall f caps,
  prepared f -> call_invalid (i_call f) = false -> sendable (i_call f) ->
  let a' := c_req (analysed_call (i_call f)) in
  let f' := fw_flow (fwrun f caps) in
  send_request_can_proceed f' = Ok true ->
  has_chunked_te a' = true ->
  c_req (i_call f') = a' /\ i_holder f' = HWithBody /\ i_should_send_body f' = true /\
  C18_proofs.chunked_body (i_call f') false /\
  send_request_proceed f' = Ok (Some (if i_await_100 f then TAwait100 else TSendBody, f')) /\
  await_100_proceed f' = Ok (TSendBody, f').
Proof. exact c03_entry_lemma. Qed.

(** Chunked: analysis adds no Content-Length; in particular none goes out unless the caller put one. *)
Theorem c02_chunked_no_cl : forall c,
  call_invalid c = false -> has_chunked_te (c_req (analysed_call c)) = true ->
  cls (c_req (analysed_call c)) = cls (c_req c) /\
  (cls (c_req c) = [] -> cls (c_req (analysed_call c)) = []).
Proof. intros c Hi Hc. rewrite (chunked_cls c Hi Hc). auto. Qed.

(** [Call::<WithBody>::write] in the head phases, ANY input: the input is ignored (nothing of it is
    consumed) and the head writer runs. *)
Theorem c02_call_with_body_step_any : forall c input cap,
  is_prelude (c_phase c) = true ->
  call_write_body c input cap =
    match call_write_nobody c cap with
    | Ok (c', o) => Ok (c', 0, o)
    | Err e => Err e
    | Panic s => Panic s
    end.
Proof. exact write_body_prelude_any. Qed.

(* ------------------------------------------------------------------ examples, states reached by running the model *)

(** [ex_flow] (above): POST, one added header, an original value with a trailing HTAB.  All input
    assumptions hold; the emitted bytes parse back (the HTAB is optional white space to a reader);
    a proper prefix does not; the flow then enters SendBody with the fresh chunked writer. *)
Example c02_parse_back_nonvacuous :
  prepared ex_flow /\ target_ok (c_req (i_call ex_flow)) /\
  wf_headers (am_added (c_req (i_call ex_flow))) /\
  wf_headers (rq_headers (am_request (c_req (i_call ex_flow)))) /\
  lower_names (am_added (c_req (i_call ex_flow))) /\
  lower_names (rq_headers (am_request (c_req (i_call ex_flow)))) /\
  let a := c_req (analysed_call (i_call ex_flow)) in
  let t := fwrun ex_flow [3; 20; 5; 43; 1000] in
  send_request_can_proceed (fw_flow t) = Ok true /\
  try_parse_request 100 (fw_out t ++ [1; 2; 3]) = Ok (Some (len (fw_out t), parsed_head a)) /\
  len (fw_out t) = 96 /\
  pq_headers (parsed_head a) =
    [(s2b "cookie", [s2b "k=v"]); (s2b "host", [s2b "a.test"]);
     (s2b "transfer-encoding", [s2b "chunked"]); (s2b "accept", [s2b "*/*"]); (s2b "x-a", [[255]])] /\
  try_parse_request 100 (take 95 (fw_out t)) = Ok None /\
  hosts_ci a = [s2b "a.test"] /\
  fw_flow t = set_call ex_flow (set_phase (analysed_call (i_call ex_flow)) PBody) /\
  c_writer (i_call (fw_flow t)) = new_chunked /\
  send_request_proceed (fw_flow t) = Ok (Some (TSendBody, fw_flow t)) /\
  (* non-empty input while the head is being written: ignored *)
  call_write_body (i_call ex_flow) [7; 7; 7] 20 =
    match call_write_nobody (i_call ex_flow) 20 with Ok (c', o) => Ok (c', 0, o) | Err e => Err e | Panic s => Panic s end.
Proof.
  split; [vm_compute; auto 10|]. split; [reflexivity|].
  split; [repeat constructor|]. split; [repeat constructor|].
  split; [repeat constructor|]. split; [repeat constructor|].
  vm_compute. repeat split.
Qed.

(** GET made to carry a body by [send_body_despite_method], with a caller-supplied Content-Length:
    the state in SendBody is the fresh sized writer for that length; and a plain GET goes on to
    RecvResponse with the no-body writer. *)
Definition get_req : request :=
  {| rq_method := GET; rq_version := V11;
     rq_uri := {| u_scheme := s2b "http"; u_auth := s2b "a.test"; u_pq := s2b "/x?y" |};
     rq_headers := [(s2b "content-length", s2b "5")] |}.
Definition get_plain : request :=
  {| rq_method := GET; rq_version := V10;
     rq_uri := {| u_scheme := s2b "http"; u_auth := s2b "a.test"; u_pq := s2b "/x?y" |};
     rq_headers := [] |}.
Definition despite_flow : inner :=
  match flow_new get_req with
  | Ok f => match send_body_despite_method f with Ok f' => f' | _ => f end
  | _ => ex_flow
  end.
Definition plain_flow : inner := match flow_new get_plain with Ok f => f | _ => ex_flow end.

Example c02_entry_nonvacuous :
  (exists f0, flow_new get_req = Ok f0 /\ send_body_despite_method f0 = Ok despite_flow) /\
  prepared despite_flow /\ call_invalid (i_call despite_flow) = false /\ sendable (i_call despite_flow) /\
  (let a' := c_req (analysed_call (i_call despite_flow)) in
   let g := fw_flow (fwrun despite_flow [10; 18; 40; 21]) in
   send_request_can_proceed g = Ok true /\
   has_chunked_te a' = false /\ cls a' = [s2b "5"] /\ dec_value (s2b "5") = 5 /\
   c_writer (i_call g) = new_sized 5 /\ i_should_send_body g = true /\
   send_request_proceed g = Ok (Some (TSendBody, g)) /\
   fw_out (fwrun despite_flow [10; 18; 40; 21]) =
     s2b "GET /x?y HTTP/1.1" ++ CRLF ++ s2b "host: a.test" ++ CRLF ++ s2b "content-length: 5" ++ CRLF ++ CRLF) /\
  flow_new get_plain = Ok plain_flow /\ prepared plain_flow /\
  call_invalid (i_call plain_flow) = false /\ sendable (i_call plain_flow) /\
  (let g := fw_flow (fwrun plain_flow [100]) in
   send_request_can_proceed g = Ok true /\ i_should_send_body plain_flow = false /\
   c_writer (i_call g) = new_none /\
   exists g', send_request_proceed g = Ok (Some (TRecvResponse, g')) /\ i_holder g' = HRecvResponse).
Proof.
  split; [eexists; split; vm_compute; reflexivity|].
  split; [vm_compute; auto 10|]. split; [reflexivity|].
  split; [vm_compute; repeat split; auto; discriminate|].
  split; [vm_compute; repeat split|].
  split; [reflexivity|]. split; [vm_compute; auto 10|]. split; [reflexivity|].
  split; [vm_compute; repeat split; auto; discriminate|].
  vm_compute. repeat split. eexists. split; reflexivity.
Qed.

Print Assumptions c02_request_line_def.
Print Assumptions c02_field_line_def.
Print Assumptions c02_head_lines_def.
Print Assumptions c02_render.
Print Assumptions c02_greedy_spec.
Print Assumptions c02_fresh.
Print Assumptions c02_step.
Print Assumptions c02_call_step.
Print Assumptions c02_call_with_body_step.
Print Assumptions c02_prefix.
Print Assumptions c02_prefix_fresh.
Print Assumptions c02_overflow_iff.
Print Assumptions c02_complete.
Print Assumptions c02_with_body_after_head.
Print Assumptions c02_faithful.
Print Assumptions c02_added_def.
Print Assumptions c02_host_once.
Print Assumptions c02_framing.
Print Assumptions c02_body_iff_announced.
Print Assumptions c02_nonvacuous.
Print Assumptions c02_wf_headers_def.
Print Assumptions c02_target_ok_def.
Print Assumptions c02_parsed_head_def.
Print Assumptions c02_trim_ows_id.
Print Assumptions c02_head_grammar.
Print Assumptions c02_parse_back_amended.
Print Assumptions c02_parse_back.
Print Assumptions c02_parse_back_prefix.
Print Assumptions c02_parse_back_flow.
Print Assumptions c02_request_line_parses.
Print Assumptions c02_parse_back_dquote_refuted.
Print Assumptions c02_hosts_ci_def.
Print Assumptions c02_host_once_ci.
Print Assumptions c02_header_lower.
Print Assumptions c02_host_upper_refuted.
Print Assumptions c02_prepared_def.
Print Assumptions c02_prepared_reachable.
Print Assumptions c02_head_done_state.
Print Assumptions c02_body_follows.
Print Assumptions c02_entry_modes.
Print Assumptions c02_proceed_to_body.
Print Assumptions c02_proceed_no_body.
Print Assumptions c02_sized_entry.
Print Assumptions c02_chunked_entry.
Print Assumptions c02_chunked_no_cl.
Print Assumptions c02_call_with_body_step_any.
Print Assumptions c02_parse_back_nonvacuous.
Print Assumptions c02_entry_nonvacuous.

(* ================================================================== Flow<SendRequest>::headers_map *)
(** The second public entry point that runs the request analysis (proofs/HeadersMap.v).  It reports, as a map built with
    [HeaderMap::insert], the same effective header list the head writer emits; it changes nothing; analysis is idempotent, so
    the head written afterwards is the one that would have been written without the call. *)
From Hoot Require Import Script.
From Hoot.proofs Require Import HeadersMap.
Theorem c02_headers_map_pure : forall s, fst (step s OHeadersMap) = s.
Proof. exact headers_map_pure. Qed.
Theorem c02_headers_map_reports : forall s f,
  s_obj s = ObFlow TSendRequest f ->
  snd (step s OHeadersMap) =
  match analyze_request (i_call f) with
  | Ok c => obs_headers (map_of_headers (am_headers (c_req c)))
  | Err e => obs_err e
  | Panic _ => obs_panic
  end.
Proof. exact headers_map_obs. Qed.
Theorem c02_analysis_idempotent : forall c c1, analyze_request c = Ok c1 -> analyze_request c1 = Ok c1.
Proof. exact analyze_request_idem. Qed.
(** The map holds, for every name, the value of that name's LAST occurrence among the effective headers (HeaderMap::insert), and
    nothing for a name that does not occur. *)
Theorem c02_headers_map_last_value : forall hs k,
  hm_get (fold_left (fun m h => hm_insert m (fst h) (snd h)) hs []) k =
  fold_left (fun acc h => if beq_bytes k (fst h) then Some (snd h) else acc) hs None.
Proof. exact map_of_headers_last. Qed.
Print Assumptions c02_headers_map_last_value.
Print Assumptions c02_headers_map_pure.
Print Assumptions c02_headers_map_reports.
Print Assumptions c02_analysis_idempotent.

(* ================================================================== the head writer's code itself (translated from the source) *)
(** The resumable request-head writer of src/client/call.rs -- [try_write_prelude] with its loop, [try_write_prelude_part] with the
    phase machine SendLine / SendHeaders(i) / SendBody, [do_write_send_line], [do_write_headers] with its loop over the remaining
    headers, the blank line glued to the last header line, every line written all-or-nothing -- is translated on every run by
    tools/rs2coq2.py (theories/Gen2.v, [gen_write_*]; the request is represented by the three rendered pieces of its request line and
    its list of effective headers, [state.phase] is the one field the writer touches).  proofs/Gen2_equiv_prelude.v proves it equivalent
    to the model's [try_write_prelude], which the theorems of this file are about, for every request with at least one effective header,
    every phase and every capacity: same new phase, same bytes, the same refusal; the fuel of the translated loop suffices and the
    translated code does not panic.  (With zero effective headers the Rust code computes [header_count - 1]: outside every property's
    quantifier; the model has an explicit Panic there, the translation truncates.)  Trusted: the translator. *)
From Hoot Require Import GenLib Gen2.
From Hoot.proofs Require Import Gen2_equiv_prelude.
Theorem c02_code_write_headers : forall hs index last avail out0,
  let '(i', out') := write_headers hs index last avail out0 in
  gen_write_headers hs index last avail out0 = Ok (i', avail - (len out' - len out0), out', tt).
Proof. exact gen_write_headers_equiv. Qed.
Theorem c02_code_write_prelude : forall a p cap,
  am_headers a <> [] ->
  match try_write_prelude a p cap with
  | Ok (p', out) =>
      gen_write_prelude (method_name (am_method a)) (match u_pq (am_eff_uri a) with [] => [47] | q => q end)
                        (version_name (am_version a)) (am_headers a) p cap [] = Ok (p', cap - len out, out, tt)
  | Err e =>
      gen_write_prelude (method_name (am_method a)) (match u_pq (am_eff_uri a) with [] => [47] | q => q end)
                        (version_name (am_version a)) (am_headers a) p cap [] = Err e
  | Panic _ => False
  end.
Proof. exact gen_write_prelude_equiv. Qed.
Print Assumptions c02_code_write_headers.
Print Assumptions c02_code_write_prelude.

(* ================================================================== Call::analyze_request itself (translated from the source) *)
(** [Call::analyze_request] (src/client/call.rs) -- runs once; adds [Host] from the URI when the caller gave none and the URI has
    an authority; adds the body's framing header when the caller gave none; installs the writer the analysis chose; sets its flag only
    when all of that succeeded -- is translated on every run by tools/rs2coq2.py (theories/Gen2.v, [gen_call_analyze_request]; the
    analysis' result, the URI's host and the list of added headers are values, [set_header] is the model's reading of
    AmendedRequest::set_header on that list) and proved EQUAL to the model's [analyze_request] (proofs/Gen2_equiv_call3.v). *)
From Hoot Require Import GenLib Gen2.
From Hoot.proofs Require Import Gen2_equiv_call3.
Theorem c02_code_analyze_request : forall c,
  gen_call_analyze_request (c_analyzed c) (am_added (c_req c)) (c_writer c)
                           (lift_info3 (analyze (c_req c) (c_writer c) (c_skip c))) (host_of_call c)
  = lift_call (analyze_request c).
Proof. exact gen_call_analyze_request_eq. Qed.
Print Assumptions c02_code_analyze_request.

(* ================================================================== Writer::try_write itself (translated from the source) *)
(** Every translated writer function above renders `w.try_write(|w| write!(..))` as "all of the bytes, or none and false".  That
    reading is now a theorem about the translation of src/util.rs Writer::try_write (theories/Gen2.v, [gen_writer_try_write]; the
    cursor is its position, the closure a function of the position; std's Cursor::write_all is the stated assumption
    [cursor_write_all]): proofs/Gen2_equiv_trywrite.v. *)
From Hoot.proofs Require Import Gen2_equiv_trywrite.
Theorem c02_code_try_write_restores : forall position capacity block,
  gen_writer_try_write position capacity block =
  Ok (if snd (block position) then fst (block position) else position, snd (block position)).
Proof. exact gen_writer_try_write_spec. Qed.
Print Assumptions c02_code_try_write_restores.
Theorem c02_code_try_write_all_or_nothing : forall cap n position,
  position <= cap ->
  gen_writer_try_write position cap (cursor_write_all cap n) =
  Ok (if n <=? cap - position then position + n else position, n <=? cap - position).
Proof. exact gen_writer_try_write_all_or_nothing. Qed.
Print Assumptions c02_code_try_write_all_or_nothing.
Theorem c02_code_try_write_two : forall cap n m position,
  position <= cap ->
  gen_writer_try_write position cap (cursor_write_two cap n m) =
  Ok (if n + m <=? cap - position then position + (n + m) else position, n + m <=? cap - position).
Proof. exact gen_writer_try_write_two. Qed.
Print Assumptions c02_code_try_write_two.
