(** Property C02 -- the request head on the wire is well-formed and faithful to the request.
    Statements only; spec definitions and proofs are in proofs/C02_proofs.v (writer),
    proofs/C02_analysis.v (Host / framing) and proofs/C17_proofs.v (analysis). *)
From Hoot Require Import Base Body Url Request Call Flow.
From Hoot.proofs Require Import BytesLemmas C17_proofs C02_proofs C02_analysis.
Open Scope N_scope.

(* ------------------------------------------------------------------ the specification *)

(** Request line: method SP path-and-query ("/" if empty) SP version CRLF, over the effective URI. *)
Theorem c02_request_line_def : forall a,
  prelude_line a =
    method_name (am_method a) ++ [32] ++
    (match u_pq (am_eff_uri a) with [] => [47] | p => p end) ++ [32] ++
    version_name (am_version a) ++ CRLF.
Proof. reflexivity. Qed.

(** name ": " value CRLF *)
Theorem c02_field_line_def : forall h, field_line h = fst h ++ [58; 32] ++ snd h ++ CRLF.
Proof. reflexivity. Qed.

(** The lines of the head: request line, every effective header (caller-added ones first, then the
    inherited ones) on its own line; the empty line that ends the head is glued to the last line. *)
Theorem c02_head_lines_def : forall a,
  head_lines a = glue_last (prelude_line a :: map field_line (am_headers a)) CRLF /\
  render_request_head a = concat (head_lines a).
Proof. split; reflexivity. Qed.

(** Gluing changes nothing in the byte string: the rendered head is the request line, the field
    lines, and one empty line. *)
Theorem c02_render : forall a,
  render_request_head a = prelude_line a ++ concat (map field_line (am_headers a)) ++ CRLF.
Proof. exact render_flat. Qed.

(** [greedy ls cap] is the number of whole lines of [ls], from the front, that a buffer of [cap]
    bytes takes: they fit, the next one (if any) does not; these facts determine the number. *)
Theorem c02_greedy_spec : forall (ls : list bytes) cap j,
  j = greedy ls cap <->
  (j <= len ls /\ len (concat (take j ls)) <= cap /\
   (j < len ls -> cap < len (concat (take (j + 1) ls)))).
Proof.
  intros ls cap j. split.
  - intros ->. split; [apply greedy_le|]. split; [apply greedy_fits|apply greedy_next].
  - intros (H1 & H2 & H3). apply greedy_unique; assumption.
Qed.

(* ------------------------------------------------------------------ the writer *)

(** [flow_head a f k]: the flow [f] is in SendRequest, is sending the head of the analysed request
    [a], and [k] lines are out.  Fresh flows that analysis accepts are in this state with k = 0 and
    [a] = the request after analysis ([sendable]: see C17).  *)
Theorem c02_fresh : forall f,
  fresh_flow f -> call_invalid (i_call f) = false -> sendable (i_call f) ->
  flow_head (c_req (analysed_call (i_call f))) f 0 /\
  am_headers (c_req (analysed_call (i_call f))) <> [].
Proof.
  intros f Hf Hi Hs. split; [apply fresh_flow_head; assumption|apply fresh_flow_headers_nonempty; exact Hs].
Qed.

(** One call, any capacity, any state of the head (at least one effective header): it emits the
    concatenation of the greedy block of whole lines starting at line k, and moves to line k + j;
    it fails with OutputOverflow -- the caller keeps the flow as it was -- when not even the next
    line fits. *)
Theorem c02_step : forall a f k cap,
  am_headers a <> [] -> flow_head a f k ->
  let L := head_lines a in
  let j := greedy (drop k L) cap in
  if (j =? 0) && (k <? len L) then send_request_write f cap = Err OutputOverflow
  else exists f', send_request_write f cap = Ok (f', concat (take j (drop k L))) /\
                  flow_head a f' (k + j).
Proof. exact flow_step. Qed.

(** The same for the single-call API. *)
Theorem c02_call_step : forall a c k cap,
  am_headers a <> [] -> call_head a c k ->
  let L := head_lines a in
  let j := greedy (drop k L) cap in
  if (j =? 0) && (k <? len L) then call_write_nobody c cap = Err OutputOverflow
  else exists c', call_write_nobody c cap = Ok (c', concat (take j (drop k L))) /\
                  call_head a c' (k + j).
Proof. exact nobody_step. Qed.

Theorem c02_call_with_body_step : forall c cap,
  is_prelude (c_phase c) = true ->
  call_write_body c [] cap =
    match call_write_nobody c cap with
    | Ok (c', o) => Ok (c', 0, o)
    | Err e => Err e
    | Panic s => Panic s
    end.
Proof. exact write_body_prelude. Qed.

(** Any sequence of output buffers: what has been emitted so far is the first k lines, where k is
    the position the flow is at. *)
Theorem c02_prefix : forall a f caps,
  am_headers a <> [] -> flow_head a f 0 ->
  exists k, flow_head a (fw_flow (fwrun f caps)) k /\
            fw_out (fwrun f caps) = concat (take k (head_lines a)).
Proof. exact head_prefix. Qed.

Theorem c02_prefix_fresh : forall f caps,
  fresh_flow f -> call_invalid (i_call f) = false -> sendable (i_call f) ->
  let a := c_req (analysed_call (i_call f)) in
  exists k, flow_head a (fw_flow (fwrun f caps)) k /\
            fw_out (fwrun f caps) = concat (take k (head_lines a)).
Proof.
  intros f caps Hf Hi Hs. cbv zeta. apply head_prefix.
  - apply fresh_flow_headers_nonempty; exact Hs.
  - apply fresh_flow_head; assumption.
Qed.

(** OutputOverflow exactly when the head is incomplete and the next line does not fit. *)
Theorem c02_overflow_iff : forall a f k cap,
  am_headers a <> [] -> flow_head a f k ->
  (send_request_write f cap = Err OutputOverflow <->
   exists l, next_line (head_lines a) k = Some l /\ cap < len l).
Proof. exact overflow_iff. Qed.

(** Ready to advance exactly when all lines are out, i.e. when the emitted bytes are the whole
    rendered head; from then on a write emits nothing and returns the same flow. *)
Theorem c02_complete : forall a f k,
  am_headers a <> [] -> flow_head a f k ->
  (send_request_can_proceed f = Ok true <-> k = len (head_lines a)) /\
  (k = len (head_lines a) <-> concat (take k (head_lines a)) = render_request_head a) /\
  (k = len (head_lines a) -> forall cap, send_request_write f cap = Ok (f, [])).
Proof.
  intros a f k Hne Hf. destruct (complete_iff a f k Hne Hf) as [H1 H2].
  split; [exact H1|]. split; [exact H2|]. intros -> cap. apply (flow_complete_fix a); assumption.
Qed.

Theorem c02_with_body_after_head : forall f cap,
  i_holder f = HWithBody -> c_phase (i_call f) = PBody -> send_request_write f cap = Ok (f, []).
Proof. intros f cap Hh Hp. unfold send_request_write. rewrite Hh, Hp. reflexivity. Qed.

(* ------------------------------------------------------------------ faithful to the request *)

(** What the first write turns the request into ([analysed_call]), and its effective headers:
    caller-added in order, Host if it had to be derived, the framing header if it had to be added,
    then the original fields that are not suppressed. *)
Theorem c02_faithful : forall c,
  c_analyzed c = false -> call_invalid c = false ->
  len (am_added (c_req c)) + 2 <= MAX_EXTRA_HEADERS ->
  valid_header_value (uri_host (am_eff_uri (c_req c))) = true ->
  analyze_request c = Ok (analysed_call c) /\
  am_method (c_req (analysed_call c)) = am_method (c_req c) /\
  am_version (c_req (analysed_call c)) = am_version (c_req c) /\
  am_eff_uri (c_req (analysed_call c)) = am_eff_uri (c_req c) /\
  am_headers (c_req (analysed_call c)) =
    am_added (c_req c) ++ host_added (c_req c) ++ framing_added (c_req c) (c_writer c) ++
    am_inherited (c_req c).
Proof.
  intros c Ha Hi Hl Hv. split; [apply analyze_request_valid; assumption|].
  repeat split. apply analysed_headers.
Qed.

Theorem c02_added_def : forall a w,
  host_added a =
    match hosts a with
    | [] => match u_auth (am_eff_uri a) with
            | [] => []
            | _ => [(s2b "host", uri_host (am_eff_uri a))]
            end
    | _ => []
    end /\
  framing_added a w =
    (if framing_present a then []
     else match w_mode w with
          | SNone => []
          | SSized n => [(s2b "content-length", dec_of n)]
          | SChunked => [(s2b "transfer-encoding", s2b "chunked")]
          end) /\
  am_inherited a =
    filter (fun h => negb (mem_bytes (fst h) (am_unset a))) (rq_headers (am_request a)).
Proof. intros; repeat split. Qed.

(** Exactly one Host among the effective headers: the caller's, or the URI host. *)
Theorem c02_host_once : forall c,
  call_invalid c = false -> u_auth (am_eff_uri (c_req c)) <> [] ->
  exists v, hosts (c_req (analysed_call c)) = [v] /\
            (hosts (c_req c) = [] -> v = uri_host (am_eff_uri (c_req c))) /\
            (hosts (c_req c) <> [] -> hosts (c_req c) = [v]).
Proof. exact host_once. Qed.

(** The body mode the writer will use agrees with the framing headers that go out:
    no body  <-> neither a content-length nor a chunked transfer-encoding is effective;
    sized n  <-> no chunked transfer-encoding and exactly one content-length, 1*DIGIT, of value n;
    chunked  <-> a chunked transfer-encoding is effective (the caller's, or the one added by default;
                 a caller-supplied content-length next to a caller-supplied "chunked" is sent as
                 given, chunked wins). *)
Theorem c02_framing : forall c,
  call_invalid c = false ->
  let a' := c_req (analysed_call c) in
  let w' := c_writer (analysed_call c) in
  (w_mode w' = SNone <-> cls a' = [] /\ has_chunked_te a' = false) /\
  (forall n, w_mode w' = SSized n <->
             has_chunked_te a' = false /\
             exists v, cls a' = [v] /\ is_nonempty v = true /\ forallb is_digit v = true /\
                       dec_value v = n) /\
  (w_mode w' = SChunked <-> has_chunked_te a' = true).
Proof. exact framing_mode_iff. Qed.

Theorem c02_body_iff_announced : forall c,
  call_invalid c = false ->
  has_body (c_writer (analysed_call c)) = body_announced (c_req c) (c_writer c).
Proof. exact mode_has_body. Qed.

(* ------------------------------------------------------------------ example / non-vacuity *)

Definition ex_req : request :=
  {| rq_method := POST; rq_version := V11;
     rq_uri := {| u_scheme := s2b "http"; u_auth := s2b "a.test:8080"; u_pq := [] |};
     rq_headers := [(s2b "accept", s2b "*/*"); (s2b "x-a", [255; 9])] |}.
Definition ex_flow : inner :=
  match flow_new ex_req with
  | Ok f => match prepare_header f (s2b "Cookie") (s2b "k=v") with Ok f' => f' | _ => f end
  | _ => {| i_call := call_new ex_req new_none; i_holder := HRecvBody; i_reasons := [];
            i_should_send_body := false; i_await_100 := false; i_status := None; i_location := None |}
  end.

Example c02_nonvacuous :
  fresh_flow ex_flow /\ call_invalid (i_call ex_flow) = false /\ sendable (i_call ex_flow) /\
  let a := c_req (analysed_call (i_call ex_flow)) in
  head_lines a =
    [s2b "POST / HTTP/1.1" ++ CRLF;
     s2b "cookie: k=v" ++ CRLF;
     s2b "host: a.test" ++ CRLF;
     s2b "transfer-encoding: chunked" ++ CRLF;
     s2b "accept: */*" ++ CRLF;
     s2b "x-a: " ++ [255; 9] ++ CRLF ++ CRLF] /\
  (* capacities: too small, request line only, too small for the next line, two lines, rest, extra *)
  let t := fwrun ex_flow [3; 20; 5; 43; 1000; 7; 0] in
  fw_out t = render_request_head a /\
  fw_out (fwrun ex_flow [3; 20; 5; 43]) = concat (take 3 (head_lines a)) /\
  send_request_can_proceed (fw_flow (fwrun ex_flow [3; 20; 5; 43])) = Ok false /\
  send_request_can_proceed (fw_flow t) = Ok true /\
  w_mode (c_writer (i_call (fw_flow t))) = SChunked.
Proof. vm_compute. repeat split; auto; discriminate. Qed.

Print Assumptions c02_request_line_def.
Print Assumptions c02_field_line_def.
Print Assumptions c02_head_lines_def.
Print Assumptions c02_render.
Print Assumptions c02_greedy_spec.
Print Assumptions c02_fresh.
Print Assumptions c02_step.
Print Assumptions c02_call_step.
Print Assumptions c02_call_with_body_step.
Print Assumptions c02_prefix.
Print Assumptions c02_prefix_fresh.
Print Assumptions c02_overflow_iff.
Print Assumptions c02_complete.
Print Assumptions c02_with_body_after_head.
Print Assumptions c02_faithful.
Print Assumptions c02_added_def.
Print Assumptions c02_host_once.
Print Assumptions c02_framing.
Print Assumptions c02_body_iff_announced.
Print Assumptions c02_nonvacuous.
