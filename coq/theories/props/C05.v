(** Property C05 -- For any well-formed HTTP/1.x response head H followed by arbitrary further
    bytes, offering any strict prefix of H (including the empty prefix) yields "need more data" with
    zero bytes consumed -- never an error and never a response -- and offering H or more yields a
    response with exactly H's status, version and header fields (all of them, repeated names with
    their values in order, surrounding white space stripped) and consumes exactly |H| bytes.  Heads
    with up to 128 header fields are accepted and heads with more are rejected with an error.

    Statements only.  Specification side: proofs/C05_spec.v ([resp_head], [render_response_head],
    [wf_resp_head], [headers_of], [complete_fields]), written without reference to the parser;
    [response_of h] (proofs/C20_proofs.v) is the response with H's version, status and
    [hm_of_list (headers_of (rh_fields h))].  Proofs: proofs/C05_stable.v, C05_roundtrip.v,
    C20_proofs.v, C05_proofs.v.  All statements are for unbounded inputs.

    Level: [call_try_response] (Call.v, model of [Call<RecvResponse>::try_response]) for statuses
    101..999 (a bare 100 takes the early return owned by C11); the parser-level theorems cover
    100..999 and an arbitrary field limit (see also C20).  The second half of the file (after review 2:
    proofs/C05_more.v, C05_hmap.v, C05_rfc_bytes.v, C20_partial_spec.v) adds: the exact condition under
    which a response is yielded (Content-Length), the field clause without [hm_of_list], prefixes of
    heads over the limit, the same at [recv_try_response] (Flow.v, model of
    [Flow<RecvResponse>::try_response]), and well-formedness over RFC byte classes.

    KNOWN FINDING (class "partial-redirect", F10): the prefix statement is FALSE for the code under
    test on the class [KnownClass] below; [c05_prefix] is stated outside that class and
    [c05_known_refuted] exhibits a member of the class being returned as a response. *)
From Hoot Require Import Base Chunk Body Httparse Parser Url Request Call Flow.
From Hoot.proofs Require Import C05_stable C05_spec C05_roundtrip C20_proofs C05_proofs C05_examples.
From Hoot.proofs Require Import C05_hmap C05_rfc_bytes C06_proofs C05_more C05_more_examples C20_partial_spec.
Open Scope N_scope.

(** ** hp_stable: for ARBITRARY bytes [b], [x] and any field limit, a verdict of the httparse model
    other than "partial" is final: same verdict, same consumed length, same stored view. *)
Theorem c05_hp_stable : forall slots b x,
  fst (parse_response slots b) <> SPartial -> parse_response slots (b ++ x) = parse_response slots b.
Proof. exact hp_stable_response_full. Qed.

Theorem c05_hp_stable_complete : forall slots b x n v,
  parse_response slots b = (SComplete n, v) -> parse_response slots (b ++ x) = (SComplete n, v).
Proof. exact hp_stable_response_complete. Qed.

Theorem c05_hp_stable_error : forall slots b x e v,
  parse_response slots b = (SError e, v) -> parse_response slots (b ++ x) = (SError e, v).
Proof. exact hp_stable_response_error. Qed.

Theorem c05_consumed_le : forall slots b n v, parse_response slots b = (SComplete n, v) -> n <= len b.
Proof. exact response_consumed_le. Qed.

(** ** Parser level (status 100..999, any limit) *)
Theorem c05_roundtrip : forall slots h rest,
  wf_resp_head h -> (List.length (rh_fields h) <= slots)%nat ->
  parse_response slots (render_response_head h ++ rest) =
    (SComplete (len (render_response_head h)), response_view h (rh_fields h)).
Proof. exact response_roundtrip. Qed.

Theorem c05_prefix_partial : forall slots h p x,
  wf_resp_head h -> (List.length (rh_fields h) <= slots)%nat ->
  render_response_head h = p ++ x -> x <> [] ->
  fst (parse_response slots p) = SPartial.
Proof. exact response_prefix_partial. Qed.

(** ** Flow level: [call_try_response], limit 128 = MAX_RESPONSE_HEADERS *)

(** H or more: what remains to be decided is only the body framing ([deliver], i.e.
    BadContentLengthHeader / [for_response], the subject of C06) ... *)
Theorem c05_complete : forall c h rest,
  wf_resp_head h -> rh_status h <> 100 -> (List.length (rh_fields h) <= 128)%nat ->
  call_try_response c (render_response_head h ++ rest) =
    deliver c (len (render_response_head h)) (response_of h).
Proof. exact try_response_complete. Qed.

(** ... so whenever a response comes back it is exactly H's and exactly |H| bytes are consumed ... *)
Theorem c05_complete_ok : forall c h rest c' o,
  wf_resp_head h -> rh_status h <> 100 -> (List.length (rh_fields h) <= 128)%nat ->
  call_try_response c (render_response_head h ++ rest) = Ok (c', o) ->
  o = Some (len (render_response_head h), response_of h) /\ exists rd, c' = set_reader c (Some rd).
Proof. exact try_response_complete_ok. Qed.

(** ... and one always comes back when H has no Content-Length field. *)
Theorem c05_complete_plain : forall c h rest,
  wf_resp_head h -> rh_status h <> 100 -> (List.length (rh_fields h) <= 128)%nat ->
  hm_get (rs_headers (response_of h)) (s2b "content-length") = None ->
  exists rd, call_try_response c (render_response_head h ++ rest) =
             Ok (set_reader c (Some rd), Some (len (render_response_head h), response_of h)).
Proof. exact try_response_complete_plain. Qed.

(** Every strict prefix (the empty one included) outside the known class: need more data, nothing
    consumed, state unchanged.  [KnownClass h p] (proofs/C05_proofs.v): the status is 3xx and
    "location" (lower-cased name) occurs among the field lines that are complete in [p], before the
    first empty-valued one. *)
Theorem c05_prefix : forall c h p x,
  wf_resp_head h -> (List.length (rh_fields h) <= 128)%nat ->
  render_response_head h = p ++ x -> x <> [] -> ~ KnownClass h p ->
  call_try_response c p = Ok (c, None).
Proof. exact try_response_prefix. Qed.

(** The known finding: HTTP/1.0 302 / Location: /x / Server: y  cut inside the Server line (33 of 41
    bytes) is returned as a complete response of 33 bytes, Server lost, connection: close added. *)
Theorem c05_known_refuted :
  exists c h p x,
    wf_resp_head h /\ (List.length (rh_fields h) <= 128)%nat /\
    render_response_head h = p ++ x /\ x <> [] /\ KnownClass h p /\
    call_try_response c p =
      Ok (set_reader c (Some RNoBody),
          Some (len p, {| rs_version := 0; rs_status := 302;
                          rs_headers := [ (s2b "location", [s2b "/x"]); (s2b "connection", [s2b "close"]) ] |})).
Proof. exact known_refuted. Qed.

(** The class is exact: on EVERY member the truncated head goes on to the body-framing step as if
    it were complete -- [len p] bytes consumed, the fields after the cut lost, a synthetic
    "connection: close" added ([truncated_response]) -- so the answer is never "need more data". *)
Theorem c05_known_class : forall c h p x,
  wf_resp_head h -> (List.length (rh_fields h) <= 128)%nat ->
  render_response_head h = p ++ x -> x <> [] -> KnownClass h p ->
  call_try_response c p = deliver c (len p) (truncated_response h p).
Proof. exact try_response_known. Qed.

Theorem c05_known_class_fails : forall c h p x c',
  wf_resp_head h -> (List.length (rh_fields h) <= 128)%nat ->
  render_response_head h = p ++ x -> x <> [] -> KnownClass h p ->
  call_try_response c p <> Ok (c', None).
Proof. exact try_response_known_fails. Qed.

(** 129 or more fields: an error as soon as the 129th field line is complete, whatever follows ... *)
Theorem c05_limit : forall c h fs1 f fs2 any,
  wf_resp_head h -> rh_fields h = fs1 ++ f :: fs2 -> List.length fs1 = 128%nat ->
  call_try_response c (render_status_line h ++ render_lines fs1 ++ render_field f ++ any) =
    Err HttpParseTooManyHeaders.
Proof. exact try_response_too_many. Qed.

(** ... in particular for the complete head. *)
Theorem c05_limit_complete : forall c h rest,
  wf_resp_head h -> (128 < List.length (rh_fields h))%nat ->
  call_try_response c (render_response_head h ++ rest) = Err HttpParseTooManyHeaders.
Proof. exact try_response_too_many_complete. Qed.

(** ** Non-vacuity.  [demo_head] (proofs/C05_examples.v) is
      HTTP/1.1 200 OK / Set-Cookie: a=1 / X-Empty:<SP><HTAB> / Set-Cookie:<SP><SP>b<0xC8><SP>c<HTAB>
    (68 bytes; a repeated name, an empty value, obs-text, inner and surrounding white space). *)
Example c05_nonvacuous :
  wf_resp_head demo_head /\ rh_status demo_head <> 100 /\
  call_try_response demo_call (render_response_head demo_head ++ s2b "body") =
    Ok (set_reader demo_call (Some RClose),
        Some (68, {| rs_version := 1; rs_status := 200;
                     rs_headers := [ (s2b "set-cookie", [s2b "a=1"; [98; 200; 32; 99]]);
                                     (s2b "x-empty", [[]]) ] |})) /\
  call_try_response demo_call (take 0 (render_response_head demo_head)) = Ok (demo_call, None) /\
  call_try_response demo_call (take 40 (render_response_head demo_head)) = Ok (demo_call, None) /\
  call_try_response demo_call (take 67 (render_response_head demo_head)) = Ok (demo_call, None) /\
  ~ KnownClass demo_head (take 40 (render_response_head demo_head)).
Proof.
  split; [exact demo_head_wf|]. split; [discriminate|].
  vm_compute. repeat split. intros [H _]. discriminate.
Qed.

(** 128 fields are accepted, 129 are not. *)
Example c05_limit_nonvacuous :
  wf_resp_head (many_fields 129) /\
  (exists r, call_try_response demo_call (render_response_head (many_fields 128)) =
             Ok (set_reader demo_call (Some RClose), Some (len (render_response_head (many_fields 128)), r))) /\
  call_try_response demo_call (render_response_head (many_fields 129)) = Err HttpParseTooManyHeaders.
Proof. split; [exact (many_fields_wf 129)|]. split; [eexists|]; vm_compute; reflexivity. Qed.

(** * Strengthening after review 2 (proofs/C05_more.v, C05_hmap.v, C05_rfc_bytes.v) *)

(** ** A. "yields a response": heads with a Content-Length field.

    Specification side (proofs/C05_more.v, written without the model): [fields_called k fs] are the fields of the head
    named [k] case-insensitively, [first_field k fs] the value of the first one, [dec_value] the decimal value
    of a digit string, [cl_numeric v] := v is 1*DIGIT and denotes a number below 2^64, and
      [cl_acceptable h] := H has no Content-Length field, or the FIRST one is [cl_numeric].
    [framing_of m h] is the rule list of C06 ([rfc_body_mode], proofs/C06_proofs.v) applied to H's status and version,
    the request method [m] and the first textual Content-Length / Transfer-Encoding values of H. *)

(** The model's number parser is the decimal value below 2^64 (promised in DESIGN section 7 for C06). *)
Theorem c05_dec_value : forall v n,
  parse_dec_u64 v = Some n <-> v <> [] /\ all_digits v = true /\ dec_value v = n /\ n < U64_LIMIT.
Proof. exact parse_dec_u64_spec. Qed.

(** H or more, framing acceptable: the response IS yielded, with exactly H's status, version and fields and
    exactly |H| bytes consumed; the reader installed is the one C06's rule list selects (never its error case). *)
Theorem c05_complete_cl : forall c h rest,
  wf_resp_head h -> rh_status h <> 100 -> (List.length (rh_fields h) <= 128)%nat ->
  cl_acceptable h ->
  exists rd,
    framing_of (am_method (c_req c)) h = Ok rd /\
    call_try_response c (render_response_head h ++ rest) =
      Ok (set_reader c (Some rd), Some (len (render_response_head h), response_of h)).
Proof. exact try_response_complete_cl. Qed.

(** H or more, first Content-Length not a number below 2^64 (empty, signed, a non-digit, obs-text, too large):
    the error, whatever the status, the method and the other fields. *)
Theorem c05_bad_content_length : forall c h rest v,
  wf_resp_head h -> rh_status h <> 100 -> (List.length (rh_fields h) <= 128)%nat ->
  first_field (s2b "content-length") (rh_fields h) = Some v -> ~ cl_numeric v ->
  call_try_response c (render_response_head h ++ rest) = Err BadContentLengthHeader.
Proof. exact try_response_bad_content_length. Qed.

(** So the condition is exact ... *)
Theorem c05_complete_iff : forall c h rest,
  wf_resp_head h -> rh_status h <> 100 -> (List.length (rh_fields h) <= 128)%nat ->
  ((exists c' o, call_try_response c (render_response_head h ++ rest) = Ok (c', o)) <-> cl_acceptable h).
Proof. exact try_response_ok_iff. Qed.

(** ... and it is "the first Content-Length is text and C06's rule list is not in its error case". *)
Theorem c05_acceptable_is_framing : forall m h,
  cl_acceptable h <->
  (forall v, first_field (s2b "content-length") (rh_fields h) = Some v -> rfc_text v = true) /\
  framing_of m h <> Err BadContentLengthHeader.
Proof. exact cl_acceptable_framing. Qed.

(** ** B. "all header fields, repeated names with their values in order", without [hm_of_list].
    For ANY field list [l] (proofs/C05_hmap.v; [norm_header] lower-cases the name, [fields_named k l] filters [l]): *)

(** looking a name up gives the values of the fields of that name, in the order of the list; *)
Theorem c05_get_all_of_list : forall l k,
  hm_get_all (hm_of_list l) k = map snd (filter (fun h => beq_bytes k (lower (fst h))) l).
Proof. exact hm_get_all_of_list. Qed.

(** iterating over the map gives every field of the list exactly once and nothing else ... *)
Theorem c05_iter_of_list_perm : forall l,
  Permutation.Permutation (hm_iter (hm_of_list l)) (map norm_header l).
Proof. exact hm_iter_of_list_perm. Qed.

(** ... in an order that only groups equal names: the fields of any one name keep the order of the list ... *)
Theorem c05_iter_of_list_stable : forall l k,
  filter (fun e : header => beq_bytes k (fst e)) (hm_iter (hm_of_list l)) =
  filter (fun e : header => beq_bytes k (fst e)) (map norm_header l).
Proof. exact hm_iter_of_list_stable. Qed.

(** ... and the names come in the order of their first occurrence, each once. *)
Theorem c05_keys_of_list : forall l,
  map fst (hm_of_list l) = first_names [] l /\ NoDup (map fst (hm_of_list l)).
Proof. intros l. split; [exact (hm_keys_of_list l)|exact (hm_of_list_keys_nodup l)]. Qed.

(** The field clause of the property in these terms: whenever a response is handed out for H ++ rest, it has
    H's version and status, |H| bytes are consumed, and its header map holds exactly H's fields
    ([norm_field]: lower-cased name, value without the surrounding white space), the values of each name in
    H's order. *)
Theorem c05_complete_fields : forall c h rest c' used r,
  wf_resp_head h -> rh_status h <> 100 -> (List.length (rh_fields h) <= 128)%nat ->
  call_try_response c (render_response_head h ++ rest) = Ok (c', Some (used, r)) ->
  used = len (render_response_head h) /\ rs_version r = rh_version h /\ rs_status r = rh_status h /\
  (forall k, hm_get_all (rs_headers r) k = map f_value (fields_called k (rh_fields h))) /\
  Permutation.Permutation (hm_iter (rs_headers r)) (map norm_field (rh_fields h)) /\
  (forall k, filter (fun e : header => beq_bytes k (fst e)) (hm_iter (rs_headers r)) =
             filter (fun e : header => beq_bytes k (fst e)) (map norm_field (rh_fields h))).
Proof. exact try_response_fields. Qed.

(** ** C. Prefixes of heads of any size, and the flow level ([Flow<RecvResponse>::try_response]) *)

(** A strict prefix in which at most 128 field lines are complete -- however many fields H has -- outside the
    known class: need more data ([c05_prefix] is the special case of heads within the limit) ... *)
Theorem c05_prefix_over_limit : forall c h p x,
  wf_resp_head h -> render_response_head h = p ++ x -> x <> [] ->
  (List.length (complete_fields h p) <= 128)%nat -> ~ KnownClass h p ->
  call_try_response c p = Ok (c, None).
Proof. exact try_response_prefix_any. Qed.

(** ... and any prefix (H itself included) in which the 129th field line is complete: the error. *)
Theorem c05_prefix_over_limit_err : forall c h p x,
  wf_resp_head h -> render_response_head h = p ++ x ->
  (128 < List.length (complete_fields h p))%nat ->
  call_try_response c p = Err HttpParseTooManyHeaders.
Proof. exact try_response_prefix_over. Qed.

(** At the flow: every strict prefix outside the known class leaves the flow as it was, 0 consumed, no response. *)
Theorem c05_flow_prefix : forall f h p x,
  i_holder f = HRecvResponse -> wf_resp_head h -> (List.length (rh_fields h) <= 128)%nat ->
  render_response_head h = p ++ x -> x <> [] -> ~ KnownClass h p ->
  recv_try_response f p = Ok (f, 0, None).
Proof. exact recv_prefix_within. Qed.

Theorem c05_flow_prefix_over_limit : forall f h p x,
  i_holder f = HRecvResponse -> wf_resp_head h -> render_response_head h = p ++ x -> x <> [] ->
  (List.length (complete_fields h p) <= 128)%nat -> ~ KnownClass h p ->
  recv_try_response f p = Ok (f, 0, None).
Proof. exact recv_prefix. Qed.

Theorem c05_flow_prefix_over_limit_err : forall f h p x,
  i_holder f = HRecvResponse -> wf_resp_head h -> render_response_head h = p ++ x ->
  (128 < List.length (complete_fields h p))%nat ->
  recv_try_response f p = Err HttpParseTooManyHeaders.
Proof. exact recv_prefix_over. Qed.

(** H or more at the flow (close reasons duplicate-free, as in every reachable flow: C10): H's response, |H|
    consumed; the flow records H's status and the value of the LAST Location field, holds the reader selected by
    C06's rule list, and gains ServerConnectionClose exactly when H has a field "Connection: close". *)
Theorem c05_flow_complete : forall f h rest,
  i_holder f = HRecvResponse -> NoDup (i_reasons f) ->
  wf_resp_head h -> rh_status h <> 100 -> (List.length (rh_fields h) <= 128)%nat -> cl_acceptable h ->
  exists f' rd,
    recv_try_response f (render_response_head h ++ rest) =
      Ok (f', len (render_response_head h), Some (response_of h)) /\
    framing_of (am_method (c_req (i_call f))) h = Ok rd /\
    i_call f' = set_reader (i_call f) (Some rd) /\ i_holder f' = HRecvResponse /\
    i_status f' = Some (rh_status h) /\
    i_location f' = last_opt (map f_value (fields_called (s2b "location") (rh_fields h))) /\
    NoDup (i_reasons f') /\
    (forall x, In x (i_reasons f') <->
               In x (i_reasons f) \/ (x = ServerConnectionClose /\ server_close (rh_fields h) = true)).
Proof. exact recv_complete. Qed.

Theorem c05_flow_bad_content_length : forall f h rest v,
  i_holder f = HRecvResponse -> wf_resp_head h -> rh_status h <> 100 -> (List.length (rh_fields h) <= 128)%nat ->
  first_field (s2b "content-length") (rh_fields h) = Some v -> ~ cl_numeric v ->
  recv_try_response f (render_response_head h ++ rest) = Err BadContentLengthHeader.
Proof. exact recv_bad_content_length. Qed.

(** ** D. "Well-formed" without the model's tables.  proofs/C05_rfc_bytes.v writes the byte classes from RFC 5234 /
    9110 / 9112 ([rfc_tchar], [rfc_field_content_byte], [rfc_field_vchar], [rfc_ows_byte], [rfc_reason_byte]) and the
    well-formedness predicates over them ([rfc_wf_field], [rfc_wf_resp_head]); they are the predicates used above. *)
Theorem c05_tchar_table : forall b, is_name_token b = rfc_tchar b.
Proof. exact name_token_is_tchar. Qed.

Theorem c05_field_value_table : forall b, is_value_token b = rfc_field_content_byte b.
Proof. exact value_token_is_field_content. Qed.

Theorem c05_ows_table : forall b, is_sp_tab b = rfc_ows_byte b.
Proof. exact sp_tab_is_ows. Qed.

(** The model's reason-phrase class has no upper bound: equal on bytes (it is applied to bytes only). *)
Theorem c05_reason_table : forall b, b < 256 -> is_reason_byte b = rfc_reason_byte b.
Proof. exact reason_byte_is_rfc. Qed.

(** "text" (for Content-Length): VCHAR / SP / HTAB. *)
Theorem c05_text_table : forall b, is_visible_ascii b = rfc_VCHAR b || rfc_SP b || rfc_HTAB b.
Proof. exact visible_ascii_is_rfc. Qed.

Theorem c05_rfc_wf_field : forall f, rfc_wf_field f <-> wf_field f.
Proof. exact rfc_wf_field_iff. Qed.

(** Every theorem of this file stated for [wf_resp_head] holds for every RFC-well-formed head ... *)
Theorem c05_rfc_wf : forall h, rfc_wf_resp_head h -> wf_resp_head h.
Proof. exact rfc_wf_resp_head_wf. Qed.

(** ... and [wf_resp_head] admits nothing else, as long as the reason phrase is made of bytes. *)
Theorem c05_rfc_wf_conv : forall h,
  wf_resp_head h -> (match rh_reason h with None => True | Some r => forallb (fun b => b <? 256) r = true end) ->
  rfc_wf_resp_head h.
Proof. exact wf_resp_head_rfc_wf. Qed.

(** ** Non-vacuity of the additions *)

(** [cl_head] (proofs/C05_more_examples.v) is  HTTP/1.1 200 OK / Content-Length: 5 / content-length: x /
    Transfer-Encoding: gzip / Connection: close / Location: /a / LOCATION: /b  (129 bytes): acceptable (the second
    Content-Length is not looked at), delivered with a 5-byte body reader; and four heads refused for their
    Content-Length: "+5", empty, "5<0xC8>" (not text), 2^64; 2^64-1 is accepted. *)
Example c05_cl_nonvacuous :
  wf_resp_head cl_head /\ rfc_wf_resp_head cl_head /\ cl_acceptable cl_head /\
  framing_of GET cl_head = Ok (RLength 5) /\
  call_try_response demo_call (render_response_head cl_head ++ s2b "hello") =
    Ok (set_reader demo_call (Some (RLength 5)), Some (129, response_of cl_head)) /\
  hm_get_all (rs_headers (response_of cl_head)) (s2b "location") = [s2b "/a"; s2b "/b"] /\
  (forall v, In v [s2b "+5"; []; [53; 200]; s2b "18446744073709551616"] ->
     wf_resp_head (cl_head_with v) /\ ~ cl_numeric v /\
     first_field (s2b "content-length") (rh_fields (cl_head_with v)) = Some v /\
     call_try_response demo_call (render_response_head (cl_head_with v)) = Err BadContentLengthHeader) /\
  cl_numeric (s2b "18446744073709551615") /\
  call_try_response demo_call (render_response_head (cl_head_with (s2b "18446744073709551615"))) =
    Ok (set_reader demo_call (Some (RLength 18446744073709551615)),
        Some (63, response_of (cl_head_with (s2b "18446744073709551615")))).
Proof.
  split; [exact cl_head_wf|]. split; [apply wf_resp_head_rfc_wf; [exact cl_head_wf|reflexivity]|].
  split; [exact cl_head_acceptable|].
  split; [vm_compute; reflexivity|]. split; [vm_compute; reflexivity|]. split; [vm_compute; reflexivity|].
  split; [|split; [split; [discriminate|split; vm_compute; reflexivity]|vm_compute; reflexivity]].
  intros v Hv. cbn [In] in Hv.
  assert (Hnot : forall w, (w = [] \/ forallb rfc_DIGIT w = false \/ 2 ^ 64 <= dec_value w) -> ~ cl_numeric w).
  { intros w Hw (H1 & H2 & H3). destruct Hw as [Hw|[Hw|Hw]]; [congruence|congruence|].
    apply N.lt_nge in H3. contradiction. }
  destruct Hv as [<-|[<-|[<-|[<-|[]]]]];
    (split; [apply cl_head_with_wf; reflexivity|]); (split; [|split; vm_compute; reflexivity]); apply Hnot.
  - right. left. reflexivity.
  - left. reflexivity.
  - right. left. reflexivity.
  - right. right. vm_compute. discriminate.
Qed.

(** [reached_flow] (proofs/C05_more_examples.v) is the flow the MODEL reaches by  new (GET http://a.test/x), proceed,
    write the request head, proceed  ([Script.run_ops]); on it: prefixes of [cl_head] and of a 130-field head, the
    complete head, a refused head. *)
Example c05_flow_nonvacuous :
  exists f,
    reached_flow = Some f /\ i_holder f = HRecvResponse /\ NoDup (i_reasons f) /\
    recv_try_response f (take 0 (render_response_head cl_head)) = Ok (f, 0, None) /\
    recv_try_response f (take 70 (render_response_head cl_head)) = Ok (f, 0, None) /\
    recv_try_response f (take 128 (render_response_head cl_head)) = Ok (f, 0, None) /\
    ~ KnownClass cl_head (take 128 (render_response_head cl_head)) /\
    (exists f', recv_try_response f (render_response_head cl_head ++ s2b "hello") =
                  Ok (f', 129, Some (response_of cl_head)) /\
                c_reader (i_call f') = Some (RLength 5) /\ i_status f' = Some 200 /\
                i_location f' = Some (s2b "/b") /\ i_reasons f' = [ServerConnectionClose]) /\
    recv_try_response f (render_response_head (cl_head_with (s2b "+5"))) = Err BadContentLengthHeader /\
    (* 130 fields: 17 + 6*128 = 785 bytes hold 128 complete lines; 788 cuts the 129th, 791 completes it *)
    List.length (complete_fields (many_fields 130) (take 788 (render_response_head (many_fields 130)))) = 128%nat /\
    recv_try_response f (take 788 (render_response_head (many_fields 130))) = Ok (f, 0, None) /\
    List.length (complete_fields (many_fields 130) (take 791 (render_response_head (many_fields 130)))) = 129%nat /\
    recv_try_response f (take 791 (render_response_head (many_fields 130))) = Err HttpParseTooManyHeaders.
Proof.
  eexists. split; [vm_compute; reflexivity|]. split; [reflexivity|]. split; [constructor|].
  split; [vm_compute; reflexivity|]. split; [vm_compute; reflexivity|]. split; [vm_compute; reflexivity|].
  split; [intros [H _]; vm_compute in H; discriminate|].
  split; [eexists; split; [vm_compute; reflexivity|repeat split]|].
  repeat split; vm_compute; reflexivity.
Qed.

(** The early form of [c05_limit] (the review found no example): status line, 128 lines, the 129th, then garbage. *)
Example c05_limit_early_nonvacuous :
  rh_fields (many_fields 129) = firstn 128 (rh_fields (many_fields 129)) ++
                                {| f_name := [97]; f_ows1 := [32]; f_value := [98]; f_ows2 := [] |} :: [] /\
  call_try_response demo_call
    (render_status_line (many_fields 129) ++ render_lines (firstn 128 (rh_fields (many_fields 129))) ++
     render_field {| f_name := [97]; f_ows1 := [32]; f_value := [98]; f_ows2 := [] |} ++ [0; 255; 13]) =
    Err HttpParseTooManyHeaders.
Proof. split; vm_compute; reflexivity. Qed.

(** The header-map characterisation on [demo_head] (Set-Cookie twice, around X-Empty). *)
Example c05_fields_nonvacuous :
  hm_get_all (rs_headers (response_of demo_head)) (s2b "set-cookie") = [s2b "a=1"; [98; 200; 32; 99]] /\
  map f_value (fields_called (s2b "set-cookie") (rh_fields demo_head)) = [s2b "a=1"; [98; 200; 32; 99]] /\
  hm_iter (rs_headers (response_of demo_head)) =
    [(s2b "set-cookie", s2b "a=1"); (s2b "set-cookie", [98; 200; 32; 99]); (s2b "x-empty", [])] /\
  map norm_field (rh_fields demo_head) =
    [(s2b "set-cookie", s2b "a=1"); (s2b "x-empty", []); (s2b "set-cookie", [98; 200; 32; 99])].
Proof. vm_compute. repeat split. Qed.

(** The known class (F10) without model functions ([fields_before_empty]: proofs/C20_partial_spec.v). *)
Theorem c05_known_class_spec : forall h p,
  KnownClass h p <->
  300 <= rh_status h <= 399 /\
  fields_called (s2b "location") (fields_before_empty (complete_fields h p)) <> [].
Proof. exact known_class_spec. Qed.

Print Assumptions c05_hp_stable.
Print Assumptions c05_hp_stable_complete.
Print Assumptions c05_hp_stable_error.
Print Assumptions c05_consumed_le.
Print Assumptions c05_roundtrip.
Print Assumptions c05_prefix_partial.
Print Assumptions c05_complete.
Print Assumptions c05_complete_ok.
Print Assumptions c05_complete_plain.
Print Assumptions c05_prefix.
Print Assumptions c05_known_refuted.
Print Assumptions c05_known_class.
Print Assumptions c05_known_class_fails.
Print Assumptions c05_limit.
Print Assumptions c05_limit_complete.
Print Assumptions c05_nonvacuous.
Print Assumptions c05_limit_nonvacuous.
Print Assumptions c05_dec_value.
Print Assumptions c05_complete_cl.
Print Assumptions c05_bad_content_length.
Print Assumptions c05_complete_iff.
Print Assumptions c05_acceptable_is_framing.
Print Assumptions c05_get_all_of_list.
Print Assumptions c05_iter_of_list_perm.
Print Assumptions c05_iter_of_list_stable.
Print Assumptions c05_keys_of_list.
Print Assumptions c05_complete_fields.
Print Assumptions c05_prefix_over_limit.
Print Assumptions c05_prefix_over_limit_err.
Print Assumptions c05_flow_prefix.
Print Assumptions c05_flow_prefix_over_limit.
Print Assumptions c05_flow_prefix_over_limit_err.
Print Assumptions c05_flow_complete.
Print Assumptions c05_flow_bad_content_length.
Print Assumptions c05_tchar_table.
Print Assumptions c05_field_value_table.
Print Assumptions c05_ows_table.
Print Assumptions c05_reason_table.
Print Assumptions c05_text_table.
Print Assumptions c05_rfc_wf_field.
Print Assumptions c05_rfc_wf.
Print Assumptions c05_rfc_wf_conv.
Print Assumptions c05_cl_nonvacuous.
Print Assumptions c05_flow_nonvacuous.
Print Assumptions c05_limit_early_nonvacuous.
Print Assumptions c05_fields_nonvacuous.
Print Assumptions c05_known_class_spec.

(* ================================================================== Call<RecvResponse>::try_response itself (translated from the source) *)
(** The function that turns server bytes into a response and a framing decision -- complete head, or the partial-redirect
    work-around with its synthetic Connection: close; the 100 special case; the Content-Length text test; [for_response] recorded in
    the reader -- is translated on every run by tools/rs2coq2.py (theories/Gen2.v, [gen_call_try_response]; the two parsers' results
    are values of the model's types, what is asked of a response are the model's readings of the http accessors) and proved EQUAL to
    the model's [call_try_response] (proofs/Gen2_equiv_call.v).  Trusted: the translator; the parsers themselves (httparse) stay modelled. *)
From Hoot Require Import GenLib Gen2.
From Hoot.proofs Require Import Gen2_equiv_call.
Theorem c05_code_call_try_response : forall c input,
  gen_call_try_response (c_reader c) (am_method (c_req c)) input
    (try_parse_response (N.to_nat MAX_RESPONSE_HEADERS) input)
    (try_parse_partial_response (N.to_nat MAX_RESPONSE_HEADERS) input)
  = lift_try (call_try_response c input).
Proof. exact gen_call_try_response_eq. Qed.
Print Assumptions c05_code_call_try_response.

(* ================================================================== src/parser.rs itself (translated from the source) *)
(** The bridge from httparse to the http types -- the error mapping (too many headers kept apart), Complete / Partial, the version and
    status conversions, which stored fields are copied into the builder (all of them; in the partial parser up to the first field
    with an empty name or value) and what is returned -- is translated on every run (theories/Gen2.v, [gen_try_parse_response],
    [gen_try_parse_partial_response]; httparse's outcome and the fields it filled in are values, the http builder is the model's
    reading of it) and proved EQUAL to the model's bridge on whatever the parser model returns (proofs/Gen2_equiv_parser.v). *)
From Hoot.proofs Require Import Gen2_equiv_parser.
Theorem c05_code_try_parse_response : forall slots input,
  gen_try_parse_response input (hp_of (fst (parse_response slots input))) (hv_version (snd (parse_response slots input)))
    (hv_code (snd (parse_response slots input))) (hv_headers (snd (parse_response slots input)))
  = try_parse_response slots input.
Proof. exact gen_try_parse_response_eq. Qed.
Print Assumptions c05_code_try_parse_response.
Theorem c05_code_try_parse_partial_response : forall slots input,
  gen_try_parse_partial_response input (hp_of (fst (parse_response slots input))) (hv_version (snd (parse_response slots input)))
    (hv_code (snd (parse_response slots input))) (hv_headers (snd (parse_response slots input)))
  = try_parse_partial_response slots input.
Proof. exact gen_try_parse_partial_response_eq. Qed.
Print Assumptions c05_code_try_parse_partial_response.

(* ================================================================== the whole chain in translated code *)
(** Chained: from what httparse returns on the input, through the two translated parsers of src/parser.rs, to the answer of the
    translated Call<RecvResponse>::try_response -- equal to the model's [call_try_response] (proofs/Gen2_equiv_call_parser.v). *)
From Hoot.proofs Require Import Gen2_equiv_call_parser.
Theorem c05_code_call_try_response_chain : forall c input,
  gen_call_try_response (c_reader c) (am_method (c_req c)) input
    (gen_parse_n (N.to_nat MAX_RESPONSE_HEADERS) input)
    (gen_parse_partial_n (N.to_nat MAX_RESPONSE_HEADERS) input)
  = lift_try (call_try_response c input).
Proof. exact gen_call_try_response_chain. Qed.
Print Assumptions c05_code_call_try_response_chain.

(* ================================================================== what a failed try_response leaves behind (translated from the source) *)
(** Call<RecvResponse>::try_response translated in error-state mode (theories/Gen2.v, [gen_call_try_response_errst]: the value of
    state.reader wherever the function returns an error): the reader is as it was.  The script semantics of the model keep the call
    unchanged when [call_try_response] fails; this is that assumption proved about the code (proofs/Gen2_equiv_call_errst.v). *)
From Hoot.proofs Require Import Gen2_equiv_call_errst.
Theorem c05_code_failed_try_response_changes_nothing : forall reader m input parsed partial reader',
  gen_call_try_response_errst reader m input parsed partial = Some reader' -> reader' = reader.
Proof. exact gen_call_try_response_errst_unchanged. Qed.
Print Assumptions c05_code_failed_try_response_changes_nothing.
