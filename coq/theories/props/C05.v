(** Property C05 -- For any well-formed HTTP/1.x response head H followed by arbitrary further
    bytes, offering any strict prefix of H (including the empty prefix) yields "need more data" with
    zero bytes consumed -- never an error and never a response -- and offering H or more yields a
    response with exactly H's status, version and header fields (all of them, repeated names with
    their values in order, surrounding white space stripped) and consumes exactly |H| bytes.  Heads
    with up to 128 header fields are accepted and heads with more are rejected with an error.

    Statements only.  Specification side: proofs/C05_spec.v ([resp_head], [render_response_head],
    [wf_resp_head], [headers_of], [complete_fields]), written without reference to the parser;
    [response_of h] (proofs/C20_proofs.v) is the response with H's version, status and
    [hm_of_list (headers_of (rh_fields h))].  Proofs: proofs/C05_stable.v, C05_roundtrip.v,
    C20_proofs.v, C05_proofs.v.  All statements are for unbounded inputs.

    Level: [call_try_response] (Call.v, model of [Call<RecvResponse>::try_response]) for statuses
    101..999 (a bare 100 takes the early return owned by C11); the parser-level theorems cover
    100..999 and an arbitrary field limit (see also C20).

    KNOWN FINDING (class "partial-redirect", F10): the prefix statement is FALSE for the code under
    test on the class [KnownClass] below; [c05_prefix] is stated outside that class and
    [c05_known_refuted] exhibits a member of the class being returned as a response. *)
From Hoot Require Import Base Chunk Body Httparse Parser Url Request Call.
From Hoot.proofs Require Import C05_stable C05_spec C05_roundtrip C20_proofs C05_proofs C05_examples.
Open Scope N_scope.

(** ** hp_stable: for ARBITRARY bytes [b], [x] and any field limit, a verdict of the httparse model
    other than "partial" is final: same verdict, same consumed length, same stored view. *)
Theorem c05_hp_stable : forall slots b x,
  fst (parse_response slots b) <> SPartial -> parse_response slots (b ++ x) = parse_response slots b.
Proof. exact hp_stable_response_full. Qed.

Theorem c05_hp_stable_complete : forall slots b x n v,
  parse_response slots b = (SComplete n, v) -> parse_response slots (b ++ x) = (SComplete n, v).
Proof. exact hp_stable_response_complete. Qed.

Theorem c05_hp_stable_error : forall slots b x e v,
  parse_response slots b = (SError e, v) -> parse_response slots (b ++ x) = (SError e, v).
Proof. exact hp_stable_response_error. Qed.

Theorem c05_consumed_le : forall slots b n v, parse_response slots b = (SComplete n, v) -> n <= len b.
Proof. exact response_consumed_le. Qed.

(** ** Parser level (status 100..999, any limit) *)
Theorem c05_roundtrip : forall slots h rest,
  wf_resp_head h -> (List.length (rh_fields h) <= slots)%nat ->
  parse_response slots (render_response_head h ++ rest) =
    (SComplete (len (render_response_head h)), response_view h (rh_fields h)).
Proof. exact response_roundtrip. Qed.

Theorem c05_prefix_partial : forall slots h p x,
  wf_resp_head h -> (List.length (rh_fields h) <= slots)%nat ->
  render_response_head h = p ++ x -> x <> [] ->
  fst (parse_response slots p) = SPartial.
Proof. exact response_prefix_partial. Qed.

(** ** Flow level: [call_try_response], limit 128 = MAX_RESPONSE_HEADERS *)

(** H or more: what remains to be decided is only the body framing ([deliver], i.e.
    BadContentLengthHeader / [for_response], the subject of C06) ... *)
Theorem c05_complete : forall c h rest,
  wf_resp_head h -> rh_status h <> 100 -> (List.length (rh_fields h) <= 128)%nat ->
  call_try_response c (render_response_head h ++ rest) =
    deliver c (len (render_response_head h)) (response_of h).
Proof. exact try_response_complete. Qed.

(** ... so whenever a response comes back it is exactly H's and exactly |H| bytes are consumed ... *)
Theorem c05_complete_ok : forall c h rest c' o,
  wf_resp_head h -> rh_status h <> 100 -> (List.length (rh_fields h) <= 128)%nat ->
  call_try_response c (render_response_head h ++ rest) = Ok (c', o) ->
  o = Some (len (render_response_head h), response_of h) /\ exists rd, c' = set_reader c (Some rd).
Proof. exact try_response_complete_ok. Qed.

(** ... and one always comes back when H has no Content-Length field. *)
Theorem c05_complete_plain : forall c h rest,
  wf_resp_head h -> rh_status h <> 100 -> (List.length (rh_fields h) <= 128)%nat ->
  hm_get (rs_headers (response_of h)) (s2b "content-length") = None ->
  exists rd, call_try_response c (render_response_head h ++ rest) =
             Ok (set_reader c (Some rd), Some (len (render_response_head h), response_of h)).
Proof. exact try_response_complete_plain. Qed.

(** Every strict prefix (the empty one included) outside the known class: need more data, nothing
    consumed, state unchanged.  [KnownClass h p] (proofs/C05_proofs.v): the status is 3xx and
    "location" (lower-cased name) occurs among the field lines that are complete in [p], before the
    first empty-valued one. *)
Theorem c05_prefix : forall c h p x,
  wf_resp_head h -> (List.length (rh_fields h) <= 128)%nat ->
  render_response_head h = p ++ x -> x <> [] -> ~ KnownClass h p ->
  call_try_response c p = Ok (c, None).
Proof. exact try_response_prefix. Qed.

(** The known finding: HTTP/1.0 302 / Location: /x / Server: y  cut inside the Server line (33 of 41
    bytes) is returned as a complete response of 33 bytes, Server lost, connection: close added. *)
Theorem c05_known_refuted :
  exists c h p x,
    wf_resp_head h /\ (List.length (rh_fields h) <= 128)%nat /\
    render_response_head h = p ++ x /\ x <> [] /\ KnownClass h p /\
    call_try_response c p =
      Ok (set_reader c (Some RNoBody),
          Some (len p, {| rs_version := 0; rs_status := 302;
                          rs_headers := [ (s2b "location", [s2b "/x"]); (s2b "connection", [s2b "close"]) ] |})).
Proof. exact known_refuted. Qed.

(** The class is exact: on EVERY member the truncated head goes on to the body-framing step as if
    it were complete -- [len p] bytes consumed, the fields after the cut lost, a synthetic
    "connection: close" added ([truncated_response]) -- so the answer is never "need more data". *)
Theorem c05_known_class : forall c h p x,
  wf_resp_head h -> (List.length (rh_fields h) <= 128)%nat ->
  render_response_head h = p ++ x -> x <> [] -> KnownClass h p ->
  call_try_response c p = deliver c (len p) (truncated_response h p).
Proof. exact try_response_known. Qed.

Theorem c05_known_class_fails : forall c h p x c',
  wf_resp_head h -> (List.length (rh_fields h) <= 128)%nat ->
  render_response_head h = p ++ x -> x <> [] -> KnownClass h p ->
  call_try_response c p <> Ok (c', None).
Proof. exact try_response_known_fails. Qed.

(** 129 or more fields: an error as soon as the 129th field line is complete, whatever follows ... *)
Theorem c05_limit : forall c h fs1 f fs2 any,
  wf_resp_head h -> rh_fields h = fs1 ++ f :: fs2 -> List.length fs1 = 128%nat ->
  call_try_response c (render_status_line h ++ render_lines fs1 ++ render_field f ++ any) =
    Err HttpParseTooManyHeaders.
Proof. exact try_response_too_many. Qed.

(** ... in particular for the complete head. *)
Theorem c05_limit_complete : forall c h rest,
  wf_resp_head h -> (128 < List.length (rh_fields h))%nat ->
  call_try_response c (render_response_head h ++ rest) = Err HttpParseTooManyHeaders.
Proof. exact try_response_too_many_complete. Qed.

(** ** Non-vacuity.  [demo_head] (proofs/C05_examples.v) is
      HTTP/1.1 200 OK / Set-Cookie: a=1 / X-Empty:<SP><HTAB> / Set-Cookie:<SP><SP>b<0xC8><SP>c<HTAB>
    (68 bytes; a repeated name, an empty value, obs-text, inner and surrounding white space). *)
Example c05_nonvacuous :
  wf_resp_head demo_head /\ rh_status demo_head <> 100 /\
  call_try_response demo_call (render_response_head demo_head ++ s2b "body") =
    Ok (set_reader demo_call (Some RClose),
        Some (68, {| rs_version := 1; rs_status := 200;
                     rs_headers := [ (s2b "set-cookie", [s2b "a=1"; [98; 200; 32; 99]]);
                                     (s2b "x-empty", [[]]) ] |})) /\
  call_try_response demo_call (take 0 (render_response_head demo_head)) = Ok (demo_call, None) /\
  call_try_response demo_call (take 40 (render_response_head demo_head)) = Ok (demo_call, None) /\
  call_try_response demo_call (take 67 (render_response_head demo_head)) = Ok (demo_call, None) /\
  ~ KnownClass demo_head (take 40 (render_response_head demo_head)).
Proof.
  split; [exact demo_head_wf|]. split; [discriminate|].
  vm_compute. repeat split. intros [H _]. discriminate.
Qed.

(** 128 fields are accepted, 129 are not. *)
Example c05_limit_nonvacuous :
  wf_resp_head (many_fields 129) /\
  (exists r, call_try_response demo_call (render_response_head (many_fields 128)) =
             Ok (set_reader demo_call (Some RClose), Some (len (render_response_head (many_fields 128)), r))) /\
  call_try_response demo_call (render_response_head (many_fields 129)) = Err HttpParseTooManyHeaders.
Proof. split; [exact (many_fields_wf 129)|]. split; [eexists|]; vm_compute; reflexivity. Qed.

Print Assumptions c05_hp_stable.
Print Assumptions c05_hp_stable_complete.
Print Assumptions c05_hp_stable_error.
Print Assumptions c05_consumed_le.
Print Assumptions c05_roundtrip.
Print Assumptions c05_prefix_partial.
Print Assumptions c05_complete.
Print Assumptions c05_complete_ok.
Print Assumptions c05_complete_plain.
Print Assumptions c05_prefix.
Print Assumptions c05_known_refuted.
Print Assumptions c05_known_class.
Print Assumptions c05_known_class_fails.
Print Assumptions c05_limit.
Print Assumptions c05_limit_complete.
Print Assumptions c05_nonvacuous.
Print Assumptions c05_limit_nonvacuous.
