(** Property C04 -- Content-Length request body is forwarded verbatim and never exceeds the length.
    Statements only; proofs are in proofs/C04_proofs.v. *)
From Hoot Require Import Base Body Request Call.
From Hoot.proofs Require Import C04_proofs.
Open Scope N_scope.

(** Each write: refused (state untouched, nothing emitted or consumed) when a non-empty input comes
    after the end or the input exceeds the remaining count; otherwise it moves
    min(output space, input, remaining) bytes unchanged and reports that count twice. *)
Theorem c04_write : forall c lft ended input cap,
  sized_body c lft ended ->
  call_write_body c input cap =
    if nonempty input && ended then Err BodyContentAfterFinish
    else if lft <? len input then Err BodyLargerThanContentLength
    else
      let n := N.min (N.min cap (len input)) lft in
      Ok (set_writer c {| w_mode := SSized (lft - n);
                          w_ended := if lft - n =? 0 then true else ended |},
          n, take n input).
Proof. exact write_sized. Qed.

Theorem c04_direct : forall c lft ended amount,
  sized_body c lft ended ->
  call_direct_write c amount =
    if lft <? amount then Err BodyLargerThanContentLength
    else Ok (set_writer c {| w_mode := SSized (lft - amount);
                             w_ended := if lft - amount =? 0 then true else ended |}).
Proof. exact direct_sized. Qed.

(** Every history of writes and direct-write reports, of any length: the running total plus the
    remaining count is N (so the total never exceeds N), the emitted bytes are exactly the consumed
    input bytes in order, and "finished" implies that all N bytes are accounted for. *)
Theorem c04_invariant : forall c total ops,
  sized_body c total false ->
  exists lft ended,
    sized_body (t_call (trun (start c) ops)) lft ended /\
    t_accounted (trun (start c) ops) + lft = total /\
    t_out (trun (start c) ops) = t_in (trun (start c) ops) /\
    (ended = true -> lft = 0).
Proof. intros c total ops H. exact (inv_run total ops (start c) (inv_start c total H)). Qed.

Theorem c04_refuse_overshoot : forall c lft ended input cap,
  sized_body c lft ended -> lft < len input -> exists e, call_write_body c input cap = Err e.
Proof. exact refuse_overshoot. Qed.

Theorem c04_refuse_after_end : forall c lft input cap,
  sized_body c lft true -> 0 < len input -> exists e, call_write_body c input cap = Err e.
Proof. exact refuse_after_end. Qed.

Theorem c04_refuse_direct_overshoot : forall c lft ended a,
  sized_body c lft ended -> lft < a -> exists e, call_direct_write c a = Err e.
Proof. exact refuse_direct_overshoot. Qed.

(** Once N is reached, signalling the end (empty write, any output size; covers N = 0) reports the
    body finished; reaching N by a write reports it at once; the flag never reverts. *)
Theorem c04_finish : forall c ended cap,
  sized_body c 0 ended ->
  exists c', call_write_body c [] cap = Ok (c', 0, []) /\ sized_body c' 0 true.
Proof. exact finish_at_zero. Qed.

Theorem c04_finished_iff_reached : forall c lft ended input cap c' n out,
  sized_body c lft ended -> call_write_body c input cap = Ok (c', n, out) ->
  n = N.min (N.min cap (len input)) lft /\ out = take n input /\
  exists ended', sized_body c' (lft - n) ended' /\ (lft - n = 0 -> ended' = true) /\
                 (ended' = true -> lft - n = 0 \/ ended = true).
Proof. exact finished_when_reached. Qed.

Theorem c04_ended_monotone : forall t o lft,
  sized_body (t_call t) lft true -> exists lft', sized_body (t_call (tstep t o)) lft' true.
Proof. exact ended_monotone. Qed.

(** Non-vacuity: a concrete call satisfies the premise and a concrete history exercises all three
    operations (N = 5: write "hel" into 3 bytes, an empty write, a direct-write report of 2). *)
Definition demo_call : call :=
  {| c_req := am_new placeholder; c_analyzed := true; c_phase := PBody;
     c_writer := new_sized 5; c_reader := None; c_skip := false; c_stop := false |}.

Example c04_nonvacuous :
  sized_body demo_call 5 false /\
  let t := trun (start demo_call) [BW [104; 101; 108; 108; 111] 3; BW [] 0; BD 2] in
  t_accounted t = 5 /\ t_out t = [104; 101; 108] /\ w_ended (c_writer (t_call t)) = true.
Proof. split; [repeat split|]; vm_compute; auto. Qed.

Print Assumptions c04_write.
Print Assumptions c04_direct.
Print Assumptions c04_invariant.
Print Assumptions c04_refuse_overshoot.
Print Assumptions c04_refuse_after_end.
Print Assumptions c04_refuse_direct_overshoot.
Print Assumptions c04_finish.
Print Assumptions c04_finished_iff_reached.
Print Assumptions c04_ended_monotone.
Print Assumptions c04_nonvacuous.
