(** Property C04 -- Content-Length request body is forwarded verbatim and never exceeds the length.
    Statements only; proofs are in proofs/C04_proofs.v. *)
From Hoot Require Import Base Body Request Call.
From Hoot.proofs Require Import C04_proofs.
Open Scope N_scope.

(** Each write: refused (state untouched, nothing emitted or consumed) when a non-empty input comes
    after the end or the input exceeds the remaining count; otherwise it moves
    min(output space, input, remaining) bytes unchanged and reports that count twice. *)
Theorem c04_write : forall c lft ended input cap,
  sized_body c lft ended ->
  call_write_body c input cap =
    if nonempty input && ended then Err BodyContentAfterFinish
    else if lft <? len input then Err BodyLargerThanContentLength
    else
      let n := N.min (N.min cap (len input)) lft in
      Ok (set_writer c {| w_mode := SSized (lft - n);
                          w_ended := if lft - n =? 0 then true else ended |},
          n, take n input).
Proof. exact write_sized. Qed.

Theorem c04_direct : forall c lft ended amount,
  sized_body c lft ended ->
  call_direct_write c amount =
    if lft <? amount then Err BodyLargerThanContentLength
    else Ok (set_writer c {| w_mode := SSized (lft - amount);
                             w_ended := if lft - amount =? 0 then true else ended |}).
Proof. exact direct_sized. Qed.

(** Every history of writes and direct-write reports, of any length: the running total plus the
    remaining count is N (so the total never exceeds N), the emitted bytes are exactly the consumed
    input bytes in order, and "finished" implies that all N bytes are accounted for. *)
Theorem c04_invariant : forall c total ops,
  sized_body c total false ->
  exists lft ended,
    sized_body (t_call (trun (start c) ops)) lft ended /\
    t_accounted (trun (start c) ops) + lft = total /\
    t_out (trun (start c) ops) = t_in (trun (start c) ops) /\
    (ended = true -> lft = 0).
Proof. intros c total ops H. exact (inv_run total ops (start c) (inv_start c total H)). Qed.

Theorem c04_refuse_overshoot : forall c lft ended input cap,
  sized_body c lft ended -> lft < len input -> exists e, call_write_body c input cap = Err e.
Proof. exact refuse_overshoot. Qed.

Theorem c04_refuse_after_end : forall c lft input cap,
  sized_body c lft true -> 0 < len input -> exists e, call_write_body c input cap = Err e.
Proof. exact refuse_after_end. Qed.

Theorem c04_refuse_direct_overshoot : forall c lft ended a,
  sized_body c lft ended -> lft < a -> exists e, call_direct_write c a = Err e.
Proof. exact refuse_direct_overshoot. Qed.

(** Once N is reached, signalling the end (empty write, any output size; covers N = 0) reports the
    body finished; reaching N by a write reports it at once; the flag never reverts. *)
Theorem c04_finish : forall c ended cap,
  sized_body c 0 ended ->
  exists c', call_write_body c [] cap = Ok (c', 0, []) /\ sized_body c' 0 true.
Proof. exact finish_at_zero. Qed.

Theorem c04_finished_iff_reached : forall c lft ended input cap c' n out,
  sized_body c lft ended -> call_write_body c input cap = Ok (c', n, out) ->
  n = N.min (N.min cap (len input)) lft /\ out = take n input /\
  exists ended', sized_body c' (lft - n) ended' /\ (lft - n = 0 -> ended' = true) /\
                 (ended' = true -> lft - n = 0 \/ ended = true).
Proof. exact finished_when_reached. Qed.

Theorem c04_ended_monotone : forall t o lft,
  sized_body (t_call t) lft true -> exists lft', sized_body (t_call (tstep t o)) lft' true.
Proof. exact ended_monotone. Qed.

(** Non-vacuity: a concrete call satisfies the premise and a concrete history exercises all three
    operations (N = 5: write "hel" into 3 bytes, an empty write, a direct-write report of 2). *)
Definition demo_call : call :=
  {| c_req := am_new placeholder; c_analyzed := true; c_phase := PBody;
     c_writer := new_sized 5; c_reader := None; c_skip := false; c_stop := false |}.

Example c04_nonvacuous :
  sized_body demo_call 5 false /\
  let t := trun (start demo_call) [BW [104; 101; 108; 108; 111] 3; BW [] 0; BD 2] in
  t_accounted t = 5 /\ t_out t = [104; 101; 108] /\ w_ended (c_writer (t_call t)) = true.
Proof. split; [repeat split|]; vm_compute; auto. Qed.


(* ================================================================== additions (review 1) *)
From Hoot Require Import Chunk Httparse Parser Url Flow.
From Hoot.proofs Require Import C17_proofs C02_proofs C02_entry C04_more.

(* ------------------------------------------------------------------ "when the request declares Content-Length N" *)

(** Entry condition, from the REQUEST: a flow as Prepare leaves it ([prepared]: built by [Flow::new],
    [header], [send_body_despite_method] or a redirect, see C02 [c02_prepared_reachable]) that analysis
    accepts, whose effective headers carry no chunked Transfer-Encoding and one Content-Length of
    value n.  Once its head is out (any buffers) the flow holds a with-body call that satisfies the
    premise [sized_body _ n false] of the theorems above, it intends to send a body, and advancing
    leads -- directly or through Await100 -- to SendBody with this very flow. *)
Theorem c04_entry : forall f caps n,
  prepared f -> call_invalid (i_call f) = false -> sendable (i_call f) ->
  let a' := c_req (analysed_call (i_call f)) in
  let g := fw_flow (fwrun f caps) in
  send_request_can_proceed g = Ok true ->
  has_chunked_te a' = false ->
  (exists v, cls a' = [v] /\ is_nonempty v = true /\ forallb is_digit v = true /\ dec_value v = n) ->
  c_req (i_call g) = a' /\ i_holder g = HWithBody /\ i_should_send_body g = true /\
  sized_body (i_call g) n false /\
  send_request_proceed g = Ok (Some (if i_await_100 f then TAwait100 else TSendBody, g)) /\
  await_100_proceed g = Ok (TSendBody, g).
Proof. exact c04_entry_lemma. Qed.

(* ------------------------------------------------------------------ the observation points: Flow<SendBody> *)

(** [Flow::<SendBody>::write], [consume_direct_write], [can_proceed] on a flow holding a with-body call
    in the Content-Length body phase: the whole result of each. *)
Theorem c04_flow_write : forall g lft ended input cap,
  i_holder g = HWithBody -> sized_body (i_call g) lft ended ->
  send_body_write g input cap =
    if nonempty input && ended then Err BodyContentAfterFinish
    else if lft <? len input then Err BodyLargerThanContentLength
    else
      let n := N.min (N.min cap (len input)) lft in
      Ok (set_call g (set_writer (i_call g) {| w_mode := SSized (lft - n);
                                               w_ended := if lft - n =? 0 then true else ended |}),
          n, take n input).
Proof. exact flow_write_sized. Qed.

Theorem c04_flow_direct : forall g lft ended amount,
  i_holder g = HWithBody -> sized_body (i_call g) lft ended ->
  send_body_direct g amount =
    if lft <? amount then Err BodyLargerThanContentLength
    else Ok (set_call g (set_writer (i_call g) {| w_mode := SSized (lft - amount);
                                                  w_ended := if lft - amount =? 0 then true else ended |})).
Proof. exact flow_direct_sized. Qed.

Theorem c04_flow_can_proceed : forall g lft ended,
  i_holder g = HWithBody -> sized_body (i_call g) lft ended -> send_body_can_proceed g = Ok ended.
Proof. exact flow_can_proceed_sized. Qed.

(** Histories of Flow operations ([fstep]: [BW] = write, [BD] = consume_direct_write, through
    [send_body_write] / [send_body_direct]; a refused operation leaves the caller with the flow it
    had) are the call histories of [c04_invariant] carried inside the flow. *)
Theorem c04_flow_history : forall g ops,
  i_holder g = HWithBody ->
  let ft := frun (fstart g) ops in
  let t := trun (start (i_call g)) ops in
  ft_flow ft = set_call g (t_call t) /\ ft_accounted ft = t_accounted t /\
  ft_out ft = t_out t /\ ft_in ft = t_in t.
Proof. intros g ops Hh. cbv zeta. rewrite (frun_start g ops Hh). repeat split. Qed.

(** The invariant at the flow level, every history: accounted + remaining = N, emitted = consumed,
    and what [can_proceed] answers; finished only at exactly N; finished once N is reached and the
    end is signalled. *)
Theorem c04_flow_invariant : forall g total ops,
  i_holder g = HWithBody -> sized_body (i_call g) total false ->
  let ft := frun (fstart g) ops in
  exists lft ended,
    i_holder (ft_flow ft) = HWithBody /\
    sized_body (i_call (ft_flow ft)) lft ended /\
    ft_accounted ft + lft = total /\
    ft_out ft = ft_in ft /\
    (ended = true -> lft = 0) /\
    send_body_can_proceed (ft_flow ft) = Ok ended.
Proof. exact flow_invariant. Qed.

Theorem c04_flow_finished_only_at_total : forall g total ops,
  i_holder g = HWithBody -> sized_body (i_call g) total false ->
  let ft := frun (fstart g) ops in
  ft_accounted ft <= total /\
  (send_body_can_proceed (ft_flow ft) = Ok true -> ft_accounted ft = total).
Proof. exact flow_finished_only_at_total. Qed.

Theorem c04_flow_finish : forall g total ops cap,
  i_holder g = HWithBody -> sized_body (i_call g) total false ->
  let ft := frun (fstart g) ops in
  ft_accounted ft = total ->
  exists g', send_body_write (ft_flow ft) [] cap = Ok (g', 0, []) /\
             send_body_can_proceed g' = Ok true.
Proof. exact flow_finish. Qed.

(** From the request to the end of the body, in one statement. *)
Theorem c04_from_request : forall f caps n ops,
  prepared f -> call_invalid (i_call f) = false -> sendable (i_call f) ->
  let a' := c_req (analysed_call (i_call f)) in
  let g := fw_flow (fwrun f caps) in
  send_request_can_proceed g = Ok true ->
  has_chunked_te a' = false ->
  (exists v, cls a' = [v] /\ is_nonempty v = true /\ forallb is_digit v = true /\ dec_value v = n) ->
  let ft := frun (fstart g) ops in
  exists lft ended,
    i_holder (ft_flow ft) = HWithBody /\
    sized_body (i_call (ft_flow ft)) lft ended /\
    ft_accounted ft + lft = n /\
    ft_out ft = ft_in ft /\
    (ended = true -> lft = 0) /\
    send_body_can_proceed (ft_flow ft) = Ok ended.
Proof. exact from_request. Qed.

(** Non-vacuity with states REACHED BY RUNNING THE MODEL: POST with "content-length: 5" and
    "expect: 100-continue"; [Flow::new]; the head goes out over buffers of 10 (too small), 30 and
    1000 bytes; proceed leads to Await100, whose proceed leads to SendBody with the same flow; there
    "hello" is offered into 3 bytes, then an empty write, a direct-write report of 2, an overshooting
    write (refused), an empty write; afterwards a non-empty write is refused.  A second request has
    "content-length: 0": nothing to account, the first empty write finishes it. *)
Definition cl_req (v : bytes) : request :=
  {| rq_method := POST; rq_version := V11;
     rq_uri := {| u_scheme := s2b "http"; u_auth := s2b "a.test"; u_pq := s2b "/up" |};
     rq_headers := [(s2b "content-length", v); (s2b "expect", s2b "100-continue")] |}.
Definition cl_flow (v : bytes) : inner :=
  match flow_new (cl_req v) with
  | Ok f => f
  | _ => {| i_call := demo_call; i_holder := HRecvBody; i_reasons := []; i_should_send_body := false;
            i_await_100 := false; i_status := None; i_location := None |}
  end.

Example c04_flow_nonvacuous :
  flow_new (cl_req (s2b "5")) = Ok (cl_flow (s2b "5")) /\
  prepared (cl_flow (s2b "5")) /\ call_invalid (i_call (cl_flow (s2b "5"))) = false /\
  sendable (i_call (cl_flow (s2b "5"))) /\
  (let f := cl_flow (s2b "5") in
   let a' := c_req (analysed_call (i_call f)) in
   let g := fw_flow (fwrun f [10; 30; 1000]) in
   send_request_can_proceed g = Ok true /\
   has_chunked_te a' = false /\ cls a' = [s2b "5"] /\ dec_value (s2b "5") = 5 /\
   send_request_proceed g = Ok (Some (TAwait100, g)) /\ await_100_proceed g = Ok (TSendBody, g) /\
   sized_body (i_call g) 5 false /\ i_holder g = HWithBody /\
   send_body_can_proceed g = Ok false /\
   let ft := frun (fstart g) [BW (s2b "hello") 3; BW [] 0; BD 2; BW (s2b "x") 9; BW [] 9] in
   ft_accounted ft = 5 /\ ft_out ft = s2b "hel" /\ ft_in ft = s2b "hel" /\
   send_body_can_proceed (ft_flow ft) = Ok true /\
   send_body_write (ft_flow ft) (s2b "x") 9 = Err BodyContentAfterFinish /\
   ft_accounted (frun (fstart g) [BW (s2b "hello") 3; BD 1]) = 4 /\
   send_body_can_proceed (ft_flow (frun (fstart g) [BW (s2b "hello") 3; BD 1])) = Ok false /\
   send_body_direct (ft_flow (frun (fstart g) [BW (s2b "hello") 3; BD 1])) 2 = Err BodyLargerThanContentLength) /\
  (let f := cl_flow (s2b "0") in
   let g := fw_flow (fwrun f [1000]) in
   call_invalid (i_call f) = false /\ send_request_can_proceed g = Ok true /\
   sized_body (i_call g) 0 false /\ send_body_can_proceed g = Ok false /\
   send_body_can_proceed (ft_flow (frun (fstart g) [BW [] 0])) = Ok true).
Proof.
  split; [reflexivity|]. split; [vm_compute; auto 10|]. split; [reflexivity|].
  split; [vm_compute; repeat split; auto; discriminate|].
  split; vm_compute; repeat split.
Qed.

Print Assumptions c04_write.
Print Assumptions c04_direct.
Print Assumptions c04_invariant.
Print Assumptions c04_refuse_overshoot.
Print Assumptions c04_refuse_after_end.
Print Assumptions c04_refuse_direct_overshoot.
Print Assumptions c04_finish.
Print Assumptions c04_finished_iff_reached.
Print Assumptions c04_ended_monotone.
Print Assumptions c04_nonvacuous.
Print Assumptions c04_entry.
Print Assumptions c04_flow_write.
Print Assumptions c04_flow_direct.
Print Assumptions c04_flow_can_proceed.
Print Assumptions c04_flow_history.
Print Assumptions c04_flow_invariant.
Print Assumptions c04_flow_finished_only_at_total.
Print Assumptions c04_flow_finish.
Print Assumptions c04_from_request.
Print Assumptions c04_flow_nonvacuous.

(* ================================================================== the code's own arithmetic (translated fragments) *)
(** The expression that sizes one Content-Length body write and the two guards that refuse an over-long write or direct-write
    report are translated from src/body.rs / src/client/call.rs on every run (theories/Gen.v, FRAGMENTS of tools/rs2coq.py);
    proofs/Gen_equiv_frag.v proves them equal to the statement's formulas for all arguments and to what the model computes.
    A cap, an off-by-one or a weakened guard in the Rust source breaks these obligations. *)
From Hoot Require Import Gen.
From Hoot.proofs Require Import Gen_equiv_frag_c04.
Theorem c04_code_write_size : forall avail input_len left,
  gen_sized_write_n avail input_len left = N.min (N.min avail input_len) left.
Proof. exact gen_sized_write_n_spec. Qed.
Theorem c04_code_write_is_model : forall w lft input cap,
  w_mode w = SSized lft ->
  exists w', writer_write w input cap = Ok (w', gen_sized_write_n cap (len input) lft,
                                            take (gen_sized_write_n cap (len input) lft) input)
             /\ w_mode w' = SSized (lft - gen_sized_write_n cap (len input) lft).
Proof. exact writer_write_sized_gen. Qed.
Theorem c04_code_overshoot_guard : forall input_len left, gen_write_overshoot input_len left = (left <? input_len).
Proof. exact gen_write_overshoot_spec. Qed.
Theorem c04_code_after_finish_guard : forall input_empty ended, gen_write_after_finish input_empty ended = negb input_empty && ended.
Proof. exact gen_write_after_finish_spec. Qed.
Theorem c04_code_direct_guard : forall amount left, gen_direct_overshoot amount left = (left <? amount).
Proof. exact gen_direct_overshoot_spec. Qed.
Theorem c04_code_guards_are_model : forall c c1 input cap,
  analyze_request c = Ok c1 -> is_prelude (c_phase c1) = false -> is_body (c_phase c1) = true ->
  call_write_body c input cap =
  if gen_write_after_finish (match input with [] => true | _ => false end) (w_ended (c_writer c1))
  then Err BodyContentAfterFinish
  else if match left_to_send (c_writer c1) with Some l => gen_write_overshoot (len input) l | None => false end
  then Err BodyLargerThanContentLength
  else do r <- writer_write (c_writer c1) input cap;
       let '(w, used, out) := r in Ok (set_writer c1 w, used, out).
Proof. exact call_write_body_guards. Qed.
Theorem c04_code_direct_is_model : forall c amount,
  call_direct_write c amount =
  match left_to_send (c_writer c) with
  | Some l => if gen_direct_overshoot amount l then Err BodyLargerThanContentLength
              else do w <- writer_direct (c_writer c) amount; Ok (set_writer c w)
  | None => Err BodyIsChunked
  end.
Proof. exact call_direct_write_guard. Qed.
Print Assumptions c04_code_write_size.
Print Assumptions c04_code_write_is_model.
Print Assumptions c04_code_overshoot_guard.
Print Assumptions c04_code_after_finish_guard.
Print Assumptions c04_code_direct_guard.
Print Assumptions c04_code_guards_are_model.
Print Assumptions c04_code_direct_is_model.
Theorem c04_code_left_usize : forall left, left < 18446744073709551616 -> gen_sized_left_usize left = left.
Proof. exact gen_sized_left_usize_spec. Qed.
Print Assumptions c04_code_left_usize.

(* ================================================================== the writer's code itself (whole functions translated from the source) *)
(** [theories/Gen2.v] is regenerated on every run by tools/rs2coq2.py from src/body.rs ([BodyWriter::write], [finish],
    [consume_direct_write], [write_chunk] and the queries; the output [Writer] is the pair (bytes available, bytes written), writes
    are all-or-nothing as std::io::Cursor + try_write make them); proofs/Gen2_equiv_body.v proves the translation equivalent to the
    model's [writer_write] / [writer_direct].  c04_code_sized_write is c04_write's core about the code: a Content-Length writer moves
    exactly min(output room, input, remaining) bytes, verbatim, appends them to what was written, counts the remaining length down by
    that and is ended exactly when it reaches zero; the [assert!(success)] of the Rust function cannot fire.  Trusted: the translator. *)
From Hoot Require Import GenLib Gen2.
From Hoot.proofs Require Import Gen2_equiv_rel Gen2_equiv_writer Gen2_transport_write.
Theorem c04_code_write_equiv : forall m e input avail out0,
  sized_fits m avail input ->
  wr_rel avail out0 (gen_bw_write m e input avail out0) (writer_write {| w_mode := m; w_ended := e |} input avail).
Proof. exact gen_bw_write_equiv. Qed.
Theorem c04_code_sized_write : forall lft e input avail out0,
  lft < U64_LIMIT ->
  let n := N.min (N.min avail (len input)) lft in
  gen_bw_write (SSized lft) e input avail out0
  = Ok (SSized (lft - n), (if lft - n =? 0 then true else e), avail - len (take n input), out0 ++ take n input, n).
Proof.
  intros lft e input avail out0 Hl n.
  destruct (gen_write_ok_of_model (SSized lft) e input avail out0
              {| w_mode := SSized (lft - n); w_ended := if lft - n =? 0 then true else e |} n (take n input)) as [H _];
    [left; exact Hl|reflexivity|exact H].
Qed.
Theorem c04_code_direct_equiv : forall m e amount,
  dw_rel (gen_bw_consume_direct_write m e amount) (writer_direct {| w_mode := m; w_ended := e |} amount).
Proof. exact gen_bw_direct_equiv. Qed.
Theorem c04_code_left_to_send : forall m e, gen_bw_left_to_send m e = left_to_send {| w_mode := m; w_ended := e |}.
Proof. exact gen_bw_left_to_send_eq. Qed.
Example c04_code_nonvacuous :
  gen_bw_write (SSized 4) false (s2b "abcdef") 3 (s2b "HEAD") = Ok (SSized 1, false, 0, s2b "HEADabc", 3)
  /\ gen_bw_write (SSized 1) false (s2b "d") 10 [] = Ok (SSized 0, true, 9, s2b "d", 1).
Proof. vm_compute. split; reflexivity. Qed.
Print Assumptions c04_code_write_equiv.
Print Assumptions c04_code_sized_write.
Print Assumptions c04_code_direct_equiv.
Print Assumptions c04_code_left_to_send.
Print Assumptions c04_code_nonvacuous.

(** One level up: [Call<WithBody>::write] in its body phase (the two refusing guards, then the writer) and
    [Call<WithBody>::consume_direct_write] of src/client/call.rs, translated on every run ([gen_call_write_body],
    [gen_call_direct_write]; request analysis and prelude writing are abstracted into a flag and a result parameter,
    [self.state.writer] is flattened into its fields), correspond to the model's [call_write_body] (after analysis) and
    [call_direct_write] (proofs/Gen2_equiv_call2.v): same refusal, same writer afterwards, same counts, same bytes. *)
From Hoot.proofs Require Import Gen2_equiv_call2_write.
Theorem c04_code_call_write : forall c1 input cap,
  is_prelude (c_phase c1) = false ->
  sized_fits (w_mode (c_writer c1)) cap input ->
  cwb_rel cap
    (gen_call_write_body (w_mode (c_writer c1)) (w_ended (c_writer c1)) false (is_body (c_phase c1)) (Ok tt) input cap [])
    (call_write_after_analysis c1 input cap).
Proof. exact gen_call_write_body_equiv. Qed.
Theorem c04_code_call_write_unfold : forall c input cap,
  call_write_body c input cap = do c1 <- analyze_request c; call_write_after_analysis c1 input cap.
Proof. exact call_write_body_unfold. Qed.
Theorem c04_code_call_direct : forall c amount,
  cdw_rel (gen_call_direct_write (w_mode (c_writer c)) (w_ended (c_writer c)) amount) (call_direct_write c amount).
Proof. exact gen_call_direct_write_equiv. Qed.
Print Assumptions c04_code_call_write.
Print Assumptions c04_code_call_write_unfold.
Print Assumptions c04_code_call_direct.
