(** Property C06 -- Response body framing follows the HTTP/1.1 message-body-length rules.
    Statements only; proofs are in proofs/C06_proofs.v, where the rule list [rfc_body_mode] and the
    successor rule [successor] transcribe the property statement. *)
From Coq Require Import Lia.
From Hoot Require Import Base Chunk Body Httparse Parser Url Request Call Flow Script.
From Hoot.proofs Require Import C06_proofs C06_spec C06_values C06_more C05_spec C20_proofs C05_proofs.
Open Scope N_scope.

(** The decision the code makes is the rule list of the statement, for every method class, every
    status, both versions and every Content-Length / Transfer-Encoding value (no bound). *)
Theorem c06_mode : forall is_head_m is_connect_m status v11 cl te,
  for_response (negb v11) is_head_m is_connect_m status cl te =
  rfc_body_mode is_head_m is_connect_m status v11 cl te.
Proof. exact for_response_rfc. Qed.

(** The flow applies that rule to the first (textual) Content-Length / Transfer-Encoding fields of
    the head it returns, with the request's own method. *)
Theorem c06_applied : forall c input c' used rsp,
  call_try_response c input = Ok (c', Some (used, rsp)) -> rs_status rsp <> 100 ->
  exists r,
    c_reader c' = Some r /\
    rfc_body_mode (method_eqb (am_method (c_req c)) HEAD) (method_eqb (am_method (c_req c)) CONNECT)
                  (rs_status rsp) (negb (rs_version rsp =? 0))
                  (lookup_text (rs_headers rsp) (s2b "content-length"))
                  (lookup_text (rs_headers rsp) (s2b "transfer-encoding")) = Ok r.
Proof. exact try_response_mode. Qed.

(** State after the head: the body state exactly when a non-empty body is expected, else redirect
    for 3xx other than 304, else cleanup. *)
Theorem c06_successor : forall f r status,
  i_holder f = HRecvResponse -> c_reader (i_call f) = Some r -> i_status f = Some status ->
  NoDup (i_reasons f) ->
  exists f', recv_response_proceed f = Ok (Some (successor r status, f')) /\
             c_reader (i_call f') = Some r /\ i_holder f' = HRecvBody /\ i_status f' = Some status.
Proof. exact successor_state. Qed.

(** Spot checks of the rule list itself against the statement (a test of the transcription). *)
Example c06_rules_nonvacuous :
  rfc_body_mode true false 200 true (Some (s2b "5")) None = Ok RNoBody /\                 (* HEAD *)
  rfc_body_mode false true 204 true None None = Ok RNoBody /\                             (* CONNECT 2xx *)
  rfc_body_mode false true 404 true (Some (s2b "5")) None = Ok (RLength 5) /\             (* CONNECT non-2xx *)
  rfc_body_mode false false 200 true (Some (s2b "5")) (Some (s2b "gzip, Chunked")) = Ok (RChunked DSize) /\
  rfc_body_mode false false 200 false (Some (s2b "5")) (Some (s2b "chunked")) = Ok (RLength 5) /\  (* 1.0 *)
  rfc_body_mode false false 200 true None (Some (s2b "gzip")) = Ok RClose /\
  rfc_body_mode false false 302 true None None = Ok RNoBody /\
  rfc_body_mode false false 304 true (Some (s2b "5")) None = Ok RNoBody /\
  rfc_body_mode false false 200 true (Some (s2b "+5")) None = Err BadContentLengthHeader /\
  rfc_body_mode false false 200 true (Some (s2b "18446744073709551616")) None = Err BadContentLengthHeader /\
  successor (RLength 0) 302 = TRedirect /\ successor (RLength 0) 200 = TCleanup /\
  successor (RLength 1) 302 = TRecvBody /\ successor RNoBody 304 = TCleanup.
Proof. vm_compute. repeat split. Qed.

(* ====================================================================================== *)
(** * Strengthening after review 2

    ** 1. A specification that does not share its leaves with the model

    proofs/C06_spec.v restates the rule as the relation [framing] over three notions written from the
    English text / the RFC grammars, none of which mentions a model function:
      [cl_numeric v]       : v is 1*DIGIT and [dec_value v] < 2^64;
      [declares_chunked v] : some comma-separated element of v is, after removing SP / HTAB around
                             it, equal to "chunked" ignoring ASCII case;
      [no_body_response], [is_3xx] : the status / method clauses.
    The theorems below connect them to the model's [all_digits], [parse_dec_u64], [te_has_chunked]
    and to [for_response]. *)

Theorem c06_all_digits_spec : forall v, all_digits v = true <-> Forall is_DIGIT v.
Proof. exact all_digits_Forall. Qed.

(** [u64::from_str] on a digit string: non-empty, and the decimal value if it is below 2^64. *)
Theorem c06_content_length_spec : forall v n,
  all_digits v = true ->
  (parse_dec_u64 v = Some n <-> v <> [] /\ dec_value v = n /\ n < TWO_64).
Proof. exact parse_dec_u64_spec. Qed.

(** The model's chunked test is the specification's on every value without LF, VT, FF, CR -- in
    particular on every text value, and only text values reach the rule ([lookup_text]). *)
Theorem c06_declares_chunked_spec : forall v,
  plain v -> (te_has_chunked v = true <-> declares_chunked v).
Proof. exact te_has_chunked_spec. Qed.

Theorem c06_text_plain : forall v, is_text v = true -> plain v.
Proof. exact text_plain. Qed.

(** The rule of the statement is a function of its inputs. *)
Theorem c06_framing_functional : forall hd cn status v11 cl te a b,
  framing hd cn status v11 cl te a -> framing hd cn status v11 cl te b -> a = b.
Proof. exact framing_functional. Qed.

(** The model's decision IS the statement's rule -- every method class, status, version,
    Content-Length and (text) Transfer-Encoding value, without exception (the former exception, the
    class [redirect_te_class], was a finding; it has been repaired in the crate, commit 52d1294). *)
Theorem c06_mode_spec : forall hd cn status v11 cl te out,
  te_plain te ->
  (framing hd cn status v11 cl te out <-> for_response (negb v11) hd cn status cl te = out).
Proof. intros. rewrite for_response_rfc. apply framing_model; assumption. Qed.

(** REGRESSION for the repaired finding (deviation 2 of the review).  [redirect_te_class]: a 3xx (not
    304, not HEAD) without Content-Length whose Transfer-Encoding field is present but does not give
    chunked framing (no "chunked" element, or HTTP/1.0).  Such a response is not "without any framing
    header", so the statement (and RFC 9112 6.3) make it close-delimited.  The code used to answer "no
    body"; on EVERY member of the class it now answers close-delimited. *)
Theorem c06_redirect_te_class : forall hd cn status v11 cl te,
  te_plain te -> redirect_te_class hd cn status v11 cl te ->
  for_response (negb v11) hd cn status cl te = Ok RClose /\
  framing hd cn status v11 cl te (Ok RClose).
Proof. intros. rewrite for_response_rfc. apply redirect_te_class_model; assumption. Qed.

(** ... and at the flow: when the head that was parsed is a member of the class, the reader is
    close-delimited, [proceed] enters the body state (not Redirect) and the connection is marked for
    closing, so no body byte can be mistaken for the next response. *)
Theorem c06_redirect_te_regression_flow : forall f input f' used rsp,
  i_holder f = HRecvResponse -> NoDup (i_reasons f) ->
  recv_try_response f input = Ok (f', used, Some rsp) ->
  redirect_te_class (method_eqb (am_method (c_req (i_call f))) HEAD)
                    (method_eqb (am_method (c_req (i_call f))) CONNECT)
                    (rs_status rsp) (negb (rs_version rsp =? 0))
                    (lookup_text (rs_headers rsp) (s2b "content-length"))
                    (lookup_text (rs_headers rsp) (s2b "transfer-encoding")) ->
  c_reader (i_call f') = Some RClose /\
  exists f'',
    recv_response_proceed f' = Ok (Some (TRecvBody, f'')) /\
    In CloseDelimitedBody (i_reasons f'') /\ must_close f'' = true /\
    c_reader (i_call f'') = Some RClose /\ i_holder f'' = HRecvBody.
Proof. exact redirect_te_regression_flow. Qed.

Ltac nb_tac := unfold no_body_response; let H := fresh in intros H; decompose [or and] H; try congruence; lia.

(** Two members of the class (they were the witnesses of the finding). *)
Example c06_redirect_te_members :
  redirect_te_class false false 302 true None (Some (s2b "gzip")) /\
  redirect_te_class false false 301 false None (Some (s2b "chunked")) /\
  for_response false false false 302 None (Some (s2b "gzip")) = Ok RClose /\
  for_response true false false 301 None (Some (s2b "chunked")) = Ok RClose.
Proof.
  split; [|split; [|vm_compute; split; reflexivity]].
  - split; [nb_tac|]. split; [unfold is_3xx; lia|]. split; [reflexivity|]. split; [discriminate|].
    intros [_ (v & E & H)]. inversion E; subst v. apply declares_chunked_model in H. vm_compute in H. discriminate H.
  - split; [nb_tac|]. split; [unfold is_3xx; lia|]. split; [reflexivity|]. split; [discriminate|].
    intros [H _]. discriminate H.
Qed.

(** Deviation 1 of the review (NOT a violation of the statement, which says "declares a chunked
    transfer coding"; it is a deviation from RFC 9112 6.3, which asks for chunked to be the FINAL
    coding and otherwise prescribes close-delimited): any element equal to "chunked" counts. *)
Example c06_dev_any_element :
  declares_chunked (s2b "chunked, gzip") /\
  for_response false false false 200 None (Some (s2b "chunked, gzip")) = Ok (RChunked DSize) /\
  for_response false false false 200 (Some (s2b "7")) (Some (s2b "chunked, gzip")) = Ok (RChunked DSize).
Proof.
  split; [|vm_compute; split; reflexivity].
  exists (s2b "chunked"). split.
  - split.
    + intros H. vm_compute in H. repeat (destruct H as [H|H]; [discriminate H|]). exact H.
    + exists [], (s2b ", gzip"). split; [reflexivity|]. split; [left; reflexivity|right; eexists; reflexivity].
  - exists [], (s2b "chunked"), []. split; [reflexivity|]. split; [constructor|]. split; [constructor|].
    unfold ci_equal. change (s2b "chunked") with [99; 104; 117; 110; 107; 101; 100].
    repeat (apply Forall2_cons; [left; reflexivity|]). apply Forall2_nil.
Qed.

(** Deviation 3 of the review: "numeric" includes the range check -- 2^64 - 1 is accepted, 2^64 and
    the empty value are errors (the statement's "exactly Content-Length bytes" needs a length the
    library can count; the specification says so explicitly in [cl_numeric]). *)
Example c06_dev_cl_range :
  cl_numeric (s2b "18446744073709551615") /\
  ~ cl_numeric (s2b "18446744073709551616") /\ ~ cl_numeric [] /\ ~ cl_numeric (s2b "+5") /\
  for_response false false false 200 (Some (s2b "18446744073709551615")) None = Ok (RLength 18446744073709551615) /\
  for_response false false false 200 (Some (s2b "18446744073709551616")) None = Err BadContentLengthHeader /\
  for_response false false false 200 (Some []) None = Err BadContentLengthHeader.
Proof.
  split.
  { split; [discriminate|]. split; [apply all_digits_Forall; vm_compute; reflexivity|vm_compute; reflexivity]. }
  split; [intros (_ & _ & H); vm_compute in H; discriminate H|].
  split; [intros (H & _); congruence|].
  split; [intros (_ & H & _); apply all_digits_Forall in H; vm_compute in H; discriminate H|].
  vm_compute. repeat split.
Qed.

(** The relation is inhabited in each of its clauses (through the equivalence). *)
Example c06_spec_nonvacuous :
  framing false false 200 true (Some (s2b "5")) (Some (s2b "gzip , cHunKed")) (Ok (RChunked DSize)) /\
  framing false false 200 false (Some (s2b "5")) (Some (s2b "chunked")) (Ok (RLength 5)) /\
  framing true false 200 true (Some (s2b "5")) None (Ok RNoBody) /\
  framing false false 302 true None None (Ok RNoBody) /\
  framing false false 302 true None (Some (s2b "gzip")) (Ok RClose) /\
  framing false false 200 true None (Some (s2b "gzip")) (Ok RClose) /\
  framing true false 200 true (Some (s2b "5x")) None (Err BadContentLengthHeader).
Proof.
  repeat split;
    (apply framing_model;
     [ first [exact I | apply text_plain; reflexivity]
     | vm_compute; reflexivity ]).
Qed.

(** ** 2. Content-Length errors, the composition after the head, status 100 *)

(** A complete well-formed head (within the header limit, status other than 100) whose first
    Content-Length field is not numeric -- "+5", "5x", empty, 2^64, or a value that is not even text
    such as bytes >= 0x80 -- makes [try_response] fail with BadContentLengthHeader, whatever the
    method and the status. *)
Theorem c06_bad_content_length : forall c h rest v,
  wf_resp_head h -> rh_status h <> 100 -> (List.length (rh_fields h) <= 128)%nat ->
  hm_get (rs_headers (response_of h)) (s2b "content-length") = Some v -> ~ cl_numeric v ->
  call_try_response c (render_response_head h ++ rest) = Err BadContentLengthHeader.
Proof. exact try_response_bad_cl. Qed.

(** ... and at the flow. *)
Theorem c06_bad_content_length_flow : forall f h rest v,
  i_holder f = HRecvResponse ->
  wf_resp_head h -> rh_status h <> 100 -> (List.length (rh_fields h) <= 128)%nat ->
  hm_get (rs_headers (response_of h)) (s2b "content-length") = Some v -> ~ cl_numeric v ->
  recv_try_response f (render_response_head h ++ rest) = Err BadContentLengthHeader.
Proof.
  intros f h rest v Hh Hwf Hs Hn Hg Hb. apply recv_try_response_err; [exact Hh|].
  apply try_response_bad_cl with v; assumption.
Qed.

(** Conversely a numeric Content-Length never prevents the head from being delivered. *)
Theorem c06_good_content_length : forall c h rest v,
  wf_resp_head h -> rh_status h <> 100 -> (List.length (rh_fields h) <= 128)%nat ->
  hm_get (rs_headers (response_of h)) (s2b "content-length") = Some v -> cl_numeric v ->
  exists rd, call_try_response c (render_response_head h ++ rest) =
             Ok (set_reader c (Some rd), Some (len (render_response_head h), response_of h)).
Proof. exact try_response_good_cl. Qed.

(** On ANY input bytes: if a response (status other than 100) is returned, its first Content-Length
    field, when present, is text and numeric -- the check cannot be bypassed through [lookup_text]. *)
Theorem c06_returned_cl_numeric : forall c input c' used rsp v,
  call_try_response c input = Ok (c', Some (used, rsp)) -> rs_status rsp <> 100 ->
  hm_get (rs_headers rsp) (s2b "content-length") = Some v ->
  is_text v = true /\ cl_numeric v.
Proof. exact try_response_cl_numeric. Qed.

(** [c06_applied] in specification form: the reader installed is the one [framing] prescribes for
    the returned head. *)
Theorem c06_applied_spec : forall c input c' used rsp,
  call_try_response c input = Ok (c', Some (used, rsp)) -> rs_status rsp <> 100 ->
  let hd := method_eqb (am_method (c_req c)) HEAD in
  let cn := method_eqb (am_method (c_req c)) CONNECT in
  let v11 := negb (rs_version rsp =? 0) in
  let cl := lookup_text (rs_headers rsp) (s2b "content-length") in
  let te := lookup_text (rs_headers rsp) (s2b "transfer-encoding") in
  te_plain te /\
  exists r, c_reader c' = Some r /\ framing hd cn (rs_status rsp) v11 cl te (Ok r).
Proof. exact try_response_framing. Qed.

(** Flow level, end to end: the status and the reader in [c06_successor] are those of the response
    that was actually parsed.  After [try_response] returned [rsp], [proceed] moves to the state
    [successor r (rs_status rsp)] where [r] is the rule applied to [rsp] and the request's method. *)
Theorem c06_after_head : forall f input f' used rsp,
  i_holder f = HRecvResponse -> NoDup (i_reasons f) ->
  recv_try_response f input = Ok (f', used, Some rsp) -> rs_status rsp <> 100 ->
  exists r f'',
    rfc_body_mode (method_eqb (am_method (c_req (i_call f))) HEAD)
                  (method_eqb (am_method (c_req (i_call f))) CONNECT)
                  (rs_status rsp) (negb (rs_version rsp =? 0))
                  (lookup_text (rs_headers rsp) (s2b "content-length"))
                  (lookup_text (rs_headers rsp) (s2b "transfer-encoding")) = Ok r /\
    c_reader (i_call f') = Some r /\ i_status f' = Some (rs_status rsp) /\
    recv_response_proceed f' = Ok (Some (successor r (rs_status rsp), f'')) /\
    c_reader (i_call f'') = Some r /\ i_holder f'' = HRecvBody /\ i_status f'' = Some (rs_status rsp).
Proof. exact after_head. Qed.

(** Status 100 (the cell excluded from [c06_applied]).  At the call: the interim response is handed
    back, nothing is installed, it carries no header. *)
Theorem c06_status_100 : forall c input c' used rsp,
  call_try_response c input = Ok (c', Some (used, rsp)) -> rs_status rsp = 100 ->
  c' = c /\ rs_headers rsp = [].
Proof. exact try_response_100. Qed.

(** At the flow (only when it is not awaiting 100-continue, otherwise the 100 is swallowed): the
    flow is unchanged but for status / location, has no body mode, and [proceed] stays in
    RecvResponse waiting for the final response. *)
Theorem c06_status_100_flow : forall f input f' used rsp,
  i_holder f = HRecvResponse ->
  recv_try_response f input = Ok (f', used, Some rsp) -> rs_status rsp = 100 ->
  i_await_100 f = false /\ rs_headers rsp = [] /\
  i_call f' = i_call f /\ i_holder f' = HRecvResponse /\
  (c_reader (i_call f) = None -> recv_response_can_proceed f' = Ok false /\ recv_response_proceed f' = Ok None).
Proof. exact status_100_flow. Qed.

(** ** Non-vacuity of the call / flow theorems: states obtained by RUNNING the model *)

Definition ex_uri : uri := {| u_scheme := s2b "http"; u_auth := s2b "a.test"; u_pq := s2b "/x" |}.
Definition ex_get : request := {| rq_method := GET; rq_version := V11; rq_uri := ex_uri; rq_headers := [] |}.

(** GET http://a.test/x: Prepare, SendRequest, head written, RecvResponse. *)
Definition to_recv_response : list op := [ONew ex_get; OProceed; OWriteHead 1000; OProceed].

Definition flow_at (ops : list op) : option (tag * inner) :=
  match s_obj (run_ops s_init ops) with ObFlow t f => Some (t, f) | _ => None end.

Definition head_with_cl (status : N) (v : bytes) : resp_head :=
  {| rh_version := 1; rh_status := status; rh_reason := Some (s2b "OK");
     rh_fields := [ {| f_name := s2b "Content-Length"; f_ows1 := [32]; f_value := v; f_ows2 := [] |} ] |}.

(** The hypotheses of [c06_bad_content_length(_flow)] on a "+5" and on a non-text value (0x35 0xC8),
    and the conclusion observed on the flow produced by the model. *)
Example c06_bad_content_length_nonvacuous :
  wf_resp_head (head_with_cl 200 (s2b "+5")) /\ wf_resp_head (head_with_cl 404 [53; 200]) /\
  hm_get (rs_headers (response_of (head_with_cl 200 (s2b "+5")))) (s2b "content-length") = Some (s2b "+5") /\
  hm_get (rs_headers (response_of (head_with_cl 404 [53; 200]))) (s2b "content-length") = Some [53; 200] /\
  ~ cl_numeric (s2b "+5") /\ ~ cl_numeric [53; 200] /\ is_text [53; 200] = false /\
  exists f, flow_at to_recv_response = Some (TRecvResponse, f) /\ i_holder f = HRecvResponse /\
    recv_try_response f (render_response_head (head_with_cl 200 (s2b "+5")) ++ s2b "abc") = Err BadContentLengthHeader /\
    recv_try_response f (render_response_head (head_with_cl 404 [53; 200]) ++ s2b "abc") = Err BadContentLengthHeader.
Proof.
  assert (Hwf : forall s v, 100 <= s <= 999 -> forallb is_value_token v = true -> no_edge_ws v = true ->
                            wf_resp_head (head_with_cl s v)).
  { intros s v Hs Hv He. unfold wf_resp_head, head_with_cl. cbn [rh_version rh_status rh_reason rh_fields].
    split; [right; reflexivity|]. split; [exact Hs|]. split; [reflexivity|].
    constructor; [|constructor]. unfold wf_field. cbn [f_name f_ows1 f_value f_ows2].
    split; [discriminate|]. repeat (split; [first [assumption | vm_compute; reflexivity]|]).
    first [assumption | vm_compute; reflexivity]. }
  split; [apply Hwf; [lia|reflexivity|reflexivity]|]. split; [apply Hwf; [lia|reflexivity|reflexivity]|].
  split; [vm_compute; reflexivity|]. split; [vm_compute; reflexivity|].
  split; [intros (_ & H & _); apply all_digits_Forall in H; vm_compute in H; discriminate H|].
  split; [intros (_ & H & _); apply all_digits_Forall in H; vm_compute in H; discriminate H|].
  split; [vm_compute; reflexivity|].
  eexists. split; [vm_compute; reflexivity|]. split; [vm_compute; reflexivity|].
  split; vm_compute; reflexivity.
Qed.

Definition resp_302 : bytes :=
  s2b "HTTP/1.1 302 Found" ++ CRLF ++ s2b "location: /y" ++ CRLF ++ s2b "content-length: 0" ++ CRLF ++ CRLF.
Definition resp_200_len3 : bytes :=
  s2b "HTTP/1.1 200 OK" ++ CRLF ++ s2b "Content-Length: 3" ++ CRLF ++ s2b "Transfer-Encoding: gzip" ++ CRLF ++ CRLF.
Definition resp_100 : bytes := s2b "HTTP/1.1 100 Continue" ++ CRLF ++ CRLF.

(** [c06_after_head] / [c06_applied_spec] on the model's own flow: a 302 with an empty body goes to
    Redirect, a 200 with Content-Length 3 (and a non-chunked Transfer-Encoding) to RecvBody with
    [RLength 3]; bytes of the body / a next message follow the head in the input. *)
Example c06_after_head_nonvacuous :
  exists f, flow_at to_recv_response = Some (TRecvResponse, f) /\
    i_holder f = HRecvResponse /\ i_reasons f = [] /\
    (exists f' rsp f'',
       recv_try_response f (resp_302 ++ s2b "HTTP/1.1 200") = Ok (f', len resp_302, Some rsp) /\
       rs_status rsp = 302 /\ c_reader (i_call f') = Some (RLength 0) /\
       recv_response_proceed f' = Ok (Some (TRedirect, f''))) /\
    (exists f' rsp f'',
       recv_try_response f (resp_200_len3 ++ s2b "abcHTTP") = Ok (f', len resp_200_len3, Some rsp) /\
       rs_status rsp = 200 /\ c_reader (i_call f') = Some (RLength 3) /\
       recv_response_proceed f' = Ok (Some (TRecvBody, f'')) /\ i_holder f'' = HRecvBody).
Proof.
  eexists. split; [vm_compute; reflexivity|]. split; [vm_compute; reflexivity|]. split; [vm_compute; reflexivity|].
  split.
  - do 3 eexists. split; [vm_compute; reflexivity|]. split; [vm_compute; reflexivity|].
    split; vm_compute; reflexivity.
  - do 3 eexists. split; [vm_compute; reflexivity|]. split; [vm_compute; reflexivity|].
    split; [vm_compute; reflexivity|]. split; vm_compute; reflexivity.
Qed.

(** [c06_status_100(_flow)] on the model's flow (a GET, which is not awaiting 100-continue). *)
Example c06_status_100_nonvacuous :
  exists f f' rsp, flow_at to_recv_response = Some (TRecvResponse, f) /\ i_holder f = HRecvResponse /\
    recv_try_response f (resp_100 ++ resp_302) = Ok (f', len resp_100, Some rsp) /\ rs_status rsp = 100 /\
    c_reader (i_call f) = None /\ c_reader (i_call f') = None /\
    recv_response_proceed f' = Ok None /\
    recv_try_response f (s2b "HTTP/1.1 100 Continue" ++ CRLF ++ s2b "a: b" ++ CRLF ++ CRLF) = Err HeadersWith100.
Proof.
  do 3 eexists. split; [vm_compute; reflexivity|]. split; [vm_compute; reflexivity|].
  split; [vm_compute; reflexivity|]. repeat split; vm_compute; reflexivity.
Qed.

(** The repaired finding observed on the model's own flow (regression): a 302 with
    "Transfer-Encoding: gzip" (HTTP/1.1, no Content-Length) -- a member of [redirect_te_class], see
    [c06_redirect_te_members] -- now gets a close-delimited reader, the flow enters RecvBody and the
    connection is marked for closing. *)
Example c06_redirect_te_gzip_flow :
  exists f f' rsp f'',
    flow_at to_recv_response = Some (TRecvResponse, f) /\
    recv_try_response f (s2b "HTTP/1.1 302 Found" ++ CRLF ++ s2b "Location: /y" ++ CRLF ++
                         s2b "Transfer-Encoding: gzip" ++ CRLF ++ CRLF ++ s2b "BODYBYTES")
      = Ok (f', 61, Some rsp) /\
    (method_eqb (am_method (c_req (i_call f))) HEAD, method_eqb (am_method (c_req (i_call f))) CONNECT,
     rs_status rsp, negb (rs_version rsp =? 0),
     lookup_text (rs_headers rsp) (s2b "content-length"),
     lookup_text (rs_headers rsp) (s2b "transfer-encoding"))
      = (false, false, 302, true, None, Some (s2b "gzip")) /\
    c_reader (i_call f') = Some RClose /\
    recv_response_proceed f' = Ok (Some (TRecvBody, f'')) /\ must_close f'' = true /\
    close_reason f'' = Some (s2b "response body is close delimited").
Proof.
  do 4 eexists. split; [vm_compute; reflexivity|]. split; [vm_compute; reflexivity|].
  split; [vm_compute; reflexivity|]. split; [vm_compute; reflexivity|].
  split; [vm_compute; reflexivity|]. split; vm_compute; reflexivity.
Qed.

(** The same for "Transfer-Encoding: chunked" on an HTTP/1.0 redirect (chunked is not accepted on
    HTTP/1.0, the header is still a framing header). *)
Example c06_redirect_te_http10_flow :
  exists f f' used rsp f'',
    flow_at to_recv_response = Some (TRecvResponse, f) /\
    recv_try_response f (s2b "HTTP/1.0 301 Moved" ++ CRLF ++ s2b "Location: /y" ++ CRLF ++
                         s2b "Transfer-Encoding: chunked" ++ CRLF ++ CRLF ++ s2b "5" ++ CRLF ++ s2b "hello")
      = Ok (f', used, Some rsp) /\
    (rs_status rsp, negb (rs_version rsp =? 0),
     lookup_text (rs_headers rsp) (s2b "content-length"),
     lookup_text (rs_headers rsp) (s2b "transfer-encoding"))
      = (301, false, None, Some (s2b "chunked")) /\
    c_reader (i_call f') = Some RClose /\
    recv_response_proceed f' = Ok (Some (TRecvBody, f'')) /\ must_close f'' = true.
Proof.
  do 5 eexists. split; [vm_compute; reflexivity|]. split; [vm_compute; reflexivity|].
  split; [vm_compute; reflexivity|]. split; [vm_compute; reflexivity|]. split; vm_compute; reflexivity.
Qed.

(** RESIDUAL, outside the property's quantifier (header values there are text): a redirect whose only
    framing header is a Transfer-Encoding field with a NON-TEXT value (here the single byte 0xC8).
    [header_lookup] / [lookup_text] only see text values, so to the rule the field is absent: the
    response counts as "without any framing header" and gets no body; the flow goes to Redirect and the
    connection is not marked for closing. *)
Example c06_dev_nontext_te_redirect :
  for_response false false false 302 None None = Ok RNoBody /\
  exists f f' used rsp f'',
    flow_at to_recv_response = Some (TRecvResponse, f) /\
    recv_try_response f (s2b "HTTP/1.1 302 Found" ++ CRLF ++ s2b "Location: /y" ++ CRLF ++
                         s2b "Transfer-Encoding: " ++ [200] ++ CRLF ++ CRLF ++ s2b "BODYBYTES")
      = Ok (f', used, Some rsp) /\
    hm_get (rs_headers rsp) (s2b "transfer-encoding") = Some [200] /\ is_text [200] = false /\
    lookup_text (rs_headers rsp) (s2b "transfer-encoding") = None /\
    c_reader (i_call f') = Some RNoBody /\
    recv_response_proceed f' = Ok (Some (TRedirect, f'')) /\ must_close f'' = false.
Proof.
  split; [vm_compute; reflexivity|].
  do 5 eexists. split; [vm_compute; reflexivity|]. split; [vm_compute; reflexivity|].
  split; [vm_compute; reflexivity|]. split; [vm_compute; reflexivity|]. split; [vm_compute; reflexivity|].
  split; [vm_compute; reflexivity|]. split; vm_compute; reflexivity.
Qed.

(** Not addressed by the statement (noted by the review): only the FIRST Content-Length /
    Transfer-Encoding field is consulted.  Two conflicting Content-Length fields are accepted and the
    first one wins (RFC 9112 6.3 item 5 asks for such a message to be refused); a second
    Transfer-Encoding field saying "chunked" is not seen.  Recorded here as observed behaviour of the
    model's own flow. *)
Example c06_dev_first_field_only :
  exists f, flow_at to_recv_response = Some (TRecvResponse, f) /\
    (exists f' used rsp,
       recv_try_response f (s2b "HTTP/1.1 200 OK" ++ CRLF ++ s2b "Content-Length: 3" ++ CRLF ++
                            s2b "Content-Length: 5" ++ CRLF ++ CRLF) = Ok (f', used, Some rsp) /\
       hm_get_all (rs_headers rsp) (s2b "content-length") = [s2b "3"; s2b "5"] /\
       c_reader (i_call f') = Some (RLength 3)) /\
    (exists f' used rsp,
       recv_try_response f (s2b "HTTP/1.1 200 OK" ++ CRLF ++ s2b "Transfer-Encoding: gzip" ++ CRLF ++
                            s2b "Transfer-Encoding: chunked" ++ CRLF ++ CRLF) = Ok (f', used, Some rsp) /\
       hm_get_all (rs_headers rsp) (s2b "transfer-encoding") = [s2b "gzip"; s2b "chunked"] /\
       c_reader (i_call f') = Some RClose).
Proof.
  eexists. split; [vm_compute; reflexivity|]. split.
  - do 3 eexists. split; [vm_compute; reflexivity|]. split; vm_compute; reflexivity.
  - do 3 eexists. split; [vm_compute; reflexivity|]. split; vm_compute; reflexivity.
Qed.


(* ------------------------------------------------------------------ tie to the source by translation *)
(** [BodyReader::for_response] is translated to Gallina from the repository's CURRENT source on every run
    (tools/rs2coq.py -> theories/Gen.v, [gen_for_response]); the decision it makes equals the model's for all methods,
    status codes and header values, so the theorems above are about what the code says now.  (The header parsing it calls,
    [header_defined], is hand-modelled and tied by the correspondence check.) *)
From Hoot Require Import Gen.
From Hoot.proofs Require Import Gen_equiv_framing.
Theorem c06_code_for_response : forall http10 m st cl te,
  for_response http10 (method_eqb m HEAD) (method_eqb m CONNECT) st cl te =
  match header_defined http10 cl te with
  | Ok hd => Ok (gen_for_response http10 m st hd (present cl) (present te))
  | Err e => Err e
  | Panic s => Panic s
  end.
Proof. exact gen_for_response_eq. Qed.

Print Assumptions c06_mode.
Print Assumptions c06_applied.
Print Assumptions c06_successor.
Print Assumptions c06_rules_nonvacuous.
Print Assumptions c06_all_digits_spec.
Print Assumptions c06_content_length_spec.
Print Assumptions c06_declares_chunked_spec.
Print Assumptions c06_text_plain.
Print Assumptions c06_framing_functional.
Print Assumptions c06_mode_spec.
Print Assumptions c06_redirect_te_class.
Print Assumptions c06_redirect_te_regression_flow.
Print Assumptions c06_redirect_te_members.
Print Assumptions c06_dev_any_element.
Print Assumptions c06_dev_cl_range.
Print Assumptions c06_spec_nonvacuous.
Print Assumptions c06_bad_content_length.
Print Assumptions c06_bad_content_length_flow.
Print Assumptions c06_good_content_length.
Print Assumptions c06_returned_cl_numeric.
Print Assumptions c06_applied_spec.
Print Assumptions c06_after_head.
Print Assumptions c06_status_100.
Print Assumptions c06_status_100_flow.
Print Assumptions c06_bad_content_length_nonvacuous.
Print Assumptions c06_after_head_nonvacuous.
Print Assumptions c06_status_100_nonvacuous.
Print Assumptions c06_dev_first_field_only.
Print Assumptions c06_redirect_te_gzip_flow.
Print Assumptions c06_redirect_te_http10_flow.
Print Assumptions c06_dev_nontext_te_redirect.
Print Assumptions c06_code_for_response.

(* ================================================================== the framing decision's code itself (whole functions translated from the source) *)
(** [theories/Gen2.v] is regenerated on every run by tools/rs2coq2.py from src/body.rs ([BodyReader::for_response] and
    [header_defined], complete: the digit test and the checked parse of Content-Length, the split of Transfer-Encoding at commas,
    the trim, the case-insensitive comparison of src/util.rs with its loop, the HTTP/1.0 clause, the precedence of chunked over a
    length, and the status / method table) with the header lookup as a function parameter.  proofs/Gen2_equiv_framing.v proves the
    translation EQUAL to the model's [for_response] / [header_defined], which c06_mode_spec above proves equal to the statement's
    rule: the framing theorems of this file are therefore statements about the code as it is in the repository now
    (trusted: the translator).  A change of any clause of the rule changes Gen2.v and this equality no longer holds. *)
From Hoot Require Import GenLib Gen2.
From Hoot.proofs Require Import Gen2_equiv_cmp Gen2_equiv_framing.
Theorem c06_code_compare_lowercase : forall a l, gen_compare_lowercase_ascii a l = cmp_lower a l.
Proof. exact gen_compare_lowercase_ascii_eq. Qed.
Theorem c06_code_header_defined : forall http10 lk,
  gen_br_header_defined http10 lk = header_defined http10 (lk (s2b "content-length")) (lk (s2b "transfer-encoding")).
Proof. exact gen_br_header_defined_eq. Qed.
Theorem c06_code_for_response_whole : forall http10 m status lk,
  gen_br_for_response http10 m status lk
  = for_response http10 (method_eqb m HEAD) (method_eqb m CONNECT) status (lk (s2b "content-length")) (lk (s2b "transfer-encoding")).
Proof. exact gen_br_for_response_eq. Qed.
Example c06_code_nonvacuous :
  gen_br_for_response false GET 200 (fun n => if beq_bytes n (s2b "transfer-encoding") then Some (s2b "gzip, Chunked") else
                                              if beq_bytes n (s2b "content-length") then Some (s2b "5") else None) = Ok (RChunked DSize)
  /\ gen_br_for_response true GET 200 (fun n => if beq_bytes n (s2b "transfer-encoding") then Some (s2b "chunked") else None) = Ok RClose
  /\ gen_br_for_response false GET 200 (fun n => if beq_bytes n (s2b "content-length") then Some (s2b "+5") else None) = Err BadContentLengthHeader.
Proof. vm_compute. repeat split; reflexivity. Qed.
Print Assumptions c06_code_compare_lowercase.
Print Assumptions c06_code_header_defined.
Print Assumptions c06_code_for_response_whole.
Print Assumptions c06_code_nonvacuous.

(* ================================================================== Call<RecvResponse>::try_response itself (translated from the source) *)
(** The function that turns server bytes into a response and a framing decision -- complete head, or the partial-redirect
    work-around with its synthetic Connection: close; the 100 special case; the Content-Length text test; [for_response] recorded in
    the reader -- is translated on every run by tools/rs2coq2.py (theories/Gen2.v, [gen_call_try_response]; the two parsers' results
    are values of the model's types, what is asked of a response are the model's readings of the http accessors) and proved EQUAL to
    the model's [call_try_response] (proofs/Gen2_equiv_call.v).  Trusted: the translator; the parsers themselves (httparse) stay modelled. *)
From Hoot Require Import GenLib Gen2.
From Hoot.proofs Require Import Gen2_equiv_call.
Theorem c06_code_call_try_response : forall c input,
  gen_call_try_response (c_reader c) (am_method (c_req c)) input
    (try_parse_response (N.to_nat MAX_RESPONSE_HEADERS) input)
    (try_parse_partial_response (N.to_nat MAX_RESPONSE_HEADERS) input)
  = lift_try (call_try_response c input).
Proof. exact gen_call_try_response_eq. Qed.
Print Assumptions c06_code_call_try_response.

(* ================================================================== the body mode reported to the caller (translated from the source) *)
(** [Call::body_mode] (the reader's mode; Chunked before a response was seen) is translated on every run and proved equal to the
    model's [call_body_mode] (proofs/Gen2_equiv_small_mode.v). *)
From Hoot.proofs Require Import Gen2_equiv_small_mode.
Theorem c06_code_call_body_mode : forall c, gen_call_body_mode (c_reader c) = call_body_mode c.
Proof. exact gen_call_body_mode_eq. Qed.
Print Assumptions c06_code_call_body_mode.
