(** Property C06 -- Response body framing follows the HTTP/1.1 message-body-length rules.
    Statements only; proofs are in proofs/C06_proofs.v, where the rule list [rfc_body_mode] and the
    successor rule [successor] transcribe the property statement. *)
From Hoot Require Import Base Chunk Body Parser Request Call Flow.
From Hoot.proofs Require Import C06_proofs.
Open Scope N_scope.

(** The decision the code makes is the rule list of the statement, for every method class, every
    status, both versions and every Content-Length / Transfer-Encoding value (no bound). *)
Theorem c06_mode : forall is_head_m is_connect_m status v11 cl te,
  for_response (negb v11) is_head_m is_connect_m status cl te =
  rfc_body_mode is_head_m is_connect_m status v11 cl te.
Proof. exact for_response_rfc. Qed.

(** The flow applies that rule to the first (textual) Content-Length / Transfer-Encoding fields of
    the head it returns, with the request's own method. *)
Theorem c06_applied : forall c input c' used rsp,
  call_try_response c input = Ok (c', Some (used, rsp)) -> rs_status rsp <> 100 ->
  exists r,
    c_reader c' = Some r /\
    rfc_body_mode (method_eqb (am_method (c_req c)) HEAD) (method_eqb (am_method (c_req c)) CONNECT)
                  (rs_status rsp) (negb (rs_version rsp =? 0))
                  (lookup_text (rs_headers rsp) (s2b "content-length"))
                  (lookup_text (rs_headers rsp) (s2b "transfer-encoding")) = Ok r.
Proof. exact try_response_mode. Qed.

(** State after the head: the body state exactly when a non-empty body is expected, else redirect
    for 3xx other than 304, else cleanup. *)
Theorem c06_successor : forall f r status,
  i_holder f = HRecvResponse -> c_reader (i_call f) = Some r -> i_status f = Some status ->
  NoDup (i_reasons f) ->
  exists f', recv_response_proceed f = Ok (Some (successor r status, f')) /\
             c_reader (i_call f') = Some r /\ i_holder f' = HRecvBody /\ i_status f' = Some status.
Proof. exact successor_state. Qed.

(** Spot checks of the rule list itself against the statement (a test of the transcription). *)
Example c06_rules_nonvacuous :
  rfc_body_mode true false 200 true (Some (s2b "5")) None = Ok RNoBody /\                 (* HEAD *)
  rfc_body_mode false true 204 true None None = Ok RNoBody /\                             (* CONNECT 2xx *)
  rfc_body_mode false true 404 true (Some (s2b "5")) None = Ok (RLength 5) /\             (* CONNECT non-2xx *)
  rfc_body_mode false false 200 true (Some (s2b "5")) (Some (s2b "gzip, Chunked")) = Ok (RChunked DSize) /\
  rfc_body_mode false false 200 false (Some (s2b "5")) (Some (s2b "chunked")) = Ok (RLength 5) /\  (* 1.0 *)
  rfc_body_mode false false 200 true None (Some (s2b "gzip")) = Ok RClose /\
  rfc_body_mode false false 302 true None None = Ok RNoBody /\
  rfc_body_mode false false 304 true (Some (s2b "5")) None = Ok RNoBody /\
  rfc_body_mode false false 200 true (Some (s2b "+5")) None = Err BadContentLengthHeader /\
  rfc_body_mode false false 200 true (Some (s2b "18446744073709551616")) None = Err BadContentLengthHeader /\
  successor (RLength 0) 302 = TRedirect /\ successor (RLength 0) 200 = TCleanup /\
  successor (RLength 1) 302 = TRecvBody /\ successor RNoBody 304 = TCleanup.
Proof. vm_compute. repeat split. Qed.

Print Assumptions c06_mode.
Print Assumptions c06_applied.
Print Assumptions c06_successor.
Print Assumptions c06_rules_nonvacuous.
