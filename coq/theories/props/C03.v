(** Property C03 -- Chunked request body is a valid chunked encoding of exactly the consumed input.

    "When the request body is sent with chunked transfer encoding, the bytes emitted over any sequence
    of body writes always form a sequence of complete, non-empty chunks whose concatenated data
    equals, byte for byte, the concatenation of the input bytes reported as consumed. The terminating
    zero-length chunk is emitted exactly once, only in response to an empty-input write, and the body
    is reported finished if and only if that terminator has been completely emitted. After that, a
    non-empty write is refused and any further write emits nothing."

    Statements only; proofs are in proofs/C03_proofs.v (on proofs/C18_hex.v, C18_proofs.v,
    C19_proofs.v). The specification of the coding is independent of the writer's loop:
      [enc_chunk d  := hex_of (len d) ++ CRLF ++ d ++ CRLF]   (one chunk, used for d <> [])
      [chunks_ok cs := every d in cs is non-empty and at most DEFAULT_CHUNK_SIZE bytes long]
      [enc_chunks cs := concat (map enc_chunk cs)]
      [TERM := "0\r\n\r\n"]
    Histories are lists of operations [W input cap] applied through [call_write_body] to a call in
    its chunked body phase ([chunked_body c ended]: analysed, phase Body, writer chunked with the
    given finished flag); a refused ([Err]) write changes nothing. The ghost fields of a trace are
    [t_out] (all bytes emitted), [t_in] (the consumed input prefixes, concatenated) and [t_fin]
    (number of empty-input writes that emitted something). *)
From Hoot Require Import Base Chunk Body Request Call.
From Hoot.proofs Require Import C07_spec C07_proofs.
From Hoot.proofs Require Import C18_hex C18_proofs C19_proofs C03_proofs C03_roundtrip.
Open Scope N_scope.

(** One call, completely characterised. *)
Theorem c03_call : forall c ended input cap,
  chunked_body c ended ->
  call_write_body c input cap =
    match input with
    | [] =>
        if negb ended && (len TERM <=? cap)
        then Ok (set_writer c ended_writer, 0, TERM)
        else Ok (c, 0, [])
    | _ :: _ =>
        if ended then Err BodyContentAfterFinish
        else let r := chunk_loop (S (List.length input)) input cap 0 [] in Ok (c, fst r, snd r)
    end.
Proof. exact call_chunked_eq. Qed.

(** A non-empty write before the end: the call (hence the finished flag) is unchanged, and the output
    consists of whole, non-empty chunks whose data is exactly the consumed prefix of the input; it
    fits the capacity; the consumed count is the arithmetic function of C18/C19. *)
Theorem c03_call_shape : forall c input cap,
  chunked_body c false -> input <> [] ->
  exists used out cs,
    call_write_body c input cap = Ok (c, used, out) /\
    used = consumed_n (len input) cap /\ used <= len input /\
    chunks_ok cs /\ concat cs = take used input /\ out = enc_chunks cs /\ len out <= cap.
Proof. exact call_shape. Qed.

(** The finishing (empty-input) write emits the terminator, whole, iff the body is not yet finished
    and five bytes are free; otherwise nothing is emitted and nothing changes. *)
Theorem c03_finish : forall c ended cap,
  chunked_body c ended ->
  call_write_body c [] cap =
    if negb ended && (5 <=? cap) then Ok (set_writer c ended_writer, 0, TERM) else Ok (c, 0, []).
Proof. exact call_finish. Qed.

Theorem c03_finish_state : forall c ended,
  chunked_body c ended -> chunked_body (set_writer c ended_writer) true.
Proof. exact chunked_body_ended. Qed.

(** After the end a non-empty write is refused (an error returns no new state: nothing changes). *)
Theorem c03_refused : forall c input cap,
  chunked_body c true -> input <> [] -> call_write_body c input cap = Err BodyContentAfterFinish.
Proof. exact call_refused. Qed.

(** The invariant over every history of any length. [ended] is the flag reported by [can_proceed]. *)
Theorem c03_shape : forall c ops,
  chunked_body c false ->
  let t := trun (start c) ops in
  let ended := w_ended (c_writer (t_call t)) in
  exists cs,
    chunked_body (t_call t) ended /\
    chunks_ok cs /\ concat cs = t_in t /\
    t_out t = enc_chunks cs ++ (if ended then TERM else []) /\
    t_fin t = (if ended then 1 else 0).
Proof. exact shape. Qed.

(** The terminator is emitted at most once, and the body is reported finished iff it has been. *)
Theorem c03_finished_iff : forall c ops,
  chunked_body c false ->
  let t := trun (start c) ops in
  t_fin t <= 1 /\ (w_ended (c_writer (t_call t)) = true <-> t_fin t = 1).
Proof. exact fin_iff. Qed.

(** What one step of a history emits, by the kind of input: after the end nothing; for a non-empty
    input whole non-empty chunks only (never the terminator; the flag does not change); for an empty
    input either the whole terminator (flag false -> true, needs 5 bytes) or nothing (no change). *)
Theorem c03_term_once : forall t input cap ended,
  chunked_body (t_call t) ended ->
  let t' := tstep t (W input cap) in
  exists out ended',
    t_out t' = t_out t ++ out /\ chunked_body (t_call t') ended' /\
    (ended = true -> out = [] /\ ended' = true /\ t_call t' = t_call t) /\
    (input <> [] -> ended' = ended /\ t_call t' = t_call t /\
                    exists cs, chunks_ok cs /\ out = enc_chunks cs) /\
    (input = [] -> (out = TERM /\ ended = false /\ ended' = true /\ 5 <= cap) \/
                   (out = [] /\ ended' = ended /\ t_call t' = t_call t /\ (ended = true \/ cap < 5))).
Proof. exact step_output. Qed.

(** Once finished, no later history changes the call, the emitted bytes or the ghost counters. *)
Theorem c03_after : forall ops t,
  chunked_body (t_call t) true ->
  t_call (trun t ops) = t_call t /\ t_out (trun t ops) = t_out t /\ t_in (trun t ops) = t_in t /\
  t_fin (trun t ops) = t_fin t.
Proof. exact after_end_run. Qed.

Theorem c03_after_empty : forall c cap,
  chunked_body c true -> call_write_body c [] cap = Ok (c, 0, []).
Proof. exact call_after_end. Qed.

(** The caller loop of C19 (offer the rest until empty, any fixed capacity >= 6) emits a complete
    coding of its whole input. *)
Theorem c03_loop_complete : forall c input cap out,
  chunked_body c false -> 6 <= cap ->
  exists cs, chunks_ok cs /\ concat cs = input /\
             send_all (List.length input) c input cap out = Some (c, out ++ enc_chunks cs).
Proof. exact send_all_complete. Qed.

(** The size line ties in with the decoder: it consists of hexadecimal digits only (no CR, LF, ';',
    blank or sign) and the decoder's size parser reads it back. *)
Theorem c03_size_line_digits : forall n,
  Forall (fun b => (48 <= b <= 57) \/ (97 <= b <= 102)) (hex_of n).
Proof. exact hex_of_digits. Qed.

Theorem c03_hex_roundtrip : forall n, n < U64_LIMIT -> parse_hex_usize (hex_of n) = Some n.
Proof. exact hex_roundtrip. Qed.

(** ** Round trip through the model decoder of C07

    [crun stream cstart sched] (proofs/C07_spec.v) runs the response-body dechunker over a stream with
    an arbitrary read schedule: each read (k, cap, stop) sees the first k not yet consumed bytes,
    offers cap bytes of room and chooses the stop-at-chunk-boundary flag; a failing read fails the
    run. [C07_spec.t_out d] is what the decoder delivered, [t_consumed d] what it consumed. *)

(** Finished body: the emitted bytes, followed by arbitrary bytes, decode on EVERY schedule without
    error; the decoder never reads past them, delivers a prefix of the consumed input, reports the
    end exactly when it has consumed them all and has then delivered exactly the consumed input. *)
Theorem c03_roundtrip : forall c ops rest sched,
  chunked_body c false ->
  let t := trun (start c) ops in
  w_ended (c_writer (t_call t)) = true ->
  exists d, crun (t_out t ++ rest) cstart sched = Ok d /\
    t_consumed d <= len (t_out t) /\
    (exists P', t_in t = C07_spec.t_out d ++ P') /\
    (dech_is_ended (t_st d) = true <-> t_consumed d = len (t_out t)) /\
    (dech_is_ended (t_st d) = true -> C07_spec.t_out d = t_in t).
Proof. exact roundtrip_finished. Qed.

(** ... and enough reads that see all of it and offer room for a byte do reach the end. *)
Theorem c03_roundtrip_reaches_end : forall c ops rest sched,
  chunked_body c false ->
  let t := trun (start c) ops in
  w_ended (c_writer (t_call t)) = true ->
  Forall (visible (len (t_out t))) sched -> len (t_out t) <= len sched ->
  exists d, crun (t_out t ++ rest) cstart sched = Ok d /\
    dech_is_ended (t_st d) = true /\ t_consumed d = len (t_out t) /\ C07_spec.t_out d = t_in t.
Proof. exact roundtrip_reaches_end. Qed.

(** Unfinished body: the bytes emitted so far decode on every schedule without error to a prefix of
    the consumed input, and the decoder never reports the end: finished on the sending side iff the
    receiving side can see the end. *)
Theorem c03_roundtrip_unfinished : forall c ops sched,
  chunked_body c false ->
  let t := trun (start c) ops in
  w_ended (c_writer (t_call t)) = false ->
  exists d, crun (t_out t) cstart sched = Ok d /\
    t_consumed d <= len (t_out t) /\
    (exists P', t_in t = C07_spec.t_out d ++ P') /\
    dech_is_ended (t_st d) = false.
Proof. exact roundtrip_unfinished. Qed.

(** Non-vacuity. A concrete call satisfies the premise. History: 10245 bytes offered with 10258 bytes
    of room (two chunks: 10240 and 5 bytes, filling the room exactly), 3 bytes offered with 7 bytes of
    room (2 consumed), a finishing write into 4 bytes (refused silently), one into 5 bytes (the
    terminator), a repeated one (nothing) and a late non-empty write (error, nothing changes).
    A second, small history is decoded again by the model decoder on a four-read schedule. *)
Definition demo_call : call :=
  {| c_req := am_new placeholder; c_analyzed := true; c_phase := PBody;
     c_writer := new_chunked; c_reader := None; c_skip := false; c_stop := false |}.

Definition demo_ops : list wop :=
  [W (repeat 97 (N.to_nat 10245)) 10258; W [1; 2; 3] 7; W [] 4].

Example c03_nonvacuous :
  chunked_body demo_call false /\
  (let t := trun (start demo_call) demo_ops in
   t_out t = enc_chunk (repeat 97 (N.to_nat 10240)) ++ enc_chunk (repeat 97 5) ++ enc_chunk [1; 2]
   /\ t_in t = repeat 97 (N.to_nat 10245) ++ [1; 2]
   /\ t_fin t = 0 /\ w_ended (c_writer (t_call t)) = false) /\
  (let t := trun (start demo_call) (demo_ops ++ [W [] 5; W [] 100; W [9] 100]) in
   t_out t = enc_chunk (repeat 97 (N.to_nat 10240)) ++ enc_chunk (repeat 97 5) ++ enc_chunk [1; 2]
             ++ TERM
   /\ t_in t = repeat 97 (N.to_nat 10245) ++ [1; 2]
   /\ t_fin t = 1 /\ w_ended (c_writer (t_call t)) = true) /\
  enc_chunk [1; 2] = [50; 13; 10; 1; 2; 13; 10] /\
  call_write_body (t_call (trun (start demo_call) (demo_ops ++ [W [] 5]))) [9] 100
    = Err BodyContentAfterFinish /\
  parse_hex_usize (hex_of 10240) = Some 10240 /\
  (let t := trun (start demo_call) [W [1; 2; 3] 7; W [3; 4] 100; W [] 5] in
   t_out t = [50; 13; 10; 1; 2; 13; 10] ++ [50; 13; 10; 3; 4; 13; 10] ++ TERM /\
   match crun (t_out t ++ [72; 84]) cstart [(4, 1, false); (9, 1, true); (100, 100, true); (100, 100, false)] with
   | Ok d => C07_spec.t_out d = [1; 2; 3; 4] /\ C07_spec.t_out d = t_in t /\
             dech_is_ended (t_st d) = true /\ t_consumed d = len (t_out t)
   | _ => False
   end).
Proof. vm_compute. repeat split. Qed.


(* ------------------------------------------------------------------ tie to the source by translation *)
(** The Rust functions below are translated to Gallina from the repository's CURRENT sources on every run
    (tools/rs2coq.py -> theories/Gen.v); they equal the model's functions for all arguments, so the theorems above
    hold for what the code says now. A change of one of these functions that is not an equivalent rewrite breaks the
    proof obligation here. *)
From Hoot Require Import Gen.
From Hoot.proofs Require Import Gen_equiv_body.
Theorem c03_code_max_chunk_fit : forall a m, gen_max_chunk_fit a m = max_chunk_fit a m.
Proof. exact gen_max_chunk_fit_eq. Qed.


(* ================================================================== additions (review 1) *)
From Hoot Require Import Httparse Parser Url Flow.
From Hoot.proofs Require Import C17_proofs C02_proofs C02_entry C03_more.

(* ------------------------------------------------------------------ valid against the grammar *)

(** The emitted bytes -- completed by the terminator when it is not out yet -- are the encoding [enc k]
    of a coding [k] that is VALID in the sense of the independent grammar of proofs/C07_spec.v
    (size line = 1*HEXDIG of the right value, CR-free, data non-empty, last-chunk of value zero), whose
    payload is exactly the consumed input, without trailers, and with size lines within the decoder's
    limit (so finding F17 does not concern what this writer emits).  Every history. *)
Theorem c03_valid : forall c ops,
  chunked_body c false ->
  let t := trun (start c) ops in
  let ended := w_ended (c_writer (t_call t)) in
  exists k, C07_spec.valid k /\ C07_spec.line_limit_F17 k /\
            C07_spec.payload k = C03_proofs.t_in t /\ C07_spec.cd_trailers k = [] /\
            C07_spec.enc k = C03_proofs.t_out t ++ (if ended then [] else TERM).
Proof. exact valid_run. Qed.

(** The size-line printer against the grammar's own reading of a size line (hex digits, value), not
    only against the model's parser ([c03_hex_roundtrip]). *)
Theorem c03_size_line_grammar : forall n,
  forallb C07_spec.is_hex (hex_of n) = true /\ C07_spec.hex_value (hex_of n) = n.
Proof. exact hex_of_grammar. Qed.

(* ------------------------------------------------------------------ "when the request body is sent chunked" *)

(** Entry condition, from the REQUEST: a flow as Prepare leaves it ([prepared], see C02
    [c02_prepared_reachable]) that analysis accepts and whose effective headers carry a chunked
    Transfer-Encoding -- the caller's, or the one analysis adds by default for a body method or after
    [send_body_despite_method] (C02 [c02_faithful], [c02_framing]).  Once its head is out the flow
    holds a with-body call satisfying the premise [chunked_body _ false] of the theorems above, and
    advancing leads to SendBody with this very flow. *)
Theorem c03_entry : forall f caps,
  prepared f -> call_invalid (i_call f) = false -> sendable (i_call f) ->
  let a' := c_req (analysed_call (i_call f)) in
  let g := fw_flow (fwrun f caps) in
  send_request_can_proceed g = Ok true ->
  has_chunked_te a' = true ->
  c_req (i_call g) = a' /\ i_holder g = HWithBody /\ i_should_send_body g = true /\
  chunked_body (i_call g) false /\
  send_request_proceed g = Ok (Some (if i_await_100 f then TAwait100 else TSendBody, g)) /\
  await_100_proceed g = Ok (TSendBody, g).
Proof. exact c03_entry_lemma. Qed.

(* ------------------------------------------------------------------ the observation points: Flow<SendBody> *)

Theorem c03_flow_write : forall g ended input cap,
  i_holder g = HWithBody -> chunked_body (i_call g) ended ->
  send_body_write g input cap =
    match input with
    | [] =>
        if negb ended && (5 <=? cap)
        then Ok (set_call g (set_writer (i_call g) ended_writer), 0, TERM)
        else Ok (g, 0, [])
    | _ :: _ =>
        if ended then Err BodyContentAfterFinish
        else let r := chunk_loop (S (List.length input)) input cap 0 [] in Ok (g, fst r, snd r)
    end.
Proof. exact flow_write_chunked. Qed.

Theorem c03_flow_can_proceed : forall g ended,
  i_holder g = HWithBody -> chunked_body (i_call g) ended -> send_body_can_proceed g = Ok ended.
Proof. exact flow_can_proceed_chunked. Qed.

Theorem c03_flow_direct_refused : forall g ended amount,
  i_holder g = HWithBody -> chunked_body (i_call g) ended ->
  send_body_direct g amount = Err BodyIsChunked.
Proof. exact flow_direct_chunked. Qed.

(** Histories of [Flow::<SendBody>::write] calls are the call histories of [c03_shape] carried inside
    the flow. *)
Theorem c03_flow_history : forall g ops,
  i_holder g = HWithBody ->
  let ft := frun (fstart g) ops in
  let t := trun (start (i_call g)) ops in
  ft_flow ft = set_call g (t_call t) /\ ft_out ft = C03_proofs.t_out t /\
  ft_in ft = C03_proofs.t_in t /\ ft_fin ft = t_fin t.
Proof. intros g ops Hh. cbv zeta. rewrite (frun_start g ops Hh). repeat split. Qed.

(** The invariant at the flow level, every history; [ended] is what [can_proceed] answers. *)
Theorem c03_flow_shape : forall g ops,
  i_holder g = HWithBody -> chunked_body (i_call g) false ->
  let ft := frun (fstart g) ops in
  exists ended cs,
    i_holder (ft_flow ft) = HWithBody /\
    chunked_body (i_call (ft_flow ft)) ended /\
    send_body_can_proceed (ft_flow ft) = Ok ended /\
    chunks_ok cs /\ concat cs = ft_in ft /\
    ft_out ft = enc_chunks cs ++ (if ended then TERM else []) /\
    ft_fin ft = (if ended then 1 else 0).
Proof. exact flow_shape. Qed.

Theorem c03_flow_valid : forall g ops,
  i_holder g = HWithBody -> chunked_body (i_call g) false ->
  let ft := frun (fstart g) ops in
  exists ended k,
    send_body_can_proceed (ft_flow ft) = Ok ended /\
    C07_spec.valid k /\ C07_spec.line_limit_F17 k /\
    C07_spec.payload k = ft_in ft /\ C07_spec.cd_trailers k = [] /\
    C07_spec.enc k = ft_out ft ++ (if ended then [] else TERM).
Proof. exact flow_valid. Qed.

(** From the request to the end of the body, in one statement. *)
Theorem c03_from_request : forall f caps ops,
  prepared f -> call_invalid (i_call f) = false -> sendable (i_call f) ->
  let a' := c_req (analysed_call (i_call f)) in
  let g := fw_flow (fwrun f caps) in
  send_request_can_proceed g = Ok true ->
  has_chunked_te a' = true ->
  let ft := frun (fstart g) ops in
  exists ended cs k,
    send_body_can_proceed (ft_flow ft) = Ok ended /\
    chunks_ok cs /\ concat cs = ft_in ft /\
    ft_out ft = enc_chunks cs ++ (if ended then TERM else []) /\
    ft_fin ft = (if ended then 1 else 0) /\
    C07_spec.valid k /\ C07_spec.payload k = ft_in ft /\
    C07_spec.enc k = ft_out ft ++ (if ended then [] else TERM).
Proof. exact from_request. Qed.

(** Non-vacuity with states REACHED BY RUNNING THE MODEL.  (1) PUT without framing headers:
    [Flow::new], head over buffers of 5 (too small) and 200 bytes, "transfer-encoding: chunked" was
    added, proceed leads to SendBody with the same flow; there: 3 bytes into 7 (2 consumed), 2 bytes,
    a finishing write into 4 bytes (nothing), one into 5 (the terminator), a second one (nothing), a
    late non-empty write (refused).  (2) GET with [send_body_despite_method] and a caller-supplied
    "Transfer-Encoding: Chunked"-valued field (value compared ignoring case): same entry. *)
Definition put_req : request :=
  {| rq_method := PUT; rq_version := V11;
     rq_uri := {| u_scheme := s2b "http"; u_auth := s2b "a.test"; u_pq := s2b "/up" |};
     rq_headers := [(s2b "accept", s2b "*/*")] |}.
Definition put_flow : inner :=
  match flow_new put_req with
  | Ok f => f
  | _ => {| i_call := demo_call; i_holder := HRecvBody; i_reasons := []; i_should_send_body := false;
            i_await_100 := false; i_status := None; i_location := None |}
  end.
Definition get_te_req : request :=
  {| rq_method := GET; rq_version := V11;
     rq_uri := {| u_scheme := s2b "http"; u_auth := s2b "a.test"; u_pq := s2b "/" |};
     rq_headers := [(s2b "transfer-encoding", s2b "Chunked")] |}.
Definition get_te_flow : inner :=
  match flow_new get_te_req with
  | Ok f => match send_body_despite_method f with Ok f' => f' | _ => f end
  | _ => put_flow
  end.

Example c03_flow_nonvacuous :
  flow_new put_req = Ok put_flow /\
  prepared put_flow /\ call_invalid (i_call put_flow) = false /\ sendable (i_call put_flow) /\
  (let a' := c_req (analysed_call (i_call put_flow)) in
   let g := fw_flow (fwrun put_flow [5; 200]) in
   send_request_can_proceed g = Ok true /\ has_chunked_te a' = true /\
   tes a' = [s2b "chunked"] /\ cls a' = [] /\
   send_request_proceed g = Ok (Some (TSendBody, g)) /\
   chunked_body (i_call g) false /\ i_holder g = HWithBody /\
   let ft := frun (fstart g) [W [1; 2; 3] 7; W [3; 4] 100; W [] 4; W [] 5; W [] 100; W [9] 100] in
   ft_out ft = [50; 13; 10; 1; 2; 13; 10] ++ [50; 13; 10; 3; 4; 13; 10] ++ TERM /\
   ft_in ft = [1; 2; 3; 4] /\ ft_fin ft = 1 /\
   send_body_can_proceed (ft_flow ft) = Ok true /\
   send_body_write (ft_flow ft) [9] 100 = Err BodyContentAfterFinish /\
   send_body_direct g 1 = Err BodyIsChunked /\
   send_body_can_proceed (ft_flow (frun (fstart g) [W [1; 2; 3] 7; W [] 4])) = Ok false) /\
  (exists f0, flow_new get_te_req = Ok f0 /\ send_body_despite_method f0 = Ok get_te_flow) /\
  prepared get_te_flow /\ call_invalid (i_call get_te_flow) = false /\ sendable (i_call get_te_flow) /\
  (let a' := c_req (analysed_call (i_call get_te_flow)) in
   let g := fw_flow (fwrun get_te_flow [200]) in
   send_request_can_proceed g = Ok true /\ has_chunked_te a' = true /\ tes a' = [s2b "Chunked"] /\
   chunked_body (i_call g) false /\ send_request_proceed g = Ok (Some (TSendBody, g))).
Proof.
  split; [reflexivity|]. split; [vm_compute; auto 10|]. split; [reflexivity|].
  split; [vm_compute; repeat split; auto; discriminate|].
  split; [vm_compute; repeat split|].
  split; [eexists; split; vm_compute; reflexivity|].
  split; [vm_compute; auto 10|]. split; [reflexivity|].
  split; [vm_compute; repeat split; auto; discriminate|].
  vm_compute. repeat split.
Qed.

Print Assumptions c03_call.
Print Assumptions c03_call_shape.
Print Assumptions c03_finish.
Print Assumptions c03_finish_state.
Print Assumptions c03_refused.
Print Assumptions c03_shape.
Print Assumptions c03_finished_iff.
Print Assumptions c03_term_once.
Print Assumptions c03_after.
Print Assumptions c03_after_empty.
Print Assumptions c03_loop_complete.
Print Assumptions c03_size_line_digits.
Print Assumptions c03_hex_roundtrip.
Print Assumptions c03_roundtrip.
Print Assumptions c03_roundtrip_reaches_end.
Print Assumptions c03_roundtrip_unfinished.
Print Assumptions c03_nonvacuous.
Print Assumptions c03_code_max_chunk_fit.
Print Assumptions c03_valid.
Print Assumptions c03_size_line_grammar.
Print Assumptions c03_entry.
Print Assumptions c03_flow_write.
Print Assumptions c03_flow_can_proceed.
Print Assumptions c03_flow_direct_refused.
Print Assumptions c03_flow_history.
Print Assumptions c03_flow_shape.
Print Assumptions c03_flow_valid.
Print Assumptions c03_from_request.
Print Assumptions c03_flow_nonvacuous.

(* ================================================================== the code's own arithmetic (translated fragment) *)
(** The expression that sizes one chunk ("the input, the chunk-size limit and the largest chunk that fits the output, whichever is
    smallest") is translated from src/body.rs::write_chunk on every run (theories/Gen.v, FRAGMENTS of tools/rs2coq.py);
    proofs/Gen_equiv_frag.v proves it equal to that minimum for all arguments and to what the model's [write_chunk] computes. *)
From Hoot.proofs Require Import Gen_equiv_frag_c03.
Theorem c03_code_chunk_size : forall input_len max_chunk available,
  gen_chunk_to_write input_len max_chunk available = N.min (N.min input_len max_chunk) available.
Proof. exact gen_chunk_to_write_spec. Qed.
Theorem c03_code_write_chunk_is_model : forall input avail maxc,
  write_chunk input avail maxc =
  let n := gen_chunk_to_write (len input) maxc (max_chunk_fit avail maxc) in
  if n =? 0 then None
  else if len (enc_chunk_n n input) <=? avail then Some (n, enc_chunk_n n input) else None.
Proof. exact write_chunk_gen. Qed.
Print Assumptions c03_code_chunk_size.
Print Assumptions c03_code_write_chunk_is_model.

(* ================================================================== the chunk writer's code itself (whole functions translated from the source) *)
(** [theories/Gen2.v] is regenerated on every run by tools/rs2coq2.py from src/body.rs: [BodyWriter::write] with its
    [while write_chunk(..) {}] loop, [write_chunk] (size line, data, CRLF written all-or-nothing), [finish] (the terminator).
    proofs/Gen2_equiv_body.v proves the translation equivalent to the model's [writer_write]: same new mode / ended flag, same input
    consumed, the model's bytes appended to what was written before, the available room reduced by exactly their length.  So every
    theorem of this file about what [writer_write] emits (c03_call .. c03_valid) is a statement about the code as it is in the
    repository now.  Trusted: the translator (incl. the all-or-nothing reading of Writer::try_write over std::io::Cursor). *)
From Hoot Require Import GenLib Gen2.
From Hoot.proofs Require Import Gen2_equiv_rel Gen2_equiv_writer Gen2_transport_write.
Theorem c03_code_write_equiv : forall e input avail out0,
  wr_rel avail out0 (gen_bw_write SChunked e input avail out0) (writer_write {| w_mode := SChunked; w_ended := e |} input avail).
Proof. intros. apply gen_bw_write_equiv. exact I. Qed.
Theorem c03_code_write_ok : forall e input avail out0 w' used bs,
  writer_write {| w_mode := SChunked; w_ended := e |} input avail = Ok (w', used, bs) ->
  gen_bw_write SChunked e input avail out0 = Ok (w_mode w', w_ended w', avail - len bs, out0 ++ bs, used) /\ len bs <= avail.
Proof. intros. apply gen_write_ok_of_model; [exact I|assumption]. Qed.
Theorem c03_code_finish : forall m e avail out,
  gen_bw_finish m e avail out =
  if w_is_chunked {| w_mode := m; w_ended := e |}
  then (if len TERMINATOR <=? avail then Ok (avail - len TERMINATOR, out ++ TERMINATOR, true) else Ok (avail, out, false))
  else Ok (avail, out, true).
Proof. exact gen_bw_finish_spec. Qed.
Theorem c03_code_write_chunk : forall input iu avail out maxc,
  gen_body_write_chunk input iu avail out maxc =
  match write_chunk input avail maxc with
  | None => Ok (iu, avail, out, false)
  | Some (n, o) => Ok (iu + n, avail - len o, out ++ o, n <? len input)
  end.
Proof. exact gen_body_write_chunk_spec. Qed.
Example c03_code_nonvacuous :
  gen_bw_write SChunked false (s2b "hello") 100 [] = Ok (SChunked, false, 90, s2b "5" ++ CRLF ++ s2b "hello" ++ CRLF, 5)
  /\ gen_bw_write SChunked false [] 4 [] = Ok (SChunked, false, 4, [], 0)
  /\ gen_bw_write SChunked false [] 5 [] = Ok (SChunked, true, 0, TERMINATOR, 0).
Proof. vm_compute. repeat split; reflexivity. Qed.
Print Assumptions c03_code_write_equiv.
Print Assumptions c03_code_write_ok.
Print Assumptions c03_code_finish.
Print Assumptions c03_code_write_chunk.
Print Assumptions c03_code_nonvacuous.
