(** Property C13 -- redirects never leak credentials or stale framing to the next request.
    Statements only; proofs are in proofs/C13_proofs.v (as_new_flow, chains), proofs/C13_script.v
    (histories of Script operations) and proofs/C13_examples.v (the concrete chains); the writer
    and analysis facts come from C02 / C17.
    Additions after review 3 (end of file): proofs/C13_more.v (Authorization ignoring case, stale
    framing, what the analysis appends) and proofs/C13_added.v (nothing the caller added at an
    earlier hop survives, on histories of Script operations). *)
From Coq Require Import List.
From Hoot Require Import Base Chunk Body Httparse Parser Url Request Call Flow Script.
From Hoot.proofs Require Import BytesLemmas C17_proofs C02_proofs C02_analysis
                                C13_proofs C13_script C13_examples.
From Hoot.proofs Require C14_more.
From Hoot.proofs Require Import C13_more C13_added.
Open Scope N_scope.

(* ------------------------------------------------------------------ the specification *)

(** [keep_auth]: the caller chose the same-host policy, the target host equals the host of the
    ORIGINAL request, and the target scheme equals the original scheme or is https. *)
Theorem c13_keep_auth_def : forall p u t,
  keep_auth p u t = true <->
  p = SameHost /\ uri_host u = uri_host t /\ (u_scheme u = u_scheme t \/ u_scheme t = s2b "https").
Proof. exact keep_auth_iff. Qed.

(** The suppression list of a redirected flow, and the inherited headers that survive it. *)
Theorem c13_suppression_def : forall p orig t,
  unset_list p (rq_uri orig) t =
    (if keep_auth p (rq_uri orig) t then [] else [s2b "authorization"]) ++
    [s2b "cookie"; s2b "content-length"] /\
  hop_inherited orig p t =
    filter (fun h => negb (mem_bytes (fst h) (unset_list p (rq_uri orig) t))) (rq_headers orig).
Proof. intros. split; reflexivity. Qed.

(** [flow_op f f']: one operation of Flow.v, in any state, turned the flow [f] into [f'] (a failed
    operation returns no flow, the caller keeps the one it had -- except a failed body read: the
    Rust decoder is mutated in place, so the flow the caller holds afterwards is
    [recv_body_after_err f input cap], Flow.v; that is a [flow_op] as well).
    [chain orig hops f]: [f] is a flow of the redirect chain started by [flow_new orig]; [hops] lists
    the (policy, resolved target) of the redirects followed so far, oldest first, so [f] is a flow
    of hop [length hops]; between two redirects any operations, in any number. *)
Theorem c13_chain_def : forall orig,
  (forall f, flow_new orig = Ok f -> chain orig [] f) /\
  (forall hops f f', chain orig hops f -> flow_op f f' -> chain orig hops f') /\
  (forall hops f p f' nxt loc target,
     chain orig hops f -> as_new_flow f p = Ok (f', Some nxt) ->
     i_location f = Some loc -> resolve (am_eff_uri (req_of f)) loc = Some target ->
     chain orig (hops ++ [(p, target)]) nxt).
Proof. intros. split; [apply ch_new|]. split; [apply ch_op|apply ch_hop]. Qed.

Theorem c13_flow_op_def : forall f,
  (forall k v f', prepare_header f k v = Ok f' -> flow_op f f') /\
  (forall f', send_body_despite_method f = Ok f' -> flow_op f f') /\
  (forall cap f' out, send_request_write f cap = Ok (f', out) -> flow_op f f') /\
  (forall t f', send_request_proceed f = Ok (Some (t, f')) -> flow_op f f') /\
  (forall input, flow_op f (fst (try_read_100 f input))) /\
  (forall t f', await_100_proceed f = Ok (t, f') -> flow_op f f') /\
  (forall input cap f' n out, send_body_write f input cap = Ok (f', n, out) -> flow_op f f') /\
  (forall amount f', send_body_direct f amount = Ok f' -> flow_op f f') /\
  (forall t f', send_body_proceed f = Ok (Some (t, f')) -> flow_op f f') /\
  (forall input f' used got, recv_try_response f input = Ok (f', used, got) -> flow_op f f') /\
  (forall t f', recv_response_proceed f = Ok (Some (t, f')) -> flow_op f f') /\
  (forall input cap f' i o, recv_body_read f input cap = Ok (f', i, o) -> flow_op f f') /\
  (forall input cap e, recv_body_read f input cap = Err e -> flow_op f (recv_body_after_err f input cap)) /\
  (forall b f', recv_body_stop f b = Ok f' -> flow_op f f') /\
  (forall t f', recv_body_proceed f = Ok (Some (t, f')) -> flow_op f f').
Proof.
  intros f. split; [apply fo_header|]. split; [apply fo_despite|]. split; [apply fo_write|].
  split; [apply fo_sr_proceed|]. split; [apply fo_try_100|]. split; [apply fo_await_proceed|].
  split; [apply fo_body_write|]. split; [apply fo_body_direct|]. split; [apply fo_sb_proceed|].
  split; [apply fo_try_response|]. split; [apply fo_rr_proceed|]. split; [apply fo_read|].
  split; [apply fo_read_err|]. split; [apply fo_stop|apply fo_rb_proceed].
Qed.

(* ------------------------------------------------------------------ one redirect *)

(** The flow created for a redirect is rebuilt from the request UNDER the previous flow (only the
    method is new): version, URI and headers are those of that request; nothing the caller added
    at the previous hop is inherited; the URI override is the resolved target; the suppression
    list is computed from (URI of the underlying request, target).  The redirect flow is left
    without a request. *)
Theorem c13_rebuilt_from_original : forall f p f' nxt,
  as_new_flow f p = Ok (f', Some nxt) ->
  exists loc orig target nm,
    i_location f = Some loc /\
    am_req (req_of f) = Some orig /\
    resolve (am_eff_uri (req_of f)) loc = Some target /\
    am_req (req_of nxt) = Some {| rq_method := nm; rq_version := rq_version orig;
                                  rq_uri := rq_uri orig; rq_headers := rq_headers orig |} /\
    am_uri (req_of nxt) = Some target /\
    am_added (req_of nxt) = [] /\
    am_unset (req_of nxt) = unset_list p (rq_uri orig) target /\
    fresh_flow nxt /\
    am_req (req_of f') = None.
Proof. exact c13_rebuilt_lemma. Qed.

(** Every operation of an exchange leaves the underlying request, the URI override and the
    suppression list alone: it can only append to the added headers (the caller's, or Host /
    framing at analysis). *)
Theorem c13_op_preserves : forall f f',
  flow_op f f' ->
  am_req (req_of f') = am_req (req_of f) /\ am_uri (req_of f') = am_uri (req_of f) /\
  am_unset (req_of f') = am_unset (req_of f) /\ am_inherited (req_of f') = am_inherited (req_of f) /\
  exists l, am_added (req_of f') = am_added (req_of f) ++ l.
Proof. exact c13_op_preserves_lemma. Qed.

(** The pushes onto the suppression list never overflow it (at most 3 = UNSET_CAP on a new list);
    the only panics of [as_new_flow] are: no status recorded (not in the Redirect state), a base
    URI without scheme, a second call on the same redirect flow.
    (Since the repair of F19 the second site is gone -- a scheme-less base is reported as
    BadLocationHeader; the statement below is still true, [c13_panic_sites] at the end of the file
    is the exact one.) *)
Theorem c13_unset_no_panic : forall f p,
  as_new_flow f p <> Panic "util.rs: ArrayVec::push (unset)" /\
  forall site, as_new_flow f p = Panic site ->
    (i_status f = None /\ site = "flow.rs: status.unwrap() in as_new_flow"%string) \/
    (u_scheme (am_eff_uri (req_of f)) = [] /\ site = "amended.rs: expect(base uri to be a url)"%string) \/
    (am_req (req_of f) = None /\ site = "amended.rs: body.unwrap() in take_request"%string).
Proof. intros f p. split; [apply as_new_flow_unset_no_panic|apply as_new_flow_panic]. Qed.

(* ------------------------------------------------------------------ chains of any length *)

(** Along a chain of any length, with any operations in between: the request under the flow is
    the ORIGINAL request up to the method; the URI override and the suppression list are those of
    the last hop only (none at hop 0). *)
Theorem c13_chain_invariant : forall orig hops f,
  chain orig hops f ->
  exists m added,
    req_of f = {| am_req := Some {| rq_method := m; rq_version := rq_version orig;
                                    rq_uri := rq_uri orig; rq_headers := rq_headers orig |};
                  am_uri := hop_uri hops; am_added := added; am_unset := hop_unset orig hops |}.
Proof. exact c13_chain_lemma. Qed.

(** At every hop >= 1 (whatever hops came before): the effective headers are what the caller
    added at THIS hop followed by the inherited ones, and no inherited header is named cookie or
    content-length. *)
Theorem c13_cookie_cl : forall orig hops p t f,
  chain orig (hops ++ [(p, t)]) f ->
  am_headers (req_of f) = am_added (req_of f) ++ hop_inherited orig p t /\
  am_inherited (req_of f) = hop_inherited orig p t /\
  forall h, In h (hop_inherited orig p t) ->
            fst h <> s2b "cookie" /\ fst h <> s2b "content-length".
Proof. exact c13_cookie_cl_lemma. Qed.

(** The same ignoring case, under the convention of Request.v that the names of the original
    request are lower case ([http::HeaderName] always is). *)
Theorem c13_cookie_cl_ci : forall orig p t h,
  Forall (fun h => lower (fst h) = fst h) (rq_headers orig) ->
  In h (hop_inherited orig p t) ->
  lower (fst h) <> s2b "cookie" /\ lower (fst h) <> s2b "content-length".
Proof. exact hop_no_cookie_cl_ci. Qed.

(** An inherited Authorization field is effective at a hop iff the original request has it, the
    policy of THIS hop is same-host, and host / scheme of THIS target compare as required with those
    of the ORIGINAL request: the hosts and policies of the hops in between do not occur. *)
Theorem c13_auth_iff : forall orig hops p t f v,
  chain orig (hops ++ [(p, t)]) f ->
  (In (s2b "authorization", v) (am_inherited (req_of f)) <->
   In (s2b "authorization", v) (rq_headers orig) /\ p = SameHost /\
   uri_host (rq_uri orig) = uri_host t /\
   (u_scheme (rq_uri orig) = u_scheme t \/ u_scheme t = s2b "https")).
Proof. exact c13_auth_iff_lemma. Qed.

(** All Authorization values in order, or none. *)
Theorem c13_auth_values : forall orig p t,
  get_all (hop_inherited orig p t) (s2b "authorization") =
    if keep_auth p (rq_uri orig) t then get_all (rq_headers orig) (s2b "authorization") else [].
Proof. exact hop_auth_values. Qed.

Theorem c13_never : forall orig hops t f v,
  chain orig (hops ++ [(Never, t)]) f -> ~ In (s2b "authorization", v) (am_inherited (req_of f)).
Proof. exact c13_never_lemma. Qed.

(** Every other original header is inherited at every hop. *)
Theorem c13_other_headers : forall orig hops p t f h,
  chain orig (hops ++ [(p, t)]) f ->
  fst h <> s2b "authorization" -> fst h <> s2b "cookie" -> fst h <> s2b "content-length" ->
  (In h (am_inherited (req_of f)) <-> In h (rq_headers orig)).
Proof. exact c13_other_lemma. Qed.

(* ------------------------------------------------------------------ on the wire *)

(** The head bytes of a hop >= 1: for a flow of the chain that has not written yet and that
    analysis accepts, and any sequence of output buffers, what is written is a whole-line prefix of
    the rendered head, complete exactly when the flow can advance; and the rendered head is the
    request line, the fields the caller added at this hop, Host / framing from analysis, then one
    field line for each original header that is not suppressed ([hop_inherited]) -- so by the
    theorems above no inherited cookie / content-length line, and inherited authorization lines
    iff [keep_auth]. *)
Theorem c13_wire : forall orig hops p t f caps,
  chain orig (hops ++ [(p, t)]) f ->
  fresh_flow f -> call_invalid (i_call f) = false -> sendable (i_call f) ->
  let a := c_req (analysed_call (i_call f)) in
  let tr := fwrun f caps in
  (exists k, fw_out tr = concat (take k (head_lines a))) /\
  (send_request_can_proceed (fw_flow tr) = Ok true <-> fw_out tr = render_request_head a) /\
  render_request_head a =
    prelude_line (req_of f) ++
    concat (map field_line (am_added (req_of f))) ++
    concat (map field_line (host_added (req_of f) ++ framing_added (req_of f) (c_writer (i_call f)))) ++
    concat (map field_line (hop_inherited orig p t)) ++ CRLF.
Proof. exact c13_wire_lemma. Qed.

(* ------------------------------------------------------------------ histories of Script operations *)

(** For every history of operations of the test language (any operations, any length, any number
    of requests and redirects), the flow the script holds -- unless it is a redirect flow whose
    request was taken by [as_new_flow] -- is a member of the chain of one of the requests the
    history created; hence all the theorems above apply to it. *)
Theorem c13_script : forall ops t f,
  s_obj (run_ops s_init ops) = ObFlow t f -> am_req (req_of f) <> None ->
  exists orig hops, In (ONew orig) ops /\ chain orig hops f.
Proof. exact c13_script_lemma. Qed.

(* ------------------------------------------------------------------ examples / non-vacuity *)

(** Two hops a.test -> b.test -> a.test with the same-host policy, driven through [Script.step]
    with real response bytes: Authorization is dropped at hop 1 and present again at hop 2 (the
    comparison is with the original host); the inherited cookie is dropped at both. *)
Example c13_two_hops :
  heads (run_obs s_init (two_hops ++ [OProceed; OWriteHead 4096])) =
  [ s2b "GET /start HTTP/1.1" ++ CRLF ++ s2b "host: a.test" ++ CRLF ++
    s2b "authorization: secret" ++ CRLF ++ s2b "cookie: c=1" ++ CRLF ++ s2b "accept: */*" ++ CRLF ++ CRLF;
    s2b "GET /one HTTP/1.1" ++ CRLF ++ s2b "host: b.test" ++ CRLF ++ s2b "accept: */*" ++ CRLF ++ CRLF;
    s2b "GET /two HTTP/1.1" ++ CRLF ++ s2b "host: a.test" ++ CRLF ++
    s2b "authorization: secret" ++ CRLF ++ s2b "accept: */*" ++ CRLF ++ CRLF ].
Proof. vm_compute. reflexivity. Qed.

(** Same host, https -> http: dropped; http -> https on the same host: kept; with the never
    policy: dropped. *)
Definition ex13_https : request :=
  {| rq_method := GET; rq_version := V11;
     rq_uri := {| u_scheme := s2b "https"; u_auth := s2b "a.test"; u_pq := s2b "/" |};
     rq_headers := [(s2b "authorization", s2b "secret")] |}.

Example c13_downgrade :
  heads (run_obs s_init ([ONew ex13_https] ++ exchange (s2b "http://a.test/plain") SameHost ++
                         [OProceed; OWriteHead 4096])) =
  [ s2b "GET / HTTP/1.1" ++ CRLF ++ s2b "host: a.test" ++ CRLF ++ s2b "authorization: secret" ++ CRLF ++ CRLF;
    s2b "GET /plain HTTP/1.1" ++ CRLF ++ s2b "host: a.test" ++ CRLF ++ CRLF ] /\
  heads (run_obs s_init ([ONew ex13_orig] ++ exchange (s2b "https://a.test/tls") SameHost ++
                         [OProceed; OWriteHead 4096])) =
  [ s2b "GET /start HTTP/1.1" ++ CRLF ++ s2b "host: a.test" ++ CRLF ++
    s2b "authorization: secret" ++ CRLF ++ s2b "cookie: c=1" ++ CRLF ++ s2b "accept: */*" ++ CRLF ++ CRLF;
    s2b "GET /tls HTTP/1.1" ++ CRLF ++ s2b "host: a.test" ++ CRLF ++
    s2b "authorization: secret" ++ CRLF ++ s2b "accept: */*" ++ CRLF ++ CRLF ] /\
  heads (run_obs s_init ([ONew ex13_https] ++ exchange (s2b "/same") Never ++
                         [OProceed; OWriteHead 4096])) =
  [ s2b "GET / HTTP/1.1" ++ CRLF ++ s2b "host: a.test" ++ CRLF ++ s2b "authorization: secret" ++ CRLF ++ CRLF;
    s2b "GET /same HTTP/1.1" ++ CRLF ++ s2b "host: a.test" ++ CRLF ++ CRLF ].
Proof. vm_compute. repeat split. Qed.

(** The chain hypotheses are satisfiable: the flows of the two-hop script are members of [chain]
    with exactly these hops, they are fresh and accepted by analysis, and the theorems' verdicts
    are the observed ones. *)
Example c13_nonvacuous :
  chain ex13_orig ([] ++ [(SameHost, uri_b)]) (flow_at 10) /\
  chain ex13_orig ([(SameHost, uri_b)] ++ [(SameHost, uri_a)]) (flow_at 19) /\
  fresh_flow (flow_at 10) /\ call_invalid (i_call (flow_at 10)) = false /\ sendable (i_call (flow_at 10)) /\
  fresh_flow (flow_at 19) /\ call_invalid (i_call (flow_at 19)) = false /\ sendable (i_call (flow_at 19)) /\
  keep_auth SameHost (rq_uri ex13_orig) uri_b = false /\
  keep_auth SameHost (rq_uri ex13_orig) uri_a = true /\
  hop_inherited ex13_orig SameHost uri_b = [(s2b "accept", s2b "*/*")] /\
  hop_inherited ex13_orig SameHost uri_a = [(s2b "authorization", s2b "secret"); (s2b "accept", s2b "*/*")].
Proof.
  split; [exact ex13_hop1|]. split; [exact ex13_hop2|].
  vm_compute. repeat split; auto; discriminate.
Qed.

(* ================================================================== additions after review 3 *)

(* ------------------------------------------------------------------ Authorization, ignoring case *)

(** [lower_names orig]: the convention of Request.v -- header names of the request the caller
    handed over are lower case ([http::HeaderName] always is). *)
Theorem c13_lower_names_def : forall r,
  lower_names r <-> Forall (fun h => lower (fst h) = fst h) (rq_headers r).
Proof. reflexivity. Qed.

(** [c13_auth_iff] for a header named "authorization" in ANY letter case: it is effective at a hop
    iff the original request has it, the policy of this hop is same-host, and host / scheme of this
    target compare as required with those of the ORIGINAL request. *)
Theorem c13_auth_iff_ci : forall orig hops p t f h,
  lower_names orig -> chain orig (hops ++ [(p, t)]) f -> lower (fst h) = s2b "authorization" ->
  (In h (am_inherited (req_of f)) <->
   In h (rq_headers orig) /\ p = SameHost /\ uri_host (rq_uri orig) = uri_host t /\
   (u_scheme (rq_uri orig) = u_scheme t \/ u_scheme t = s2b "https")).
Proof. exact auth_iff_ci. Qed.

Theorem c13_never_ci : forall orig hops t f h,
  lower_names orig -> chain orig (hops ++ [(Never, t)]) f -> lower (fst h) = s2b "authorization" ->
  ~ In h (am_inherited (req_of f)).
Proof. exact never_ci. Qed.

(** The hypotheses hold on the two-hop chain of [c13_nonvacuous]; and the convention is needed in
    the model: a record with a capitalised name -- which an [http::Request] cannot hold -- would
    pass the exact-name filter. *)
Example c13_ci_nonvacuous :
  (lower_names ex13_orig /\
   chain ex13_orig ([(SameHost, uri_b)] ++ [(SameHost, uri_a)]) (flow_at 19) /\
   In (s2b "authorization", s2b "secret") (am_inherited (req_of (flow_at 19))) /\
   ~ In (s2b "authorization", s2b "secret") (am_inherited (req_of (flow_at 10)))) /\
  (~ lower_names ex_capital /\
   hop_inherited ex_capital Never {| u_scheme := s2b "http"; u_auth := s2b "b.test"; u_pq := s2b "/" |}
     = [(s2b "Authorization", s2b "secret")]).
Proof. split; [exact ci_nonvacuous|exact ci_convention_needed]. Qed.

(* ------------------------------------------------------------------ nothing survives from earlier hops *)

(** [offered ops]: the (name, value) pairs the history passed to [header()] SINCE THE FLOW IT HOLDS
    WAS CREATED -- by [new], or by [follow] after a successful [as_new_flow]. *)
Theorem c13_offered_def : forall ops o s acc,
  offered ops = snd (run_offered ops) /\
  run_offered [] = (s_init, []) /\
  run_offered (ops ++ [o]) =
    (fst (step (fst (run_offered ops)) o), offer (fst (run_offered ops)) (snd (run_offered ops)) o) /\
  fst (run_offered ops) = run_ops s_init ops /\
  offer s acc o = (if creates s o then []
                   else match o with OHeader k v => acc ++ [(k, v)] | _ => acc end) /\
  creates s o = match o with
                | ONew r => match flow_new r with Ok _ => true | _ => false end
                | OFollow => match s_next s with Some _ => true | None => false end
                | _ => false
                end.
Proof.
  intros. split; [reflexivity|]. split; [reflexivity|]. split; [apply run_offered_snoc|].
  split; [apply run_offered_state|]. split; reflexivity.
Qed.

(** A header the analysis of a request appends: Host for the request's effective URI, or one
    framing header. *)
Theorem c13_analysis_header_def : forall a h,
  analysis_header a h <->
  h = (s2b "host", uri_host (am_eff_uri a)) \/
  h = (s2b "transfer-encoding", s2b "chunked") \/
  exists n, h = (s2b "content-length", dec_of n).
Proof. reflexivity. Qed.

(** For every history of Script operations, every effective header of the flow it holds is
      - one the caller offered with [header()] since THIS flow was created (lower-cased name), or
      - appended by the analysis of THIS flow (Host of the current URI, framing), or
      - a header of the ORIGINAL request of the chain that the suppression list of the last hop
        lets through.
    Nothing else: what the caller added at an earlier hop (cookies, tokens, a Host override, ...)
    is gone unless offered again.  (Assembled from [c13_rebuilt_from_original]: [am_added = []]
    on the new flow, and a refinement of [c13_op_preserves]: operations other than [header()]
    append analysis headers only.) *)
Theorem c13_nothing_survives_from_earlier_hops : forall ops t f,
  s_obj (run_ops s_init ops) = ObFlow t f -> am_req (req_of f) <> None ->
  exists orig hops,
    In (ONew orig) ops /\ chain orig hops f /\
    forall h, In h (am_headers (req_of f)) ->
      (exists k v, In (k, v) (offered ops) /\ h = (lower k, v)) \/
      analysis_header (req_of f) h \/
      (In h (rq_headers orig) /\ mem_bytes (fst h) (hop_unset orig hops) = false).
Proof. exact nothing_survives. Qed.

Theorem c13_hop_unset_def : forall orig hops p t,
  hop_unset orig [] = [] /\ hop_unset orig (hops ++ [(p, t)]) = unset_list p (rq_uri orig) t.
Proof. intros. split; [reflexivity|]. unfold hop_unset. rewrite rev_unit. reflexivity. Qed.

(** The step underneath: an operation of the script other than [new], [header], [as_new_flow],
    [follow] leaves the request as it is or appends analysis headers. *)
Theorem c13_script_step_adds : forall s o t f t' f',
  s_obj s = ObFlow t f -> s_obj (fst (step s o)) = ObFlow t' f' ->
  (forall r, o <> ONew r) -> (forall p, o <> OAsNewFlow p) -> o <> OFollow ->
  (forall k v, o <> OHeader k v) ->
  f' = f \/ exists l, req_of f' = with_added (req_of f) l /\ Forall (analysis_header (req_of f)) l.
Proof.
  intros s o t f t' f' Hs H H1 H2 H3 H4. apply (script_step_faext s o t f t' f' Hs H); [|exact H4].
  destruct o; try reflexivity; exfalso; [eapply H1|eapply H2|apply H3]; reflexivity.
Qed.

(** Headers added at hop 0 ("x-token", "cookie: fresh=1") are absent at hop 1; the cookie added at
    hop 1 is present although the inherited one is suppressed. *)
Example c13_added_not_carried :
  heads (run_obs s_init ops_added) =
  [ s2b "GET /start HTTP/1.1" ++ CRLF ++ s2b "x-token: 1" ++ CRLF ++ s2b "cookie: fresh=1" ++ CRLF ++
    s2b "host: a.test" ++ CRLF ++ s2b "authorization: secret" ++ CRLF ++ s2b "cookie: c=1" ++ CRLF ++
    s2b "accept: */*" ++ CRLF ++ CRLF;
    s2b "GET /one HTTP/1.1" ++ CRLF ++ s2b "cookie: c2" ++ CRLF ++ s2b "host: b.test" ++ CRLF ++
    s2b "accept: */*" ++ CRLF ++ CRLF ] /\
  offered ops_added = [(s2b "Cookie", s2b "c2")] /\
  offered (firstn 3 ops_added) = [(s2b "X-Token", s2b "1"); (s2b "cookie", s2b "fresh=1")] /\
  exists t f, s_obj (run_ops s_init ops_added) = ObFlow t f /\ am_req (req_of f) <> None /\
              am_added (req_of f) = [(s2b "cookie", s2b "c2"); (s2b "host", s2b "b.test")].
Proof. exact added_not_carried. Qed.

Theorem c13_ops_added_def :
  ops_added =
    [ONew ex13_orig; OHeader (s2b "X-Token") (s2b "1"); OHeader (s2b "cookie") (s2b "fresh=1")] ++
    exchange loc_b SameHost ++ [OHeader (s2b "Cookie") (s2b "c2"); OProceed; OWriteHead 4096].
Proof. reflexivity. Qed.

(* ------------------------------------------------------------------ stale framing *)

(** The suppression list holds at most the three names of the statement, nothing else. *)
Theorem c13_suppressed_names : forall p u t k,
  mem_bytes k (unset_list p u t) = true ->
  k = s2b "authorization" \/ k = s2b "cookie" \/ k = s2b "content-length".
Proof. exact suppressed_names. Qed.

(** OBSERVATION on the title ("stale framing").  The statement lists Cookie, Content-Length and
    Authorization; it does NOT list Transfer-Encoding, and the code does not suppress it: an
    inherited "transfer-encoding" field of the original request is effective at every hop,
    whatever policy and target (instance of [c13_other_headers]).  So of the two framing headers
    only Content-Length is dropped.  This does not contradict the statement as written; it is
    recorded because of its consequence ([c13_stale_te_script]): a POST that carries its own
    "transfer-encoding: chunked" and is answered 301/302/303 becomes a GET that still announces a
    chunked body; the analysis of that GET refuses it (MethodForbidsBody), i.e. the redirect
    cannot be followed, whereas the same POST with "content-length" can. *)
Theorem c13_inherited_te_survives : forall orig hops p t f v,
  chain orig (hops ++ [(p, t)]) f ->
  (In (s2b "transfer-encoding", v) (am_inherited (req_of f)) <->
   In (s2b "transfer-encoding", v) (rq_headers orig)) /\
  (In (s2b "transfer-encoding", v) (rq_headers orig) ->
   In (s2b "transfer-encoding", v) (am_headers (req_of f))).
Proof. exact inherited_te_survives. Qed.

Example c13_stale_te_script :
  lower_names te_post /\
  heads (run_obs s_init ops_te) =
    [ s2b "POST /form HTTP/1.1" ++ CRLF ++ s2b "host: a.test" ++ CRLF ++
      s2b "transfer-encoding: chunked" ++ CRLF ++ s2b "content-type: text/plain" ++ CRLF ++ CRLF ] /\
  last (run_obs s_init ops_te) [] = [w "ok"] /\
  snd (step (run_ops s_init ops_te) OQMethod) = [TW (s2b "GET")] /\
  (exists t f, s_obj (run_ops s_init ops_te) = ObFlow t f /\
     am_headers (req_of f) = [(s2b "transfer-encoding", s2b "chunked"); (s2b "content-type", s2b "text/plain")]) /\
  last (run_obs s_init (ops_te ++ [OProceed; OWriteHead 4096])) [] = obs_err MethodForbidsBody.
Proof. exact te_script. Qed.

Theorem c13_ops_te_def :
  te_post = {| rq_method := POST; rq_version := V11;
               rq_uri := {| u_scheme := s2b "http"; u_auth := s2b "a.test"; u_pq := s2b "/form" |};
               rq_headers := [(s2b "transfer-encoding", s2b "chunked"); (s2b "content-type", s2b "text/plain")] |} /\
  ops_te =
    [ONew te_post; OProceed; OWriteHead 4096; OProceed; OWriteBody (s2b "hello") 4096; OWriteBody [] 4096;
     OProceed; OSetStream (response_303 (s2b "/done")); OArrive (len (response_303 (s2b "/done")));
     OTryResponse; OProceed; OAsNewFlow Never; OFollow] /\
  response_303 (s2b "/done") =
    s2b "HTTP/1.1 303 See Other" ++ CRLF ++ s2b "Location: /done" ++ CRLF ++
    s2b "Content-Length: 0" ++ CRLF ++ CRLF.
Proof. repeat split. Qed.

(* ------------------------------------------------------------------ panics of as_new_flow, after the repair of F19 *)

(** [c13_unset_no_panic] lists three panic sites; since the repair of F19 (a base URI without
    scheme is reported as BadLocationHeader) the second one is gone.  Exactly two remain. *)
Theorem c13_panic_sites : forall f p site,
  as_new_flow f p = Panic site ->
  (i_status f = None /\ site = "flow.rs: status.unwrap() in as_new_flow"%string) \/
  (am_req (req_of f) = None /\ u_scheme (am_eff_uri (req_of f)) <> [] /\
   site = "amended.rs: body.unwrap() in take_request"%string).
Proof. exact C14_more.as_new_flow_panic_cases. Qed.

Print Assumptions c13_keep_auth_def.
Print Assumptions c13_suppression_def.
Print Assumptions c13_chain_def.
Print Assumptions c13_flow_op_def.
Print Assumptions c13_rebuilt_from_original.
Print Assumptions c13_op_preserves.
Print Assumptions c13_unset_no_panic.
Print Assumptions c13_chain_invariant.
Print Assumptions c13_cookie_cl.
Print Assumptions c13_cookie_cl_ci.
Print Assumptions c13_auth_iff.
Print Assumptions c13_auth_values.
Print Assumptions c13_never.
Print Assumptions c13_other_headers.
Print Assumptions c13_wire.
Print Assumptions c13_script.
Print Assumptions c13_two_hops.
Print Assumptions c13_downgrade.
Print Assumptions c13_nonvacuous.
Print Assumptions c13_lower_names_def.
Print Assumptions c13_auth_iff_ci.
Print Assumptions c13_never_ci.
Print Assumptions c13_ci_nonvacuous.
Print Assumptions c13_offered_def.
Print Assumptions c13_analysis_header_def.
Print Assumptions c13_nothing_survives_from_earlier_hops.
Print Assumptions c13_hop_unset_def.
Print Assumptions c13_script_step_adds.
Print Assumptions c13_added_not_carried.
Print Assumptions c13_ops_added_def.
Print Assumptions c13_suppressed_names.
Print Assumptions c13_inherited_te_survives.
Print Assumptions c13_stale_te_script.
Print Assumptions c13_ops_te_def.
Print Assumptions c13_panic_sites.

(* ================================================================== the effective header list's code itself (translated from the source) *)
(** [AmendedRequest::headers] (src/client/amended.rs) and the accessors built on it ([headers_get_all], [headers_get],
    [headers_len]) are translated on every run by tools/rs2coq2.py (theories/Gen2.v, [gen_am_*]; the ArrayVec of added headers, the
    unset list and the original HeaderMap are lists in iteration order, names compare as byte strings) and proved EQUAL to the model's
    [am_headers] / [get_all] (proofs/Gen2_equiv_amended.v): caller-added headers first, in the order they were added, then the
    original request's headers that are not unset -- the unset list filters the inherited headers only.  Trusted: the translator;
    HeaderMap iteration order is read back from the http crate by the harness. *)
From Hoot Require Import GenLib Gen2.
From Hoot.proofs Require Import Gen2_equiv_amended.
Theorem c13_code_headers : forall a, gen_am_headers (am_added a) (am_unset a) (rq_headers (am_request a)) = am_headers a.
Proof. exact gen_am_headers_eq. Qed.
Theorem c13_code_headers_get_all : forall a key,
  gen_am_headers_get_all (am_added a) (am_unset a) (rq_headers (am_request a)) key = get_all (am_headers a) key.
Proof. exact gen_am_headers_get_all_eq. Qed.
Print Assumptions c13_code_headers.
Print Assumptions c13_code_headers_get_all.

(* ================================================================== as_new_flow itself (translated from the source) *)
(** [Flow<Redirect>::as_new_flow] (src/client/flow.rs) is translated on every run by tools/rs2coq2.py (theories/Gen2.v,
    [gen_as_new_flow]): the Location must be there and be text, the status is unwrapped, the target is resolved, the method table is
    applied, the previous request is taken, the next flow is built, and the inherited headers the next request suppresses are pushed in
    order -- with the url resolution, the "may this target keep the credentials" test and the two constructions as parameters.
    proofs/Gen2_equiv_redirect.v proves that, instantiated with the model's readings of those parameters, it agrees with the model's
    [as_new_flow] on every flow and policy: same error, same panic sites, not followed exactly when the model does not follow, and
    otherwise the same suppression list, method and target.  Trusted: the translator; the url crate stays modelled. *)
From Hoot Require Import GenLib Gen2.
From Hoot.proofs Require Import Gen2_equiv_redirect.
Theorem c13_code_as_new_flow : forall f policy,
  let g := gen_as_new_flow [] (i_location f) (i_status f) (am_method (c_req (i_call f))) policy
             (resolve_of (c_req (i_call f))) (keep_of (c_req (i_call f))) (take_of (c_req (i_call f))) (Ok tt) in
  match as_new_flow f policy with
  | Ok (_, Some nf) => g = Ok (am_unset (c_req (i_call nf)), Some (am_method (c_req (i_call nf)), am_eff_uri (c_req (i_call nf))))
  | Ok (_, None)    => g = Ok ([], None)
  | Err e           => g = Err e
  | Panic _         => exists s, g = Panic s
  end.
Proof. exact gen_as_new_flow_ok. Qed.
(** What the code suppresses, whatever the parameters: authorization (unless the policy is SameHost and the target may keep it),
    cookie, content-length -- in that order, nothing else. *)
Theorem c13_code_suppression_list :
  forall inner_location inner_status m policy resolve_location may_keep_auth take_request_result flow_new_result l nm target,
    gen_as_new_flow [] inner_location inner_status m policy resolve_location may_keep_auth
                    take_request_result flow_new_result = Ok (l, Some (nm, target)) ->
    l = (if match policy with Never => false | SameHost => may_keep_auth target end
         then [s2b "cookie"; s2b "content-length"]
         else [s2b "authorization"; s2b "cookie"; s2b "content-length"])
    /\ (exists loc, inner_location = Some loc /\ resolve_location loc = Ok target)
    /\ take_request_result = Ok tt /\ flow_new_result = Ok tt.
Proof. exact gen_as_new_flow_unset_table. Qed.
Print Assumptions c13_code_as_new_flow.
Print Assumptions c13_code_suppression_list.

(* ================================================================== can_redirect_auth_header itself (translated from the source) *)
(** The test that decides whether the target of a redirect may keep the credentials under the SameHost policy -- same host, and the
    same scheme or an upgrade to https -- is translated on every run (theories/Gen2.v, [gen_can_redirect_auth_header]; what it reads
    off the two URIs are values) and is the model's [can_redirect_auth_header] on the model's (absolute) URIs
    (proofs/Gen2_equiv_auth.v).  In [c13_code_as_new_flow] it is the parameter [may_keep_auth]. *)
From Hoot.proofs Require Import Gen2_equiv_auth.
Theorem c13_code_can_redirect_auth_header : forall prev next,
  gen_can_redirect_auth_header (Some (uri_host prev)) (Some (uri_host next)) (Some (u_scheme prev)) (Some (u_scheme next))
  = can_redirect_auth_header prev next.
Proof. exact gen_can_redirect_auth_header_eq. Qed.
Print Assumptions c13_code_can_redirect_auth_header.
Theorem c13_code_can_redirect_auth_header_spec : forall hp hn sp sn,
  gen_can_redirect_auth_header hp hn sp sn = true <->
  opt_bytes_eqb hp hn = true /\ (opt_bytes_eqb sp sn = true \/ opt_bytes_eqb sn (Some (s2b "https")) = true).
Proof. exact gen_can_redirect_auth_header_spec. Qed.
Print Assumptions c13_code_can_redirect_auth_header_spec.

(* ================================================================== the vector behind the suppression list (translated from the source) *)
(** [unset_header_list] -- the reading of AmendedRequest::unset_header used in [c13_code_as_new_flow] -- is a capacity test followed by
    an append; src/util.rs ArrayVec::push, translated, is exactly that on the visible part of a vector of capacity UNSET_CAP
    (proofs/Gen2_equiv_arrayvec.v). *)
From Hoot.proofs Require Import Gen2_equiv_arrayvec.
Theorem c13_code_arrayvec_unset : forall n (arr : list bytes) k,
  len arr = UNSET_CAP -> n <= len arr ->
  match unset_header_list (gen_arrayvec_deref bytes n arr) k with
  | Ok (l', _) => exists arr', gen_arrayvec_push bytes n arr k = Ok (n + 1, arr', tt) /\ len arr' = len arr /\
                               gen_arrayvec_deref bytes (n + 1) arr' = l'
  | Panic _ => exists site, gen_arrayvec_push bytes n arr k = Panic site
  | Err _ => False
  end.
Proof. exact gen_arrayvec_push_is_unset. Qed.
Print Assumptions c13_code_arrayvec_unset.

(* ================================================================== AmendedRequest::unset_header itself (translated from the source) *)
(** ... and [unset_header_list] is the translation of AmendedRequest::unset_header (theories/Gen2.v, [gen_am_unset_header]) for the
    three names as_new_flow passes (valid, lower case); an invalid name would be refused with BadHeader
    (proofs/Gen2_equiv_unsetheader.v). *)
From Hoot.proofs Require Import Gen2_equiv_unsetheader.
Theorem c13_code_unset_header : forall unset,
  gen_am_unset_header unset (s2b "authorization") = unset_header_list unset (s2b "authorization") /\
  gen_am_unset_header unset (s2b "cookie") = unset_header_list unset (s2b "cookie") /\
  gen_am_unset_header unset (s2b "content-length") = unset_header_list unset (s2b "content-length").
Proof. exact gen_am_unset_header_redirect_names. Qed.
Print Assumptions c13_code_unset_header.
Theorem c13_code_unset_header_invalid : forall unset k,
  valid_header_name k = false -> gen_am_unset_header unset k = Err BadHeader.
Proof. exact gen_am_unset_header_invalid. Qed.
Print Assumptions c13_code_unset_header_invalid.
