(** Property C18 -- The advertised maximum input always fits the output buffer.

    "For every output buffer length n, an input of the advertised maximum size for n is consumed
    completely by a single body write into an n-byte buffer; the advertised size is n itself for a
    length-delimited body, never exceeds n, and never decreases as n grows."

    Statements only; proofs are in proofs/C18_hex.v and proofs/C18_proofs.v. All statements hold for
    every n : N, every input and every capacity (no bound). *)
From Hoot Require Import Base Chunk Body Request Call Flow.
From Hoot.proofs Require Import C18_hex C18_proofs.
Open Scope N_scope.

(** Number of size-line digits of a chunk of [c] bytes, on the ranges that occur (a chunk never
    exceeds 65535 bytes; the writer caps it at DEFAULT_CHUNK_SIZE = 10240). *)
Theorem c18_hexlen : forall c,
  (c < 16 -> len (hex_of c) = 1) /\
  (16 <= c < 256 -> len (hex_of c) = 2) /\
  (256 <= c < 4096 -> len (hex_of c) = 3) /\
  (4096 <= c < 65536 -> len (hex_of c) = 4) /\
  (65536 <= c -> 5 <= len (hex_of c)).
Proof. exact hexlen_spec. Qed.

(** The chunk-sizing function, piecewise. The values 21, 262 and 4103 are the capacities at which one
    more size digit would be needed for one more data byte. *)
Theorem c18_fit_cases : forall avail,
  (avail < 6 -> max_chunk_fit avail DEFAULT_CHUNK_SIZE = 0) /\
  (6 <= avail <= 20 -> max_chunk_fit avail DEFAULT_CHUNK_SIZE = avail - 5) /\
  (avail = 21 -> max_chunk_fit avail DEFAULT_CHUNK_SIZE = 15) /\
  (22 <= avail <= 261 -> max_chunk_fit avail DEFAULT_CHUNK_SIZE = avail - 6) /\
  (avail = 262 -> max_chunk_fit avail DEFAULT_CHUNK_SIZE = 255) /\
  (263 <= avail <= 4102 -> max_chunk_fit avail DEFAULT_CHUNK_SIZE = avail - 7) /\
  (avail = 4103 -> max_chunk_fit avail DEFAULT_CHUNK_SIZE = 4095) /\
  (4104 <= avail -> max_chunk_fit avail DEFAULT_CHUNK_SIZE = N.min 65535 (avail - 8)).
Proof. exact fit_cases. Qed.

(** Specification of the sizing function, independent of its loop: every chunk length up to the
    computed one fits together with its size line and the two CRLF (CHUNK_LINE_OVERHEAD = 4) ... *)
Theorem c18_fit_sound : forall avail c,
  1 <= c <= max_chunk_fit avail DEFAULT_CHUNK_SIZE ->
  c + len (hex_of c) + CHUNK_LINE_OVERHEAD <= avail.
Proof. exact fit_sound. Qed.

(** ... and it is the LARGEST chunk length (of at most four size digits) that fits. *)
Theorem c18_fit_spec : forall avail c,
  c + len (hex_of c) + CHUNK_LINE_OVERHEAD <= avail -> c <= 65535 ->
  c <= max_chunk_fit avail DEFAULT_CHUNK_SIZE.
Proof. exact fit_max. Qed.

(** [write_chunk] never refuses a chunk it has sized: its final length check always passes. *)
Theorem c18_write_chunk : forall input avail,
  write_chunk input avail DEFAULT_CHUNK_SIZE =
    let c := N.min (N.min (len input) DEFAULT_CHUNK_SIZE) (max_chunk_fit avail DEFAULT_CHUNK_SIZE) in
    if c =? 0 then None else Some (c, enc_chunk_n c input).
Proof. exact write_chunk_eq. Qed.

(** The number of input bytes consumed by one chunked write is a closed arithmetic function of the
    input length and the capacity ([consumed_n]: as many full chunks as input and space allow, then
    one chunk of what still fits); in particular it depends on nothing else, the fuel of the model's
    loop always suffices, and the bytes written never exceed the capacity. *)
Theorem c18_consumed_len_only : forall input cap,
  fst (chunk_loop (S (List.length input)) input cap 0 []) = consumed_n (len input) cap /\
  len (snd (chunk_loop (S (List.length input)) input cap 0 [])) <= cap.
Proof. intros input cap. split; [apply consumed_eq|apply emitted_le_cap]. Qed.

Theorem c18_consumed_n_unfold : forall inlen cap,
  consumed_n inlen cap =
    let k := cap / (DEFAULT_CHUNK_SIZE + DEFAULT_CHUNK_OVERHEAD) in
    let r := cap mod (DEFAULT_CHUNK_SIZE + DEFAULT_CHUNK_OVERHEAD) in
    if inlen <=? k * DEFAULT_CHUNK_SIZE then inlen
    else k * DEFAULT_CHUNK_SIZE
         + N.min (inlen - k * DEFAULT_CHUNK_SIZE) (max_chunk_fit r DEFAULT_CHUNK_SIZE).
Proof. reflexivity. Qed.

Theorem c18_write_chunked : forall ended input cap,
  input <> [] ->
  exists out,
    writer_write {| w_mode := SChunked; w_ended := ended |} input cap =
      Ok ({| w_mode := SChunked; w_ended := ended |}, consumed_n (len input) cap, out) /\
    len out <= cap.
Proof.
  intros ended input cap H. destruct (writer_write_chunked ended input cap H) as (out & A & B & _).
  exists out. auto.
Qed.

(** The headline: an input of exactly the advertised size is consumed completely by one write into
    an n-byte buffer, and the output fits. (An empty input is the finishing write, hence [0 < len].)
    Stated for the body writer and for the public entry point of a call in its chunked body phase. *)
Theorem c18_fits : forall n input,
  len input = calculate_max_input n -> 0 < len input ->
  exists out, writer_write new_chunked input n = Ok (new_chunked, len input, out) /\ len out <= n.
Proof. exact c18_fits_lemma. Qed.

Theorem c18_fits_call : forall c n input,
  chunked_body c false ->
  len input = calculate_max_input n -> 0 < len input ->
  exists out, call_write_body c input n = Ok (c, len input, out) /\ len out <= n.
Proof. exact C18_proofs.c18_fits_call. Qed.

Theorem c18_le : forall n, calculate_max_input n <= n.
Proof. exact calc_le. Qed.

Theorem c18_mono : forall n m, n <= m -> calculate_max_input n <= calculate_max_input m.
Proof. exact calc_mono. Qed.

(** Length-delimited body: a write consumes min(capacity, input, remaining); so an input of the
    advertised size n (which is n itself, see [c18_advertised]) within the remaining count is
    consumed completely and forwarded unchanged. *)
Theorem c18_sized : forall lft ended input cap,
  writer_write {| w_mode := SSized lft; w_ended := ended |} input cap =
    let n := N.min (N.min cap (len input)) lft in
    Ok ({| w_mode := SSized (lft - n); w_ended := if lft - n =? 0 then true else ended |},
        n, take n input).
Proof. exact sized_write. Qed.

Theorem c18_sized_fits : forall lft ended input n,
  len input <= lft -> len input = n ->
  exists w, writer_write {| w_mode := SSized lft; w_ended := ended |} input n = Ok (w, len input, input).
Proof. exact sized_fits. Qed.

(** What the flow advertises: [calculate_max_input] for a chunked body, the buffer length itself
    otherwise. *)
Theorem c18_advertised : forall f c output_len,
  as_with_body f = Ok c ->
  send_body_max_input f output_len =
    Ok (if w_is_chunked (c_writer c) then calculate_max_input output_len else output_len).
Proof. exact max_input_advertised. Qed.

(** Non-vacuity: n = 10248 + 300 advertises 10240 + 292 bytes; an input of that size is consumed
    completely in two chunks (10248 + 299 bytes of output); and a concrete call satisfies
    [chunked_body]. *)
Definition demo_call : call :=
  {| c_req := am_new placeholder; c_analyzed := true; c_phase := PBody;
     c_writer := new_chunked; c_reader := None; c_skip := false; c_stop := false |}.

Example c18_nonvacuous :
  chunked_body demo_call false /\
  calculate_max_input 10548 = 10532 /\
  (let input := repeat 97 (N.to_nat 10532) in
   len input = calculate_max_input 10548 /\
   match call_write_body demo_call input 10548 with
   | Ok (_, used, out) => used = 10532 /\ len out = 10547
   | _ => False
   end) /\
  calculate_max_input 21 = 13 /\ max_chunk_fit 21 DEFAULT_CHUNK_SIZE = 15.
Proof. vm_compute. repeat split. Qed.


(* ------------------------------------------------------------------ tie to the source by translation *)
(** The Rust functions below are translated to Gallina from the repository's CURRENT sources on every run
    (tools/rs2coq.py -> theories/Gen.v); they equal the model's functions for all arguments, so the theorems above
    hold for what the code says now. A change of one of these functions that is not an equivalent rewrite breaks the
    proof obligation here. *)
From Hoot Require Import Gen.
From Hoot.proofs Require Import Gen_equiv.
Theorem c18_code_calculate_max_input : forall n, gen_calculate_max_input n = calculate_max_input n.
Proof. exact gen_calculate_max_input_eq. Qed.
Theorem c18_code_max_chunk_fit : forall a m, gen_max_chunk_fit a m = max_chunk_fit a m.
Proof. exact gen_max_chunk_fit_eq. Qed.

Print Assumptions c18_hexlen.
Print Assumptions c18_fit_cases.
Print Assumptions c18_fit_sound.
Print Assumptions c18_fit_spec.
Print Assumptions c18_write_chunk.
Print Assumptions c18_consumed_len_only.
Print Assumptions c18_consumed_n_unfold.
Print Assumptions c18_write_chunked.
Print Assumptions c18_fits.
Print Assumptions c18_fits_call.
Print Assumptions c18_le.
Print Assumptions c18_mono.
Print Assumptions c18_sized.
Print Assumptions c18_sized_fits.
Print Assumptions c18_advertised.
Print Assumptions c18_nonvacuous.
Print Assumptions c18_code_calculate_max_input.
Print Assumptions c18_code_max_chunk_fit.
