(** Property C18 -- The advertised maximum input always fits the output buffer.

    "For every output buffer length n, an input of the advertised maximum size for n is consumed
    completely by a single body write into an n-byte buffer; the advertised size is n itself for a
    length-delimited body, never exceeds n, and never decreases as n grows."

    Statements only; proofs are in proofs/C18_hex.v and proofs/C18_proofs.v. All statements hold for
    every n : N, every input and every capacity (no bound). *)
From Hoot Require Import Base Chunk Body Request Call Flow.
From Hoot.proofs Require Import C18_hex C18_proofs.
Open Scope N_scope.

(** Number of size-line digits of a chunk of [c] bytes, on the ranges that occur (a chunk never
    exceeds 65535 bytes; the writer caps it at DEFAULT_CHUNK_SIZE = 10240). *)
Theorem c18_hexlen : forall c,
  (c < 16 -> len (hex_of c) = 1) /\
  (16 <= c < 256 -> len (hex_of c) = 2) /\
  (256 <= c < 4096 -> len (hex_of c) = 3) /\
  (4096 <= c < 65536 -> len (hex_of c) = 4) /\
  (65536 <= c -> 5 <= len (hex_of c)).
Proof. exact hexlen_spec. Qed.

(** The chunk-sizing function, piecewise. The values 21, 262 and 4103 are the capacities at which one
    more size digit would be needed for one more data byte. *)
Theorem c18_fit_cases : forall avail,
  (avail < 6 -> max_chunk_fit avail DEFAULT_CHUNK_SIZE = 0) /\
  (6 <= avail <= 20 -> max_chunk_fit avail DEFAULT_CHUNK_SIZE = avail - 5) /\
  (avail = 21 -> max_chunk_fit avail DEFAULT_CHUNK_SIZE = 15) /\
  (22 <= avail <= 261 -> max_chunk_fit avail DEFAULT_CHUNK_SIZE = avail - 6) /\
  (avail = 262 -> max_chunk_fit avail DEFAULT_CHUNK_SIZE = 255) /\
  (263 <= avail <= 4102 -> max_chunk_fit avail DEFAULT_CHUNK_SIZE = avail - 7) /\
  (avail = 4103 -> max_chunk_fit avail DEFAULT_CHUNK_SIZE = 4095) /\
  (4104 <= avail -> max_chunk_fit avail DEFAULT_CHUNK_SIZE = N.min 65535 (avail - 8)).
Proof. exact fit_cases. Qed.

(** Specification of the sizing function, independent of its loop: every chunk length up to the
    computed one fits together with its size line and the two CRLF (CHUNK_LINE_OVERHEAD = 4) ... *)
Theorem c18_fit_sound : forall avail c,
  1 <= c <= max_chunk_fit avail DEFAULT_CHUNK_SIZE ->
  c + len (hex_of c) + CHUNK_LINE_OVERHEAD <= avail.
Proof. exact fit_sound. Qed.

(** ... and it is the LARGEST chunk length (of at most four size digits) that fits. *)
Theorem c18_fit_spec : forall avail c,
  c + len (hex_of c) + CHUNK_LINE_OVERHEAD <= avail -> c <= 65535 ->
  c <= max_chunk_fit avail DEFAULT_CHUNK_SIZE.
Proof. exact fit_max. Qed.

(** [write_chunk] never refuses a chunk it has sized: its final length check always passes. *)
Theorem c18_write_chunk : forall input avail,
  write_chunk input avail DEFAULT_CHUNK_SIZE =
    let c := N.min (N.min (len input) DEFAULT_CHUNK_SIZE) (max_chunk_fit avail DEFAULT_CHUNK_SIZE) in
    if c =? 0 then None else Some (c, enc_chunk_n c input).
Proof. exact write_chunk_eq. Qed.

(** The number of input bytes consumed by one chunked write is a closed arithmetic function of the
    input length and the capacity ([consumed_n]: as many full chunks as input and space allow, then
    one chunk of what still fits); in particular it depends on nothing else, the fuel of the model's
    loop always suffices, and the bytes written never exceed the capacity. *)
Theorem c18_consumed_len_only : forall input cap,
  fst (chunk_loop (S (List.length input)) input cap 0 []) = consumed_n (len input) cap /\
  len (snd (chunk_loop (S (List.length input)) input cap 0 [])) <= cap.
Proof. intros input cap. split; [apply consumed_eq|apply emitted_le_cap]. Qed.

Theorem c18_consumed_n_unfold : forall inlen cap,
  consumed_n inlen cap =
    let k := cap / (DEFAULT_CHUNK_SIZE + DEFAULT_CHUNK_OVERHEAD) in
    let r := cap mod (DEFAULT_CHUNK_SIZE + DEFAULT_CHUNK_OVERHEAD) in
    if inlen <=? k * DEFAULT_CHUNK_SIZE then inlen
    else k * DEFAULT_CHUNK_SIZE
         + N.min (inlen - k * DEFAULT_CHUNK_SIZE) (max_chunk_fit r DEFAULT_CHUNK_SIZE).
Proof. reflexivity. Qed.

Theorem c18_write_chunked : forall ended input cap,
  input <> [] ->
  exists out,
    writer_write {| w_mode := SChunked; w_ended := ended |} input cap =
      Ok ({| w_mode := SChunked; w_ended := ended |}, consumed_n (len input) cap, out) /\
    len out <= cap.
Proof.
  intros ended input cap H. destruct (writer_write_chunked ended input cap H) as (out & A & B & _).
  exists out. auto.
Qed.

(** The headline: an input of exactly the advertised size is consumed completely by one write into
    an n-byte buffer, and the output fits. (An empty input is the finishing write, hence [0 < len].)
    Stated for the body writer and for the public entry point of a call in its chunked body phase. *)
Theorem c18_fits : forall n input,
  len input = calculate_max_input n -> 0 < len input ->
  exists out, writer_write new_chunked input n = Ok (new_chunked, len input, out) /\ len out <= n.
Proof. exact c18_fits_lemma. Qed.

Theorem c18_fits_call : forall c n input,
  chunked_body c false ->
  len input = calculate_max_input n -> 0 < len input ->
  exists out, call_write_body c input n = Ok (c, len input, out) /\ len out <= n.
Proof. exact C18_proofs.c18_fits_call. Qed.

Theorem c18_le : forall n, calculate_max_input n <= n.
Proof. exact calc_le. Qed.

Theorem c18_mono : forall n m, n <= m -> calculate_max_input n <= calculate_max_input m.
Proof. exact calc_mono. Qed.

(** Length-delimited body: a write consumes min(capacity, input, remaining); so an input of the
    advertised size n (which is n itself, see [c18_advertised]) within the remaining count is
    consumed completely and forwarded unchanged. *)
Theorem c18_sized : forall lft ended input cap,
  writer_write {| w_mode := SSized lft; w_ended := ended |} input cap =
    let n := N.min (N.min cap (len input)) lft in
    Ok ({| w_mode := SSized (lft - n); w_ended := if lft - n =? 0 then true else ended |},
        n, take n input).
Proof. exact sized_write. Qed.

Theorem c18_sized_fits : forall lft ended input n,
  len input <= lft -> len input = n ->
  exists w, writer_write {| w_mode := SSized lft; w_ended := ended |} input n = Ok (w, len input, input).
Proof. exact sized_fits. Qed.

(** What the flow advertises: [calculate_max_input] for a chunked body, the buffer length itself
    otherwise. *)
Theorem c18_advertised : forall f c output_len,
  as_with_body f = Ok c ->
  send_body_max_input f output_len =
    Ok (if w_is_chunked (c_writer c) then calculate_max_input output_len else output_len).
Proof. exact max_input_advertised. Qed.

(** Non-vacuity: n = 10248 + 300 advertises 10240 + 292 bytes; an input of that size is consumed
    completely in two chunks (10248 + 299 bytes of output); and a concrete call satisfies
    [chunked_body]. *)
Definition demo_call : call :=
  {| c_req := am_new placeholder; c_analyzed := true; c_phase := PBody;
     c_writer := new_chunked; c_reader := None; c_skip := false; c_stop := false |}.

Example c18_nonvacuous :
  chunked_body demo_call false /\
  calculate_max_input 10548 = 10532 /\
  (let input := repeat 97 (N.to_nat 10532) in
   len input = calculate_max_input 10548 /\
   match call_write_body demo_call input 10548 with
   | Ok (_, used, out) => used = 10532 /\ len out = 10547
   | _ => False
   end) /\
  calculate_max_input 21 = 13 /\ max_chunk_fit 21 DEFAULT_CHUNK_SIZE = 15.
Proof. vm_compute. repeat split. Qed.


(* ------------------------------------------------------------------ tie to the source by translation *)
(** The Rust functions below are translated to Gallina from the repository's CURRENT sources on every run
    (tools/rs2coq.py -> theories/Gen.v); they equal the model's functions for all arguments, so the theorems above
    hold for what the code says now. A change of one of these functions that is not an equivalent rewrite breaks the
    proof obligation here. *)
From Hoot Require Import Gen.
From Hoot.proofs Require Import Gen_equiv_body.
Theorem c18_code_calculate_max_input : forall n, gen_calculate_max_input n = calculate_max_input n.
Proof. exact gen_calculate_max_input_eq. Qed.
Theorem c18_code_max_chunk_fit : forall a m, gen_max_chunk_fit a m = max_chunk_fit a m.
Proof. exact gen_max_chunk_fit_eq. Qed.

(* ================================================================== strengthening (review 3) *)
(** Proofs: proofs/C18_reach.v.

    READING OF THE PROPERTY FOR A LENGTH-DELIMITED BODY.  "An input of the advertised maximum size for n is
    consumed completely" holds for a sized body exactly on the domain the writer ACCEPTS: an input longer than
    what is left of the announced Content-Length is not written partially, it is REFUSED
    ([c18_sized_refused]: [Err BodyLargerThanContentLength] for every capacity; an [Err] carries neither a
    call nor a count nor output, i.e. nothing is consumed, nothing emitted and the caller keeps the call it
    had -- that is property C04's clause).  The unrestricted reading is therefore false
    ([c18_sized_unrestricted_refuted], a flow reached by running the model).  The property's quantifier
    ("every n ...; chunked and length-delimited bodies") ranges over buffer lengths and the two framings, not over
    inputs exceeding the announced length, so the supported reading is the restricted one: "within the announced
    length".  Everything below states that hypothesis explicitly ([n <= lft]). *)
From Hoot Require Import Httparse Parser Url Script.
From Hoot.proofs Require Import C04_proofs C17_proofs C18_reach.

(** One sized write through the public entry point, on the accepted domain and beyond it. *)
Theorem c18_sized_accepted : forall c lft input cap,
  sized_body c lft false -> len input <= lft ->
  call_write_body c input cap =
    let n := N.min cap (len input) in
    Ok (set_writer c {| w_mode := SSized (lft - n); w_ended := if lft - n =? 0 then true else false |},
        n, take n input).
Proof. exact sized_accept. Qed.

Theorem c18_sized_refused : forall c lft input cap,
  sized_body c lft false -> lft < len input ->
  call_write_body c input cap = Err BodyLargerThanContentLength.
Proof. exact sized_refusal. Qed.

(** The headline for a sized body at [Call<WithBody>::write]: the advertised size is the buffer length n
    ([c18_advertised]); an input of that size within the announced length is consumed completely, forwarded
    verbatim, and the remaining count goes down by n (finished exactly when it reaches 0). *)
Theorem c18_sized_fits_call : forall c lft input n,
  sized_body c lft false -> len input = n -> n <= lft ->
  exists c' e, call_write_body c input n = Ok (c', n, input) /\
               sized_body c' (lft - n) e /\ (e = true <-> lft - n = 0).
Proof. exact sized_fits_call. Qed.

(** At the property's observation points [Flow<SendBody>::calculate_max_input] / [Flow<SendBody>::write],
    both framings: whatever size m the flow advertises for an n-byte buffer, an input of m bytes is consumed
    completely by one write into n bytes. *)
Theorem c18_fits_flow_chunked : forall f n m input,
  i_holder f = HWithBody -> chunked_body (i_call f) false ->
  send_body_max_input f n = Ok m -> len input = m -> 0 < len input ->
  exists out, send_body_write f input n = Ok (f, len input, out) /\ len out <= n.
Proof. exact fits_flow_chunked. Qed.

Theorem c18_fits_flow_sized : forall f lft n m input,
  i_holder f = HWithBody -> sized_body (i_call f) lft false ->
  send_body_max_input f n = Ok m -> len input = m -> m <= lft ->
  m = n /\
  exists f' e, send_body_write f input n = Ok (f', len input, input) /\
               i_holder f' = HWithBody /\ sized_body (i_call f') (lft - n) e /\ (e = true <-> lft - n = 0).
Proof. exact fits_flow_sized. Qed.

Theorem c18_flow_sized_refused : forall f lft input cap,
  i_holder f = HWithBody -> sized_body (i_call f) lft false -> lft < len input ->
  send_body_write f input cap = Err BodyLargerThanContentLength.
Proof. exact flow_sized_refusal. Qed.

(** REACHABILITY of the hypotheses [chunked_body _ false] / [sized_body _ n false].
    [body_state_of c0 c]: which of the two holds of [c], read off the request of the fresh call [c0]
    ([has_chunked_te], [cls]: effective transfer-encoding / content-length fields, see C17/C02). *)
Theorem c18_body_state_def : forall c0 c,
  body_state_of c0 c =
    if has_chunked_te (c_req c0) then chunked_body c false
    else match cls (c_req c0) with
         | [] => chunked_body c false
         | v :: _ => sized_body c (dec_value v) false
         end.
Proof. reflexivity. Qed.

(** [f0]: a fresh with-body flow (holder WithBody, writer still the constructor's chunked default) that request
    analysis accepts ([call_invalid = false], [sendable]: C17).  After ANY sequence [caps] of head writes, if
    [send_request_proceed] answers SendBody, the flow it hands over is the flow it was given, its request is
    the analysed request of C02/C17, and its call is in the chunked / sized body state, not finished. *)
Theorem c18_send_body_reached : forall f0 caps f',
  fresh_flow f0 -> i_holder f0 = HWithBody -> c_writer (i_call f0) = new_chunked ->
  call_invalid (i_call f0) = false -> sendable (i_call f0) ->
  send_request_proceed (fw_flow (fwrun f0 caps)) = Ok (Some (TSendBody, f')) ->
  f' = fw_flow (fwrun f0 caps) /\ i_holder f' = HWithBody /\
  c_req (i_call f') = c_req (analysed_call (i_call f0)) /\
  body_state_of (i_call f0) (i_call f').
Proof. exact send_body_reached. Qed.

(** The same through Await100 (Expect: 100-continue): any number of [try_read_100] calls on any windows
    [ws], then [await_100_proceed] answering SendBody. *)
Theorem c18_send_body_reached_100 : forall f0 caps f1 ws f',
  fresh_flow f0 -> i_holder f0 = HWithBody -> c_writer (i_call f0) = new_chunked ->
  call_invalid (i_call f0) = false -> sendable (i_call f0) ->
  send_request_proceed (fw_flow (fwrun f0 caps)) = Ok (Some (TAwait100, f1)) ->
  await_100_proceed (fold_left (fun g w => fst (try_read_100 g w)) ws f1) = Ok (TSendBody, f') ->
  i_holder f' = HWithBody /\
  c_req (i_call f') = c_req (analysed_call (i_call f0)) /\
  body_state_of (i_call f0) (i_call f').
Proof. exact send_body_reached_100. Qed.

Theorem c18_body_state_cases : forall c0 c,
  body_state_of c0 c -> chunked_body c false \/ exists n, sized_body c n false.
Proof. exact body_state_cases. Qed.

(** Where such flows come from: [Flow::new] on a method that takes a body; [send_body_despite_method] on any
    other fresh flow; adding headers keeps the flow fresh. *)
Theorem c18_flow_new_with_body : forall r f0,
  flow_new r = Ok f0 -> need_request_body (rq_method r) = true ->
  fresh_flow f0 /\ i_holder f0 = HWithBody /\ c_writer (i_call f0) = new_chunked /\
  c_req (i_call f0) = am_new r /\ c_skip (i_call f0) = false.
Proof. exact flow_new_with_body. Qed.

Theorem c18_despite_with_body : forall f0 f1,
  fresh_flow f0 -> i_holder f0 = HWithoutBody -> send_body_despite_method f0 = Ok f1 ->
  fresh_flow f1 /\ i_holder f1 = HWithBody /\ c_writer (i_call f1) = new_chunked /\
  c_req (i_call f1) = c_req (i_call f0) /\ c_skip (i_call f1) = true.
Proof. exact despite_with_body. Qed.

Theorem c18_header_keeps_fresh : forall f k v f',
  fresh_flow f -> prepare_header f k v = Ok f' ->
  fresh_flow f' /\ i_holder f' = i_holder f /\ c_writer (i_call f') = c_writer (i_call f) /\
  c_skip (i_call f') = c_skip (i_call f).
Proof. exact header_keeps_fresh. Qed.

(** Single-call API ([Call::with_body], [c0 = call_new r new_chunked]): while the head is being written a
    [Call<WithBody>::write] consumes no input whatever is offered, and the call it returns is still in the
    head or is the analysed call in the body phase, whose state is again [body_state_of]. *)
Theorem c18_call_head_step : forall c0 c input cap c' n out,
  fresh c0 -> call_invalid c0 = false -> sendable c0 ->
  in_head c0 c -> call_write_body c input cap = Ok (c', n, out) ->
  n = 0 /\ (in_head c0 c' \/ at_body c0 c').
Proof. exact head_write_step. Qed.

Theorem c18_call_at_body : forall c0 c,
  at_body c0 c -> c_writer c0 = new_chunked -> body_state_of c0 c.
Proof. exact at_body_state. Qed.

Theorem c18_head_defs : forall c0 c,
  (in_head c0 c <-> c = c0 \/ exists p, is_prelude p = true /\ c = set_phase (analysed_call c0) p) /\
  (at_body c0 c <-> c = set_phase (analysed_call c0) PBody).
Proof. intros; split; reflexivity. Qed.

(** Examples REACHED BY RUNNING THE MODEL (no hand-built records): a POST through the Script operations
    new / proceed / write_head 30 (request line only) / write_head 1000 / proceed. *)
Definition ex18_uri : uri := {| u_scheme := s2b "http"; u_auth := s2b "a.test"; u_pq := s2b "/up" |}.
Definition ex18_post (hs : list header) : request :=
  {| rq_method := POST; rq_version := V11; rq_uri := ex18_uri; rq_headers := hs |}.
Definition ex18_ops (hs : list header) : list op :=
  [ONew (ex18_post hs); OProceed; OWriteHead 30; OWriteHead 1000; OProceed].

(** No framing header: chunked.  10548 bytes of room advertise 10532 bytes; all of them are consumed by one
    [Flow<SendBody>::write] (two chunks, 10547 bytes out) and the flow is unchanged. *)
Example c18_reached_chunked :
  match s_obj (run_ops s_init (ex18_ops [])) with
  | ObFlow TSendBody f =>
      i_holder f = HWithBody /\ chunked_body (i_call f) false /\
      send_body_max_input f 10548 = Ok 10532 /\
      (let input := repeat 97 (N.to_nat 10532) in
       match send_body_write f input 10548 with
       | Ok (f', used, out) => f' = f /\ used = 10532 /\ len out = 10547
       | _ => False
       end)
  | _ => False
  end.
Proof. vm_compute. repeat split. Qed.

(** Content-Length: 5 -- sized with 5 left; a 4-byte buffer advertises 4 and 4 bytes are consumed and
    forwarded verbatim. *)
Example c18_reached_sized :
  match s_obj (run_ops s_init (ex18_ops [(s2b "content-length", s2b "5")])) with
  | ObFlow TSendBody f =>
      i_holder f = HWithBody /\ sized_body (i_call f) 5 false /\
      send_body_max_input f 4 = Ok 4 /\
      match send_body_write f (s2b "abcd") 4 with
      | Ok (f', used, out) => used = 4 /\ out = s2b "abcd" /\ sized_body (i_call f') 1 false
      | _ => False
      end
  | _ => False
  end.
Proof. vm_compute. repeat split. Qed.

(** The unrestricted reading refuted on that flow: a 10-byte buffer advertises 10, but 10 bytes are more than
    the 5 the request announced: refused, nothing consumed. *)
Theorem c18_sized_unrestricted_refuted :
  exists f n input,
    s_obj (run_ops s_init (ex18_ops [(s2b "content-length", s2b "5")])) = ObFlow TSendBody f /\
    send_body_max_input f n = Ok (len input) /\
    send_body_write f input n = Err BodyLargerThanContentLength.
Proof.
  eexists. exists 10, (s2b "0123456789"). split; [vm_compute; reflexivity|]. split; vm_compute; reflexivity.
Qed.

(** The hypotheses of [c18_send_body_reached] hold for the flow [Flow::new] returns for that request and the
    head writes of the script, and the conclusion is what the script reached. *)
Example c18_reached_nonvacuous :
  match flow_new (ex18_post [(s2b "content-length", s2b "5")]) with
  | Ok f0 =>
      fresh_flow f0 /\ i_holder f0 = HWithBody /\ c_writer (i_call f0) = new_chunked /\
      call_invalid (i_call f0) = false /\ sendable (i_call f0) /\
      has_chunked_te (c_req (i_call f0)) = false /\ cls (c_req (i_call f0)) = [s2b "5"] /\
      dec_value (s2b "5") = 5 /\
      fw_out (fwrun f0 [30; 1000]) =
        s2b "POST /up HTTP/1.1" ++ CRLF ++ s2b "host: a.test" ++ CRLF ++ s2b "content-length: 5" ++ CRLF ++ CRLF /\
      exists f', send_request_proceed (fw_flow (fwrun f0 [30; 1000])) = Ok (Some (TSendBody, f')) /\
                 s_obj (run_ops s_init (ex18_ops [(s2b "content-length", s2b "5")])) = ObFlow TSendBody f'
  | _ => False
  end.
Proof.
  vm_compute. repeat split; auto; try discriminate. eexists. split; reflexivity.
Qed.

(** Through Expect: 100-continue and a 100 response as well. *)
Example c18_reached_100 :
  match s_obj (run_ops s_init
          [ONew (ex18_post [(s2b "expect", s2b "100-continue"); (s2b "content-length", s2b "7")]); OProceed;
           OWriteHead 1000; OProceed; ORawTry100 (s2b "HTTP/1.1 100 Continue" ++ CRLF ++ CRLF); OProceed]) with
  | ObFlow TSendBody f => i_holder f = HWithBody /\ sized_body (i_call f) 7 false
  | _ => False
  end.
Proof. vm_compute. repeat split. Qed.

(** Link to property C09: its flow invariant for the SendBody state ([C09_inv.Inv TSendBody], established by
    [c09_history] for every flow a Script history holds in SendBody) implies the state predicates used here, up to
    the finished flag (the invariant does not record whether the body has been finished already). *)
From Hoot.proofs Require C09_inv C18_inv.
Theorem c18_inv_send_body : forall f,
  C09_inv.Inv TSendBody f ->
  i_holder f = HWithBody /\
  exists e, chunked_body (i_call f) e \/ exists n, sized_body (i_call f) n e.
Proof. exact C18_inv.inv_send_body_state. Qed.

Print Assumptions c18_hexlen.
Print Assumptions c18_fit_cases.
Print Assumptions c18_fit_sound.
Print Assumptions c18_fit_spec.
Print Assumptions c18_write_chunk.
Print Assumptions c18_consumed_len_only.
Print Assumptions c18_consumed_n_unfold.
Print Assumptions c18_write_chunked.
Print Assumptions c18_fits.
Print Assumptions c18_fits_call.
Print Assumptions c18_le.
Print Assumptions c18_mono.
Print Assumptions c18_sized.
Print Assumptions c18_sized_fits.
Print Assumptions c18_advertised.
Print Assumptions c18_nonvacuous.
Print Assumptions c18_code_calculate_max_input.
Print Assumptions c18_code_max_chunk_fit.
Print Assumptions c18_sized_accepted.
Print Assumptions c18_sized_refused.
Print Assumptions c18_sized_fits_call.
Print Assumptions c18_fits_flow_chunked.
Print Assumptions c18_fits_flow_sized.
Print Assumptions c18_flow_sized_refused.
Print Assumptions c18_body_state_def.
Print Assumptions c18_send_body_reached.
Print Assumptions c18_send_body_reached_100.
Print Assumptions c18_body_state_cases.
Print Assumptions c18_flow_new_with_body.
Print Assumptions c18_despite_with_body.
Print Assumptions c18_header_keeps_fresh.
Print Assumptions c18_call_head_step.
Print Assumptions c18_call_at_body.
Print Assumptions c18_head_defs.
Print Assumptions c18_reached_chunked.
Print Assumptions c18_reached_sized.
Print Assumptions c18_sized_unrestricted_refuted.
Print Assumptions c18_reached_nonvacuous.
Print Assumptions c18_reached_100.
Print Assumptions c18_inv_send_body.

(* ================================================================== Flow<SendBody>::calculate_max_input itself (translated from the source) *)
(** The flow-level function the caller asks -- the whole output buffer for a sized body, body.rs calculate_max_input for a chunked
    one -- is translated on every run (theories/Gen2.v, [gen_flow_calculate_max_input]) and is the model's [send_body_max_input]
    (proofs/Gen2_equiv_small_maxinput.v). *)
From Hoot Require Import GenLib Gen2.
From Hoot.proofs Require Import Gen2_equiv_small_maxinput.
Theorem c18_code_flow_calculate_max_input : forall f n,
  i_holder f = HWithBody ->
  send_body_max_input f n = Ok (gen_flow_calculate_max_input (w_is_chunked (c_writer (i_call f))) n).
Proof. exact gen_flow_calculate_max_input_eq. Qed.
Print Assumptions c18_code_flow_calculate_max_input.
