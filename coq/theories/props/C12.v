(** Property C12 -- No server byte sequence can panic, hang or desynchronise the client.

    "For arbitrary - malformed, truncated, hostile - server bytes offered in any pieces to any
    server-facing call (awaiting 100, receiving the head, reading the body in any framing), each call
    returns normally with either an error or counts that satisfy consumed <= offered and produced <=
    output space, every produced byte is a copy of a consumed input byte in order, and
    state-advancing calls made afterwards do not panic either."

    Statements only; proofs are in proofs/C12_chunk.v, C12_parsers.v, C12_flow.v, C12_after_err.v,
    C12_session.v.

    Errors.  After an [Err] the caller still holds its flow.  For every call but one that flow is
    the one it had.  The exception is a failed body read: the Rust [Dechunker] is mutated in place, so
    the decoder inside the flow stays in the state it had reached at the failing transition.  The
    model has that state as [recv_body_after_err f w cap] (Flow.v; validated against the crate), and
    the "calls made afterwards" clauses below ([c12_after_error_state],
    [c12_schedule_through_errors], [c12_then_proceed_body], [c12_session]) are stated from it.
    The flow-level theorems carry explicit preconditions (holder variant, duplicate-free close
    reasons, reader present and not in the transient Trailer state).  proofs/C12_inv.v (not imported
    here, so that this file does not depend on work in progress) derives each of them from the
    general flow invariant [Inv] of proofs/C09_inv.v and restates the theorems as [Inv t f -> ...].

    How the three clauses are expressed.  In the model every Rust panic site is a value [Panic site],
    and the two fuelled loops of the chunked decoder ([parse_input_loop], [read_chunked_loop]) return
    [Panic] when their fuel runs out.  [res] has no other constructor than [Ok], [Err], [Panic].
    Hence "the result is not [Panic]" means at the same time: no panic, AND the loop terminated
    within its fuel, i.e. the termination measure used in the proof bounds the number of iterations of
    the Rust loop with the same guard and body (no hang).  "No desynchronisation" is the counts clause:
    [consumed <= len w], [len out <= cap], [subseq out (take consumed w)].

    Every theorem quantifies over EVERY byte list [w] (no well-formedness), every capacity and every
    stop flag. *)
From Hoot Require Import Base Chunk Body Httparse Parser Url Request Call Flow.
From Hoot.proofs Require Import Reasons C05_stable C12_chunk C12_parsers C12_flow C12_after_err C12_session.
Open Scope N_scope.

(** [subseq a l] (defined in proofs/C12_chunk.v): [a] is obtained from [l] by deleting elements,
    order kept:
      subseq [] l;   subseq a l -> subseq (x :: a) (x :: l);   subseq a l -> subseq a (x :: l).
    [dech_ok d := d <> DTrailer]: the decoder states that can exist between two calls ([DTrailer]
    is transient inside [parse_input]); [reader_ok r] is [dech_ok] for a chunked reader and [True]
    for the other three. *)

(* ------------------------------------------------------------------ body readers *)

(** The chunked decoder, one call, arbitrary bytes.  Includes fuel sufficiency of both loops. *)
Theorem c12_dechunk : forall d w cap stop,
  d <> DTrailer ->
  match read_chunked d w cap stop with
  | Panic _ => False
  | Err _ => True
  | Ok (d', i, out) =>
      (i <= len w /\ len out <= cap /\ subseq out (take i w)) /\ d' <> DTrailer
  end.
Proof. exact read_chunked_safe. Qed.

(** Any reader, one call: never a panic; on success the counts are bounded, the output is an in-order
    copy of consumed bytes, the framing does not change (a length reader counts down by exactly what
    it consumed) and the new reader is again a between-calls reader, so the statement iterates. *)
Theorem c12_read : forall r w cap stop,
  reader_ok r ->
  match reader_read r w cap stop with
  | Panic _ => False
  | Err _ => True
  | Ok (r', i, out) =>
      i <= len w /\ len out <= cap /\ subseq out (take i w) /\ reader_ok r' /\
      match r, r' with
      | RNoBody, RNoBody | RClose, RClose | RChunked _, RChunked _ => True
      | RLength a, RLength b => b = a - i
      | _, _ => False
      end
  end.
Proof. exact reader_read_safe. Qed.

Theorem c12_read_chunked : forall d w cap stop,
  d <> DTrailer ->
  match reader_read (RChunked d) w cap stop with
  | Panic _ => False
  | Err _ => True
  | Ok (r', i, out) =>
      i <= len w /\ len out <= cap /\ subseq out (take i w) /\
      exists d', r' = RChunked d' /\ d' <> DTrailer
  end.
Proof.
  intros d w cap stop Hd. pose proof (reader_read_safe (RChunked d) w cap stop Hd) as H.
  destruct (reader_read (RChunked d) w cap stop) as [[[r' i] out]|e|s]; try exact H.
  destruct H as (H1 & H2 & H3 & H4 & H5). destruct r'; try contradiction. eauto 8.
Qed.

(** Why [d <> DTrailer] is there: the Trailer state is entered and left inside one call (from Ending,
    on a non-empty line) and never survives a call -- that is the conclusion [d' <> DTrailer] above;
    started in it from outside, an empty line would reach [assert!(i > 0)]. *)
Theorem c12_trailer_state_excluded :
  exists s, reader_read (RChunked DTrailer) [13; 10] 10 false = Panic s.
Proof. exact trailer_state_would_panic. Qed.

(** Length- and close-delimited bodies and "no body": always [Ok], output = the consumed prefix. *)
Theorem c12_read_length : forall lft w cap stop,
  exists i, reader_read (RLength lft) w cap stop = Ok (RLength (lft - i), i, take i w) /\
            i <= len w /\ i <= cap /\ i <= lft /\ len (take i w) = i.
Proof. exact read_length_exact. Qed.

Theorem c12_read_close : forall w cap stop,
  exists i, reader_read RClose w cap stop = Ok (RClose, i, take i w) /\
            i <= len w /\ i <= cap /\ len (take i w) = i.
Proof. exact read_close_exact. Qed.

Theorem c12_read_nobody : forall w cap stop, reader_read RNoBody w cap stop = Ok (RNoBody, 0, []).
Proof. exact read_nobody_exact. Qed.

(** Any schedule: any number of calls with arbitrary (window, capacity, stop flag) each; no call
    panics and every successful call satisfies the bounds ([sched_safe] unfolds to exactly that,
    stopping at the first [Err]). *)
Theorem c12_schedule : forall sched r, reader_ok r -> sched_safe r sched.
Proof. exact sched_safe_all. Qed.

(* ------------------------------------------------------------------ head parsers *)

(** [ParseSafe w x]: [x] is not a panic, and if it is a complete head then [used <= len w]. *)
Theorem c12_parsers : forall slots w,
  ParseSafe w (try_parse_response slots w) /\
  ParseSafe w (try_parse_request slots w) /\
  match try_parse_partial_response slots w with Panic _ => False | _ => True end.
Proof.
  intros. split; [apply try_parse_response_safe|split; [apply try_parse_request_safe|apply try_parse_partial_response_safe]].
Qed.

(** Termination of the one fuelled loop of the httparse model, which reports "out of fuel" as
    [Partial] rather than as a panic: every header line consumes at least one byte, so any fuel above
    the input length gives the same result -- the fuel bound is never what stops the loop. *)
Theorem c12_headers_fuel : forall fuel slots b,
  (List.length b < fuel)%nat -> headers_loop fuel slots b = parse_headers slots b.
Proof. exact parse_headers_fuel. Qed.

(** The httparse -> http bridge (F12 as repaired): on everything httparse stores, for every input,
    the model's [builder_ok] is exactly the verdict of [HeaderName::from_bytes] /
    [HeaderValue::from_bytes] (byte classes included, names non-empty), so the only refusal is a
    name longer than [MAX_HEADER_NAME_LEN], and that refusal is an [Err], never a panic. *)
Theorem c12_builder_exact : forall slots w,
  builder_ok (hv_headers (snd (parse_response slots w))) =
  forallb http_accepts (hv_headers (snd (parse_response slots w))) /\
  builder_ok (until_empty_value (hv_headers (snd (parse_response slots w)))) =
  forallb http_accepts (until_empty_value (hv_headers (snd (parse_response slots w)))).
Proof. exact builder_model_exact_response. Qed.

Theorem c12_builder_exact_request : forall slots w,
  builder_ok (hq_headers (snd (parse_request slots w))) =
  forallb http_accepts (hq_headers (snd (parse_request slots w))).
Proof. exact builder_model_exact_request. Qed.

Theorem c12_builder_failure_is_error : forall slots w n v,
  parse_response slots w = (SComplete n, v) ->
  builder_ok (hv_headers v) = false ->
  (exists h, In h (hv_headers v) /\ MAX_HEADER_NAME_LEN < len (fst h)) /\
  match try_parse_response slots w with Ok _ => False | Err _ => True | Panic _ => False end.
Proof. exact builder_failure_is_error. Qed.

(** httparse never stores more fields than it has slots. *)
Theorem c12_at_most_slots : forall slots w,
  (List.length (hv_headers (snd (parse_response slots w))) <= slots)%nat.
Proof. intros. apply response_view_fields. Qed.

(* ------------------------------------------------------------------ Call level *)

(** [Call<RecvBody>::read]: the reader is present and between calls (that is what the flow invariant
    provides in RecvBody); never a panic, counts bounded, and the call is again in such a state. *)
Theorem c12_call_read : forall c r w cap,
  c_reader c = Some r -> reader_ok r ->
  match call_read c w cap with
  | Panic _ => False
  | Err _ => True
  | Ok (c', i, out) =>
      i <= len w /\ len out <= cap /\ subseq out (take i w) /\
      exists r', c' = set_reader c (Some r') /\ reader_ok r'
  end.
Proof. exact call_read_safe. Qed.

(** [Call<RecvResponse>::try_response], any call state, any bytes ([TryResponseSafe] unfolds to: not
    a panic; "need more" leaves the call unchanged; a head reports [used <= len w] -- the
    partial-redirect fallback reports [used = len w] -- and the only change to the call is that a
    between-calls reader may have been installed). *)
Theorem c12_call_try_response : forall c w, TryResponseSafe c w (call_try_response c w).
Proof. exact call_try_response_safe. Qed.

(* ------------------------------------------------------------------ Flow level *)

(** A duplicate-free close-reason list fits the array ([CLOSE_REASON_CAP] comes from the sources via
    Constants.v); every theorem below preserves [NoDup (i_reasons _)], so the list never overflows
    (F11 as repaired). *)
Theorem c12_reasons : forall rs : list reason, NoDup rs -> len rs <= CLOSE_REASON_CAP.
Proof. exact reasons_within_cap. Qed.

(** [try_read_100].  [Try100Safe f w (f', x)] unfolds to: [x] is not a panic, [Ok n] has
    [n <= len w], and [f'] keeps duplicate-free reasons, the call, the holder, status and location.
    [parses_100 w]: the zero-slot parser sees a complete head with status 100 in [w]. *)
Theorem c12_try100 : forall f w,
  NoDup (i_reasons f) -> i_should_send_body f = true -> Try100Safe f w (try_read_100 f w).
Proof. exact try100_safe. Qed.

(** The same with the weakest precondition: the only panic of [try_read_100] is
    [assert!(should_send_body)], met exactly when a 100 arrives after a refusal ... *)
Theorem c12_try100_gen : forall f w,
  NoDup (i_reasons f) -> ~ (i_should_send_body f = false /\ parses_100 w) ->
  Try100Safe f w (try_read_100 f w).
Proof. exact try100_safe_gen. Qed.

Theorem c12_try100_misuse : forall f w,
  i_should_send_body f = false -> parses_100 w -> exists s, snd (try_read_100 f w) = Panic s.
Proof. exact try100_misuse. Qed.

(** ... which cannot happen when the caller re-presents unconsumed bytes: [should_send_body] is
    cleared only by a refusal on some window [w], which consumes nothing; every later window
    [w ++ x] refuses again (stability of the head parser on arbitrary bytes, proofs/C05_stable.v),
    returns [Ok 0] and leaves the flow unchanged. *)
Theorem c12_try100_cleared_only_by_refusal : forall f w f' x,
  try_read_100 f w = (f', x) -> i_should_send_body f = true -> i_should_send_body f' = false ->
  refusal_window w /\ x = Ok 0.
Proof. exact try100_cleared_only_by_refusal. Qed.

Theorem c12_try100_after_refusal : forall f w,
  NoDup (i_reasons f) -> refusal_window w ->
  exists f', try_read_100 f w = (f', Ok 0) /\
             i_should_send_body f' = false /\ NoDup (i_reasons f') /\
             forall x, try_read_100 f' (w ++ x) = (f', Ok 0).
Proof. exact try100_after_refusal. Qed.

(** The discipline as a schedule: the caller keeps the unconsumed bytes and appends whatever arrives
    (any byte lists); no call panics, every count is within its window, for every number of calls
    ([run100_safe] unfolds to that, stopping at the first error). *)
Theorem c12_discipline : forall f arrivals,
  NoDup (i_reasons f) -> i_should_send_body f = true -> run100_safe f [] arrivals.
Proof. exact run100_discipline. Qed.

(** [RecvResponse::try_response].  [RecvTrySafe f w x] unfolds to: [x] is not a panic; on success
    [used <= len w], the holder is still RecvResponse, the reasons are duplicate-free, a reader
    installed in the call is a between-calls reader, nothing else in the call changed. *)
Theorem c12_recv_try_response : forall f w,
  i_holder f = HRecvResponse -> NoDup (i_reasons f) -> RecvTrySafe f w (recv_try_response f w).
Proof. exact recv_try_response_safe. Qed.

(** [RecvBody::read]. *)
Theorem c12_recv_body_read : forall f r w cap,
  i_holder f = HRecvBody -> c_reader (i_call f) = Some r -> reader_ok r ->
  match recv_body_read f w cap with
  | Panic _ => False
  | Err _ => True
  | Ok (f', i, out) =>
      i <= len w /\ len out <= cap /\ subseq out (take i w) /\
      exists r', f' = set_call f (set_reader (i_call f) (Some r')) /\ reader_ok r'
  end.
Proof. exact recv_body_read_safe. Qed.

(** Any sequence of body reads (arbitrary windows and capacities) interleaved with changes of the
    stop-on-chunk-boundary flag. *)
Theorem c12_body_schedule : forall ops f r,
  i_holder f = HRecvBody -> c_reader (i_call f) = Some r -> reader_ok r -> body_run_safe f ops.
Proof. exact body_run_safe_all. Qed.

(** The state a FAILED body read really leaves ([recv_body_after_err], see the header): it satisfies
    the preconditions of [c12_recv_body_read], [c12_body_schedule], [c12_then_proceed_body] again
    (holder RecvBody, reader present and between calls, reasons unchanged), so all of them apply to
    it; only the reader of the call differs from [f], and that reader is chunked and waits for a size
    line or for the CRLF behind a chunk -- the only two transitions of the decoder that can fail. *)
Theorem c12_after_error_state : forall f r w cap e,
  i_holder f = HRecvBody -> c_reader (i_call f) = Some r -> reader_ok r ->
  recv_body_read f w cap = Err e ->
  exists r',
    recv_body_after_err f w cap = set_call f (set_reader (i_call f) (Some r')) /\
    (r' = RChunked DSize \/ r' = RChunked DCrLf) /\
    i_holder (recv_body_after_err f w cap) = HRecvBody /\
    c_reader (i_call (recv_body_after_err f w cap)) = Some r' /\
    reader_ok r' /\
    i_reasons (recv_body_after_err f w cap) = i_reasons f.
Proof. exact after_error_state. Qed.

(** The decoder level of the same fact: a failed [read_chunked] from a between-calls state records
    [DSize] or [DCrLf] (never the transient Trailer state), and a reader keeps its kind. *)
Theorem c12_after_error_decoder : forall d w cap stop e,
  d <> DTrailer -> read_chunked d w cap stop = Err e ->
  reader_after_err (RChunked d) w cap stop = RChunked DSize \/
  reader_after_err (RChunked d) w cap stop = RChunked DCrLf.
Proof. exact after_error_decoder. Qed.

Theorem c12_after_error_reader : forall r w cap stop,
  reader_ok r ->
  reader_ok (reader_after_err r w cap stop) /\ reader_mode (reader_after_err r w cap stop) = reader_mode r.
Proof. exact reader_after_err_ok12. Qed.

(** Any schedule that carries on THROUGH errors: any number of reads with arbitrary (window,
    capacity); after each failing read the state continues as [recv_body_after_err] (exactly what
    [Script.do_read] does, and what the Rust caller holds).  No call panics and every successful call
    satisfies the count bounds: [reads_through_errors f sched] unfolds to
      match recv_body_read f w cap with
      | Panic _ => False
      | Err _ => reads_through_errors (recv_body_after_err f w cap) rest
      | Ok (f', i, out) => i <= len w /\ len out <= cap /\ subseq out (take i w) /\
                           reads_through_errors f' rest
      end. *)
Theorem c12_schedule_through_errors : forall sched f r,
  i_holder f = HRecvBody -> c_reader (i_call f) = Some r -> reader_ok r -> reads_through_errors f sched.
Proof. exact reads_through_errors_all. Qed.

(** The same with changes of the stop-on-chunk-boundary flag interleaved ([body_run_through_errors]
    is [body_run_safe] with the [Err] case continuing from [recv_body_after_err]). *)
Theorem c12_body_schedule_through_errors : forall ops f r,
  i_holder f = HRecvBody -> c_reader (i_call f) = Some r -> reader_ok r -> body_run_through_errors f ops.
Proof. exact body_run_through_errors_all. Qed.

(** State-advancing calls after a server-facing call, whatever that call returned (for an [Err] the
    caller still holds its flow: the one it had, except after a failed body read, where it is
    [recv_body_after_err]; [try_read_100] hands the flow back in every case).
    Explicit preconditions here; proofs/C12_inv.v derives them from the flow invariant of C09. *)
Theorem c12_then_proceed_100 : forall f w,
  NoDup (i_reasons f) -> i_holder f = HWithBody -> c_analyzed (i_call f) = true ->
  ~ (i_should_send_body f = false /\ parses_100 w) ->
  Try100Safe f w (try_read_100 f w) /\
  exists t f'', await_100_proceed (fst (try_read_100 f w)) = Ok (t, f'').
Proof. exact then_proceed_100. Qed.

Theorem c12_then_proceed_response : forall f w,
  i_holder f = HRecvResponse -> NoDup (i_reasons f) -> call_ok (i_call f) ->
  RecvTrySafe f w (recv_try_response f w) /\
  let f1 := match recv_try_response f w with Ok (f', _, _) => f' | _ => f end in
  match recv_response_proceed f1 with
  | Panic _ => False
  | Err _ => False
  | Ok None => True
  | Ok (Some (t, f2)) =>
      i_holder f2 = HRecvBody /\ NoDup (i_reasons f2) /\
      (exists r, c_reader (i_call f2) = Some r /\ reader_ok r) /\
      (t = TRecvBody \/ (t = TRedirect /\ is_redirect f2 = true) \/ t = TCleanup)
  end.
Proof. exact then_proceed_response. Qed.

(** (Adapted when the model was made faithful to the in-place mutation of the decoder: after an
    [Err] the flow [proceed] is called on is [recv_body_after_err f w cap], not [f].) *)
Theorem c12_then_proceed_body : forall f r w cap,
  i_holder f = HRecvBody -> c_reader (i_call f) = Some r -> reader_ok r ->
  let f1 := match recv_body_read f w cap with
            | Ok (f', _, _) => f'
            | _ => recv_body_after_err f w cap
            end in
  match recv_body_proceed f1 with
  | Panic _ => False
  | Err _ => False
  | Ok None => True
  | Ok (Some (t, f2)) => f2 = f1 /\ ((t = TRedirect /\ is_redirect f1 = true) \/ t = TCleanup)
  end.
Proof. exact then_proceed_body_real. Qed.

(** Following a redirect: no panic provided a status was recorded (it is, in Redirect), the base URI
    has a scheme and the request has not already been moved out by an earlier [as_new_flow] (calling
    it twice is the known finding F18, outside this property). *)
Theorem c12_then_redirect : forall f policy s,
  i_status f = Some s ->
  u_scheme (am_eff_uri (c_req (i_call f))) <> [] ->
  am_req (c_req (i_call f)) <> None ->
  match as_new_flow f policy with Panic _ => False | _ => True end.
Proof. exact as_new_flow_safe. Qed.

(* ------------------------------------------------------------------ whole sessions *)

(** Any sequence of server-facing calls and [proceed]s from Await100, RecvResponse or RecvBody, with
    arbitrary bytes each time: no call panics, every successful call satisfies the bounds, and this
    remains true after calls that returned an error (after a failed body read the session continues
    from [recv_body_after_err f w cap], the state the failed call really leaves).  [session_safe]
    (proofs/C12_session.v) unfolds
    to exactly that; operations the typestate does not offer are skipped; the only excluded situation
    is the misuse of [try_read_100] characterised above ([c12_try100_misuse], unreachable under
    [c12_discipline]).  [Srv t f] is the per-state precondition:
      Await100:     NoDup reasons, holder WithBody, request analysed, reader (if any) between calls;
      RecvResponse: NoDup reasons, holder RecvResponse, reader (if any) between calls;
      RecvBody:     NoDup reasons, holder RecvBody, reader present and between calls. *)
Theorem c12_session : forall ops t f, Srv t f -> session_safe t f ops.
Proof. exact session_safe_all. Qed.

(* ------------------------------------------------------------------ non-vacuity *)

(** Hostile inputs evaluated in the model. *)

(** 17 hex digits: overflow of the chunk size is an error, not a panic. *)
Example c12_nonvacuous_overflow :
  reader_read (RChunked DSize) (s2b "FFFFFFFFFFFFFFFFF" ++ [13; 10]) 100 false = Err ChunkLenNotANumber.
Proof. vm_compute. reflexivity. Qed.

(** A size line with a byte >= 0x80. *)
Example c12_nonvacuous_nonascii :
  reader_read (RChunked DSize) ([53; 128; 13; 10] ++ s2b "hello") 100 false = Err ChunkLenNotAscii.
Proof. vm_compute. reflexivity. Qed.

(** "5\r\nhel" is delivered as far as it goes; garbage instead of the CRLF after the data is an error. *)
Example c12_nonvacuous_garbage :
  reader_read (RChunked DSize) ([53; 13; 10] ++ s2b "hel") 100 false = Ok (RChunked (DChunk 2), 6, s2b "hel") /\
  reader_read (RChunked (DChunk 2)) (s2b "lo") 100 false = Ok (RChunked DCrLf, 2, s2b "lo") /\
  reader_read (RChunked DCrLf) (s2b "XX" ++ [13; 10]) 100 false = Err ChunkExpectedCrLf /\
  reader_read (RChunked (DChunk 2)) (s2b "loXX" ++ [13; 10]) 100 false = Err ChunkExpectedCrLf /\
  sched_safe (RChunked DSize)
    [([53; 13; 10] ++ s2b "hel", 100, false); (s2b "lo", 100, true); (s2b "XX" ++ [13; 10], 1, false)].
Proof.
  split; [vm_compute; reflexivity|]. split; [vm_compute; reflexivity|].
  split; [vm_compute; reflexivity|]. split; [vm_compute; reflexivity|].
  apply sched_safe_all. exact reader_ok_start.
Qed.

(** The output space limits what is produced; a trailer section is skipped without a panic. *)
Example c12_nonvacuous_trailer :
  reader_read (RChunked DSize) ([51; 13; 10] ++ s2b "abc" ++ [13; 10; 48; 13; 10] ++ s2b "X: y" ++ [13; 10; 13; 10] ++ s2b "rest") 2 false
  = Ok (RChunked (DChunk 1), 5, s2b "ab") /\
  reader_read (RChunked (DChunk 1)) (s2b "c" ++ [13; 10; 48; 13; 10] ++ s2b "X: y" ++ [13; 10; 13; 10] ++ s2b "rest") 2 false
  = Ok (RChunked DEnded, 14, s2b "c").
Proof. split; vm_compute; reflexivity. Qed.

(** Heads: an invalid field name, a field line that is too many for the slots, a bad status. *)
Example c12_nonvacuous_heads :
  try_parse_response 4 (s2b "HTTP/1.1 200 OK" ++ [13; 10] ++ s2b "a b: c" ++ [13; 10; 13; 10]) = Err HttpParseFail /\
  try_parse_response 0 (s2b "HTTP/1.1 200 OK" ++ [13; 10] ++ s2b "a: c" ++ [13; 10; 13; 10]) = Err HttpParseTooManyHeaders /\
  try_parse_response 4 (s2b "HTTP/1.1 099 OK" ++ [13; 10; 13; 10]) = Err ResponseInvalidStatus /\
  try_parse_response 4 (s2b "HTTP/1.1 2") = Ok None /\
  try_parse_request 4 ([128] ++ s2b "GET / HTTP/1.1" ++ [13; 10; 13; 10]) = Err HttpParseFail.
Proof. repeat split; vm_compute; reflexivity. Qed.

(** Flow level.  A POST flow waiting for 100-continue, a flow waiting for the head, a flow reading a
    chunked body; each already carries one close reason. *)
Definition demo_call (p : phase) (r : option reader) : call :=
  {| c_req := am_new placeholder; c_analyzed := true; c_phase := p;
     c_writer := new_chunked; c_reader := r; c_skip := false; c_stop := false |}.
Definition demo_flow (h : holder) (p : phase) (r : option reader) : inner :=
  {| i_call := demo_call p r; i_holder := h; i_reasons := [Http10];
     i_should_send_body := true; i_await_100 := true; i_status := None; i_location := None |}.
Definition forbidden : bytes := s2b "HTTP/1.1 403 Forbidden" ++ [13; 10; 13; 10].
Definition continue100 : bytes := s2b "HTTP/1.1 100 Continue" ++ [13; 10; 13; 10].

(** F11 (a) replayed: five refusals in a row, the fourth even followed by a 100: one reason, no panic. *)
Example c12_nonvacuous_try100 :
  let f0 := demo_flow HWithBody PBody None in
  let f1 := fst (try_read_100 f0 forbidden) in
  let f2 := fst (try_read_100 f1 forbidden) in
  let f3 := fst (try_read_100 f2 forbidden) in
  let f4 := fst (try_read_100 f3 (forbidden ++ continue100)) in
  NoDup (i_reasons f0) /\ i_should_send_body f0 = true /\ refusal_window forbidden /\
  snd (try_read_100 f0 forbidden) = Ok 0 /\
  snd (try_read_100 f3 (forbidden ++ continue100)) = Ok 0 /\
  snd (try_read_100 f4 forbidden) = Ok 0 /\
  i_reasons (fst (try_read_100 f4 forbidden)) = [Http10; Not100Continue] /\
  snd (try_read_100 f0 (continue100 ++ s2b "junk")) = Ok 25 /\
  snd (try_read_100 f0 (s2b "HTTP/1.1 1x0 Continue" ++ [13; 10; 13; 10])) = Err HttpParseFail /\
  (exists s, snd (try_read_100 f1 continue100) = Panic s) /\
  run100_safe f0 [] [s2b "HTTP/1.1 40"; s2b "3 Forbidden" ++ [13; 10; 13]; [10]; continue100].
Proof.
  cbv zeta. split; [repeat constructor; cbn; intuition discriminate|].
  split; [reflexivity|]. split; [vm_compute; discriminate|].
  repeat (split; [vm_compute; reflexivity|]).
  split; [eexists; vm_compute; reflexivity|].
  apply run100_discipline; [repeat constructor; cbn; intuition discriminate|reflexivity].
Qed.

(** Heads offered to [RecvResponse::try_response]: a non-numeric length, a NUL in a field name, a
    chunked head with Connection: close, a truncated redirect (fallback, [used = len w]). *)
Example c12_nonvacuous_recv_response :
  let g0 := demo_flow HRecvResponse PRecvResponse None in
  recv_try_response g0 (s2b "HTTP/1.1 200 OK" ++ [13; 10] ++ s2b "Content-Length: +5" ++ [13; 10; 13; 10])
    = Err BadContentLengthHeader /\
  recv_try_response g0 (s2b "HTTP/1.1 200 OK" ++ [13; 10] ++ s2b "a" ++ [0] ++ s2b ": b" ++ [13; 10; 13; 10])
    = Err HttpParseFail /\
  (exists f' o, recv_try_response g0 (s2b "HTTP/1.1 200 OK" ++ [13; 10] ++ s2b "Transfer-Encoding: chunked" ++ [13; 10] ++
                                      s2b "Connection: close" ++ [13; 10; 13; 10] ++ s2b "zz") = Ok (f', 66, o) /\
     c_reader (i_call f') = Some (RChunked DSize) /\ i_reasons f' = [Http10; ServerConnectionClose]) /\
  (exists f' o, recv_try_response g0 (s2b "HTTP/1.1 302 Found" ++ [13; 10] ++ s2b "Location: /x" ++ [13; 10] ++ s2b "Conn")
                = Ok (f', 38, o) /\ c_reader (i_call f') = Some RNoBody).
Proof.
  cbv zeta. split; [vm_compute; reflexivity|]. split; [vm_compute; reflexivity|].
  split; eexists _, _; vm_compute; repeat split; reflexivity.
Qed.

Example c12_nonvacuous_recv_body :
  let b0 := demo_flow HRecvBody PRecvBody (Some (RChunked DSize)) in
  recv_body_read b0 (s2b "FFFFFFFFFFFFFFFFF" ++ [13; 10]) 10 = Err ChunkLenNotANumber /\
  (exists f', recv_body_read b0 ([51; 13; 10] ++ s2b "abc" ++ [13; 10] ++ s2b "zz") 10 = Ok (f', 8, s2b "abc") /\
              c_reader (i_call f') = Some (RChunked DSize)) /\
  body_run_safe b0 [BRead ([51; 13; 10] ++ s2b "ab") 1; BStop true; BRead (s2b "bc" ++ [13; 10; 128; 13; 10]) 9].
Proof.
  cbv zeta. split; [vm_compute; reflexivity|].
  split; [eexists; vm_compute; split; reflexivity|].
  apply (body_run_safe_all _ _ (RChunked DSize)); [reflexivity|reflexivity|exact reader_ok_start].
Qed.

(** After a failed read.  Garbage instead of the CRLF behind a 3-byte chunk: the call fails, the
    three data bytes it had already decoded are lost to the caller (the error carries no counts), and
    the decoder stays in CrLf -- so the next window is read from THERE (a CRLF, then a chunk "hi"),
    whereas the flow as it was before the failed call would take the same window for a size line.
    A bad size line fails in Size and stays there.  The schedule runs through both errors. *)
Example c12_nonvacuous_after_error :
  let b0 := demo_flow HRecvBody PRecvBody (Some (RChunked DSize)) in
  let bad := [51; 13; 10] ++ s2b "abcXX" ++ [13; 10] in
  let next := [13; 10; 50; 13; 10] ++ s2b "hi" ++ [13; 10] in
  let huge := s2b "FFFFFFFFFFFFFFFFF" ++ [13; 10] in
  recv_body_read b0 bad 10 = Err ChunkExpectedCrLf /\
  c_reader (i_call (recv_body_after_err b0 bad 10)) = Some (RChunked DCrLf) /\
  (exists f', recv_body_read (recv_body_after_err b0 bad 10) next 10 = Ok (f', 9, s2b "hi") /\
              c_reader (i_call f') = Some (RChunked DSize)) /\
  recv_body_read b0 next 10 = Err ChunkLenNotANumber /\
  recv_body_read b0 huge 10 = Err ChunkLenNotANumber /\
  c_reader (i_call (recv_body_after_err b0 huge 10)) = Some (RChunked DSize) /\
  reads_through_errors b0 [(bad, 10); (next, 10); (huge, 3); (next, 1)] /\
  body_run_through_errors b0 [BRead bad 10; BStop true; BRead next 10; BRead huge 0].
Proof.
  cbv zeta. split; [vm_compute; reflexivity|]. split; [vm_compute; reflexivity|].
  split; [eexists; vm_compute; split; reflexivity|].
  split; [vm_compute; reflexivity|]. split; [vm_compute; reflexivity|]. split; [vm_compute; reflexivity|].
  split.
  - apply (reads_through_errors_all _ _ (RChunked DSize)); [reflexivity|reflexivity|exact reader_ok_start].
  - apply (body_run_through_errors_all _ _ (RChunked DSize)); [reflexivity|reflexivity|exact reader_ok_start].
Qed.

(** A whole hostile exchange: 100-continue wait refused by a 403 that arrives in pieces, the head
    re-read in RecvResponse (chunked, Connection: close), body reads with a bad chunk, proceeds
    everywhere, and operations the state does not offer. *)
Example c12_nonvacuous_session :
  let f0 := demo_flow HWithBody PBody None in
  let head := s2b "HTTP/1.1 403 Forbidden" ++ [13; 10] ++ s2b "Transfer-Encoding: chunked" ++ [13; 10] ++
              s2b "Connection: close" ++ [13; 10; 13; 10] in
  Srv TAwait100 f0 /\
  session_safe TAwait100 f0
    [OTry100 (s2b "HTTP/1.1 40"); ORead [1; 2; 3] 7; OTry100 head; OTry100 (head ++ s2b "zz"); OProceed;
     OProceed; OTryResponse (s2b "HTTP/1.1 40"); OTryResponse [0; 255]; OTryResponse (head ++ s2b "3");
     OProceed; ORead ([51; 13; 10] ++ s2b "ab") 1; OStop true; ORead (s2b "bc" ++ [13; 10; 128; 13; 10]) 9;
     OProceed; ORead [13; 10] 0; OProceed].
Proof.
  cbv zeta.
  assert (H : Srv TAwait100 (demo_flow HWithBody PBody None)).
  { cbn. split; [repeat constructor; cbn; intuition discriminate|].
    split; [reflexivity|]. split; [reflexivity|]. intros r Hr. discriminate Hr. }
  split; [exact H|]. apply session_safe_all. exact H.
Qed.

Print Assumptions c12_dechunk.
Print Assumptions c12_read.
Print Assumptions c12_read_chunked.
Print Assumptions c12_trailer_state_excluded.
Print Assumptions c12_read_length.
Print Assumptions c12_read_close.
Print Assumptions c12_read_nobody.
Print Assumptions c12_schedule.
Print Assumptions c12_parsers.
Print Assumptions c12_headers_fuel.
Print Assumptions c12_builder_exact.
Print Assumptions c12_builder_exact_request.
Print Assumptions c12_builder_failure_is_error.
Print Assumptions c12_at_most_slots.
Print Assumptions c12_nonvacuous_overflow.
Print Assumptions c12_nonvacuous_nonascii.
Print Assumptions c12_nonvacuous_garbage.
Print Assumptions c12_nonvacuous_trailer.
Print Assumptions c12_nonvacuous_heads.
Print Assumptions c12_call_read.
Print Assumptions c12_call_try_response.
Print Assumptions c12_reasons.
Print Assumptions c12_try100.
Print Assumptions c12_try100_gen.
Print Assumptions c12_try100_misuse.
Print Assumptions c12_try100_cleared_only_by_refusal.
Print Assumptions c12_try100_after_refusal.
Print Assumptions c12_discipline.
Print Assumptions c12_recv_try_response.
Print Assumptions c12_recv_body_read.
Print Assumptions c12_body_schedule.
Print Assumptions c12_after_error_state.
Print Assumptions c12_after_error_decoder.
Print Assumptions c12_after_error_reader.
Print Assumptions c12_schedule_through_errors.
Print Assumptions c12_body_schedule_through_errors.
Print Assumptions c12_nonvacuous_after_error.
Print Assumptions c12_then_proceed_100.
Print Assumptions c12_then_proceed_response.
Print Assumptions c12_then_proceed_body.
Print Assumptions c12_then_redirect.
Print Assumptions c12_nonvacuous_try100.
Print Assumptions c12_nonvacuous_recv_response.
Print Assumptions c12_nonvacuous_recv_body.
Print Assumptions c12_session.
Print Assumptions c12_nonvacuous_session.

(* ================================================================== the decoder's code itself (translated from the source) *)
(** The chunked decoder as it is in src/chunk.rs now (theories/Gen2.v, regenerated by tools/rs2coq2.py on every run) panics
    exactly when the model does (proofs/Gen2_equiv_chunk.v), so from every between-calls state it never panics on any bytes,
    never runs out of fuel (the loop of the translation carries the same fuel as the model's), and fails exactly when the model
    fails.  Trusted: the translator. *)
From Hoot Require Import GenLib Gen2.
From Hoot.proofs Require Import Gen2_equiv_chunk.
Theorem c12_code_decoder_no_panic : forall d src dst s,
  d <> DTrailer -> gen_dech_parse_input d src dst <> Panic s.
Proof.
  intros d src dst s Hd H.
  assert (Hp : exists s', parse_input d src (len dst) = Panic s') by (apply gen_parse_input_panic; eauto).
  destruct Hp as [s' Hp]. pose proof (parse_input_safe d src (len dst)) as Hs.
  rewrite Hp in Hs. apply Hs. exact Hd.
Qed.
Theorem c12_code_decoder_err : forall d src dst e,
  gen_dech_parse_input d src dst = Err e <-> parse_input d src (len dst) = Err e.
Proof. exact gen_parse_input_err. Qed.
Print Assumptions c12_code_decoder_no_panic.
Print Assumptions c12_code_decoder_err.

(** The same for the whole translated [BodyReader::read] (all four framings, outer chunked loop included): from every
    between-calls reader, on any bytes and any output buffer, the code never panics. *)
From Hoot.proofs Require Import Gen2_equiv_rel Gen2_equiv_reader Gen2_equiv_reader_chunked Gen2_equiv_reader_all Gen2_transport_read.
Theorem c12_code_read_no_panic : forall r src dst stop s,
  reader_ok r -> limit_fits r src dst -> gen_br_read r src dst stop <> Panic s.
Proof.
  intros r src dst stop s Hok Hf Hg.
  destruct (gen_read_panic_only_if_model r src dst stop s Hf Hg) as [s' Hm].
  pose proof (c12_read r src (len dst) stop Hok) as H. rewrite Hm in H. exact H.
Qed.
Print Assumptions c12_code_read_no_panic.

(** One level up: [Call<RecvBody>::read] of src/client/call.rs (the reader taken out of its option, the ended short-circuit, then
    [BodyReader::read]), translated on every run ([gen_call_read]), corresponds to the model's [call_read]
    (proofs/Gen2_equiv_call2.v): same reader afterwards, same counts, the output at the front of the buffer and nothing else touched. *)
From Hoot.proofs Require Import Gen2_equiv_call2_read.
Theorem c12_code_call_read : forall c input dst,
  match c_reader c with Some r => limit_fits r input dst | None => True end ->
  crd_rel dst (gen_call_read (c_reader c) (c_stop c) input dst) (call_read c input (len dst)).
Proof. exact gen_call_read_equiv. Qed.
Print Assumptions c12_code_call_read.
