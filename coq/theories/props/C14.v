(** Property C14 -- redirect target: the last Location is resolved against the current URI.
    Statements only.  Proofs: proofs/C14_proofs.v (flow level), proofs/C14_rfc.v (parsing),
    proofs/C14_rds.v (remove_dot_segments, merge), proofs/C14_resolve.v (normalisation, assembly),
    proofs/C14_script.v (the script language only performs the operations of [flow_step]).
    The independent transcription of RFC 3986 5.2 is proofs/C14_spec.v.

    Level note: this is a proof about the model.  [Url.resolve] models the url crate on the
    property's grammar only (see Url.v). *)
From Hoot Require Import Base Chunk Body Httparse Parser Url Request Call Flow Script.
From Hoot.proofs Require Import BytesLemmas C17_proofs C02_proofs C02_analysis C14_proofs.
From Hoot.proofs Require Import C14_spec C14_rfc C14_rds C14_resolve C14_script.
Open Scope N_scope.

(* ------------------------------------------------------------------ vocabulary *)

(** The URI of the request a flow is making ("current URI"): the override installed by a redirect
    if there is one, otherwise the URI of the request itself. *)
Theorem c14_cur_uri_def : forall f,
  cur_uri f = match am_uri (c_req (i_call f)) with
              | Some u => u
              | None => rq_uri (am_request (c_req (i_call f)))
              end.
Proof. reflexivity. Qed.

(** [flow_step f f']: one operation of the flow API between Prepare and Redirect, with any
    arguments, turns [f] into [f'] (in any state: the type-state discipline is over-approximated). *)
Theorem c14_flow_step_def : forall f f',
  flow_step f f' <->
  (exists k v, prepare_header f k v = Ok f') \/
  send_body_despite_method f = Ok f' \/
  (exists cap out, send_request_write f cap = Ok (f', out)) \/
  (exists t, send_request_proceed f = Ok (Some (t, f'))) \/
  (exists input r, try_read_100 f input = (f', r)) \/
  (exists t, await_100_proceed f = Ok (t, f')) \/
  (exists input cap used out, send_body_write f input cap = Ok (f', used, out)) \/
  (exists amount, send_body_direct f amount = Ok f') \/
  (exists t, send_body_proceed f = Ok (Some (t, f'))) \/
  (exists input used got, recv_try_response f input = Ok (f', used, got)) \/
  (exists t, recv_response_proceed f = Ok (Some (t, f'))) \/
  (exists input cap i o, recv_body_read f input cap = Ok (f', i, o)) \/
  (exists b, recv_body_stop f b = Ok f') \/
  (exists t, recv_body_proceed f = Ok (Some (t, f'))).
Proof. exact flow_step_def. Qed.

(** [flow_steps]: any number of such operations. *)
Theorem c14_flow_steps_def : forall f f',
  flow_steps f f' <-> f' = f \/ exists f1, flow_step f f1 /\ flow_steps f1 f'.
Proof. exact flow_steps_def. Qed.

(** [redirect_chain f locs fin]: starting from flow [f], every response selected the Location
    [loc_i], every redirect was followed, [fin] is the flow of the last hop; any operations in
    between. *)
Theorem c14_redirect_chain_def : forall f locs fin,
  redirect_chain f locs fin <->
  match locs with
  | [] => flow_steps f fin
  | loc :: rest =>
      exists f1 f1' p next,
        flow_steps f f1 /\ i_location f1 = Some loc /\ as_new_flow f1 p = Ok (f1', Some next) /\
        redirect_chain next rest fin
  end.
Proof. exact redirect_chain_def. Qed.

(* ------------------------------------------------------------------ resolved against the current URI *)

(** No operation between Prepare and Redirect changes the current URI (nor the request, nor the
    list of suppressed headers). *)
Theorem c14_step_preserves_uri : forall f f',
  flow_step f f' ->
  cur_uri f' = cur_uri f /\ am_req (c_req (i_call f')) = am_req (c_req (i_call f)) /\
  am_unset (c_req (i_call f')) = am_unset (c_req (i_call f)).
Proof. exact step_preserves. Qed.

(** [flow_step] is complete for the operation language of Script.v (the one the harness replays
    against the real crate): every script operation that leaves a flow in the state either leaves
    the flow as it was, or performs a [flow_step], or is one of: create a flow, follow a redirect
    ([as_new_flow]), switch to the flow the redirect produced.  So the current URI of the flow in
    the script state only changes at those three operations. *)
Theorem c14_script_covered : forall s o t f t' f',
  s_obj s = ObFlow t f -> s_obj (fst (step s o)) = ObFlow t' f' ->
  (f' = f \/ flow_step f f') \/
  (exists r, o = ONew r) \/ o = OFollow \/ (exists p, o = OAsNewFlow p).
Proof. exact script_covered. Qed.

Theorem c14_script_preserves_uri : forall s o t f t' f',
  s_obj s = ObFlow t f -> s_obj (fst (step s o)) = ObFlow t' f' ->
  (forall r, o <> ONew r) -> o <> OFollow -> (forall p, o <> OAsNewFlow p) ->
  cur_uri f' = cur_uri f.
Proof. exact script_preserves_uri. Qed.

(** Following a redirect: the new flow's URI is the resolution of the selected Location against
    the current URI of the flow that received the redirect. *)
Theorem c14_as_new_flow_uri : forall f p f' next,
  as_new_flow f p = Ok (f', Some next) ->
  exists loc target,
    i_location f = Some loc /\
    resolve (am_eff_uri (c_req (i_call f))) loc = Some target /\
    am_eff_uri (c_req (i_call next)) = target.
Proof. exact as_new_flow_uri. Qed.

(** Chains of any length: the URI after hop n is the left fold of [resolve] over the Locations,
    starting from the URI of the first request -- each resolution is against the current URI. *)
Theorem c14_chain : forall f locs fin,
  redirect_chain f locs fin ->
  fold_left resolve_opt locs (Some (cur_uri f)) = Some (cur_uri fin).
Proof. exact chain_uri. Qed.

Theorem c14_resolve_opt_def : forall acc loc,
  resolve_opt acc loc = match acc with Some u => resolve u loc | None => None end.
Proof. reflexivity. Qed.

(* ------------------------------------------------------------------ the last Location *)

(** The Location a response selects is the last Location field (none iff there is no such field). *)
Theorem c14_last_location : forall f input f' used rsp,
  recv_try_response f input = Ok (f', used, Some rsp) ->
  let ls := hm_get_all (rs_headers rsp) (s2b "location") in
  (ls = [] -> i_location f' = None) /\
  (forall l x, ls = l ++ [x] -> i_location f' = Some x) /\
  i_status f' = Some (rs_status rsp).
Proof. exact last_location. Qed.

(* ------------------------------------------------------------------ the next head *)

(** [prepared next g]: [g] is [next] after any number of accepted [header()] calls, none naming Host. *)
Theorem c14_prepared_def : forall f g,
  prepared f g <->
  g = f \/ exists g1 k v, prepared f g1 /\ beq_bytes (lower k) (s2b "host") = false /\
                          prepare_header g1 k v = Ok g.
Proof. exact prepared_def. Qed.

(** The known class F14 ("inherited-host"): the original request carries a Host field of its own. *)
Definition KnownClass (f : inner) : Prop :=
  get_all (rq_headers (am_request (c_req (i_call f)))) (s2b "host") <> [].

(** Once the analysis of the next request succeeds (first write), its request line is
    method SP path-and-query of the resolved URI SP version CRLF, and -- outside the known class --
    its effective headers contain exactly one Host field, naming the host of the resolved URI.
    (The bytes on the wire are [prelude_line] followed by the effective headers: C02.) *)
Theorem c14_wire : forall f p f' next g c',
  as_new_flow f p = Ok (f', Some next) -> prepared next g -> analyze_request (i_call g) = Ok c' ->
  let target := cur_uri next in
  let line := method_name (am_method (c_req (i_call next))) ++ [32] ++ u_pq target ++ [32] ++
              version_name (am_version (c_req (i_call f))) ++ CRLF in
  u_pq target <> [] /\
  prelude_line (c_req c') = line /\
  render_request_head (c_req c') = line ++ concat (map field_line (am_headers (c_req c'))) ++ CRLF /\
  (~ KnownClass f -> get_all (am_headers (c_req c')) (s2b "host") = [uri_host target]).
Proof. exact next_wire. Qed.

(** The next request carries the header fields of the request it replaces (so the known class is
    a property of the original request, whatever the hop). *)
Theorem c14_headers_inherited : forall f p f' next,
  as_new_flow f p = Ok (f', Some next) ->
  rq_headers (am_request (c_req (i_call next))) = rq_headers (am_request (c_req (i_call f))) /\
  (KnownClass next <-> KnownClass f).
Proof.
  intros f p f' next H. pose proof (headers_inherited _ _ _ _ H) as E.
  split; [exact E|]. unfold KnownClass. rewrite E. tauto.
Qed.

(* ------------------------------------------------------------------ errors, never a panic *)

Theorem c14_errors : forall f p,
  (i_location f = None -> as_new_flow f p = Err NoLocationHeader) /\
  (forall loc, i_location f = Some loc -> is_text loc = false ->
               as_new_flow f p = Err BadLocationHeader) /\
  (forall loc, i_location f = Some loc -> i_status f <> None -> u_scheme (cur_uri f) <> [] ->
               resolve (cur_uri f) loc = None -> as_new_flow f p = Err BadLocationHeader).
Proof. exact redirect_errors. Qed.

(** The state of a flow that reaches Redirect for the first time: it has a status (see
    [c14_redirect_has_status]), its request has not been taken, and its URI is absolute. *)
Theorem c14_redirect_ready_def : forall f,
  redirect_ready f <->
  i_status f <> None /\ am_req (c_req (i_call f)) <> None /\ u_scheme (cur_uri f) <> [].
Proof. reflexivity. Qed.

Theorem c14_redirect_has_status : forall f f',
  recv_response_proceed f = Ok (Some (TRedirect, f')) \/ recv_body_proceed f = Ok (Some (TRedirect, f')) ->
  i_status f' <> None.
Proof. exact redirect_has_status. Qed.

(** In that state, for EVERY Location value (any byte string, or none): complete case analysis.
    An error produces no flow; a flow is produced only with the resolved URI. *)
Theorem c14_outcomes : forall f p,
  redirect_ready f ->
  (i_location f = None /\ as_new_flow f p = Err NoLocationHeader) \/
  (exists loc, i_location f = Some loc /\
     ((is_text loc = false \/ resolve (cur_uri f) loc = None) /\ as_new_flow f p = Err BadLocationHeader
      \/ is_text loc = true /\ exists target, resolve (cur_uri f) loc = Some target /\
           (as_new_flow f p = Ok (f, None) \/
            exists f' next, as_new_flow f p = Ok (f', Some next) /\ cur_uri next = target))).
Proof. exact as_new_flow_outcomes. Qed.

Theorem c14_no_panic : forall f p site, redirect_ready f -> as_new_flow f p <> Panic site.
Proof. intros f p site H. apply as_new_flow_no_panic. exact H. Qed.

(** The flow a redirect produces is itself ready for the next redirect as far as the URI is
    concerned: the resolved URI has a scheme, an authority and a path. *)
Theorem c14_target_absolute : forall base loc t,
  resolve base loc = Some t -> u_scheme base <> [] ->
  u_scheme t <> [] /\ u_auth t <> [] /\ u_pq t <> [].
Proof. exact target_absolute. Qed.

(* ------------------------------------------------------------------ resolve = RFC 3986 5.2 *)

(** A model URI as the five components of RFC 3986 (an http::Uri carries no fragment), and back. *)
Theorem c14_components_def : forall u,
  components_of u =
    {| x_scheme := u_scheme u; x_authority := Some (u_auth u); x_path := uri_path u;
       x_query := uri_query u; x_fragment := None |} /\
  forall s a pq, uri_of (s, a, pq) = {| u_scheme := s; u_auth := a; u_pq := pq |}.
Proof. intros u. split; reflexivity. Qed.

(** The base path is empty or absolute and contains no dot segments. *)
Theorem c14_base_path_ok_def : forall p,
  base_path_ok p <-> (p = [] \/ exists t, p = 47 :: t) /\ rfc_remove_dot_segments p = p.
Proof. reflexivity. Qed.

(** [Url.resolve] is the RFC 3986 5.2 resolution ([rfc_parse] per appendix B, [rfc_transform] per
    5.2.2 with [rfc_merge] 5.2.3 and [rfc_remove_dot_segments] 5.2.4 as the RFC's string
    algorithms), fragment dropped, followed by [rfc_normalise] -- for EVERY byte string [loc], and
    every base whose path is empty or absolute and free of dot segments (no condition on scheme
    or authority: an empty authority makes both sides [None]).

    The condition on dot segments is forced: for a reference with an empty path 5.2.2 copies the
    base path unchanged while the url crate (and the model) has already removed its dot segments
    ([c14_dotted_base_differs]).  Every URI [resolve] returns satisfies the condition
    ([c14_resolve_closed]), so it only constrains the caller's original URI.

    One reading had to be fixed in the transcription: appendix B's scheme group "[^:/?#]+" is
    accepted as a scheme only if it matches 3.1 (ALPHA *( ALPHA / DIGIT / "+" / "-" / "." ));
    otherwise the reference is read as a relative path ("1:x", "a b:c"), as the url crate does. *)
Theorem c14_resolve_matches_rfc : forall base loc,
  base_path_ok (uri_path base) ->
  resolve base loc = option_map uri_of (rfc_resolve (components_of base) loc).
Proof. exact resolve_matches_rfc. Qed.

Theorem c14_rfc_resolve_def : forall base loc,
  rfc_resolve base loc = rfc_normalise (rfc_transform base (rfc_parse loc)).
Proof. reflexivity. Qed.

Example c14_dotted_base_differs :
  let base := {| u_scheme := s2b "http"; u_auth := s2b "h"; u_pq := s2b "/a/../b" |} in
  resolve base (s2b "?q") = Some {| u_scheme := s2b "http"; u_auth := s2b "h"; u_pq := s2b "/b?q" |} /\
  option_map uri_of (rfc_resolve (components_of base) (s2b "?q")) =
    Some {| u_scheme := s2b "http"; u_auth := s2b "h"; u_pq := s2b "/a/../b?q" |}.
Proof. split; vm_compute; reflexivity. Qed.

Theorem c14_resolve_closed : forall base loc t,
  resolve base loc = Some t -> base_path_ok (uri_path t).
Proof. exact resolve_closed. Qed.

(** Hence along a chain every hop is an RFC resolution against the current URI. *)
Theorem c14_chain_rfc : forall f locs fin,
  redirect_chain f locs fin -> base_path_ok (uri_path (cur_uri f)) ->
  fold_left rfc_resolve_opt locs (Some (cur_uri f)) = Some (cur_uri fin).
Proof.
  intros f locs fin H Hb. rewrite <- (fold_resolve_rfc locs _ Hb). apply chain_uri. exact H.
Qed.

Theorem c14_rfc_resolve_opt_def : forall acc loc,
  rfc_resolve_opt acc loc =
    match acc with
    | Some u => option_map uri_of (rfc_resolve (components_of u) loc)
    | None => None
    end.
Proof. reflexivity. Qed.

(** The pieces, each for all inputs: the model's parser is the appendix-B parser ... *)
Theorem c14_parse_matches_rfc : forall loc,
  r_scheme (parse_ref loc) = rf_scheme (rfc_parse loc) /\
  r_auth (parse_ref loc) = rf_authority (rfc_parse loc) /\
  r_path (parse_ref loc) = rf_path (rfc_parse loc) /\
  r_query (parse_ref loc) = rf_query (rfc_parse loc).
Proof. exact parse_agree. Qed.

(** ... the segment-list remove_dot_segments is the RFC's buffer algorithm, and merge is merge, on
    empty / absolute paths (the only ones that reach them when the result is not [None]). *)
Theorem c14_rds_matches_rfc : forall p,
  p = [] \/ (exists t, p = 47 :: t) ->
  rfc_remove_dot_segments p = remove_dot_segments p.
Proof. exact rds_agree. Qed.

Theorem c14_merge_matches_rfc : forall t rel,
  rfc_merge true (47 :: t) rel = merge (47 :: t) rel /\ rfc_merge true [] rel = merge [47] rel.
Proof. exact merge_agree. Qed.

(* ------------------------------------------------------------------ properties of resolve *)

(** The fragment of the Location is dropped ... *)
Theorem c14_fragment_dropped : forall base loc, resolve base loc = resolve base (until 35 loc).
Proof. exact resolve_fragment_dropped. Qed.

(** ... and the result contains no "#" (unless the base's path-and-query already did). *)
Theorem c14_no_fragment : forall base loc t,
  ~ In 35 (u_pq base) -> resolve base loc = Some t -> ~ In 35 (u_pq t).
Proof. exact resolve_no_hash. Qed.

(** Scheme and authority: those of the Location when it has them, otherwise the base's
    (lower-cased scheme; authority through [norm_auth]). *)
Theorem c14_origin : forall base loc t,
  resolve base loc = Some t ->
  let r := rfc_parse loc in
  u_scheme t = lower (match rf_scheme r with Some s => s | None => u_scheme base end) /\
  norm_auth (u_scheme t) (match rf_authority r with Some a => a | None => u_auth base end)
    = Some (u_auth t).
Proof. exact resolve_origin. Qed.

(** [norm_auth] is the specification's host / port normalisation. *)
Theorem c14_norm_auth_def : forall scheme au,
  norm_auth scheme au =
    let '(host, after_host) := span (not_in [58]) au in
    if is_nil host then None
    else match normal_port_suffix scheme after_host with
         | None => None
         | Some port => Some (lower host ++ port)
         end.
Proof. exact norm_auth_spec. Qed.

(** remove_dot_segments, for every path: idempotent, and no "." / ".." segment is left
    ([path_segments]: the pieces between the "/" of an absolute path). *)
Theorem c14_remove_dot_segments : forall p,
  remove_dot_segments (remove_dot_segments p) = remove_dot_segments p /\
  (remove_dot_segments p = [] \/ exists t, remove_dot_segments p = 47 :: t) /\
  (remove_dot_segments p <> [] ->
   Forall (fun s => s <> [46] /\ s <> [46; 46]) (path_segments (remove_dot_segments p))).
Proof. exact model_rds_properties. Qed.

Theorem c14_path_segments_def : forall p, path_segments p = split_on 47 (tl p) [].
Proof. reflexivity. Qed.

(** The same for the RFC's algorithm on empty / absolute paths. *)
Theorem c14_rfc_remove_dot_segments : forall p,
  p = [] \/ (exists t, p = 47 :: t) ->
  rfc_remove_dot_segments (rfc_remove_dot_segments p) = rfc_remove_dot_segments p /\
  (rfc_remove_dot_segments p <> [] ->
   Forall (fun s => s <> [46] /\ s <> [46; 46]) (path_segments (rfc_remove_dot_segments p))).
Proof. exact rfc_rds_properties. Qed.

(** The path of a resolved URI: the result of remove_dot_segments, without "?". *)
Theorem c14_result_path : forall base loc t,
  resolve base loc = Some t ->
  exists p q, u_pq t = mk_pq p q /\ (p = [] \/ exists x, p = 47 :: x) /\
              remove_dot_segments p = p /\ ~ In 63 p.
Proof. exact resolve_result_path. Qed.

(* ------------------------------------------------------------------ RFC 3986 5.4 (tests of the transcription) *)

(** TEST of the transcription C14_spec.v, not a theorem about the code: the 23 normal and 19
    abnormal examples of RFC 3986 5.4 (base http://a/b/c/d;p?q), fragments included, through
    [rfc_parse], [rfc_transform], [rfc_recompose]; and the same references through the model
    ([resolve], which drops the fragment; "g:h" and "http:g" are not http(s) targets: [None]). *)
Example c14_rfc_examples :
  List.length rfc54_normal = 23%nat /\ List.length rfc54_abnormal = 19%nat /\
  forallb (fun b => b) (rfc54_normal ++ rfc54_abnormal) = true /\
  List.length model54_all = 42%nat /\ forallb (fun b => b) model54_all = true.
Proof. vm_compute. repeat split. Qed.

(* ------------------------------------------------------------------ examples *)

Definition ex_start : inner :=
  start_flow (get_request "http" "a.test:8080" "/x/y/z?k=1" [(s2b "accept", s2b "*/*")]).

(** Three hops: absolute (other scheme, upper case, default port, fragment), relative with "..",
    with a query, sent together with an earlier Location field that must lose; scheme-relative. *)
Definition ex_responses : list (list bytes) :=
  [[s2b "HTTPS://B.test:443/p/q/r#frag"]; [s2b "/ignored"; s2b "../x?y"]; [s2b "//c.test:81"]].

Definition ex_locs : list bytes := [s2b "HTTPS://B.test:443/p/q/r#frag"; s2b "../x?y"; s2b "//c.test:81"].

Definition chain_heads (o : option (list bytes * list bytes * inner)) : list bytes :=
  match o with Some (h, _, _) => h | None => [] end.
Definition chain_fin (o : option (list bytes * list bytes * inner)) : inner :=
  match o with Some (_, _, f) => f | None => dummy_flow end.

Example c14_nonvacuous :
  let r := run_chain ex_start ex_responses in
  r = Some (chain_heads r, ex_locs, chain_fin r) /\
  redirect_chain ex_start ex_locs (chain_fin r) /\
  cur_uri (chain_fin r) = {| u_scheme := s2b "https"; u_auth := s2b "c.test:81"; u_pq := s2b "/" |} /\
  chain_heads r =
    [s2b "GET /x/y/z?k=1 HTTP/1.1" ++ CRLF ++ s2b "host: a.test" ++ CRLF ++ s2b "accept: */*" ++ CRLF ++ CRLF;
     s2b "GET /p/q/r HTTP/1.1" ++ CRLF ++ s2b "host: b.test" ++ CRLF ++ s2b "accept: */*" ++ CRLF ++ CRLF;
     s2b "GET /p/x?y HTTP/1.1" ++ CRLF ++ s2b "host: b.test" ++ CRLF ++ s2b "accept: */*" ++ CRLF ++ CRLF].
Proof.
  cbv zeta.
  assert (E : run_chain ex_start ex_responses =
              Some (chain_heads (run_chain ex_start ex_responses), ex_locs,
                    chain_fin (run_chain ex_start ex_responses))) by (vm_compute; reflexivity).
  split; [exact E|]. split; [eapply run_chain_sound; exact E|]. split; vm_compute; reflexivity.
Qed.

(** The conditions of [c14_resolve_matches_rfc] / [c14_chain_rfc] hold on the same chain. *)
Example c14_rfc_nonvacuous :
  base_path_ok (uri_path (cur_uri ex_start)) /\
  fold_left rfc_resolve_opt ex_locs (Some (cur_uri ex_start)) =
    Some {| u_scheme := s2b "https"; u_auth := s2b "c.test:81"; u_pq := s2b "/" |} /\
  rfc_resolve (components_of (cur_uri ex_start)) (s2b "HTTPS://B.test:0443/p/./q/../r?x#frag") =
    Some (s2b "https", s2b "b.test", s2b "/p/r?x").
Proof.
  split; [split; [right; vm_compute; eauto|vm_compute; reflexivity]|].
  split; vm_compute; reflexivity.
Qed.

(** The theorem distinguishes "against the current URI" from "against the original URI". *)
Example c14_not_original :
  let u0 := {| u_scheme := s2b "http"; u_auth := s2b "a.test"; u_pq := s2b "/x/y" |} in
  let locs := [s2b "http://b.test/p/q"; s2b "r"] in
  let r := run_chain (start_flow (get_request "http" "a.test" "/x/y" [])) [[s2b "http://b.test/p/q"]; [s2b "r"]] in
  fold_left resolve_opt locs (Some u0) =
    Some {| u_scheme := s2b "http"; u_auth := s2b "b.test"; u_pq := s2b "/p/r" |} /\
  fold_left (fun _ l => resolve u0 l) locs (Some u0) =
    Some {| u_scheme := s2b "http"; u_auth := s2b "a.test"; u_pq := s2b "/x/r" |} /\
  r = Some (chain_heads r, locs, chain_fin r) /\
  cur_uri (chain_fin r) = {| u_scheme := s2b "http"; u_auth := s2b "b.test"; u_pq := s2b "/p/r" |}.
Proof. cbv zeta. repeat split; vm_compute; reflexivity. Qed.

(** F14 (known finding, class "inherited-host"): a Host field of the original request survives a
    cross-host redirect; the next head names the old host. *)
Definition ex_f14_redirect : inner :=
  let f0 := start_flow (get_request "http" "a.test" "/x" [(s2b "host", s2b "a.test")]) in
  match send_request_write f0 65536 with
  | Ok (f1, _) =>
      match send_request_proceed f1 with
      | Ok (Some (_, f2)) =>
          match recv_try_response f2 (redirect_response (s2b "302") [s2b "http://b.test/y"]) with
          | Ok (f3, _, _) =>
              match recv_response_proceed f3 with
              | Ok (Some (TRedirect, f4)) => f4
              | _ => dummy_flow
              end
          | _ => dummy_flow
          end
      | _ => dummy_flow
      end
  | _ => dummy_flow
  end.
Definition ex_f14_taken : inner :=
  match as_new_flow ex_f14_redirect Never with Ok (f', _) => f' | _ => dummy_flow end.
Definition ex_f14_next : inner :=
  match as_new_flow ex_f14_redirect Never with Ok (_, Some n) => n | _ => dummy_flow end.
Definition ex_f14_call : call :=
  match analyze_request (i_call ex_f14_next) with Ok c => c | _ => i_call dummy_flow end.

Example c14_known_refuted :
  exists f p f' next c',
    KnownClass f /\ as_new_flow f p = Ok (f', Some next) /\ analyze_request (i_call next) = Ok c' /\
    uri_host (cur_uri f) = s2b "a.test" /\ uri_host (cur_uri next) = s2b "b.test" /\
    get_all (am_headers (c_req c')) (s2b "host") = [s2b "a.test"] /\
    get_all (am_headers (c_req c')) (s2b "host") <> [uri_host (cur_uri next)] /\
    render_request_head (c_req c') =
      s2b "GET /y HTTP/1.1" ++ CRLF ++ s2b "host: a.test" ++ CRLF ++ CRLF.
Proof.
  exists ex_f14_redirect, Never, ex_f14_taken, ex_f14_next, ex_f14_call.
  split; [vm_compute; discriminate|].
  repeat split; try (vm_compute; reflexivity). vm_compute. discriminate.
Qed.

Print Assumptions c14_cur_uri_def.
Print Assumptions c14_flow_step_def.
Print Assumptions c14_flow_steps_def.
Print Assumptions c14_redirect_chain_def.
Print Assumptions c14_step_preserves_uri.
Print Assumptions c14_script_covered.
Print Assumptions c14_script_preserves_uri.
Print Assumptions c14_as_new_flow_uri.
Print Assumptions c14_chain.
Print Assumptions c14_resolve_opt_def.
Print Assumptions c14_last_location.
Print Assumptions c14_prepared_def.
Print Assumptions c14_wire.
Print Assumptions c14_errors.
Print Assumptions c14_redirect_ready_def.
Print Assumptions c14_redirect_has_status.
Print Assumptions c14_outcomes.
Print Assumptions c14_no_panic.
Print Assumptions c14_target_absolute.
Print Assumptions c14_components_def.
Print Assumptions c14_base_path_ok_def.
Print Assumptions c14_resolve_matches_rfc.
Print Assumptions c14_rfc_resolve_def.
Print Assumptions c14_dotted_base_differs.
Print Assumptions c14_resolve_closed.
Print Assumptions c14_chain_rfc.
Print Assumptions c14_rfc_resolve_opt_def.
Print Assumptions c14_parse_matches_rfc.
Print Assumptions c14_rds_matches_rfc.
Print Assumptions c14_merge_matches_rfc.
Print Assumptions c14_fragment_dropped.
Print Assumptions c14_no_fragment.
Print Assumptions c14_origin.
Print Assumptions c14_norm_auth_def.
Print Assumptions c14_remove_dot_segments.
Print Assumptions c14_path_segments_def.
Print Assumptions c14_rfc_remove_dot_segments.
Print Assumptions c14_result_path.
Print Assumptions c14_rfc_examples.
Print Assumptions c14_headers_inherited.
Print Assumptions c14_rfc_nonvacuous.
Print Assumptions c14_nonvacuous.
Print Assumptions c14_not_original.
Print Assumptions c14_known_refuted.
