(** Property C14 -- redirect target: the last Location is resolved against the current URI.
    Statements only.  Proofs: proofs/C14_proofs.v (flow level), proofs/C14_rfc.v (parsing),
    proofs/C14_rds.v (remove_dot_segments, merge), proofs/C14_resolve.v (normalisation, assembly),
    proofs/C14_script.v (the script language only performs the operations of [flow_step]).
    The independent transcription of RFC 3986 5.2 is proofs/C14_spec.v.
    Additions after review 3 (end of file): proofs/C14_more.v (relative base, no-panic without the
    scheme conjunct, Script-reached error branches), proofs/C14_grammar.v (the grammar of Locations,
    independent of Url.v), proofs/C14_ingrammar.v, C14_origin.v, C14_scope.v (the theorems about
    [resolve] restated with that domain of validity), proofs/C14_ready.v (every Script-reached
    Redirect flow has a status: no panic on any history).

    Level note: this is a proof about the model.  [Url.resolve] models the url crate on the
    property's grammar only (see Url.v). *)
From Hoot Require Import Base Chunk Body Httparse Parser Url Request Call Flow Script.
From Hoot.proofs Require Import BytesLemmas C17_proofs C02_proofs C02_analysis C14_proofs.
From Hoot.proofs Require Import C14_spec C14_rfc C14_rds C14_resolve C14_script.
From Hoot.proofs Require Import C14_more C14_grammar C14_ingrammar C14_origin C14_scope C14_ready.
Open Scope N_scope.

(* ------------------------------------------------------------------ vocabulary *)

(** The URI of the request a flow is making ("current URI"): the override installed by a redirect
    if there is one, otherwise the URI of the request itself. *)
Theorem c14_cur_uri_def : forall f,
  cur_uri f = match am_uri (c_req (i_call f)) with
              | Some u => u
              | None => rq_uri (am_request (c_req (i_call f)))
              end.
Proof. reflexivity. Qed.

(** [flow_step f f']: one operation of the flow API between Prepare and Redirect, with any
    arguments, turns [f] into [f'] (in any state: the type-state discipline is over-approximated).
    A failed operation leaves the caller with the flow it had, except a failed body read: the Rust
    decoder is mutated in place, so the flow afterwards is [recv_body_after_err f input cap]
    (Flow.v) -- the disjunct with [Err e] below. *)
Theorem c14_flow_step_def : forall f f',
  flow_step f f' <->
  (exists k v, prepare_header f k v = Ok f') \/
  send_body_despite_method f = Ok f' \/
  (exists cap out, send_request_write f cap = Ok (f', out)) \/
  (exists t, send_request_proceed f = Ok (Some (t, f'))) \/
  (exists input r, try_read_100 f input = (f', r)) \/
  (exists t, await_100_proceed f = Ok (t, f')) \/
  (exists input cap used out, send_body_write f input cap = Ok (f', used, out)) \/
  (exists amount, send_body_direct f amount = Ok f') \/
  (exists t, send_body_proceed f = Ok (Some (t, f'))) \/
  (exists input used got, recv_try_response f input = Ok (f', used, got)) \/
  (exists t, recv_response_proceed f = Ok (Some (t, f'))) \/
  (exists input cap i o, recv_body_read f input cap = Ok (f', i, o)) \/
  (exists input cap e, recv_body_read f input cap = Err e /\ f' = recv_body_after_err f input cap) \/
  (exists b, recv_body_stop f b = Ok f') \/
  (exists t, recv_body_proceed f = Ok (Some (t, f'))).
Proof. exact flow_step_def. Qed.

(** [flow_steps]: any number of such operations. *)
Theorem c14_flow_steps_def : forall f f',
  flow_steps f f' <-> f' = f \/ exists f1, flow_step f f1 /\ flow_steps f1 f'.
Proof. exact flow_steps_def. Qed.

(** [redirect_chain f locs fin]: starting from flow [f], every response selected the Location
    [loc_i], every redirect was followed, [fin] is the flow of the last hop; any operations in
    between. *)
Theorem c14_redirect_chain_def : forall f locs fin,
  redirect_chain f locs fin <->
  match locs with
  | [] => flow_steps f fin
  | loc :: rest =>
      exists f1 f1' p next,
        flow_steps f f1 /\ i_location f1 = Some loc /\ as_new_flow f1 p = Ok (f1', Some next) /\
        redirect_chain next rest fin
  end.
Proof. exact redirect_chain_def. Qed.

(* ------------------------------------------------------------------ resolved against the current URI *)

(** No operation between Prepare and Redirect changes the current URI (nor the request, nor the
    list of suppressed headers). *)
Theorem c14_step_preserves_uri : forall f f',
  flow_step f f' ->
  cur_uri f' = cur_uri f /\ am_req (c_req (i_call f')) = am_req (c_req (i_call f)) /\
  am_unset (c_req (i_call f')) = am_unset (c_req (i_call f)).
Proof. exact step_preserves. Qed.

(** [flow_step] is complete for the operation language of Script.v (the one the harness replays
    against the real crate): every script operation that leaves a flow in the state either leaves
    the flow as it was, or performs a [flow_step], or is one of: create a flow, follow a redirect
    ([as_new_flow]), switch to the flow the redirect produced.  So the current URI of the flow in
    the script state only changes at those three operations. *)
Theorem c14_script_covered : forall s o t f t' f',
  s_obj s = ObFlow t f -> s_obj (fst (step s o)) = ObFlow t' f' ->
  (f' = f \/ flow_step f f') \/
  (exists r, o = ONew r) \/ o = OFollow \/ (exists p, o = OAsNewFlow p).
Proof. exact script_covered. Qed.

Theorem c14_script_preserves_uri : forall s o t f t' f',
  s_obj s = ObFlow t f -> s_obj (fst (step s o)) = ObFlow t' f' ->
  (forall r, o <> ONew r) -> o <> OFollow -> (forall p, o <> OAsNewFlow p) ->
  cur_uri f' = cur_uri f.
Proof. exact script_preserves_uri. Qed.

(** Following a redirect: the new flow's URI is the resolution of the selected Location against
    the current URI of the flow that received the redirect. *)
Theorem c14_as_new_flow_uri : forall f p f' next,
  as_new_flow f p = Ok (f', Some next) ->
  exists loc target,
    i_location f = Some loc /\
    resolve (am_eff_uri (c_req (i_call f))) loc = Some target /\
    am_eff_uri (c_req (i_call next)) = target.
Proof. exact as_new_flow_uri. Qed.

(** Chains of any length: the URI after hop n is the left fold of [resolve] over the Locations,
    starting from the URI of the first request -- each resolution is against the current URI. *)
Theorem c14_chain : forall f locs fin,
  redirect_chain f locs fin ->
  fold_left resolve_opt locs (Some (cur_uri f)) = Some (cur_uri fin).
Proof. exact chain_uri. Qed.

Theorem c14_resolve_opt_def : forall acc loc,
  resolve_opt acc loc = match acc with Some u => resolve u loc | None => None end.
Proof. reflexivity. Qed.

(* ------------------------------------------------------------------ the last Location *)

(** The Location a response selects is the last Location field (none iff there is no such field). *)
Theorem c14_last_location : forall f input f' used rsp,
  recv_try_response f input = Ok (f', used, Some rsp) ->
  let ls := hm_get_all (rs_headers rsp) (s2b "location") in
  (ls = [] -> i_location f' = None) /\
  (forall l x, ls = l ++ [x] -> i_location f' = Some x) /\
  i_status f' = Some (rs_status rsp).
Proof. exact last_location. Qed.

(* ------------------------------------------------------------------ the next head *)

(** [prepared next g]: [g] is [next] after any number of accepted [header()] calls, none naming Host. *)
Theorem c14_prepared_def : forall f g,
  prepared f g <->
  g = f \/ exists g1 k v, prepared f g1 /\ beq_bytes (lower k) (s2b "host") = false /\
                          prepare_header g1 k v = Ok g.
Proof. exact prepared_def. Qed.

(** The known class F14 ("inherited-host"): the original request carries a Host field of its own. *)
Definition KnownClass (f : inner) : Prop :=
  get_all (rq_headers (am_request (c_req (i_call f)))) (s2b "host") <> [].

(** Once the analysis of the next request succeeds (first write), its request line is
    method SP path-and-query of the resolved URI SP version CRLF, and -- outside the known class --
    its effective headers contain exactly one Host field, naming the host of the resolved URI.
    (The bytes on the wire are [prelude_line] followed by the effective headers: C02.) *)
(** SCOPE: for every byte string this is a statement about the model; as a statement about the
    code it is claimed for Locations with [loc_in_grammar] only -- [c14_wire_in_grammar], which also
    shows that the target then contains no SP / control byte / backslash. *)
Theorem c14_wire : forall f p f' next g c',
  as_new_flow f p = Ok (f', Some next) -> prepared next g -> analyze_request (i_call g) = Ok c' ->
  let target := cur_uri next in
  let line := method_name (am_method (c_req (i_call next))) ++ [32] ++ u_pq target ++ [32] ++
              version_name (am_version (c_req (i_call f))) ++ CRLF in
  u_pq target <> [] /\
  prelude_line (c_req c') = line /\
  render_request_head (c_req c') = line ++ concat (map field_line (am_headers (c_req c'))) ++ CRLF /\
  (~ KnownClass f -> get_all (am_headers (c_req c')) (s2b "host") = [uri_host target]).
Proof. exact next_wire. Qed.

(** The next request carries the header fields of the request it replaces (so the known class is
    a property of the original request, whatever the hop). *)
Theorem c14_headers_inherited : forall f p f' next,
  as_new_flow f p = Ok (f', Some next) ->
  rq_headers (am_request (c_req (i_call next))) = rq_headers (am_request (c_req (i_call f))) /\
  (KnownClass next <-> KnownClass f).
Proof.
  intros f p f' next H. pose proof (headers_inherited _ _ _ _ H) as E.
  split; [exact E|]. unfold KnownClass. rewrite E. tauto.
Qed.

(* ------------------------------------------------------------------ errors, never a panic *)

Theorem c14_errors : forall f p,
  (i_location f = None -> as_new_flow f p = Err NoLocationHeader) /\
  (forall loc, i_location f = Some loc -> is_text loc = false ->
               as_new_flow f p = Err BadLocationHeader) /\
  (forall loc, i_location f = Some loc -> i_status f <> None -> u_scheme (cur_uri f) <> [] ->
               resolve (cur_uri f) loc = None -> as_new_flow f p = Err BadLocationHeader).
Proof. exact redirect_errors. Qed.

(** The state of a flow that reaches Redirect for the first time: it has a status (see
    [c14_redirect_has_status]), its request has not been taken, and its URI is absolute.
    The third conjunct holds at every hop >= 1 ([c14_target_absolute]); at hop 0 it restricts the
    caller's request (an origin-form URI with an explicit Host field is accepted by C17).  It is
    only used to give [c14_outcomes] its shape; [c14_no_panic], [c14_outcomes_all] and
    [c14_relative_base_error] do without it. *)
Theorem c14_redirect_ready_def : forall f,
  redirect_ready f <->
  i_status f <> None /\ am_req (c_req (i_call f)) <> None /\ u_scheme (cur_uri f) <> [].
Proof. reflexivity. Qed.

Theorem c14_redirect_has_status : forall f f',
  recv_response_proceed f = Ok (Some (TRedirect, f')) \/ recv_body_proceed f = Ok (Some (TRedirect, f')) ->
  i_status f' <> None.
Proof. exact redirect_has_status. Qed.

(** In that state, for EVERY Location value (any byte string, or none): complete case analysis.
    An error produces no flow; a flow is produced only with the resolved URI. *)
(** SCOPE: "EVERY Location value" = every byte string, for the MODEL.  The model's [resolve] is
    claimed to describe the url crate on [loc_in_grammar] only (three counterexamples outside it:
    [c14_outside_grammar]); the version with that hypothesis, with the origin of the target spelled
    out and without the condition on the current URI, is [c14_outcomes_in_grammar]. *)
Theorem c14_outcomes : forall f p,
  redirect_ready f ->
  (i_location f = None /\ as_new_flow f p = Err NoLocationHeader) \/
  (exists loc, i_location f = Some loc /\
     ((is_text loc = false \/ resolve (cur_uri f) loc = None) /\ as_new_flow f p = Err BadLocationHeader
      \/ is_text loc = true /\ exists target, resolve (cur_uri f) loc = Some target /\
           (as_new_flow f p = Ok (f, None) \/
            exists f' next, as_new_flow f p = Ok (f', Some next) /\ cur_uri next = target))).
Proof. exact as_new_flow_outcomes. Qed.

(** Never a panic in the Redirect state, whatever the Location and WHATEVER THE CURRENT URI: the
    third conjunct of [redirect_ready] (absolute current URI) is not needed any more -- a
    scheme-less URI (origin-form request) is answered with BadLocationHeader since the repair of
    F19 ([c14_relative_base_error] below).  Both remaining conditions are necessary
    ([c14_panic_cases]). *)
Theorem c14_no_panic : forall f p site,
  i_status f <> None -> am_req (c_req (i_call f)) <> None -> as_new_flow f p <> Panic site.
Proof. intros f p site H1 H2. apply as_new_flow_no_panic_strong. split; assumption. Qed.

(** The flow a redirect produces is itself ready for the next redirect as far as the URI is
    concerned: the resolved URI has a scheme, an authority and a path. *)
Theorem c14_target_absolute : forall base loc t,
  resolve base loc = Some t -> u_scheme base <> [] ->
  u_scheme t <> [] /\ u_auth t <> [] /\ u_pq t <> [].
Proof. exact target_absolute. Qed.

(* ------------------------------------------------------------------ resolve = RFC 3986 5.2 *)

(** A model URI as the five components of RFC 3986 (an http::Uri carries no fragment), and back. *)
Theorem c14_components_def : forall u,
  components_of u =
    {| x_scheme := u_scheme u; x_authority := Some (u_auth u); x_path := uri_path u;
       x_query := uri_query u; x_fragment := None |} /\
  forall s a pq, uri_of (s, a, pq) = {| u_scheme := s; u_auth := a; u_pq := pq |}.
Proof. intros u. split; reflexivity. Qed.

(** The base path is empty or absolute and contains no dot segments. *)
Theorem c14_base_path_ok_def : forall p,
  base_path_ok p <-> (p = [] \/ exists t, p = 47 :: t) /\ rfc_remove_dot_segments p = p.
Proof. reflexivity. Qed.

(** [Url.resolve] is the RFC 3986 5.2 resolution ([rfc_parse] per appendix B, [rfc_transform] per
    5.2.2 with [rfc_merge] 5.2.3 and [rfc_remove_dot_segments] 5.2.4 as the RFC's string
    algorithms), fragment dropped, followed by [rfc_normalise] -- for EVERY byte string [loc], and
    every base whose path is empty or absolute and free of dot segments (no condition on scheme
    or authority: an empty authority makes both sides [None]).

    The condition on dot segments is forced: for a reference with an empty path 5.2.2 copies the
    base path unchanged while the url crate (and the model) has already removed its dot segments
    ([c14_dotted_base_differs]).  Every URI [resolve] returns satisfies the condition
    ([c14_resolve_closed]), so it only constrains the caller's original URI.

    One reading had to be fixed in the transcription: appendix B's scheme group "[^:/?#]+" is
    accepted as a scheme only if it matches 3.1 (ALPHA *( ALPHA / DIGIT / "+" / "-" / "." ));
    otherwise the reference is read as a relative path ("1:x", "a b:c"), as the url crate does. *)
(** SCOPE: an equation between two definitions in Coq, true for every byte string.  That either
    side describes what the url crate does is claimed on [loc_in_grammar] only
    ([c14_resolve_matches_rfc_in_grammar], [c14_outside_grammar]). *)
Theorem c14_resolve_matches_rfc : forall base loc,
  base_path_ok (uri_path base) ->
  resolve base loc = option_map uri_of (rfc_resolve (components_of base) loc).
Proof. exact resolve_matches_rfc. Qed.

Theorem c14_rfc_resolve_def : forall base loc,
  rfc_resolve base loc = rfc_normalise (rfc_transform base (rfc_parse loc)).
Proof. reflexivity. Qed.

Example c14_dotted_base_differs :
  let base := {| u_scheme := s2b "http"; u_auth := s2b "h"; u_pq := s2b "/a/../b" |} in
  resolve base (s2b "?q") = Some {| u_scheme := s2b "http"; u_auth := s2b "h"; u_pq := s2b "/b?q" |} /\
  option_map uri_of (rfc_resolve (components_of base) (s2b "?q")) =
    Some {| u_scheme := s2b "http"; u_auth := s2b "h"; u_pq := s2b "/a/../b?q" |}.
Proof. split; vm_compute; reflexivity. Qed.

Theorem c14_resolve_closed : forall base loc t,
  resolve base loc = Some t -> base_path_ok (uri_path t).
Proof. exact resolve_closed. Qed.

(** Hence along a chain every hop is an RFC resolution against the current URI. *)
Theorem c14_chain_rfc : forall f locs fin,
  redirect_chain f locs fin -> base_path_ok (uri_path (cur_uri f)) ->
  fold_left rfc_resolve_opt locs (Some (cur_uri f)) = Some (cur_uri fin).
Proof.
  intros f locs fin H Hb. rewrite <- (fold_resolve_rfc locs _ Hb). apply chain_uri. exact H.
Qed.

Theorem c14_rfc_resolve_opt_def : forall acc loc,
  rfc_resolve_opt acc loc =
    match acc with
    | Some u => option_map uri_of (rfc_resolve (components_of u) loc)
    | None => None
    end.
Proof. reflexivity. Qed.

(** The pieces, each for all inputs: the model's parser is the appendix-B parser ... *)
Theorem c14_parse_matches_rfc : forall loc,
  r_scheme (parse_ref loc) = rf_scheme (rfc_parse loc) /\
  r_auth (parse_ref loc) = rf_authority (rfc_parse loc) /\
  r_path (parse_ref loc) = rf_path (rfc_parse loc) /\
  r_query (parse_ref loc) = rf_query (rfc_parse loc).
Proof. exact parse_agree. Qed.

(** ... the segment-list remove_dot_segments is the RFC's buffer algorithm, and merge is merge, on
    empty / absolute paths (the only ones that reach them when the result is not [None]). *)
Theorem c14_rds_matches_rfc : forall p,
  p = [] \/ (exists t, p = 47 :: t) ->
  rfc_remove_dot_segments p = remove_dot_segments p.
Proof. exact rds_agree. Qed.

Theorem c14_merge_matches_rfc : forall t rel,
  rfc_merge true (47 :: t) rel = merge (47 :: t) rel /\ rfc_merge true [] rel = merge [47] rel.
Proof. exact merge_agree. Qed.

(* ------------------------------------------------------------------ properties of resolve *)

(** The fragment of the Location is dropped ... *)
Theorem c14_fragment_dropped : forall base loc, resolve base loc = resolve base (until 35 loc).
Proof. exact resolve_fragment_dropped. Qed.

(** ... and the result contains no "#" (unless the base's path-and-query already did). *)
Theorem c14_no_fragment : forall base loc t,
  ~ In 35 (u_pq base) -> resolve base loc = Some t -> ~ In 35 (u_pq t).
Proof. exact resolve_no_hash. Qed.

(** Scheme and authority: those of the Location when it has them, otherwise the base's
    (lower-cased scheme; authority through [norm_auth]). *)
Theorem c14_origin : forall base loc t,
  resolve base loc = Some t ->
  let r := rfc_parse loc in
  u_scheme t = lower (match rf_scheme r with Some s => s | None => u_scheme base end) /\
  norm_auth (u_scheme t) (match rf_authority r with Some a => a | None => u_auth base end)
    = Some (u_auth t).
Proof. exact resolve_origin. Qed.

(** [norm_auth] is the specification's host / port normalisation. *)
Theorem c14_norm_auth_def : forall scheme au,
  norm_auth scheme au =
    let '(host, after_host) := span (not_in [58]) au in
    if is_nil host then None
    else match normal_port_suffix scheme after_host with
         | None => None
         | Some port => Some (lower host ++ port)
         end.
Proof. exact norm_auth_spec. Qed.

(** remove_dot_segments, for every path: idempotent, and no "." / ".." segment is left
    ([path_segments]: the pieces between the "/" of an absolute path). *)
Theorem c14_remove_dot_segments : forall p,
  remove_dot_segments (remove_dot_segments p) = remove_dot_segments p /\
  (remove_dot_segments p = [] \/ exists t, remove_dot_segments p = 47 :: t) /\
  (remove_dot_segments p <> [] ->
   Forall (fun s => s <> [46] /\ s <> [46; 46]) (path_segments (remove_dot_segments p))).
Proof. exact model_rds_properties. Qed.

Theorem c14_path_segments_def : forall p, path_segments p = split_on 47 (tl p) [].
Proof. reflexivity. Qed.

(** The same for the RFC's algorithm on empty / absolute paths. *)
Theorem c14_rfc_remove_dot_segments : forall p,
  p = [] \/ (exists t, p = 47 :: t) ->
  rfc_remove_dot_segments (rfc_remove_dot_segments p) = rfc_remove_dot_segments p /\
  (rfc_remove_dot_segments p <> [] ->
   Forall (fun s => s <> [46] /\ s <> [46; 46]) (path_segments (rfc_remove_dot_segments p))).
Proof. exact rfc_rds_properties. Qed.

(** The path of a resolved URI: the result of remove_dot_segments, without "?". *)
Theorem c14_result_path : forall base loc t,
  resolve base loc = Some t ->
  exists p q, u_pq t = mk_pq p q /\ (p = [] \/ exists x, p = 47 :: x) /\
              remove_dot_segments p = p /\ ~ In 63 p.
Proof. exact resolve_result_path. Qed.

(* ------------------------------------------------------------------ RFC 3986 5.4 (tests of the transcription) *)

(** TEST of the transcription C14_spec.v, not a theorem about the code: the 23 normal and 19
    abnormal examples of RFC 3986 5.4 (base http://a/b/c/d;p?q), fragments included, through
    [rfc_parse], [rfc_transform], [rfc_recompose]; and the same references through the model
    ([resolve], which drops the fragment; "g:h" and "http:g" are not http(s) targets: [None]). *)
Example c14_rfc_examples :
  List.length rfc54_normal = 23%nat /\ List.length rfc54_abnormal = 19%nat /\
  forallb (fun b => b) (rfc54_normal ++ rfc54_abnormal) = true /\
  List.length model54_all = 42%nat /\ forallb (fun b => b) model54_all = true.
Proof. vm_compute. repeat split. Qed.

(* ------------------------------------------------------------------ examples *)

Definition ex_start : inner :=
  start_flow (get_request "http" "a.test:8080" "/x/y/z?k=1" [(s2b "accept", s2b "*/*")]).

(** Three hops: absolute (other scheme, upper case, default port, fragment), relative with "..",
    with a query, sent together with an earlier Location field that must lose; scheme-relative. *)
Definition ex_responses : list (list bytes) :=
  [[s2b "HTTPS://B.test:443/p/q/r#frag"]; [s2b "/ignored"; s2b "../x?y"]; [s2b "//c.test:81"]].

Definition ex_locs : list bytes := [s2b "HTTPS://B.test:443/p/q/r#frag"; s2b "../x?y"; s2b "//c.test:81"].

Definition chain_heads (o : option (list bytes * list bytes * inner)) : list bytes :=
  match o with Some (h, _, _) => h | None => [] end.
Definition chain_fin (o : option (list bytes * list bytes * inner)) : inner :=
  match o with Some (_, _, f) => f | None => dummy_flow end.

Example c14_nonvacuous :
  let r := run_chain ex_start ex_responses in
  r = Some (chain_heads r, ex_locs, chain_fin r) /\
  redirect_chain ex_start ex_locs (chain_fin r) /\
  cur_uri (chain_fin r) = {| u_scheme := s2b "https"; u_auth := s2b "c.test:81"; u_pq := s2b "/" |} /\
  chain_heads r =
    [s2b "GET /x/y/z?k=1 HTTP/1.1" ++ CRLF ++ s2b "host: a.test" ++ CRLF ++ s2b "accept: */*" ++ CRLF ++ CRLF;
     s2b "GET /p/q/r HTTP/1.1" ++ CRLF ++ s2b "host: b.test" ++ CRLF ++ s2b "accept: */*" ++ CRLF ++ CRLF;
     s2b "GET /p/x?y HTTP/1.1" ++ CRLF ++ s2b "host: b.test" ++ CRLF ++ s2b "accept: */*" ++ CRLF ++ CRLF].
Proof.
  cbv zeta.
  assert (E : run_chain ex_start ex_responses =
              Some (chain_heads (run_chain ex_start ex_responses), ex_locs,
                    chain_fin (run_chain ex_start ex_responses))) by (vm_compute; reflexivity).
  split; [exact E|]. split; [eapply run_chain_sound; exact E|]. split; vm_compute; reflexivity.
Qed.

(** The conditions of [c14_resolve_matches_rfc] / [c14_chain_rfc] hold on the same chain. *)
Example c14_rfc_nonvacuous :
  base_path_ok (uri_path (cur_uri ex_start)) /\
  fold_left rfc_resolve_opt ex_locs (Some (cur_uri ex_start)) =
    Some {| u_scheme := s2b "https"; u_auth := s2b "c.test:81"; u_pq := s2b "/" |} /\
  rfc_resolve (components_of (cur_uri ex_start)) (s2b "HTTPS://B.test:0443/p/./q/../r?x#frag") =
    Some (s2b "https", s2b "b.test", s2b "/p/r?x").
Proof.
  split; [split; [right; vm_compute; eauto|vm_compute; reflexivity]|].
  split; vm_compute; reflexivity.
Qed.

(** The theorem distinguishes "against the current URI" from "against the original URI". *)
Example c14_not_original :
  let u0 := {| u_scheme := s2b "http"; u_auth := s2b "a.test"; u_pq := s2b "/x/y" |} in
  let locs := [s2b "http://b.test/p/q"; s2b "r"] in
  let r := run_chain (start_flow (get_request "http" "a.test" "/x/y" [])) [[s2b "http://b.test/p/q"]; [s2b "r"]] in
  fold_left resolve_opt locs (Some u0) =
    Some {| u_scheme := s2b "http"; u_auth := s2b "b.test"; u_pq := s2b "/p/r" |} /\
  fold_left (fun _ l => resolve u0 l) locs (Some u0) =
    Some {| u_scheme := s2b "http"; u_auth := s2b "a.test"; u_pq := s2b "/x/r" |} /\
  r = Some (chain_heads r, locs, chain_fin r) /\
  cur_uri (chain_fin r) = {| u_scheme := s2b "http"; u_auth := s2b "b.test"; u_pq := s2b "/p/r" |}.
Proof. cbv zeta. repeat split; vm_compute; reflexivity. Qed.

(** F14 (known finding, class "inherited-host"): a Host field of the original request survives a
    cross-host redirect; the next head names the old host. *)
Definition ex_f14_redirect : inner :=
  let f0 := start_flow (get_request "http" "a.test" "/x" [(s2b "host", s2b "a.test")]) in
  match send_request_write f0 65536 with
  | Ok (f1, _) =>
      match send_request_proceed f1 with
      | Ok (Some (_, f2)) =>
          match recv_try_response f2 (redirect_response (s2b "302") [s2b "http://b.test/y"]) with
          | Ok (f3, _, _) =>
              match recv_response_proceed f3 with
              | Ok (Some (TRedirect, f4)) => f4
              | _ => dummy_flow
              end
          | _ => dummy_flow
          end
      | _ => dummy_flow
      end
  | _ => dummy_flow
  end.
Definition ex_f14_taken : inner :=
  match as_new_flow ex_f14_redirect Never with Ok (f', _) => f' | _ => dummy_flow end.
Definition ex_f14_next : inner :=
  match as_new_flow ex_f14_redirect Never with Ok (_, Some n) => n | _ => dummy_flow end.
Definition ex_f14_call : call :=
  match analyze_request (i_call ex_f14_next) with Ok c => c | _ => i_call dummy_flow end.

Example c14_known_refuted :
  exists f p f' next c',
    KnownClass f /\ as_new_flow f p = Ok (f', Some next) /\ analyze_request (i_call next) = Ok c' /\
    uri_host (cur_uri f) = s2b "a.test" /\ uri_host (cur_uri next) = s2b "b.test" /\
    get_all (am_headers (c_req c')) (s2b "host") = [s2b "a.test"] /\
    get_all (am_headers (c_req c')) (s2b "host") <> [uri_host (cur_uri next)] /\
    render_request_head (c_req c') =
      s2b "GET /y HTTP/1.1" ++ CRLF ++ s2b "host: a.test" ++ CRLF ++ CRLF.
Proof.
  exists ex_f14_redirect, Never, ex_f14_taken, ex_f14_next, ex_f14_call.
  split; [vm_compute; discriminate|].
  repeat split; try (vm_compute; reflexivity). vm_compute. discriminate.
Qed.

(* ================================================================== additions after review 3 *)

(* ------------------------------------------------------------------ relative base (F19, repaired) *)

(** A request in origin form ("GET /x" plus a Host field: no scheme, no authority in the URI) is
    accepted by the analysis (C17).  When the response is a followed 3xx, the current URI cannot be
    parsed as a URL.  This used to be an [expect] in [new_uri_from_location] (a panic reachable
    from accepted input); code and model now report BadLocationHeader.

    [redirect_state]: what is left of [redirect_ready] -- a status was recorded and the request has
    not been taken; the URI may be anything. *)
Theorem c14_redirect_state_def : forall f,
  redirect_state f <-> i_status f <> None /\ am_req (c_req (i_call f)) <> None.
Proof. reflexivity. Qed.

Theorem c14_redirect_ready_split : forall f,
  redirect_ready f <-> redirect_state f /\ u_scheme (cur_uri f) <> [].
Proof. exact redirect_ready_split. Qed.

(** Scheme-less current URI + any Location (text or not, resolvable or not): an error, no flow, no
    panic -- with either policy.  (Without a Location: NoLocationHeader, as always.) *)
Theorem c14_relative_base_error : forall f p,
  i_status f <> None -> u_scheme (cur_uri f) = [] ->
  as_new_flow f p = match i_location f with
                    | None => Err NoLocationHeader
                    | Some _ => Err BadLocationHeader
                    end.
Proof. exact relative_base_error. Qed.

(** Reached by a history of Script operations (the harness replays it against the crate): the
    origin-form request is accepted and written, the 302 is read, the flow is in Redirect with
    status and request but NOT [redirect_ready]; every kind of Location is answered
    BadLocationHeader, a missing one NoLocationHeader. *)
Example c14_relative_base_script :
  let f := redirect_flow_of rel_req [s2b "http://b.test/y"] in
  call_invalid (i_call (start_flow rel_req)) = false /\
  head_obs rel_req = [w "ok"; TN 33; TH (s2b "GET /x HTTP/1.1" ++ CRLF ++ s2b "host: a.test" ++ CRLF ++ CRLF)] /\
  s_obj (run_ops s_init (to_redirect rel_req [s2b "http://b.test/y"])) = ObFlow TRedirect f /\
  redirect_state f /\ u_scheme (cur_uri f) = [] /\ ~ redirect_ready f /\
  i_location f = Some (s2b "http://b.test/y") /\
  as_new_flow f Never = Err BadLocationHeader /\ as_new_flow f SameHost = Err BadLocationHeader /\
  redirect_obs rel_req [s2b "http://b.test/y"] Never = obs_err BadLocationHeader /\
  redirect_obs rel_req [s2b "/y"] SameHost = obs_err BadLocationHeader /\
  redirect_obs rel_req [s2b "../y?q#f"] Never = obs_err BadLocationHeader /\
  redirect_obs rel_req [s2b ""] Never = obs_err BadLocationHeader /\
  redirect_obs rel_req [] Never = obs_err NoLocationHeader.
Proof. exact relative_base_script. Qed.

Theorem c14_script_vocabulary_def : forall r locs p,
  to_redirect r locs =
    (let rsp := redirect_response (s2b "302") locs in
     [ONew r; OProceed; OWriteHead 4096; OProceed; OSetStream rsp; OArrive (len rsp); OTryResponse; OProceed]) /\
  redirect_flow_of r locs =
    match s_obj (run_ops s_init (to_redirect r locs)) with ObFlow TRedirect f => f | _ => dummy_flow end /\
  redirect_obs r locs p = snd (step (run_ops s_init (to_redirect r locs)) (OAsNewFlow p)) /\
  head_obs r = snd (step (run_ops s_init [ONew r; OProceed]) (OWriteHead 4096)).
Proof. intros. repeat split. Qed.

(** The error clause of [c14_errors] without the scheme hypothesis. *)
Theorem c14_errors_all : forall f p loc,
  i_location f = Some loc -> i_status f <> None ->
  u_scheme (cur_uri f) = [] \/ resolve (cur_uri f) loc = None ->
  as_new_flow f p = Err BadLocationHeader.
Proof.
  intros f p loc Hl Hs [Hu|Hr]; [eapply relative_base_error_loc; eauto|].
  destruct (u_scheme (cur_uri f)) eqn:Hu; [eapply relative_base_error_loc; eauto|].
  eapply as_new_flow_unresolvable; eauto. rewrite Hu. discriminate.
Qed.

(** Complete case analysis in the Redirect state for EVERY Location value and EVERY current URI
    (the version of [c14_outcomes] that does not assume an absolute current URI). *)
Theorem c14_outcomes_all : forall f p,
  redirect_state f ->
  (i_location f = None /\ as_new_flow f p = Err NoLocationHeader) \/
  (exists loc, i_location f = Some loc /\
     ((is_text loc = false \/ u_scheme (cur_uri f) = [] \/ resolve (cur_uri f) loc = None) /\
      as_new_flow f p = Err BadLocationHeader
      \/ is_text loc = true /\ u_scheme (cur_uri f) <> [] /\
         exists target, resolve (cur_uri f) loc = Some target /\
           (as_new_flow f p = Ok (f, None) \/
            exists f' next, as_new_flow f p = Ok (f', Some next) /\ cur_uri next = target))).
Proof. exact as_new_flow_outcomes_all. Qed.

(** The panics of [as_new_flow], exactly: called outside the Redirect state (no status), or a
    second time on a redirect flow whose request was taken (F18; only for a flow with an absolute
    URI, i.e. from hop 1 on -- at hop 0 the emptied request has no scheme and the call errs). *)
Theorem c14_panic_cases : forall f p site,
  as_new_flow f p = Panic site ->
  (i_status f = None /\ site = "flow.rs: status.unwrap() in as_new_flow"%string) \/
  (am_req (c_req (i_call f)) = None /\ u_scheme (cur_uri f) <> [] /\
   site = "amended.rs: body.unwrap() in take_request"%string).
Proof. exact as_new_flow_panic_cases. Qed.

(** The error branches of [c14_errors] / [c14_outcomes] reached by the script with an absolute
    request: empty authority, port above 65535, a non-text value (bytes >= 0x80), no Location;
    and with two fields the last one is used ("//" then "z": followed). *)
Example c14_error_branches :
  let f1 := redirect_flow_of abs_req [s2b "//"] in
  let f2 := redirect_flow_of abs_req [s2b "http://h:99999/"] in
  let f3 := redirect_flow_of abs_req [s2b "/caf" ++ [195; 169]] in
  let f4 := redirect_flow_of abs_req [] in
  (redirect_ready f1 /\ i_location f1 = Some (s2b "//") /\ is_text (s2b "//") = true /\
   resolve (cur_uri f1) (s2b "//") = None /\
   redirect_obs abs_req [s2b "//"] Never = obs_err BadLocationHeader) /\
  (redirect_ready f2 /\ i_location f2 = Some (s2b "http://h:99999/") /\
   resolve (cur_uri f2) (s2b "http://h:99999/") = None /\
   redirect_obs abs_req [s2b "http://h:99999/"] SameHost = obs_err BadLocationHeader) /\
  (redirect_ready f3 /\ i_location f3 = Some (s2b "/caf" ++ [195; 169]) /\
   is_text (s2b "/caf" ++ [195; 169]) = false /\
   redirect_obs abs_req [s2b "/caf" ++ [195; 169]] Never = obs_err BadLocationHeader) /\
  (redirect_ready f4 /\ i_location f4 = None /\
   redirect_obs abs_req [] Never = obs_err NoLocationHeader) /\
  redirect_obs abs_req [s2b "//"; s2b "z"] Never = [w "some"].
Proof. exact error_branches_script. Qed.

(* ------------------------------------------------------------------ domain of validity: the grammar *)

(** [loc_in_grammar] (proofs/C14_grammar.v, written from the property text and the ABNF of
    RFC 3986, independent of Url.v): the Location values for which the model's [resolve] is
    claimed to describe the url crate.

      loc       = ref [ "#" fragment ]
      ref       = ("http" / "https") "://" authority path-abempty [ "?" query ]    ; any letter case
                / "//" authority path-abempty [ "?" query ]
                / [ path-absolute / path-noscheme ] [ "?" query ]                   ; also empty
      authority = host [ ":" *DIGIT ],  host = 1*( ALPHA / DIGIT / "-" / "." )
      path, query, fragment bytes: unreserved / sub-delims / ":" / "@" / "/" / "?" (query, fragment)
                / "%" HEXDIG HEXDIG.   No SP, control byte, backslash, non-ASCII byte, lone "%".

    OUTSIDE this grammar the theorems about [resolve] ([c14_resolve_matches_rfc], [c14_outcomes],
    [c14_wire], [c14_chain], ...) are statements about the MODEL only.  Known differences between
    model (RFC 3986) and crate (WHATWG URL), all outside the grammar ([c14_outside_grammar]):
      - "\\evil.test/p": the crate reads "\" as "/" and goes to host evil.test; the model stays on
        the same host with path "/x/\\evil.test/p";
      - "/a b": the crate sends "/a%20b"; the model would put a space in the request line;
      - "http:g": for the crate a same-origin relative reference; for the model unresolvable. *)
Theorem c14_loc_in_grammar_def : forall loc,
  loc_in_grammar loc =
    g_chars (g_ref_part loc) &&
    match g_fragment_part loc with Some f => g_chars f | None => true end &&
    g_shape (g_ref_part loc).
Proof. reflexivity. Qed.

Theorem c14_grammar_parts_def : forall loc r a,
  g_ref_part loc = fst (span (not_in [35]) loc) /\
  g_fragment_part loc = match snd (span (not_in [35]) loc) with [] => None | _ :: f => Some f end /\
  g_shape r =
    (if is_prefix (s2b "http://") (lower r) then g_net_path (drop 7 r)
     else if is_prefix (s2b "https://") (lower r) then g_net_path (drop 8 r)
     else if is_prefix (s2b "//") r then g_net_path (drop 2 r)
     else g_no_colon_in_first_segment r) /\
  g_net_path r = g_authority (fst (span (not_in [47; 63]) r)) /\
  g_no_colon_in_first_segment r = forallb (not_in [58]) (fst (span (not_in [47; 63]) r)) /\
  g_authority a =
    (let '(host, rest) := span (not_in [58]) a in
     negb (is_nil host) && forallb g_host_char host &&
     match rest with [] => true | _ :: port => forallb is_digit port end).
Proof. intros. repeat split. Qed.

Example c14_grammar_examples :
  forallb loc_in_grammar
    [s2b "HTTPS://B.test:443/p/q/r#frag"; s2b "http://b.test"; s2b "http://h:99999/"; s2b "http://h:/";
     s2b "//c.test:81"; s2b "//c.test/a?b#c"; s2b "/p/q"; s2b "/a:b"; s2b "../x?y"; s2b "./a/../b";
     s2b "x/y:z"; s2b "a%20b/c"; s2b "?q=1&r=/?"; s2b ""; s2b "#f"; s2b "/p;v=1,2/(x)*!$'+@"] = true /\
  forallb (fun l => negb (loc_in_grammar l))
    [[92; 92] ++ s2b "evil.test/p"; s2b "/a b"; s2b "http:g";
     s2b "//"; s2b "http://"; s2b "http://user:pw@h/"; s2b "http://[::1]/"; s2b "a:b"; s2b "ftp://h/";
     s2b "/x%2"; s2b "/x%zz"; s2b "/caf" ++ [195; 169]; s2b "/a" ++ [9] ++ s2b "b"; s2b "/a|b";
     s2b "/a" ++ [34] ++ s2b "b"; s2b "/<a>"; s2b "http://h:8o/"; s2b "/a#b#c"; s2b "/a" ++ [13; 10]] = true /\
  g_origin_of (s2b "HTTPS://B.test:443/p/q/r#frag") = GAbsolute (s2b "https") (s2b "B.test:443") /\
  g_origin_of (s2b "//c.test:81") = GSchemeRelative (s2b "c.test:81") /\
  g_origin_of (s2b "../x?y") = GSameOrigin /\ g_origin_of (s2b "") = GSameOrigin /\
  g_origin_of (s2b "?q=1") = GSameOrigin /\ g_origin_of (s2b "/p/q#f") = GSameOrigin.
Proof. exact grammar_examples. Qed.

(** What the model does with the reviewer's three counterexamples (none is in the grammar, see the
    second list above). *)
Example c14_outside_grammar :
  let base := {| u_scheme := s2b "http"; u_auth := s2b "a.test"; u_pq := s2b "/x/y" |} in
  resolve base ([92; 92] ++ s2b "evil.test/p") =
    Some {| u_scheme := s2b "http"; u_auth := s2b "a.test"; u_pq := s2b "/x/" ++ [92; 92] ++ s2b "evil.test/p" |} /\
  resolve base (s2b "/a b") =
    Some {| u_scheme := s2b "http"; u_auth := s2b "a.test"; u_pq := s2b "/a b" |} /\
  resolve base (s2b "http:g") = None.
Proof. exact outside_grammar_model_only. Qed.

(** A Location of the grammar is text (the "non-textual" error cannot occur) and, up to its
    fragment, consists of URI bytes: visible ASCII other than SP and the excluded delimiters. *)
Theorem c14_in_grammar_text : forall loc,
  loc_in_grammar loc = true ->
  is_text loc = true /\
  forall b, In b (until 35 loc) ->
    33 <= b <= 126 /\ ~ In b [34; 35; 60; 62; 91; 92; 93; 94; 96; 123; 124; 125].
Proof.
  intros loc H. split; [apply in_grammar_text; exact H|].
  intros b Hb. apply g_uri_byte_range. eapply in_grammar_ref_bytes; eauto.
Qed.

(** [c14_resolve_matches_rfc] with its scope: for Locations of the grammar, the model's resolution
    -- claimed to be the crate's -- is RFC 3986 5.2 resolution plus normalisation. *)
Theorem c14_resolve_matches_rfc_in_grammar : forall base loc,
  loc_in_grammar loc = true -> base_path_ok (uri_path base) ->
  resolve base loc = option_map uri_of (rfc_resolve (components_of base) loc).
Proof. intros base loc _ Hb. apply resolve_matches_rfc. exact Hb. Qed.

(** "Never a request to a wrong origin", on the grammar: scheme and authority of the target are
    those the grammar class of the Location prescribes ([g_origin_of] reads them off the text:
    what is written after "http(s)://" or "//" up to the next "/" or "?"; otherwise the base's),
    up to lower-casing and default-port elision ([norm_auth], see [c14_norm_auth_def]). *)
Theorem c14_origin_in_grammar : forall base loc t,
  loc_in_grammar loc = true -> resolve base loc = Some t ->
  match g_origin_of loc with
  | GAbsolute s a => u_scheme t = s /\ norm_auth s a = Some (u_auth t)
  | GSchemeRelative a =>
      u_scheme t = lower (u_scheme base) /\ norm_auth (lower (u_scheme base)) a = Some (u_auth t)
  | GSameOrigin =>
      u_scheme t = lower (u_scheme base) /\
      norm_auth (lower (u_scheme base)) (u_auth base) = Some (u_auth t)
  end.
Proof. exact resolve_origin_in_grammar. Qed.

Theorem c14_g_origin_of_def : forall loc,
  g_origin_of loc =
    let r := g_ref_part loc in
    if is_prefix (s2b "http://") (lower r) then GAbsolute (s2b "http") (fst (span (not_in [47; 63]) (drop 7 r)))
    else if is_prefix (s2b "https://") (lower r) then GAbsolute (s2b "https") (fst (span (not_in [47; 63]) (drop 8 r)))
    else if is_prefix (s2b "//") r then GSchemeRelative (fst (span (not_in [47; 63]) (drop 2 r)))
    else GSameOrigin.
Proof. reflexivity. Qed.

(** "Unresolvable", on the grammar: only a port above 65535 in the Location's own authority (or,
    for the classes that keep the base's authority, a base authority that does not normalise --
    never the case for a URI that [resolve] produced). *)
Theorem c14_unresolvable_in_grammar : forall base loc,
  loc_in_grammar loc = true ->
  (resolve base loc = None <->
   match g_origin_of loc with
   | GAbsolute s a => 65536 <= digits_value (g_port_of a)
   | GSchemeRelative a => 65536 <= digits_value (g_port_of a)
   | GSameOrigin => norm_auth (lower (u_scheme base)) (u_auth base) = None
   end).
Proof. exact unresolvable_in_grammar. Qed.

Theorem c14_g_port_of_def : forall a,
  g_port_of a = match snd (span (not_in [58]) a) with [] => [] | _ :: p => p end.
Proof. reflexivity. Qed.

(** [c14_outcomes] with its scope, for every current URI: for a Location of the grammar the only
    errors are a scheme-less current URI or an unresolvable target; a flow is produced only for the
    resolved URI, and that URI has the origin the grammar class prescribes. *)
Theorem c14_outcomes_in_grammar : forall f p loc,
  redirect_state f -> i_location f = Some loc -> loc_in_grammar loc = true ->
  ((u_scheme (cur_uri f) = [] \/ resolve (cur_uri f) loc = None) /\
   as_new_flow f p = Err BadLocationHeader)
  \/
  (u_scheme (cur_uri f) <> [] /\
   exists target, resolve (cur_uri f) loc = Some target /\
     match g_origin_of loc with
     | GAbsolute s a => u_scheme target = s /\ norm_auth s a = Some (u_auth target)
     | GSchemeRelative a =>
         u_scheme target = lower (u_scheme (cur_uri f)) /\
         norm_auth (lower (u_scheme (cur_uri f))) a = Some (u_auth target)
     | GSameOrigin =>
         u_scheme target = lower (u_scheme (cur_uri f)) /\
         norm_auth (lower (u_scheme (cur_uri f))) (u_auth (cur_uri f)) = Some (u_auth target)
     end /\
     (as_new_flow f p = Ok (f, None) \/
      exists f' next, as_new_flow f p = Ok (f', Some next) /\ cur_uri next = target)).
Proof. exact as_new_flow_outcomes_in_grammar. Qed.

(** Well-formed URIs: path-and-query of URI bytes, authority of host bytes and ":". *)
Theorem c14_wellformed_def : forall u,
  (pq_wellformed u <-> forall b, In b (u_pq u) -> g_uri_byte b = true) /\
  (auth_wellformed u <-> forall b, In b (u_auth u) -> g_auth_byte b = true) /\
  (forall b, g_uri_byte b = (g_plain b || (b =? 37))) /\
  (forall b, g_auth_byte b = (g_host_char b || (b =? 58))).
Proof. intros u. repeat split; auto. Qed.

(** Resolving a Location of the grammar against a well-formed URI gives a well-formed URI: the
    request target contains no SP, no control byte, no backslash, no non-ASCII byte -- so the
    request line of the next hop is a well-formed line.  (Both conditions are closed under
    [resolve], [c14_chain_wellformed]: they only constrain the caller's original URI.) *)
Theorem c14_wire_wellformed : forall base loc t,
  loc_in_grammar loc = true -> resolve base loc = Some t ->
  (pq_wellformed base -> pq_wellformed t /\
     forall b, In b (u_pq t) -> 33 <= b <= 126 /\ b <> 32 /\ b <> 9 /\ b <> 13 /\ b <> 10 /\ b <> 92 /\ b <> 35) /\
  (auth_wellformed base -> auth_wellformed t).
Proof.
  intros base loc t Hg Hr. split.
  - intros Hb. pose proof (resolve_wellformed _ _ _ Hg Hb Hr) as W. split; [exact W|].
    intros b Hin. eapply pq_wellformed_no_sp_ctl; eauto.
  - intros Hb. eapply resolve_auth_wellformed; eauto.
Qed.

(** [c14_wire] with its scope: the next head for a Location of the grammar. *)
Theorem c14_wire_in_grammar : forall f p f' next g c' loc,
  as_new_flow f p = Ok (f', Some next) -> i_location f = Some loc -> loc_in_grammar loc = true ->
  pq_wellformed (cur_uri f) -> auth_wellformed (cur_uri f) ->
  prepared next g -> analyze_request (i_call g) = Ok c' ->
  let target := cur_uri next in
  prelude_line (c_req c') =
    method_name (am_method (c_req (i_call next))) ++ [32] ++ u_pq target ++ [32] ++
    version_name (am_version (c_req (i_call f))) ++ CRLF /\
  u_pq target <> [] /\
  (forall b, In b (u_pq target) ->
     33 <= b <= 126 /\ ~ In b [34; 35; 60; 62; 91; 92; 93; 94; 96; 123; 124; 125]) /\
  pq_wellformed target /\ auth_wellformed target /\
  (~ KnownClass f ->
   get_all (am_headers (c_req c')) (s2b "host") = [uri_host target] /\
   forall b, In b (uri_host target) -> g_host_char b = true).
Proof.
  intros f p f' next g c' loc H Hl Hg Hpq Hau Hp Ha. cbv zeta.
  destruct (next_wire_in_grammar _ _ _ _ _ _ _ H Hl Hg Hpq Hau Hp Ha) as (A & B & C & D & E & F).
  repeat (split; [assumption|]). intros Hk. apply F.
  unfold KnownClass in Hk. destruct (get_all _ _); [reflexivity|exfalso; apply Hk; discriminate].
Qed.

Theorem c14_chain_wellformed : forall f locs fin,
  redirect_chain f locs fin -> Forall (fun l => loc_in_grammar l = true) locs ->
  (pq_wellformed (cur_uri f) -> pq_wellformed (cur_uri fin)) /\
  (auth_wellformed (cur_uri f) -> auth_wellformed (cur_uri fin)).
Proof.
  intros f locs fin H HF. split; intros Hb.
  - eapply chain_wellformed; eauto.
  - eapply chain_auth_wellformed; eauto.
Qed.

(** The hypotheses of the theorems of this part hold on a flow the script reaches, and on the
    three-hop chain of [c14_nonvacuous]. *)
Example c14_in_grammar_nonvacuous :
  (let loc := s2b "../p/./q?k=v#frag" in
   let f := redirect_flow_of abs_req [s2b "/ignored"; loc] in
   redirect_state f /\ i_location f = Some loc /\ loc_in_grammar loc = true /\
   pq_wellformed (cur_uri f) /\ auth_wellformed (cur_uri f) /\
   g_origin_of loc = GSameOrigin /\
   exists f' next, as_new_flow f Never = Ok (f', Some next) /\
     cur_uri next = {| u_scheme := s2b "http"; u_auth := s2b "a.test"; u_pq := s2b "/p/q?k=v" |} /\
     exists c', analyze_request (i_call next) = Ok c' /\
       prelude_line (c_req c') = s2b "GET /p/q?k=v HTTP/1.1" ++ CRLF) /\
  Forall (fun l => loc_in_grammar l = true) ex_locs /\
  pq_wellformed (cur_uri ex_start) /\ auth_wellformed (cur_uri ex_start).
Proof.
  split; [exact in_grammar_script|].
  split; [repeat constructor|].
  split; [apply pq_wellformed_b|apply auth_wellformed_b]; vm_compute; reflexivity.
Qed.

(* ------------------------------------------------------------------ the Redirect state on histories *)

(** For EVERY history of Script operations (any requests -- absolute or origin form --, any
    responses, any interleaving): a flow held in the Redirect state has a status; so unless its
    request was already taken by an earlier [as_new_flow] (F18) it satisfies [redirect_state], and
    following the redirect never panics.  (This instantiates the hypotheses of [c14_no_panic] /
    [c14_outcomes_all] for all reachable flows, not only for the examples.) *)
Theorem c14_script_redirect_state : forall ops f,
  s_obj (run_ops s_init ops) = ObFlow TRedirect f ->
  i_status f <> None /\ (am_req (c_req (i_call f)) <> None -> redirect_state f).
Proof.
  intros ops f H. split; [eapply script_redirect_has_status; eauto|].
  intros Hq. eapply script_redirect_state; eauto.
Qed.

Theorem c14_script_no_panic : forall ops f p site,
  s_obj (run_ops s_init ops) = ObFlow TRedirect f -> am_req (c_req (i_call f)) <> None ->
  as_new_flow f p <> Panic site.
Proof. exact script_no_panic. Qed.

Print Assumptions c14_cur_uri_def.
Print Assumptions c14_flow_step_def.
Print Assumptions c14_flow_steps_def.
Print Assumptions c14_redirect_chain_def.
Print Assumptions c14_step_preserves_uri.
Print Assumptions c14_script_covered.
Print Assumptions c14_script_preserves_uri.
Print Assumptions c14_as_new_flow_uri.
Print Assumptions c14_chain.
Print Assumptions c14_resolve_opt_def.
Print Assumptions c14_last_location.
Print Assumptions c14_prepared_def.
Print Assumptions c14_wire.
Print Assumptions c14_errors.
Print Assumptions c14_redirect_ready_def.
Print Assumptions c14_redirect_has_status.
Print Assumptions c14_outcomes.
Print Assumptions c14_no_panic.
Print Assumptions c14_target_absolute.
Print Assumptions c14_components_def.
Print Assumptions c14_base_path_ok_def.
Print Assumptions c14_resolve_matches_rfc.
Print Assumptions c14_rfc_resolve_def.
Print Assumptions c14_dotted_base_differs.
Print Assumptions c14_resolve_closed.
Print Assumptions c14_chain_rfc.
Print Assumptions c14_rfc_resolve_opt_def.
Print Assumptions c14_parse_matches_rfc.
Print Assumptions c14_rds_matches_rfc.
Print Assumptions c14_merge_matches_rfc.
Print Assumptions c14_fragment_dropped.
Print Assumptions c14_no_fragment.
Print Assumptions c14_origin.
Print Assumptions c14_norm_auth_def.
Print Assumptions c14_remove_dot_segments.
Print Assumptions c14_path_segments_def.
Print Assumptions c14_rfc_remove_dot_segments.
Print Assumptions c14_result_path.
Print Assumptions c14_rfc_examples.
Print Assumptions c14_headers_inherited.
Print Assumptions c14_rfc_nonvacuous.
Print Assumptions c14_nonvacuous.
Print Assumptions c14_not_original.
Print Assumptions c14_known_refuted.
Print Assumptions c14_redirect_state_def.
Print Assumptions c14_redirect_ready_split.
Print Assumptions c14_relative_base_error.
Print Assumptions c14_relative_base_script.
Print Assumptions c14_script_vocabulary_def.
Print Assumptions c14_errors_all.
Print Assumptions c14_outcomes_all.
Print Assumptions c14_panic_cases.
Print Assumptions c14_error_branches.
Print Assumptions c14_loc_in_grammar_def.
Print Assumptions c14_grammar_parts_def.
Print Assumptions c14_grammar_examples.
Print Assumptions c14_outside_grammar.
Print Assumptions c14_in_grammar_text.
Print Assumptions c14_resolve_matches_rfc_in_grammar.
Print Assumptions c14_origin_in_grammar.
Print Assumptions c14_g_origin_of_def.
Print Assumptions c14_unresolvable_in_grammar.
Print Assumptions c14_g_port_of_def.
Print Assumptions c14_outcomes_in_grammar.
Print Assumptions c14_wellformed_def.
Print Assumptions c14_wire_wellformed.
Print Assumptions c14_wire_in_grammar.
Print Assumptions c14_chain_wellformed.
Print Assumptions c14_in_grammar_nonvacuous.
Print Assumptions c14_script_redirect_state.
Print Assumptions c14_script_no_panic.

(* ================================================================== Call::analyze_request itself (translated from the source) *)
(** [Call::analyze_request] (src/client/call.rs) -- runs once; adds [Host] from the URI when the caller gave none and the URI has
    an authority; adds the body's framing header when the caller gave none; installs the writer the analysis chose; sets its flag only
    when all of that succeeded -- is translated on every run by tools/rs2coq2.py (theories/Gen2.v, [gen_call_analyze_request]; the
    analysis' result, the URI's host and the list of added headers are values, [set_header] is the model's reading of
    AmendedRequest::set_header on that list) and proved EQUAL to the model's [analyze_request] (proofs/Gen2_equiv_call3.v). *)
From Hoot Require Import GenLib Gen2.
From Hoot.proofs Require Import Gen2_equiv_call3.
Theorem c14_code_analyze_request : forall c,
  gen_call_analyze_request (c_analyzed c) (am_added (c_req c)) (c_writer c)
                           (lift_info3 (analyze (c_req c) (c_writer c) (c_skip c))) (host_of_call c)
  = lift_call (analyze_request c).
Proof. exact gen_call_analyze_request_eq. Qed.
Print Assumptions c14_code_analyze_request.

(* ================================================================== AmendedRequest::set_header itself (translated from the source) *)
(** [set_header_list] -- the reading of AmendedRequest::set_header used in [c14_code_analyze_request] -- is the translation of the
    function itself (theories/Gen2.v, [gen_am_set_header]: name and value converted and validated, the name lower-cased, then
    ArrayVec::push read as [capped_push]; proofs/Gen2_equiv_setheader.v), and [capped_push] is the translated ArrayVec::push
    (proofs/Gen2_equiv_arrayvec.v). *)
From Hoot.proofs Require Import Gen2_equiv_setheader Gen2_equiv_arrayvec.
Theorem c14_code_set_header : forall added k v, gen_am_set_header added k v = set_header_list added k v.
Proof. exact gen_am_set_header_eq. Qed.
Print Assumptions c14_code_set_header.
Theorem c14_code_capped_push : forall T cap site n (arr : list T) v,
  len arr = cap -> n <= cap ->
  match capped_push cap site (gen_arrayvec_deref T n arr) v with
  | Ok l' => exists arr', gen_arrayvec_push T n arr v = Ok (n + 1, arr', tt) /\ len arr' = cap /\ gen_arrayvec_deref T (n + 1) arr' = l'
  | Panic _ => exists s, gen_arrayvec_push T n arr v = Panic s
  | Err _ => False
  end.
Proof. exact gen_arrayvec_push_is_capped_push. Qed.
Print Assumptions c14_code_capped_push.
