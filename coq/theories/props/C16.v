(** Property C16 -- headers the caller adds before sending always reach the wire.
    Statements only; proofs are in proofs/C13_proofs.v (shared with C13), the writer and analysis
    facts come from proofs/C02_proofs.v, C02_analysis.v, C17_proofs.v; the strengthening after
    review 3 (second half of this file) is proved in proofs/C16_more.v and proofs/C16_first.v. *)
From Coq Require Import List.
From Hoot Require Import Base Chunk Body Httparse Parser Url Request Call Flow Script.
From Hoot.proofs Require Import BytesLemmas C17_proofs C02_proofs C02_analysis C13_proofs C13_examples.
From Hoot.proofs Require Import C16_more C16_first.
Open Scope N_scope.

(* ------------------------------------------------------------------ the specification *)

(** [req_of f] is the amended request a flow carries; [valid_kv] is the validity test of
    [HeaderName::from_bytes] / [HeaderValue::from_bytes]; an accepted name is stored lower-cased;
    [prepare_headers f kvs] is the sequence of [header] calls [kvs] on the Prepare flow [f], stopping
    at the first failure. *)
Theorem c16_defs : forall f kv kvs,
  req_of f = c_req (i_call f) /\
  valid_kv kv = valid_header_name (fst kv) && valid_header_value (snd kv) /\
  lower_kv kv = (lower (fst kv), snd kv) /\
  prepare_headers f [] = Ok f /\
  prepare_headers f (kv :: kvs) =
    (do f1 <- prepare_header f (fst kv) (snd kv); prepare_headers f1 kvs).
Proof. intros. repeat split. Qed.

(** The effective headers of a request: the added ones, then the inherited ones (the original
    fields whose name is not on the suppression list). The suppression list is never applied to
    the added ones. *)
Theorem c16_effective_def : forall a,
  am_headers a = am_added a ++ am_inherited a /\
  am_inherited a =
    filter (fun h => negb (mem_bytes (fst h) (am_unset a))) (rq_headers (am_request a)).
Proof. intros. split; reflexivity. Qed.

(* ------------------------------------------------------------------ one header *)

(** Complete behaviour of [header k v] on any flow: BadHeader for an invalid name or value (no
    effect), a panic of the fixed-capacity array when MAX_EXTRA_HEADERS are already there,
    otherwise the lower-cased name and the value are appended to the added headers and nothing else
    in the flow changes.  The name plays no role beyond validity. *)
Theorem c16_header_cases : forall f k v,
  prepare_header f k v =
    if negb (valid_kv (k, v)) then Err BadHeader
    else if MAX_EXTRA_HEADERS <=? len (am_added (req_of f))
         then Panic "util.rs: ArrayVec::push (extra headers)"
         else Ok (add_headers f [lower_kv (k, v)]).
Proof. exact prepare_header_cases. Qed.

Theorem c16_header_ok : forall f k v,
  valid_header_name k = true -> valid_header_value v = true ->
  len (am_added (req_of f)) < MAX_EXTRA_HEADERS ->
  exists f', prepare_header f k v = Ok f' /\
    am_added (req_of f') = am_added (req_of f) ++ [(lower k, v)] /\
    am_req (req_of f') = am_req (req_of f) /\ am_uri (req_of f') = am_uri (req_of f) /\
    am_unset (req_of f') = am_unset (req_of f) /\
    f' = set_call f (set_req (i_call f) (req_of f')).
Proof. exact c16_header_ok_lemma. Qed.

(* ------------------------------------------------------------------ any number, any flow *)

(** For ANY flow [f] (arbitrary underlying request, URI override and suppression list: a fresh
    flow, or one produced by a redirect at any depth, with any headers already added), any list of
    valid headers that fits: all calls succeed, the effective headers are the previously added
    ones, then the new ones in the order given, then the inherited ones, which are unchanged --
    whatever the names (cookie, authorization, content-length, host, connection, ...). *)
Theorem c16_order : forall f kvs,
  forallb valid_kv kvs = true ->
  len (am_added (req_of f)) + len kvs <= MAX_EXTRA_HEADERS ->
  exists f', prepare_headers f kvs = Ok f' /\
    am_headers (req_of f') = (am_added (req_of f) ++ map lower_kv kvs) ++ am_inherited (req_of f) /\
    am_added (req_of f') = am_added (req_of f) ++ map lower_kv kvs /\
    am_inherited (req_of f') = am_inherited (req_of f) /\
    am_req (req_of f') = am_req (req_of f) /\ am_uri (req_of f') = am_uri (req_of f) /\
    am_unset (req_of f') = am_unset (req_of f) /\
    f' = set_call f (set_req (i_call f) (req_of f')).
Proof. exact c16_order_lemma. Qed.

(** Conversely, whenever a sequence of [header] calls succeeded, that is what it did. *)
Theorem c16_order_inv : forall f kvs f',
  prepare_headers f kvs = Ok f' ->
  am_headers (req_of f') = (am_added (req_of f) ++ map lower_kv kvs) ++ am_inherited (req_of f) /\
  forallb valid_kv kvs = true.
Proof. exact c16_order_inv_lemma. Qed.

(* ------------------------------------------------------------------ on the wire *)

(** Whenever request analysis accepts (no side condition): the effective headers of the analysed
    request are the caller-added ones in order, then what analysis adds (Host and / or a framing
    header, at most two fields), then the inherited ones; and the rendered head -- the byte string
    C02 proves is written -- is the request line followed by their field lines in that order. *)
Theorem c16_wire : forall c c1,
  c_analyzed c = false -> analyze_request c = Ok c1 ->
  let extra := host_added (c_req c) ++ framing_added (c_req c) (c_writer c) in
  am_headers (c_req c1) = am_added (c_req c) ++ extra ++ am_inherited (c_req c) /\
  len extra <= 2 /\
  render_request_head (c_req c1) =
    prelude_line (c_req c) ++
    concat (map field_line (am_added (c_req c))) ++
    concat (map field_line extra) ++
    concat (map field_line (am_inherited (c_req c))) ++ CRLF.
Proof. exact c16_wire_lemma. Qed.

(** End to end, for a flow that has not written yet ([fresh_flow]: Prepare or SendRequest before the
    first write), after any successful sequence of [header] calls, if analysis accepts the result
    ([call_invalid] / [sendable] of C17), for every sequence of output buffers [caps]: the bytes
    written so far are a whole-line prefix of the rendered head, the flow can advance exactly when
    they are all of it, and the rendered head carries the added headers, in order, ahead of the
    analysis-added and the inherited ones. *)
Theorem c16_wire_bytes : forall f kvs f' caps,
  fresh_flow f -> prepare_headers f kvs = Ok f' ->
  call_invalid (i_call f') = false -> sendable (i_call f') ->
  let a := c_req (analysed_call (i_call f')) in
  let t := fwrun f' caps in
  (exists k, fw_out t = concat (take k (head_lines a))) /\
  (send_request_can_proceed (fw_flow t) = Ok true <-> fw_out t = render_request_head a) /\
  render_request_head a =
    prelude_line (req_of f) ++
    concat (map field_line (am_added (req_of f) ++ map lower_kv kvs)) ++
    concat (map field_line (host_added (req_of f') ++ framing_added (req_of f') (c_writer (i_call f)))) ++
    concat (map field_line (am_inherited (req_of f))) ++ CRLF.
Proof. exact c16_wire_bytes_lemma. Qed.

(* ------------------------------------------------------------------ after a redirect *)

(** The flow created by following a redirect starts without added headers (those of the previous
    hop are not inherited), has not written yet, and takes additions exactly like a fresh flow:
    they become effective in order, ahead of the inherited headers, whatever their names -- also
    names that are on the suppression list of that flow. *)
Theorem c16_redirect_depth : forall f p f' nxt,
  as_new_flow f p = Ok (f', Some nxt) ->
  am_added (req_of nxt) = [] /\ fresh_flow nxt /\
  forall kvs, forallb valid_kv kvs = true -> len kvs <= MAX_EXTRA_HEADERS ->
    exists g, prepare_headers nxt kvs = Ok g /\ fresh_flow g /\
              am_headers (req_of g) = map lower_kv kvs ++ am_inherited (req_of nxt).
Proof. exact c16_redirect_depth_lemma. Qed.

(* ------------------------------------------------------------------ examples / non-vacuity *)

(** [run_obs]: the observations of a list of operations; [heads]: the byte strings written by the
    write-head calls; [exchange loc p]: proceed, write the head, proceed, receive
    "302 Found, Location: loc, Content-Length: 0", proceed, as_new_flow p, follow
    (proofs/C13_examples.v). *)
Definition ex16_orig : request :=
  {| rq_method := GET; rq_version := V11;
     rq_uri := {| u_scheme := s2b "http"; u_auth := s2b "a.test"; u_pq := s2b "/start" |};
     rq_headers := [(s2b "authorization", s2b "old"); (s2b "cookie", s2b "old=1");
                    (s2b "accept", s2b "*/*")] |}.

(** Depth 1, other host: the inherited cookie and authorization are suppressed, the ones the caller
    attaches for the target -- together with content-length, host and connection -- are sent, in the
    order added, ahead of the inherited field.  (The pinned upstream tree dropped the added cookie
    and authorization here: finding F13.)  [ODespite] = send_body_despite_method, without which a
    GET with a content-length is rejected by analysis. *)
Example c16_cookie_at_depth_1 :
  heads (run_obs s_init
           ([ONew ex16_orig] ++ exchange (s2b "http://b.test/next") Never ++
            [ODespite; OHeader (s2b "Cookie") (s2b "new=2"); OHeader (s2b "Authorization") (s2b "for-b");
             OHeader (s2b "X-Trace") [255; 9]; OHeader (s2b "Content-Length") (s2b "0");
             OHeader (s2b "Host") (s2b "b.test"); OHeader (s2b "connection") (s2b "close");
             OProceed; OWriteHead 4096])) =
  [ s2b "GET /start HTTP/1.1" ++ CRLF ++ s2b "host: a.test" ++ CRLF ++
    s2b "authorization: old" ++ CRLF ++ s2b "cookie: old=1" ++ CRLF ++ s2b "accept: */*" ++ CRLF ++ CRLF;
    s2b "GET /next HTTP/1.1" ++ CRLF ++ s2b "cookie: new=2" ++ CRLF ++
    s2b "authorization: for-b" ++ CRLF ++ s2b "x-trace: " ++ [255; 9] ++ CRLF ++
    s2b "content-length: 0" ++ CRLF ++ s2b "host: b.test" ++ CRLF ++ s2b "connection: close" ++ CRLF ++
    s2b "accept: */*" ++ CRLF ++ CRLF ].
Proof. vm_compute. reflexivity. Qed.

(** The hypotheses of [c16_order] and [c16_wire_bytes] are satisfiable on a flow at depth 1 with
    suppressed names among the additions. *)
Definition ex16_depth1 : inner :=
  match s_obj (run_ops s_init ([ONew ex16_orig] ++ exchange (s2b "http://b.test/next") SameHost ++ [ODespite])) with
  | ObFlow _ f => f
  | _ => {| i_call := call_new ex16_orig new_none; i_holder := HRecvBody; i_reasons := [];
            i_should_send_body := false; i_await_100 := false; i_status := None; i_location := None |}
  end.
Definition ex16_kvs : list header :=
  [(s2b "Cookie", s2b "new=2"); (s2b "AUTHORIZATION", s2b "for-b"); (s2b "content-length", s2b "0")].

Definition ex16_after : inner :=
  match prepare_headers ex16_depth1 ex16_kvs with Ok f' => f' | _ => ex16_depth1 end.

Example c16_nonvacuous :
  fresh_flow ex16_depth1 /\
  am_unset (req_of ex16_depth1) = [s2b "authorization"; s2b "cookie"; s2b "content-length"] /\
  forallb valid_kv ex16_kvs = true /\
  len (am_added (req_of ex16_depth1)) + len ex16_kvs <= MAX_EXTRA_HEADERS /\
  prepare_headers ex16_depth1 ex16_kvs = Ok ex16_after /\
  call_invalid (i_call ex16_after) = false /\ sendable (i_call ex16_after) /\
  am_headers (req_of ex16_after) =
    [(s2b "cookie", s2b "new=2"); (s2b "authorization", s2b "for-b"); (s2b "content-length", s2b "0");
     (s2b "accept", s2b "*/*")] /\
  let t := fwrun ex16_after [10; 30; 1000] in
  send_request_can_proceed (fw_flow t) = Ok true /\
  fw_out t =
    s2b "GET /next HTTP/1.1" ++ CRLF ++ s2b "cookie: new=2" ++ CRLF ++
    s2b "authorization: for-b" ++ CRLF ++ s2b "content-length: 0" ++ CRLF ++
    s2b "host: b.test" ++ CRLF ++ s2b "accept: */*" ++ CRLF ++ CRLF.
Proof. vm_compute. repeat split; try discriminate; auto. Qed.

(* ================================================================== strengthening (review 3) *)

(** Vocabulary of the additions (definitions in proofs/C16_more.v, C16_first.v).
    [header_ops kvs]: the script operations "header k v" for [kvs].  [prep]: what a caller does to a
    Prepare flow -- [PH k v] = header(k, v), [PD] = send_body_despite_method --, [run_prep f ps] runs
    a list of them on a flow, stopping at the first failure; [prep_kvs ps] are the headers among
    them, in order.  [head_of f]: the request head of a flow field by field.
    Recipient side, written from RFC 9112 (lines end in CRLF, a field line is name ":" SP value) the
    way the Python oracle does it, independent of the model's renderer: [split_crlf] splits a byte
    string at every CRLF, [split_colon] a line at the first ": ", [first_fields n head] are the
    first [n] lines after the request line, split.  [count_header h l]: how often the field [h]
    (same name and value) occurs in [l]. *)
Theorem c16_more_defs : forall f kvs k v ps n head h l b,
  header_ops kvs = map (fun kv => OHeader (fst kv) (snd kv)) kvs /\
  prep_op (PH k v) = OHeader k v /\ prep_op PD = ODespite /\
  run_prep f [] = Ok f /\
  run_prep f (PH k v :: ps) = (do f1 <- prepare_header f k v; run_prep f1 ps) /\
  run_prep f (PD :: ps) = (do f1 <- send_body_despite_method f; run_prep f1 ps) /\
  prep_kvs [] = [] /\ prep_kvs (PH k v :: ps) = (k, v) :: prep_kvs ps /\ prep_kvs (PD :: ps) = prep_kvs ps /\
  head_of f =
    prelude_line (req_of f) ++
    concat (map field_line (am_added (req_of f))) ++
    concat (map field_line (host_added (req_of f) ++ framing_added (req_of f) (c_writer (i_call f)))) ++
    concat (map field_line (am_inherited (req_of f))) ++ CRLF /\
  first_fields n head = map split_colon (take n (tl (split_crlf head))) /\
  count_header h l = len (filter (fun x => beq_bytes (fst h) (fst x) && beq_bytes (snd h) (snd x)) l) /\
  not_cr b = negb (b =? 13).
Proof. intros. repeat split. Qed.

Example c16_split_examples :
  split_crlf (s2b "GET / HTTP/1.1" ++ CRLF ++ s2b "a: b: c" ++ CRLF ++ [13] ++ CRLF ++ CRLF) =
    [s2b "GET / HTTP/1.1"; s2b "a: b: c"; [13]; []; []] /\
  split_crlf [] = [[]] /\ split_crlf [10; 13] = [[10; 13]] /\
  split_colon (s2b "a: b: c") = Some (s2b "a", s2b "b: c") /\
  split_colon (s2b "a:b") = None /\ split_colon (s2b ": ") = Some ([], []).
Proof. vm_compute. repeat split. Qed.

(* ------------------------------------------------------------------ one buffer takes the whole head *)

(** Liveness (review suggestion 8): a flow that has not written yet, after any successful sequence
    of [header] calls, accepted by analysis; ONE write with a buffer at least as long as the head
    emits exactly the head -- request line, the headers added before and now in order, what analysis
    adds, the inherited headers, empty line -- and the flow can advance. *)
Theorem c16_one_shot : forall f kvs f' cap,
  fresh_flow f -> prepare_headers f kvs = Ok f' ->
  call_invalid (i_call f') = false -> sendable (i_call f') ->
  let head :=
    prelude_line (req_of f) ++
    concat (map field_line (am_added (req_of f) ++ map lower_kv kvs)) ++
    concat (map field_line (host_added (req_of f') ++ framing_added (req_of f') (c_writer (i_call f)))) ++
    concat (map field_line (am_inherited (req_of f))) ++ CRLF in
  len head <= cap ->
  head = render_request_head (c_req (analysed_call (i_call f'))) /\
  exists g, send_request_write f' cap = Ok (g, head) /\ send_request_can_proceed g = Ok true /\
            fwrun f' [cap] = {| fw_flow := g; fw_out := head |}.
Proof. exact c16_one_shot_lemma. Qed.

(* ------------------------------------------------------------------ flows reached by running the model *)

(** Every history of script operations from the initial state (any number of requests, exchanges,
    redirects followed to any depth, header additions, ...): a Prepare flow it holds has not
    written yet, so all flow-level theorems above apply to it; and whenever a redirect has been
    followed ([s_next] is the flow [as_new_flow] produced), "follow" makes that flow the current
    Prepare flow and it carries no added headers (those of earlier hops are gone). *)
Theorem c16_reached_fresh : forall ops,
  (forall f, s_obj (run_ops s_init ops) = ObFlow TPrepare f -> fresh_flow f) /\
  (forall n, s_next (run_ops s_init ops) = Some n ->
     s_obj (run_ops s_init (ops ++ [OFollow])) = ObFlow TPrepare n /\
     fresh_flow n /\ am_added (req_of n) = []).
Proof. intros ops. split; [apply script_prepare_fresh|apply script_follow]. Qed.

(** Composition on the wire, at ANY redirect depth: [ops] is an arbitrary history after which the
    script holds a Prepare flow [f]; then the caller adds [kvs] (all calls succeed), proceeds and
    writes once with a buffer that is large enough.  If analysis accepts the result, the one head
    observed is EXACTLY: request line, the added headers' field lines in the order added (after the
    ones [f] already had: none if [f] is new, see [c16_reached_fresh]), the analysis-added fields,
    the inherited non-suppressed fields, CRLF; and the flow is ready to advance.
    ([heads (run_obs s ops)]: the byte strings reported by the write_head operations among [ops]
    run from state [s].) *)
Theorem c16_wire_exact : forall ops f kvs f' cap,
  s_obj (run_ops s_init ops) = ObFlow TPrepare f ->
  prepare_headers f kvs = Ok f' -> call_invalid (i_call f') = false -> sendable (i_call f') ->
  let head :=
    prelude_line (req_of f) ++
    concat (map field_line (am_added (req_of f) ++ map lower_kv kvs)) ++
    concat (map field_line (host_added (req_of f') ++ framing_added (req_of f') (c_writer (i_call f)))) ++
    concat (map field_line (am_inherited (req_of f))) ++ CRLF in
  len head <= cap ->
  let tail_ops := header_ops kvs ++ [OProceed; OWriteHead cap] in
  heads (run_obs (run_ops s_init ops) tail_ops) = [head] /\
  exists g, s_obj (run_ops s_init (ops ++ tail_ops)) = ObFlow TSendRequest g /\
            send_request_can_proceed g = Ok true.
Proof. exact c16_wire_exact_lemma. Qed.

(* ------------------------------------------------------------------ what the recipient (and the oracle) sees *)

(** Whenever one write emitted the whole head of a flow that had no added headers before the
    [header] calls [kvs]: splitting the emitted bytes at CRLF and each line at the first ": ", the
    first [len kvs] field lines after the request line are exactly the added headers (name lower-
    cased, value byte for byte), in the order added -- hence ahead of every other field.
    Side condition [not_cr]: the request target contains no CR (http::Uri admits no control characters;
    the model's [uri] is an arbitrary byte string, and a CRLF inside the target would shift the
    lines). *)
Theorem c16_added_first : forall f kvs f' g cap head,
  fresh_flow f -> am_added (req_of f) = [] -> prepare_headers f kvs = Ok f' ->
  call_invalid (i_call f') = false -> sendable (i_call f') ->
  send_request_write f' cap = Ok (g, head) -> send_request_can_proceed g = Ok true ->
  forallb not_cr (u_pq (am_eff_uri (req_of f))) = true ->
  first_fields (len kvs) head = map (fun kv => Some (lower_kv kv)) kvs.
Proof. exact c16_added_first_lemma. Qed.

(** The same for a flow reached by a history (exactly what the Python oracle checks on the
    observation of "header*, proceed, write_head"). *)
Theorem c16_added_first_script : forall ops f kvs f' cap,
  s_obj (run_ops s_init ops) = ObFlow TPrepare f -> am_added (req_of f) = [] ->
  prepare_headers f kvs = Ok f' -> call_invalid (i_call f') = false -> sendable (i_call f') ->
  len (head_of f') <= cap ->
  forallb not_cr (u_pq (am_eff_uri (req_of f))) = true ->
  exists head,
    heads (run_obs (run_ops s_init ops) (header_ops kvs ++ [OProceed; OWriteHead cap])) = [head] /\
    first_fields (len kvs) head = map (fun kv => Some (lower_kv kv)) kvs.
Proof. exact c16_added_first_script_lemma. Qed.

(* ------------------------------------------------------------------ send_body_despite_method among the additions *)

(** [send_body_despite_method] keeps the request of the flow (and with it everything added so far);
    on a flow that has not written yet it always succeeds. *)
Theorem c16_despite_keeps_request : forall f,
  (forall f', send_body_despite_method f = Ok f' -> req_of f' = req_of f) /\
  (fresh_flow f -> exists f', send_body_despite_method f = Ok f' /\ fresh_flow f').
Proof. exact c16_despite_keeps_request_lemma. Qed.

(** Any interleaving of [header] calls and [send_body_despite_method] on any flow: whenever it
    succeeded, the effective headers are the previously added ones, then ALL the headers of the
    [header] calls in order -- those made before a despite as well as those after --, then the
    unchanged inherited ones. *)
Theorem c16_despite_order : forall f ps f',
  run_prep f ps = Ok f' ->
  am_headers (req_of f') = (am_added (req_of f) ++ map lower_kv (prep_kvs ps)) ++ am_inherited (req_of f) /\
  am_added (req_of f') = am_added (req_of f) ++ map lower_kv (prep_kvs ps) /\
  am_inherited (req_of f') = am_inherited (req_of f) /\
  am_req (req_of f') = am_req (req_of f) /\ am_uri (req_of f') = am_uri (req_of f) /\
  am_unset (req_of f') = am_unset (req_of f) /\
  forallb valid_kv (prep_kvs ps) = true /\
  (fresh_flow f -> fresh_flow f').
Proof. exact c16_despite_order_lemma. Qed.

(** ... and it does succeed when the flow has not written yet and the headers are valid and fit. *)
Theorem c16_despite_total : forall ps f,
  fresh_flow f -> forallb valid_kv (prep_kvs ps) = true ->
  len (am_added (req_of f)) + len (prep_kvs ps) <= MAX_EXTRA_HEADERS ->
  exists f', run_prep f ps = Ok f'.
Proof. exact run_prep_ok. Qed.

(** The shape a seeded change broke: additions, despite, more additions. *)
Theorem c16_despite_keeps : forall f kvs1 f1 f2 kvs2 f3,
  prepare_headers f kvs1 = Ok f1 -> send_body_despite_method f1 = Ok f2 -> prepare_headers f2 kvs2 = Ok f3 ->
  req_of f2 = req_of f1 /\
  am_added (req_of f3) = am_added (req_of f) ++ map lower_kv kvs1 ++ map lower_kv kvs2 /\
  am_headers (req_of f3) =
    (am_added (req_of f) ++ map lower_kv kvs1 ++ map lower_kv kvs2) ++ am_inherited (req_of f).
Proof. exact c16_despite_keeps_lemma. Qed.

(** On the wire, for a flow reached by any history: like [c16_wire_exact] with
    [send_body_despite_method] anywhere among the additions. *)
Theorem c16_despite_wire_exact : forall ops f ps f' cap,
  s_obj (run_ops s_init ops) = ObFlow TPrepare f ->
  run_prep f ps = Ok f' -> call_invalid (i_call f') = false -> sendable (i_call f') ->
  let head :=
    prelude_line (req_of f) ++
    concat (map field_line (am_added (req_of f) ++ map lower_kv (prep_kvs ps))) ++
    concat (map field_line (host_added (req_of f') ++ framing_added (req_of f') (c_writer (i_call f')))) ++
    concat (map field_line (am_inherited (req_of f))) ++ CRLF in
  len head <= cap ->
  let tail_ops := map prep_op ps ++ [OProceed; OWriteHead cap] in
  heads (run_obs (run_ops s_init ops) tail_ops) = [head] /\
  exists g, s_obj (run_ops s_init (ops ++ tail_ops)) = ObFlow TSendRequest g /\
            send_request_can_proceed g = Ok true.
Proof. exact c16_script_wire. Qed.

(* ------------------------------------------------------------------ no de-duplication *)

(** Adding a header equal in name and value to one of the original request ([h] arbitrary, in
    particular an original field, suppressed or not; original names are lower case) appends it all
    the same: the field occurs once more among the effective headers.  If the original is not
    suppressed it is now there (at least) twice; if its name is suppressed the inherited copy stays
    out and the added copy is in. *)
Theorem c16_same_as_original : forall f h,
  valid_kv h = true -> lower (fst h) = fst h -> len (am_added (req_of f)) < MAX_EXTRA_HEADERS ->
  exists f', prepare_header f (fst h) (snd h) = Ok f' /\
    am_added (req_of f') = am_added (req_of f) ++ [h] /\
    am_inherited (req_of f') = am_inherited (req_of f) /\
    count_header h (am_headers (req_of f')) = count_header h (am_headers (req_of f)) + 1 /\
    (In h (rq_headers (am_request (req_of f))) -> mem_bytes (fst h) (am_unset (req_of f)) = false ->
     2 <= count_header h (am_headers (req_of f'))) /\
    (mem_bytes (fst h) (am_unset (req_of f)) = true ->
     count_header h (am_inherited (req_of f')) = 0 /\ 1 <= count_header h (am_added (req_of f'))).
Proof. exact c16_same_as_original_lemma. Qed.

(* ------------------------------------------------------------------ examples / non-vacuity of the additions *)

(** Depth 2: the flow after the two followed redirects a.test -> b.test -> a.test of
    [C13_examples.two_hops] (policy SameHost: back on a.test the authorization is inherited again,
    the cookie is not).  All hypotheses of [c16_one_shot], [c16_wire_exact], [c16_added_first] and
    [c16_added_first_script] hold and the observed head is the expected one. *)
Definition ex16_depth2 : inner :=
  match s_obj (run_ops s_init two_hops) with ObFlow _ f => f | _ => dummy_flow end.
Definition ex16_kvs2 : list header := [(s2b "Cookie", s2b "new=2"); (s2b "X-Trace", [255; 9])].
Definition ex16_after2 : inner :=
  match prepare_headers ex16_depth2 ex16_kvs2 with Ok f' => f' | _ => ex16_depth2 end.
Definition ex16_head2 : bytes :=
  s2b "GET /two HTTP/1.1" ++ CRLF ++ s2b "cookie: new=2" ++ CRLF ++ s2b "x-trace: " ++ [255; 9] ++ CRLF ++
  s2b "host: a.test" ++ CRLF ++ s2b "authorization: secret" ++ CRLF ++ s2b "accept: */*" ++ CRLF ++ CRLF.

Example c16_wire_exact_depth2 :
  s_obj (run_ops s_init two_hops) = ObFlow TPrepare ex16_depth2 /\
  fresh_flow ex16_depth2 /\ am_added (req_of ex16_depth2) = [] /\
  am_unset (req_of ex16_depth2) = [s2b "cookie"; s2b "content-length"] /\
  prepare_headers ex16_depth2 ex16_kvs2 = Ok ex16_after2 /\
  call_invalid (i_call ex16_after2) = false /\ sendable (i_call ex16_after2) /\
  head_of ex16_after2 = ex16_head2 /\ len ex16_head2 <= 200 /\
  forallb not_cr (u_pq (am_eff_uri (req_of ex16_depth2))) = true /\
  heads (run_obs (run_ops s_init two_hops) (header_ops ex16_kvs2 ++ [OProceed; OWriteHead 200])) = [ex16_head2] /\
  first_fields (len ex16_kvs2) ex16_head2 = [Some (s2b "cookie", s2b "new=2"); Some (s2b "x-trace", [255; 9])].
Proof. vm_compute. repeat split; try discriminate; auto. Qed.

(** Depth 1, despite in the middle (a GET: without it the body framing is refused): the headers
    added before and after it are on the wire, in order, ahead of Host, the framing field analysis
    adds for the body, and the inherited field. *)
Definition ex16_depth1_never : inner :=
  match s_obj (run_ops s_init ([ONew ex16_orig] ++ exchange (s2b "http://b.test/next") Never)) with
  | ObFlow _ f => f | _ => dummy_flow end.
Definition ex16_ps : list prep :=
  [PH (s2b "Cookie") (s2b "new=2"); PH (s2b "X-Before") (s2b "1"); PD; PH (s2b "X-After") (s2b "2")].
Definition ex16_after_ps : inner :=
  match run_prep ex16_depth1_never ex16_ps with Ok f' => f' | _ => ex16_depth1_never end.
Definition ex16_head_ps : bytes :=
  s2b "GET /next HTTP/1.1" ++ CRLF ++ s2b "cookie: new=2" ++ CRLF ++ s2b "x-before: 1" ++ CRLF ++
  s2b "x-after: 2" ++ CRLF ++ s2b "host: b.test" ++ CRLF ++ s2b "transfer-encoding: chunked" ++ CRLF ++
  s2b "accept: */*" ++ CRLF ++ CRLF.

Example c16_despite_nonvacuous :
  s_obj (run_ops s_init ([ONew ex16_orig] ++ exchange (s2b "http://b.test/next") Never)) =
    ObFlow TPrepare ex16_depth1_never /\
  fresh_flow ex16_depth1_never /\
  am_unset (req_of ex16_depth1_never) = [s2b "authorization"; s2b "cookie"; s2b "content-length"] /\
  run_prep ex16_depth1_never ex16_ps = Ok ex16_after_ps /\
  prep_kvs ex16_ps = [(s2b "Cookie", s2b "new=2"); (s2b "X-Before", s2b "1"); (s2b "X-After", s2b "2")] /\
  forallb valid_kv (prep_kvs ex16_ps) = true /\
  len (am_added (req_of ex16_depth1_never)) + len (prep_kvs ex16_ps) <= MAX_EXTRA_HEADERS /\
  call_invalid (i_call ex16_after_ps) = false /\ sendable (i_call ex16_after_ps) /\
  len ex16_head_ps <= 4096 /\
  heads (run_obs (run_ops s_init ([ONew ex16_orig] ++ exchange (s2b "http://b.test/next") Never))
                 (map prep_op ex16_ps ++ [OProceed; OWriteHead 4096])) = [ex16_head_ps].
Proof. vm_compute. repeat split; try discriminate; auto. Qed.

(** Depth 1, re-attaching the original cookie: the inherited "cookie: old=1" is suppressed on the
    redirected flow; the caller adds the very same field again and it is sent. *)
Definition ex16_cookie : header := (s2b "cookie", s2b "old=1").

Example c16_same_cookie_at_depth_1 :
  valid_kv ex16_cookie = true /\ lower (fst ex16_cookie) = fst ex16_cookie /\
  len (am_added (req_of ex16_depth1_never)) < MAX_EXTRA_HEADERS /\
  In ex16_cookie (rq_headers (am_request (req_of ex16_depth1_never))) /\
  mem_bytes (fst ex16_cookie) (am_unset (req_of ex16_depth1_never)) = true /\
  count_header ex16_cookie (am_headers (req_of ex16_depth1_never)) = 0 /\
  heads (run_obs s_init
           ([ONew ex16_orig] ++ exchange (s2b "http://b.test/next") Never ++
            [OHeader (s2b "cookie") (s2b "old=1"); OProceed; OWriteHead 4096])) =
  [ s2b "GET /start HTTP/1.1" ++ CRLF ++ s2b "host: a.test" ++ CRLF ++
    s2b "authorization: old" ++ CRLF ++ s2b "cookie: old=1" ++ CRLF ++ s2b "accept: */*" ++ CRLF ++ CRLF;
    s2b "GET /next HTTP/1.1" ++ CRLF ++ s2b "cookie: old=1" ++ CRLF ++ s2b "host: b.test" ++ CRLF ++
    s2b "accept: */*" ++ CRLF ++ CRLF ].
Proof. vm_compute. repeat split; try discriminate; auto. Qed.

Print Assumptions c16_defs.
Print Assumptions c16_effective_def.
Print Assumptions c16_header_cases.
Print Assumptions c16_header_ok.
Print Assumptions c16_order.
Print Assumptions c16_order_inv.
Print Assumptions c16_wire.
Print Assumptions c16_wire_bytes.
Print Assumptions c16_redirect_depth.
Print Assumptions c16_cookie_at_depth_1.
Print Assumptions c16_nonvacuous.
Print Assumptions c16_more_defs.
Print Assumptions c16_split_examples.
Print Assumptions c16_one_shot.
Print Assumptions c16_reached_fresh.
Print Assumptions c16_wire_exact.
Print Assumptions c16_added_first.
Print Assumptions c16_added_first_script.
Print Assumptions c16_despite_keeps_request.
Print Assumptions c16_despite_order.
Print Assumptions c16_despite_total.
Print Assumptions c16_despite_keeps.
Print Assumptions c16_despite_wire_exact.
Print Assumptions c16_same_as_original.
Print Assumptions c16_wire_exact_depth2.
Print Assumptions c16_despite_nonvacuous.
Print Assumptions c16_same_cookie_at_depth_1.

(* ================================================================== the effective header list's code itself (translated from the source) *)
(** [AmendedRequest::headers] (src/client/amended.rs) and the accessors built on it ([headers_get_all], [headers_get],
    [headers_len]) are translated on every run by tools/rs2coq2.py (theories/Gen2.v, [gen_am_*]; the ArrayVec of added headers, the
    unset list and the original HeaderMap are lists in iteration order, names compare as byte strings) and proved EQUAL to the model's
    [am_headers] / [get_all] (proofs/Gen2_equiv_amended.v): caller-added headers first, in the order they were added, then the
    original request's headers that are not unset -- the unset list filters the inherited headers only.  Trusted: the translator;
    HeaderMap iteration order is read back from the http crate by the harness. *)
From Hoot Require Import GenLib Gen2.
From Hoot.proofs Require Import Gen2_equiv_amended.
Theorem c16_code_headers : forall a, gen_am_headers (am_added a) (am_unset a) (rq_headers (am_request a)) = am_headers a.
Proof. exact gen_am_headers_eq. Qed.
Theorem c16_code_headers_len : forall a, gen_am_headers_len (am_added a) (am_unset a) (rq_headers (am_request a)) = len (am_headers a).
Proof. exact gen_am_headers_len_eq. Qed.
Print Assumptions c16_code_headers.
Print Assumptions c16_code_headers_len.

(* ================================================================== the vector behind the added headers (translated from the source) *)
(** The added headers live in an ArrayVec of capacity MAX_EXTRA_HEADERS.  src/util.rs ArrayVec::push, translated: on the visible
    part of a vector of any capacity it appends, and it panics exactly when the vector is full (proofs/Gen2_equiv_arrayvec.v). *)
From Hoot.proofs Require Import Gen2_equiv_arrayvec.
Theorem c16_code_arrayvec_push_capped : forall T cap n (arr : list T) v,
  len arr = cap -> n <= cap ->
  if cap <=? len (gen_arrayvec_deref T n arr)
  then exists site, gen_arrayvec_push T n arr v = Panic site
  else exists arr', gen_arrayvec_push T n arr v = Ok (n + 1, arr', tt) /\ len arr' = cap /\
                    gen_arrayvec_deref T (n + 1) arr' = gen_arrayvec_deref T n arr ++ [v].
Proof. exact gen_arrayvec_push_capped. Qed.
Print Assumptions c16_code_arrayvec_push_capped.
