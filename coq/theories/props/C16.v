(** Property C16 -- headers the caller adds before sending always reach the wire.
    Statements only; proofs are in proofs/C13_proofs.v (shared with C13), the writer and analysis
    facts come from proofs/C02_proofs.v, C02_analysis.v, C17_proofs.v. *)
From Coq Require Import List.
From Hoot Require Import Base Chunk Body Httparse Parser Url Request Call Flow Script.
From Hoot.proofs Require Import BytesLemmas C17_proofs C02_proofs C02_analysis C13_proofs C13_examples.
Open Scope N_scope.

(* ------------------------------------------------------------------ the specification *)

(** [req_of f] is the amended request a flow carries; [valid_kv] is the validity test of
    [HeaderName::from_bytes] / [HeaderValue::from_bytes]; an accepted name is stored lower-cased;
    [prepare_headers f kvs] is the sequence of [header] calls [kvs] on the Prepare flow [f], stopping
    at the first failure. *)
Theorem c16_defs : forall f kv kvs,
  req_of f = c_req (i_call f) /\
  valid_kv kv = valid_header_name (fst kv) && valid_header_value (snd kv) /\
  lower_kv kv = (lower (fst kv), snd kv) /\
  prepare_headers f [] = Ok f /\
  prepare_headers f (kv :: kvs) =
    (do f1 <- prepare_header f (fst kv) (snd kv); prepare_headers f1 kvs).
Proof. intros. repeat split. Qed.

(** The effective headers of a request: the added ones, then the inherited ones (the original
    fields whose name is not on the suppression list). The suppression list is never applied to
    the added ones. *)
Theorem c16_effective_def : forall a,
  am_headers a = am_added a ++ am_inherited a /\
  am_inherited a =
    filter (fun h => negb (mem_bytes (fst h) (am_unset a))) (rq_headers (am_request a)).
Proof. intros. split; reflexivity. Qed.

(* ------------------------------------------------------------------ one header *)

(** Complete behaviour of [header k v] on any flow: BadHeader for an invalid name or value (no
    effect), a panic of the fixed-capacity array when MAX_EXTRA_HEADERS are already there,
    otherwise the lower-cased name and the value are appended to the added headers and nothing else
    in the flow changes.  The name plays no role beyond validity. *)
Theorem c16_header_cases : forall f k v,
  prepare_header f k v =
    if negb (valid_kv (k, v)) then Err BadHeader
    else if MAX_EXTRA_HEADERS <=? len (am_added (req_of f))
         then Panic "util.rs: ArrayVec::push (extra headers)"
         else Ok (add_headers f [lower_kv (k, v)]).
Proof. exact prepare_header_cases. Qed.

Theorem c16_header_ok : forall f k v,
  valid_header_name k = true -> valid_header_value v = true ->
  len (am_added (req_of f)) < MAX_EXTRA_HEADERS ->
  exists f', prepare_header f k v = Ok f' /\
    am_added (req_of f') = am_added (req_of f) ++ [(lower k, v)] /\
    am_req (req_of f') = am_req (req_of f) /\ am_uri (req_of f') = am_uri (req_of f) /\
    am_unset (req_of f') = am_unset (req_of f) /\
    f' = set_call f (set_req (i_call f) (req_of f')).
Proof. exact c16_header_ok_lemma. Qed.

(* ------------------------------------------------------------------ any number, any flow *)

(** For ANY flow [f] (arbitrary underlying request, URI override and suppression list: a fresh
    flow, or one produced by a redirect at any depth, with any headers already added), any list of
    valid headers that fits: all calls succeed, the effective headers are the previously added
    ones, then the new ones in the order given, then the inherited ones, which are unchanged --
    whatever the names (cookie, authorization, content-length, host, connection, ...). *)
Theorem c16_order : forall f kvs,
  forallb valid_kv kvs = true ->
  len (am_added (req_of f)) + len kvs <= MAX_EXTRA_HEADERS ->
  exists f', prepare_headers f kvs = Ok f' /\
    am_headers (req_of f') = (am_added (req_of f) ++ map lower_kv kvs) ++ am_inherited (req_of f) /\
    am_added (req_of f') = am_added (req_of f) ++ map lower_kv kvs /\
    am_inherited (req_of f') = am_inherited (req_of f) /\
    am_req (req_of f') = am_req (req_of f) /\ am_uri (req_of f') = am_uri (req_of f) /\
    am_unset (req_of f') = am_unset (req_of f) /\
    f' = set_call f (set_req (i_call f) (req_of f')).
Proof. exact c16_order_lemma. Qed.

(** Conversely, whenever a sequence of [header] calls succeeded, that is what it did. *)
Theorem c16_order_inv : forall f kvs f',
  prepare_headers f kvs = Ok f' ->
  am_headers (req_of f') = (am_added (req_of f) ++ map lower_kv kvs) ++ am_inherited (req_of f) /\
  forallb valid_kv kvs = true.
Proof. exact c16_order_inv_lemma. Qed.

(* ------------------------------------------------------------------ on the wire *)

(** Whenever request analysis accepts (no side condition): the effective headers of the analysed
    request are the caller-added ones in order, then what analysis adds (Host and / or a framing
    header, at most two fields), then the inherited ones; and the rendered head -- the byte string
    C02 proves is written -- is the request line followed by their field lines in that order. *)
Theorem c16_wire : forall c c1,
  c_analyzed c = false -> analyze_request c = Ok c1 ->
  let extra := host_added (c_req c) ++ framing_added (c_req c) (c_writer c) in
  am_headers (c_req c1) = am_added (c_req c) ++ extra ++ am_inherited (c_req c) /\
  len extra <= 2 /\
  render_request_head (c_req c1) =
    prelude_line (c_req c) ++
    concat (map field_line (am_added (c_req c))) ++
    concat (map field_line extra) ++
    concat (map field_line (am_inherited (c_req c))) ++ CRLF.
Proof. exact c16_wire_lemma. Qed.

(** End to end, for a flow that has not written yet ([fresh_flow]: Prepare or SendRequest before the
    first write), after any successful sequence of [header] calls, if analysis accepts the result
    ([call_invalid] / [sendable] of C17), for every sequence of output buffers [caps]: the bytes
    written so far are a whole-line prefix of the rendered head, the flow can advance exactly when
    they are all of it, and the rendered head carries the added headers, in order, ahead of the
    analysis-added and the inherited ones. *)
Theorem c16_wire_bytes : forall f kvs f' caps,
  fresh_flow f -> prepare_headers f kvs = Ok f' ->
  call_invalid (i_call f') = false -> sendable (i_call f') ->
  let a := c_req (analysed_call (i_call f')) in
  let t := fwrun f' caps in
  (exists k, fw_out t = concat (take k (head_lines a))) /\
  (send_request_can_proceed (fw_flow t) = Ok true <-> fw_out t = render_request_head a) /\
  render_request_head a =
    prelude_line (req_of f) ++
    concat (map field_line (am_added (req_of f) ++ map lower_kv kvs)) ++
    concat (map field_line (host_added (req_of f') ++ framing_added (req_of f') (c_writer (i_call f)))) ++
    concat (map field_line (am_inherited (req_of f))) ++ CRLF.
Proof. exact c16_wire_bytes_lemma. Qed.

(* ------------------------------------------------------------------ after a redirect *)

(** The flow created by following a redirect starts without added headers (those of the previous
    hop are not inherited), has not written yet, and takes additions exactly like a fresh flow:
    they become effective in order, ahead of the inherited headers, whatever their names -- also
    names that are on the suppression list of that flow. *)
Theorem c16_redirect_depth : forall f p f' nxt,
  as_new_flow f p = Ok (f', Some nxt) ->
  am_added (req_of nxt) = [] /\ fresh_flow nxt /\
  forall kvs, forallb valid_kv kvs = true -> len kvs <= MAX_EXTRA_HEADERS ->
    exists g, prepare_headers nxt kvs = Ok g /\ fresh_flow g /\
              am_headers (req_of g) = map lower_kv kvs ++ am_inherited (req_of nxt).
Proof. exact c16_redirect_depth_lemma. Qed.

(* ------------------------------------------------------------------ examples / non-vacuity *)

(** [run_obs]: the observations of a list of operations; [heads]: the byte strings written by the
    write-head calls; [exchange loc p]: proceed, write the head, proceed, receive
    "302 Found, Location: loc, Content-Length: 0", proceed, as_new_flow p, follow
    (proofs/C13_examples.v). *)
Definition ex16_orig : request :=
  {| rq_method := GET; rq_version := V11;
     rq_uri := {| u_scheme := s2b "http"; u_auth := s2b "a.test"; u_pq := s2b "/start" |};
     rq_headers := [(s2b "authorization", s2b "old"); (s2b "cookie", s2b "old=1");
                    (s2b "accept", s2b "*/*")] |}.

(** Depth 1, other host: the inherited cookie and authorization are suppressed, the ones the caller
    attaches for the target -- together with content-length, host and connection -- are sent, in the
    order added, ahead of the inherited field.  (The pinned upstream tree dropped the added cookie
    and authorization here: finding F13.)  [ODespite] = send_body_despite_method, without which a
    GET with a content-length is rejected by analysis. *)
Example c16_cookie_at_depth_1 :
  heads (run_obs s_init
           ([ONew ex16_orig] ++ exchange (s2b "http://b.test/next") Never ++
            [ODespite; OHeader (s2b "Cookie") (s2b "new=2"); OHeader (s2b "Authorization") (s2b "for-b");
             OHeader (s2b "X-Trace") [255; 9]; OHeader (s2b "Content-Length") (s2b "0");
             OHeader (s2b "Host") (s2b "b.test"); OHeader (s2b "connection") (s2b "close");
             OProceed; OWriteHead 4096])) =
  [ s2b "GET /start HTTP/1.1" ++ CRLF ++ s2b "host: a.test" ++ CRLF ++
    s2b "authorization: old" ++ CRLF ++ s2b "cookie: old=1" ++ CRLF ++ s2b "accept: */*" ++ CRLF ++ CRLF;
    s2b "GET /next HTTP/1.1" ++ CRLF ++ s2b "cookie: new=2" ++ CRLF ++
    s2b "authorization: for-b" ++ CRLF ++ s2b "x-trace: " ++ [255; 9] ++ CRLF ++
    s2b "content-length: 0" ++ CRLF ++ s2b "host: b.test" ++ CRLF ++ s2b "connection: close" ++ CRLF ++
    s2b "accept: */*" ++ CRLF ++ CRLF ].
Proof. vm_compute. reflexivity. Qed.

(** The hypotheses of [c16_order] and [c16_wire_bytes] are satisfiable on a flow at depth 1 with
    suppressed names among the additions. *)
Definition ex16_depth1 : inner :=
  match s_obj (run_ops s_init ([ONew ex16_orig] ++ exchange (s2b "http://b.test/next") SameHost ++ [ODespite])) with
  | ObFlow _ f => f
  | _ => {| i_call := call_new ex16_orig new_none; i_holder := HRecvBody; i_reasons := [];
            i_should_send_body := false; i_await_100 := false; i_status := None; i_location := None |}
  end.
Definition ex16_kvs : list header :=
  [(s2b "Cookie", s2b "new=2"); (s2b "AUTHORIZATION", s2b "for-b"); (s2b "content-length", s2b "0")].

Definition ex16_after : inner :=
  match prepare_headers ex16_depth1 ex16_kvs with Ok f' => f' | _ => ex16_depth1 end.

Example c16_nonvacuous :
  fresh_flow ex16_depth1 /\
  am_unset (req_of ex16_depth1) = [s2b "authorization"; s2b "cookie"; s2b "content-length"] /\
  forallb valid_kv ex16_kvs = true /\
  len (am_added (req_of ex16_depth1)) + len ex16_kvs <= MAX_EXTRA_HEADERS /\
  prepare_headers ex16_depth1 ex16_kvs = Ok ex16_after /\
  call_invalid (i_call ex16_after) = false /\ sendable (i_call ex16_after) /\
  am_headers (req_of ex16_after) =
    [(s2b "cookie", s2b "new=2"); (s2b "authorization", s2b "for-b"); (s2b "content-length", s2b "0");
     (s2b "accept", s2b "*/*")] /\
  let t := fwrun ex16_after [10; 30; 1000] in
  send_request_can_proceed (fw_flow t) = Ok true /\
  fw_out t =
    s2b "GET /next HTTP/1.1" ++ CRLF ++ s2b "cookie: new=2" ++ CRLF ++
    s2b "authorization: for-b" ++ CRLF ++ s2b "content-length: 0" ++ CRLF ++
    s2b "host: b.test" ++ CRLF ++ s2b "accept: */*" ++ CRLF ++ CRLF.
Proof. vm_compute. repeat split; try discriminate; auto. Qed.

Print Assumptions c16_defs.
Print Assumptions c16_effective_def.
Print Assumptions c16_header_cases.
Print Assumptions c16_header_ok.
Print Assumptions c16_order.
Print Assumptions c16_order_inv.
Print Assumptions c16_wire.
Print Assumptions c16_wire_bytes.
Print Assumptions c16_redirect_depth.
Print Assumptions c16_cookie_at_depth_1.
Print Assumptions c16_nonvacuous.
