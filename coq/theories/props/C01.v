(** Property C01 -- Exchange outcome is independent of I/O segmentation and buffer sizes.

    "For a fixed request and a fixed server byte stream, every way of slicing the I/O -- output buffer
    sizes while sending, how many server bytes have arrived at each call (the caller re-presents
    unconsumed bytes), and output buffer sizes while reading -- produces the same request head bytes,
    the same request body payload, the same response head, the same response body bytes, the same
    terminal state and the same connection-reuse verdict.  The server bytes consumed add up to exactly
    the length of the response message(s) of that exchange, so on a reusable connection the next
    exchange starts at the first byte of the next response."

    Statements only.  Definitions: proofs/C01_defs.v; proofs: proofs/C01_start.v (prologue, analysis
    facts), C01_send.v (Prepare / SendRequest / Await100 / SendBody, on C02 C03 C04 C11 C17),
    C01_recv.v (RecvResponse / RecvBody / Redirect / Cleanup, on C05 C06 C07 C08 C11), C01_main.v
    (every operation, runs of any length, the outcome), C01_examples.v (checkers, concrete runs).

    THE FORMALISATION (all of it composed; nothing is left per-phase only).

    - An exchange [x : exch] fixes: the request [x_req], whether [send_body_despite_method] is called,
      the request body payload [x_body], and the server stream
        x_pre ++ x_h100 ++ render_response_head x_head ++ x_wire ++ x_rest
      ([x_pre]: the messages of earlier exchanges on the connection, already consumed; [x_h100]: empty
      or a bare 100 head; [x_wire]: the body on the wire; [x_rest]: whatever follows, e.g. the next
      response).  [WfX x] is the quantifier of the property: analysis accepts the request (an
      authority in the URI, a host acceptable as a header value, [call_invalid = false], C17); the
      payload fits the request framing (no body due: empty; Content-Length n: n bytes); a 100 is only
      sent to a request with Expect: 100-continue; the final head is well-formed (C05), not 100, at
      most 128 fields; the framing C06 assigns to (method, head) is defined ([x_framing x = Ok rd0],
      i.e. no BadContentLengthHeader) and the wire form matches it: empty for no-body, exactly n
      bytes for length n, [enc k] of a valid coding [k] under the F17 premise for chunked (C07), and
      for close-delimited the whole remainder ([x_rest = []]).
      A server that answers a non-100 head while the client awaits 100 (refusal) is a different
      server behaviour, owned by C11: [x_h100] is restricted to empty / bare 100.

    - A schedule is ANY list of [Script.op] with [sched_op o = true]: OProceed, OWriteHead cap,
      OWriteFrom take cap, OArrive k, OTry100, OTryResponse, ORead cap, OStop flag and all fourteen
      read-only queries, in any order and number.  Operations that do not fit the current state are
      part of the quantifier (the model answers "np" and nothing changes).  [allowed x s o] are the
      dynamic side conditions, per (state, operation):
        causality   an OArrive before the flow is in RecvResponse (or later) reveals at most the
                    interim 100 (bytes of [x_rest] MAY arrive at any later time: they are proved to
                    stay unconsumed);
        payload     an OWriteFrom with nothing to take (an empty input ends a chunked body) only when
                    the payload is used up;
        one head    OTryResponse only while [recv_response_can_proceed] is false, i.e. the caller
                    stops asking for the head once it has it (ADDED: without it the body bytes would
                    be parsed as a second head -- the types permit the call);
        F10         no OTryResponse on a window that is a strict prefix of the final head in C05's
                    [KnownClass] (3xx, cut after a complete Location line): owned by C05.

    - [irun s acc ops] runs [Script.step] and, next to it, the ghost accumulators [astep]: the
      concatenated outputs of write_head, of the body writes and of read, the list of responses
      handed back by try_response, and the first of Redirect / Cleanup that proceed reported.

    - [Sim x s acc]: the script state is at a position [p : pos] of the exchange, its flow record is
      EQUAL to the canonical record [flow_of x p] (every field), and [pos_ok] ties the counters and
      accumulators to the position: the head bytes out are a whole-line prefix of the rendered head;
      the payload consumed is [take sent body] and the emitted bytes are it verbatim / a valid chunk
      sequence of it; the bytes consumed are the offset of the position in the stream; the body
      delivered is the prefix of the payload the reader position stands for ([RdRel], with C07's [rel]
      for chunked).

    - [complete x s]: the state is Redirect or Cleanup, and for a close-delimited body (whose end only
      the connection's EOF tells; [proceed] is permitted at any time there, C08) the caller has read
      the stream to its end.

    Deviations from the brief's sketch, all explicit: the "one head" discipline above; the EOF clause
    in [complete]; [o_term] is the FIRST final state reported (a run may go on from Redirect to
    Cleanup: both count as complete and have the same outcome); for a chunked REQUEST body the raw
    emitted bytes are not schedule-independent (the chunking follows the buffer sizes, see
    [c01_nonvacuous]) -- what is, is the payload and what the bytes decode to ([c01],
    [c01_request_body_decodes]). *)
From Coq Require Import List.
From Hoot Require Import Base Chunk Body Httparse Parser Url Request Call Flow Script.
From Hoot.proofs Require Import C17_proofs C02_proofs C03_proofs C05_spec C20_proofs C05_proofs C07_spec
                                C11_proofs C01_defs C01_start C01_send C01_recv C01_main C01_examples.
Open Scope N_scope.

(* ------------------------------------------------------------------ the start *)

(** The first exchange on a connection: the prologue reaches [start x] ... *)
Theorem c01_prologue : forall x, x_pre x = [] -> run_ops s_init (prologue x) = start x.
Proof. exact prologue_start. Qed.

(** ... where the invariant holds; so it does in any state at the beginning of a later exchange. *)
Theorem c01_start : forall x, Sim x (start x) acc0.
Proof. exact sim_start. Qed.

Theorem c01_begin : forall x s,
  s_obj s = ObFlow TPrepare (x_f0 x) -> s_stream s = x_stream x -> s_body s = x_body x ->
  s_sent s = 0 -> s_consumed s = x_off x -> s_arrived s <= x_off x + len (x_h100 x) ->
  Sim x s acc0.
Proof. exact sim_begin. Qed.

(* ------------------------------------------------------------------ the invariant *)

(** Queries change nothing: neither the state nor any accumulator. *)
Theorem c01_queries_pure : forall s a o, is_query o = true -> fst (step s o) = s /\ astep s a o = a.
Proof. intros s a o H. split; [apply query_pure|apply query_astep]; exact H. Qed.

(** One step: every allowed operation, from every state satisfying the invariant. *)
Theorem c01_step : forall x s a o,
  WfX x -> Sim x s a -> allowed x s o -> Sim x (fst (step s o)) (astep s a o).
Proof. exact pres_step. Qed.

(** Schedules of any length. *)
Theorem c01_run : forall x, WfX x -> forall ops s a,
  Sim x s a -> allowed_run x s ops -> Sim x (fst (irun s a ops)) (snd (irun s a ops)).
Proof. exact sim_run. Qed.

(** The instrumented run runs the script machine. *)
Theorem c01_irun_is_run : forall ops s a, fst (irun s a ops) = run_ops s ops.
Proof. exact irun_state. Qed.

(* ------------------------------------------------------------------ the per-phase facts the composition uses *)

(** SendRequest: one write on the canonical flow is the line-atomic head writer of C02 on the analysed
    request, and lands on the canonical flow of the new phase ... *)
Theorem c01_head_write : forall x ph cap,
  wf_phase (len (am_headers (x_a x))) ph ->
  send_request_write (hflow x ph) cap = lift_twp x (try_write_prelude (x_a x) ph cap).
Proof. exact srw_canonA. Qed.

(** ... and when the head is complete, [proceed] leads to a state that is a function of [x] alone. *)
Theorem c01_head_done : forall x,
  WfX x ->
  send_request_proceed (hflow x PBody) =
    Ok (Some (if x_due x then if x_aw0 x then flow_of x (PAwait false) else flow_of x (PSend false (x_wm x))
              else flow_of x (PResp false (x_wm x)))).
Proof. exact proceed_head_complete. Qed.

(** Await100: under causality the window is a prefix of the interim head; only the whole head decides. *)
Theorem c01_await : forall x (c : bool) n,
  WfX x -> x_due x = true -> n <= len (x_h100 x) ->
  let f := snd (flow_of x (PAwait c)) in
  try_read_100 f (if c then [] else take n (x_h100 x)) =
    if negb c && (n =? len (x_h100 x)) && negb (len (x_h100 x) =? 0)
    then (snd (flow_of x (PAwait true)), Ok (len (x_h100 x)))
    else (f, Ok 0).
Proof. exact try100_await. Qed.

(** SendBody: one write with the next [tk] payload bytes, any output space. *)
Theorem c01_body_write : forall x c w sent out tk cap,
  WfX x -> WriterRel x w sent out -> (1 <= tk \/ sent = len (x_body x)) ->
  let input := take tk (drop sent (x_body x)) in
  let f := snd (flow_of x (PSend c w)) in
  (exists e, send_body_write f input cap = Err e) \/
  (exists w' used o,
     send_body_write f input cap = Ok (snd (flow_of x (PSend c w')), used, o) /\
     WriterRel x w' (sent + used) (out ++ o)).
Proof. exact body_write_step. Qed.

(** RecvResponse: the complete head (followed by anything) is handed back, exactly consumed. *)
Theorem c01_response_head : forall x c w more,
  WfX x -> aw_at x c = x_awfin x ->
  recv_try_response (rflow x c w) (x_H x ++ more) =
    Ok (snd (flow_of x (PGot w)), len (x_H x), Some (x_rsp x)).
Proof. exact recv_head_canon. Qed.

(** The successor of the head (C06) ... *)
Theorem c01_successor : forall x w,
  recv_response_proceed (snd (flow_of x (PGot w))) =
    Ok (Some (if needs_body (x_rd0 x) then flow_of x (PRecv w (x_rd0 x) false)
              else flow_of x (PTerm (if x_redirect x then TRedirect else TCleanup) w (x_rd0 x) false))).
Proof. exact recv_response_proceed_got. Qed.

(** ... and of the body. *)
Theorem c01_body_successor : forall x w rd stop,
  recv_body_proceed (snd (flow_of x (PRecv w rd stop))) =
    if reader_is_ended rd || reader_is_close rd
    then Ok (Some (flow_of x (PTerm (if x_redirect x then TRedirect else TCleanup) w rd stop)))
    else Ok None.
Proof. exact recv_body_proceed_canon. Qed.

(** RecvBody: one read on a window of any size [m] at body offset [i], any output space. *)
Theorem c01_read : forall x w rd stop i out m cap,
  WfX x -> RdRel x rd i out ->
  exists rd' j o,
    call_read (cl x PRecvBody w (Some rd) stop) (take m (drop i (x_wire x ++ x_rest x))) cap =
      Ok (cl x PRecvBody w (Some rd') stop, j, o) /\
    RdRel x rd' (i + j) (out ++ o).
Proof. exact read_step. Qed.

(* ------------------------------------------------------------------ the outcome *)

(** What [spec_outcome] is, computed from [x] without any schedule. *)
Theorem c01_spec_def : forall x,
  spec_outcome x =
    {| o_head := C02_proofs.render_request_head (c_req (analysed_call (x_c0 x)));
       o_sent := len (x_body x); o_payload := x_body x;
       o_resp := [response_of (x_head x)];
       o_rbody := match x_rd0 x with RChunked _ => payload (x_coding x) | _ => x_wire x end;
       o_term := Some (if is_redirection (rh_status (x_head x)) && negb (rh_status (x_head x) =? 304)
                       then TRedirect else TCleanup);
       o_must_close := x_h10 x || x_ccl x || x_scl x || x_cdl x;
       o_close_reason :=
         if x_h10 x then Some (explain Http10)
         else if x_ccl x then Some (explain ClientConnectionClose)
         else if x_scl x then Some (explain ServerConnectionClose)
         else if x_cdl x then Some (explain CloseDelimitedBody) else None;
       o_consumed := len (x_pre x) + len (x_h100 x) + len (render_response_head (x_head x)) + len (x_wire x) |}.
Proof. reflexivity. Qed.

(** THE THEOREM.  For EVERY schedule (any operations, any length) whose side conditions hold: if the
    run is complete, its outcome -- request head bytes, payload consumed, responses handed back, response
    body bytes, first final state, must_close, close_reason, server bytes consumed -- is
    [spec_outcome x]; and the request body on the wire has the form its framing prescribes. *)
Theorem c01 : forall x ops,
  WfX x -> allowed_run x (start x) ops ->
  complete x (fst (irun (start x) acc0 ops)) ->
  outcome_of (fst (irun (start x) acc0 ops)) (snd (irun (start x) acc0 ops)) = spec_outcome x /\
  body_final x (a_body (snd (irun (start x) acc0 ops))).
Proof. exact c01_main. Qed.

(** The same from any state satisfying the invariant (a later exchange on the connection). *)
Theorem c01_from_any : forall x s a ops,
  WfX x -> Sim x s a -> allowed_run x s ops ->
  complete x (fst (irun s a ops)) ->
  outcome_of (fst (irun s a ops)) (snd (irun s a ops)) = spec_outcome x /\
  body_final x (a_body (snd (irun s a ops))).
Proof. exact c01_from. Qed.

(** Hence any two complete schedules of the same exchange agree -- including the two orders of the
    Expect handshake (100 consumed in Await100, or the caller gave up and it is skipped late). *)
Theorem c01_independent : forall x ops1 ops2,
  WfX x -> allowed_run x (start x) ops1 -> allowed_run x (start x) ops2 ->
  complete x (fst (irun (start x) acc0 ops1)) -> complete x (fst (irun (start x) acc0 ops2)) ->
  outcome_of (fst (irun (start x) acc0 ops1)) (snd (irun (start x) acc0 ops1)) =
  outcome_of (fst (irun (start x) acc0 ops2)) (snd (irun (start x) acc0 ops2)).
Proof. exact c01_independent_main. Qed.

(** A chunked request body: whatever chunking the schedule produced, the C07 decoder reads it back
    (followed by anything, on every read schedule) into exactly the payload. *)
Theorem c01_request_body_decodes : forall x out rest sched,
  w_mode (x_wm x) = SChunked -> body_final x out ->
  exists d, crun (out ++ rest) cstart sched = Ok d /\
    t_consumed d <= len out /\
    (exists P', x_body x = C07_spec.t_out d ++ P') /\
    (dech_is_ended (t_st d) = true <-> t_consumed d = len out) /\
    (dech_is_ended (t_st d) = true -> C07_spec.t_out d = x_body x).
Proof. exact body_final_roundtrip. Qed.

(* ------------------------------------------------------------------ the next exchange *)

(** At no point of any schedule, complete or not, is a byte of [x_rest] consumed. *)
Theorem c01_never_overreads : forall x ops,
  WfX x -> allowed_run x (start x) ops ->
  s_consumed (fst (irun (start x) acc0 ops)) <= x_base x + len (x_wire x).
Proof. exact C01_main.c01_never_overreads. Qed.

(** After a complete exchange the consumed count is the offset of [x_rest]; what the caller presents
    next is a prefix of [x_rest]. *)
Theorem c01_next_exchange : forall x ops,
  WfX x -> allowed_run x (start x) ops ->
  let s := fst (irun (start x) acc0 ops) in
  complete x s ->
  s_stream s = x_stream x /\
  s_consumed s = x_base x + len (x_wire x) /\
  drop (s_consumed s) (s_stream s) = x_rest x /\
  window s = take (s_arrived s - s_consumed s) (x_rest x).
Proof. exact c01_rest. Qed.

(** So the invariant holds at the beginning of the next exchange [x2] on the same stream, and [c01_run] /
    [c01_from_any] apply again (exchange 2, 3, ...). *)
Theorem c01_next_exchange_sim : forall x ops x2,
  WfX x -> allowed_run x (start x) ops ->
  let s := fst (irun (start x) acc0 ops) in
  complete x s ->
  x_pre x2 = x_pre x ++ x_h100 x ++ x_H x ++ x_wire x ->
  x_rest x = x_h100 x2 ++ x_H x2 ++ x_wire x2 ++ x_rest x2 ->
  s_arrived s <= x_off x2 + len (x_h100 x2) ->
  Sim x2 (run_ops s (next_prologue x2)) acc0.
Proof. exact c01_next. Qed.

(* ------------------------------------------------------------------ checkers used by the examples are sound *)

Theorem c01_checkers_sound : forall x,
  (forall ops s, allowed_run_b x s ops = true -> allowed_run x s ops) /\
  (forall s, complete_b x s = true -> complete x s).
Proof. intros x. split; [apply allowed_run_b_sound|apply complete_b_sound]. Qed.

(* ------------------------------------------------------------------ non-vacuity *)

(** POST http://a.test/up, Expect: 100-continue, no framing header (chunked by default), payload
    "hello"; server: 100 Continue, 200 OK with Transfer-Encoding: chunked and the body
    3 abc / 2 de / 0, then the first bytes of a next response.
    [sched_big]: everything at once, big buffers, the 100 awaited and consumed in Await100.
    [sched_tiny]: head written line by line (too small first), the caller gives up waiting (late 100),
    body sent in 1..2 byte pieces into 5..8 byte buffers, then ONE server byte arrives at a time, each
    followed by try_response resp. a one-byte read; queries interleaved.
    Both are allowed and complete; the outcomes are equal and are [spec_outcome]; the request body
    went out chunked differently; 92 = 25 + 47 + 20 bytes consumed, the rest is the next response. *)
Example c01_nonvacuous :
  WfX ex_x /\
  allowed_run ex_x (start ex_x) sched_big /\ allowed_run ex_x (start ex_x) sched_tiny /\
  complete ex_x (fst (irun (start ex_x) acc0 sched_big)) /\
  complete ex_x (fst (irun (start ex_x) acc0 sched_tiny)) /\
  outcome_of (fst (irun (start ex_x) acc0 sched_big)) (snd (irun (start ex_x) acc0 sched_big)) = ex_outcome /\
  outcome_of (fst (irun (start ex_x) acc0 sched_tiny)) (snd (irun (start ex_x) acc0 sched_tiny)) = ex_outcome /\
  spec_outcome ex_x = ex_outcome /\
  o_consumed ex_outcome = 92 /\ o_rbody ex_outcome = s2b "abcde" /\ o_payload ex_outcome = s2b "hello" /\
  a_body (snd (irun (start ex_x) acc0 sched_big)) <> a_body (snd (irun (start ex_x) acc0 sched_tiny)) /\
  drop (s_consumed (fst (irun (start ex_x) acc0 sched_tiny))) (x_stream ex_x) = s2b "HTTP/1.1 204" /\
  List.length sched_tiny = 263%nat.
Proof.
  destruct ex_runs as (_ & A1 & A2 & C1 & C2 & O1 & O2 & S & B1 & B2 & R).
  split; [exact ex_wf|].
  split; [apply allowed_run_b_sound; exact A1|]. split; [apply allowed_run_b_sound; exact A2|].
  split; [apply complete_b_sound; exact C1|]. split; [apply complete_b_sound; exact C2|].
  split; [exact O1|]. split; [exact O2|]. split; [exact S|].
  split; [reflexivity|]. split; [reflexivity|]. split; [reflexivity|].
  split; [rewrite B1, B2; vm_compute; discriminate|]. split; [exact R|reflexivity].
Qed.

(** GET over HTTP/1.0 answered by 301 with Location and Content-Length: 2: one schedule stops in
    Redirect, another (head offered in two arrivals, one-byte reads) goes on to Cleanup; same outcome;
    first final state Redirect, must_close with reason "version is http1.0". *)
Example c01_redirect_nonvacuous :
  WfX ex2_x /\
  allowed_run ex2_x (start ex2_x) sched2_a /\ allowed_run ex2_x (start ex2_x) sched2_b /\
  complete ex2_x (fst (irun (start ex2_x) acc0 sched2_a)) /\
  complete ex2_x (fst (irun (start ex2_x) acc0 sched2_b)) /\
  term_of (s_obj (fst (irun (start ex2_x) acc0 sched2_a))) = Some TRedirect /\
  term_of (s_obj (fst (irun (start ex2_x) acc0 sched2_b))) = Some TCleanup /\
  outcome_of (fst (irun (start ex2_x) acc0 sched2_a)) (snd (irun (start ex2_x) acc0 sched2_a)) = spec_outcome ex2_x /\
  outcome_of (fst (irun (start ex2_x) acc0 sched2_b)) (snd (irun (start ex2_x) acc0 sched2_b)) = spec_outcome ex2_x /\
  o_term (spec_outcome ex2_x) = Some TRedirect /\ o_must_close (spec_outcome ex2_x) = true /\
  o_close_reason (spec_outcome ex2_x) = Some (explain Http10) /\ o_rbody (spec_outcome ex2_x) = s2b "ok".
Proof.
  destruct ex2_runs as (A1 & A2 & C1 & C2 & T1 & T2 & O1 & O2 & P1 & P2 & P3 & P4 & _).
  split; [exact ex2_wf|].
  split; [apply allowed_run_b_sound; exact A1|]. split; [apply allowed_run_b_sound; exact A2|].
  split; [apply complete_b_sound; exact C1|]. split; [apply complete_b_sound; exact C2|].
  repeat split; assumption.
Qed.

Print Assumptions c01_prologue.
Print Assumptions c01_start.
Print Assumptions c01_begin.
Print Assumptions c01_queries_pure.
Print Assumptions c01_step.
Print Assumptions c01_run.
Print Assumptions c01_irun_is_run.
Print Assumptions c01_head_write.
Print Assumptions c01_head_done.
Print Assumptions c01_await.
Print Assumptions c01_body_write.
Print Assumptions c01_response_head.
Print Assumptions c01_successor.
Print Assumptions c01_body_successor.
Print Assumptions c01_read.
Print Assumptions c01_spec_def.
Print Assumptions c01.
Print Assumptions c01_from_any.
Print Assumptions c01_independent.
Print Assumptions c01_request_body_decodes.
Print Assumptions c01_never_overreads.
Print Assumptions c01_next_exchange.
Print Assumptions c01_next_exchange_sim.
Print Assumptions c01_checkers_sound.
Print Assumptions c01_nonvacuous.
Print Assumptions c01_redirect_nonvacuous.
