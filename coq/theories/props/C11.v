(** Property C11 -- Expect: 100-continue handshake: the body is sent iff the server did not refuse.

    "While awaiting 100, input that ends inside the status line or right after it decides nothing and
    consumes nothing; a complete bare 100 response is consumed exactly and leads to sending the body;
    any other response (with or without header fields) consumes nothing, leads to receiving that very
    response without ever requesting the body, and marks the connection must-close; giving up waiting
    leads to sending the body.  A 100 that arrives late, after the body was sent, is skipped exactly
    once before the real response, and in every branch the flow that results is usable to completion."

    Statements only.  Proofs: proofs/C11_proofs.v, C11_usable.v, C11_examples.v, on top of the C05
    theorems about the response-head parser (round trip, strict prefixes, hp_stable).

    Quantification.  [h] ranges over ALL well-formed response heads ([wf_resp_head], C05_spec.v:
    HTTP/1.0 or 1.1, status 100..999, any or no reason phrase, any well-formed fields); [rest] and
    [any] are arbitrary bytes; [f] is an ARBITRARY flow record subject only to the stated
    hypotheses, so requests of both versions, with any headers and any body framing, are covered
    (the HTTP/1.0 and HTTP/1.1 instances are exhibited in the examples).  Cut positions are
    arbitrary [n : N].  Nothing is bounded.

    THE EXACT BOUNDARY.  [try_read_100] runs the httparse model with ZERO header slots.  Let
      first_line h     = the line after the status line: the first field line if [h] has fields,
                         otherwise the blank line CRLF;
      decision_point h = |status line| + |first_line h|.
    A window that is a prefix of [head ++ rest] decides nothing iff it is shorter than
    [decision_point h] ([c11_undecided]); from [decision_point h] bytes on the verdict is there
    and is the same for every longer window ([c11_decided]).  So, relative to the property's
    sentence: "inside the status line" = a strict prefix of the status line (the empty window
    included); "right after it" = the whole status line followed by a STRICT prefix of the next
    line -- nothing, part of the first field line, or for a head without fields the lone CR.  A head
    without fields is decided only by its final CRLF CRLF; a head with fields is decided as soon as
    its FIRST field line is complete (zero slots: the parser reports too-many-headers, which
    [try_read_100] treats as a refusal), whatever follows and whether or not the rest of the head
    has arrived.

    Hypotheses that appear below and why:
    - [NoDup (i_reasons f)]: the close-reason list has no duplicates (an invariant of every
      reachable flow, C09/C10); with it adding Not100Continue cannot overflow the list (F11).
    - [c_analyzed (i_call f) = true]: request analysis ran when the head was written, which is
      always the case in Await100; [proceed] then cannot fail.
    - [i_holder f = HWithBody]: the call holder variant of every flow in Await100.
    - at most 128 fields where the head is parsed as the response (C05's limit).
    All of them follow from the C09 flow invariant [Inv TAwait100 f] / [Inv TRecvResponse f]; the
    [c11_usable_*] theorems are stated from [Inv] alone. *)
From Coq Require Import Relations.
From Hoot Require Import Base Chunk Body Httparse Parser Url Request Call Flow.
From Hoot.proofs Require Import C05_spec C05_roundtrip C20_proofs C05_proofs C09_inv
                                C11_proofs C11_usable C11_examples.
Open Scope N_scope.

(** ** Undecided *)

(** Window = strict prefix [p] of the status line (possibly empty). *)
Theorem c11_undecided_status : forall f h p y,
  wf_resp_head h -> render_status_line h = p ++ y -> y <> [] ->
  try_read_100 f p = (f, Ok 0).
Proof. exact try100_undecided_status. Qed.

(** Window = status line ++ strict prefix [q] of the next line (first field line, or CRLF). *)
Theorem c11_undecided_line : forall f h q y,
  wf_resp_head h -> first_line h = q ++ y -> y <> [] ->
  try_read_100 f (render_status_line h ++ q) = (f, Ok 0).
Proof. exact try100_undecided_line. Qed.

(** Both, by cut position: every window shorter than the decision point.  The flow is returned
    unchanged, so [i_await_100] (= [can_keep_await_100]) is still what it was. *)
Theorem c11_undecided : forall f h rest n,
  wf_resp_head h -> n < decision_point h ->
  try_read_100 f (take n (render_response_head h ++ rest)) = (f, Ok 0).
Proof. exact try100_before_decision. Qed.

(** ... and from the decision point on it is decided: continue for a bare 100, refusal otherwise. *)
Theorem c11_decided : forall f h rest n,
  wf_resp_head h -> decision_point h <= n -> NoDup (i_reasons f) -> i_should_send_body f = true ->
  try_read_100 f (take n (render_response_head h ++ rest)) =
    if (rh_status h =? 100) && (match rh_fields h with [] => true | _ => false end)
    then (set_await f false, Ok (len (render_response_head h)))
    else (refused f, Ok 0).
Proof. exact try100_after_decision. Qed.

(** For ARBITRARY bytes: a verdict of the zero-slot parser other than "need more" is final. *)
Theorem c11_verdict_final : forall w x,
  try_parse_response 0 w <> Ok None -> try_parse_response 0 (w ++ x) = try_parse_response 0 w.
Proof. exact try100_verdict_final. Qed.

(** ** 100 Continue: consumed exactly, then the body is sent *)
Theorem c11_continue : forall f h rest,
  wf_resp_head h -> rh_status h = 100 -> bare h -> i_should_send_body f = true ->
  try_read_100 f (render_response_head h ++ rest) =
    (set_await f false, Ok (len (render_response_head h))).
Proof. exact try100_continue. Qed.

Theorem c11_continue_proceed : forall f,
  i_should_send_body f = true -> c_analyzed (i_call f) = true ->
  await_100_proceed (set_await f false) = Ok (TSendBody, set_await f false).
Proof. intros f Hb Ha. apply await_proceed_send; assumption. Qed.

(** ** Refusal *)

(** Any other status, no fields: decided by the complete head. *)
Theorem c11_refusal_bare : forall f h rest,
  wf_resp_head h -> rh_status h <> 100 -> bare h -> NoDup (i_reasons f) ->
  try_read_100 f (render_response_head h ++ rest) = (refused f, Ok 0).
Proof. exact try100_refusal_bare. Qed.

(** Any head with fields (any status): decided by the status line and the first complete field line,
    whatever follows. *)
Theorem c11_refusal_fields : forall f h fd fs any,
  wf_resp_head h -> rh_fields h = fd :: fs -> NoDup (i_reasons f) ->
  try_read_100 f (render_status_line h ++ render_field fd ++ any) = (refused f, Ok 0).
Proof. exact try100_refusal_fields. Qed.

(** [refused f] is [f] except: no body will be sent, not waiting any more, Not100Continue recorded
    -- hence must-close. *)
Theorem c11_refused_flow : forall f,
  i_should_send_body (refused f) = false /\ i_await_100 (refused f) = false /\
  In Not100Continue (i_reasons (refused f)) /\ must_close (refused f) = true /\
  i_call (refused f) = i_call f /\ i_holder (refused f) = i_holder f /\
  i_status (refused f) = i_status f /\ i_location (refused f) = i_location f /\
  (forall r, In r (i_reasons f) -> In r (i_reasons (refused f))) /\
  (NoDup (i_reasons f) -> NoDup (i_reasons (refused f))).
Proof. exact refused_facts. Qed.

(** proceed -> RecvResponse (holder and phase converted: the F2 repair); the very same stream is
    then parsed as the response: never a panic, and whenever a response comes back it is exactly
    that head with exactly its length consumed, in a state that never asks for the body. *)
Theorem c11_refusal_response : forall f h rest,
  wf_resp_head h -> rh_status h <> 100 -> (List.length (rh_fields h) <= 128)%nat ->
  i_holder f = HWithBody -> NoDup (i_reasons f) ->
  await_100_proceed (refused f) = Ok (TRecvResponse, to_recv (refused f)) /\
  never_body (TRecvResponse, to_recv (refused f)) /\
  (forall s, recv_try_response (to_recv (refused f)) (render_response_head h ++ rest) <> Panic s) /\
  (forall f' n o,
     recv_try_response (to_recv (refused f)) (render_response_head h ++ rest) = Ok (f', n, o) ->
     n = len (render_response_head h) /\ o = Some (response_of h) /\
     never_body (TRecvResponse, f') /\
     exists rd, f' = received (to_recv (refused f))
                              (set_reader (set_phase (i_call f) PRecvResponse) (Some rd)) (response_of h)).
Proof. exact refusal_then_head. Qed.

(** Without a Content-Length field in the head there is nothing left that could fail. *)
Theorem c11_refusal_response_plain : forall f h rest,
  wf_resp_head h -> rh_status h <> 100 -> (List.length (rh_fields h) <= 128)%nat ->
  i_holder f = HWithBody -> NoDup (i_reasons f) ->
  hm_get (rs_headers (response_of h)) (s2b "content-length") = None ->
  exists rd,
    recv_try_response (to_recv (refused f)) (render_response_head h ++ rest) =
      Ok (received (to_recv (refused f)) (set_reader (set_phase (i_call f) PRecvResponse) (Some rd)) (response_of h),
          len (render_response_head h), Some (response_of h)).
Proof. exact refusal_then_head_plain. Qed.

(** "Without ever requesting the body": over EVERY sequence of the operations available from
    RecvResponse on ([later_op]: try_response, both proceeds, read -- successful, or failed, in
    which case the flow continues as [recv_body_after_err], the decoder keeping the state it had
    reached --, stop_on_chunk_boundary, and as_new_flow's effect on the old flow), the state stays among RecvResponse / RecvBody / Redirect /
    Cleanup, [should_send_body] stays false and Not100Continue stays recorded. *)
Theorem c11_never_body : forall s s',
  clos_refl_trans _ later_op s s' -> never_body s -> never_body s'.
Proof. exact later_never_body. Qed.

Theorem c11_never_body_means : forall s,
  never_body s -> fst s <> TSendBody /\ fst s <> TAwait100 /\ fst s <> TSendRequest /\
                  i_should_send_body (snd s) = false /\ must_close (snd s) = true.
Proof. exact never_body_facts. Qed.

(** ** Giving up waiting: whatever the handshake flag says, a flow that still wants to send goes to
    SendBody (and to nothing else, should the analysis fail). *)
Theorem c11_giveup : forall f,
  i_should_send_body f = true -> c_analyzed (i_call f) = true ->
  await_100_proceed f = Ok (TSendBody, f).
Proof. exact await_proceed_send. Qed.

Theorem c11_giveup_tag : forall f t f',
  i_should_send_body f = true -> await_100_proceed f = Ok (t, f') -> t = TSendBody.
Proof. exact await_proceed_send_tag. Qed.

(** ** The late 100 *)

(** Handshake pending in RecvResponse: a bare 100 is consumed, NOT returned, the flag is cleared. *)
Theorem c11_late : forall f h rest,
  wf_resp_head h -> rh_status h = 100 -> bare h ->
  i_holder f = HRecvResponse -> i_await_100 f = true ->
  recv_try_response f (render_response_head h ++ rest) =
    Ok (set_await f false, len (render_response_head h), None).
Proof. exact recv_late_100. Qed.

(** Flag clear: a bare 100 is not skipped; the model returns it as a response (status 100, no
    fields), consumes it and records status 100; the body reader is left as it was. *)
Theorem c11_late_not_again : forall f h rest,
  wf_resp_head h -> rh_status h = 100 -> bare h ->
  i_holder f = HRecvResponse -> i_await_100 f = false ->
  recv_try_response f (render_response_head h ++ rest) =
    Ok (handed_100 f, len (render_response_head h), Some (response_of h)).
Proof. exact recv_second_100. Qed.

(** Stream = late 100, real head, rest: skipped once, then the real head is returned. *)
Theorem c11_late_then_head : forall f h100 h rest,
  wf_resp_head h100 -> rh_status h100 = 100 -> bare h100 ->
  wf_resp_head h -> rh_status h <> 100 -> (List.length (rh_fields h) <= 128)%nat ->
  i_holder f = HRecvResponse -> i_await_100 f = true -> NoDup (i_reasons f) ->
  let stream := render_response_head h100 ++ render_response_head h ++ rest in
  recv_try_response f stream = Ok (set_await f false, len (render_response_head h100), None) /\
  drop (len (render_response_head h100)) stream = render_response_head h ++ rest /\
  (forall s, recv_try_response (set_await f false) (render_response_head h ++ rest) <> Panic s) /\
  (forall f' n o, recv_try_response (set_await f false) (render_response_head h ++ rest) = Ok (f', n, o) ->
     n = len (render_response_head h) /\ o = Some (response_of h) /\ i_await_100 f' = false).
Proof. exact late_100_then_head. Qed.

(** Stream = 100, 100, rest: exactly once. *)
Theorem c11_late_once : forall f h100 h100' rest,
  wf_resp_head h100 -> rh_status h100 = 100 -> bare h100 ->
  wf_resp_head h100' -> rh_status h100' = 100 -> bare h100' ->
  i_holder f = HRecvResponse -> i_await_100 f = true ->
  let stream := render_response_head h100 ++ render_response_head h100' ++ rest in
  recv_try_response f stream = Ok (set_await f false, len (render_response_head h100), None) /\
  recv_try_response (set_await f false) (drop (len (render_response_head h100)) stream) =
    Ok (handed_100 (set_await f false), len (render_response_head h100'), Some (response_of h100')).
Proof. exact late_100_twice. Qed.

(** ** The assertion [assert!(should_send_body)] in try_read_100 *)

(** Re-presentation discipline, for ARBITRARY windows: if looking at [w] refused (the flow wanted to
    send before and does not after), then looking at any extension [w ++ x] with the refused flow
    refuses again -- same flow, [Ok 0] -- so a 100 is never met with [should_send_body = false]. *)
Theorem c11_never_assert : forall f w f1 r x,
  i_should_send_body f = true -> try_read_100 f w = (f1, r) -> i_should_send_body f1 = false ->
  r = Ok 0 /\ try_read_100 f1 (w ++ x) = (f1, Ok 0).
Proof. exact try100_refusal_stable. Qed.

(** The only panic [try_read_100] has (on duplicate-free reasons) is that assertion, and it needs a
    complete 100 offered to a flow that no longer wants to send. *)
Theorem c11_assert_only : forall f w f1 s,
  try_read_100 f w = (f1, Panic s) -> NoDup (i_reasons f) ->
  i_should_send_body f = false /\
  exists used rsp, try_parse_response 0 w = Ok (Some (used, rsp)) /\ rs_status rsp = 100.
Proof. exact try100_assert_only. Qed.

(** ** Usable: from the C09 flow invariant alone, each branch ends in a state whose invariant holds *)

Theorem c11_usable_undecided : forall f h rest n,
  Inv TAwait100 f -> wf_resp_head h -> n < decision_point h ->
  try_read_100 f (take n (render_response_head h ++ rest)) = (f, Ok 0) /\ Inv TAwait100 f.
Proof. exact usable_undecided. Qed.

Theorem c11_usable_continue : forall f h rest,
  Inv TAwait100 f -> i_should_send_body f = true ->
  wf_resp_head h -> rh_status h = 100 -> bare h ->
  try_read_100 f (render_response_head h ++ rest) =
    (set_await f false, Ok (len (render_response_head h))) /\
  Inv TAwait100 (set_await f false) /\
  await_100_proceed (set_await f false) = Ok (TSendBody, set_await f false) /\
  Inv TSendBody (set_await f false).
Proof. exact usable_continue. Qed.

Theorem c11_usable_refused : forall f,
  Inv TAwait100 f ->
  Inv TAwait100 (refused f) /\
  await_100_proceed (refused f) = Ok (TRecvResponse, to_recv (refused f)) /\
  Inv TRecvResponse (to_recv (refused f)) /\
  never_body (TRecvResponse, to_recv (refused f)).
Proof. exact usable_refused. Qed.

Theorem c11_usable_giveup : forall f,
  Inv TAwait100 f -> i_should_send_body f = true ->
  await_100_proceed f = Ok (TSendBody, f) /\ Inv TSendBody f.
Proof. exact usable_giveup. Qed.

Theorem c11_usable_late : forall f h rest,
  Inv TRecvResponse f -> i_await_100 f = true -> wf_resp_head h -> rh_status h = 100 -> bare h ->
  recv_try_response f (render_response_head h ++ rest) =
    Ok (set_await f false, len (render_response_head h), None) /\
  Inv TRecvResponse (set_await f false).
Proof. exact usable_late_100. Qed.

Theorem c11_usable_late_not_again : forall f h rest,
  Inv TRecvResponse f -> i_await_100 f = false -> wf_resp_head h -> rh_status h = 100 -> bare h ->
  recv_try_response f (render_response_head h ++ rest) =
    Ok (handed_100 f, len (render_response_head h), Some (response_of h)) /\
  Inv TRecvResponse (handed_100 f).
Proof. exact usable_second_100. Qed.

(** The response after a refusal or after a late 100, from any RecvResponse state: never a panic;
    when returned it is that head, exactly consumed, the invariant holds and [proceed] is ready. *)
Theorem c11_usable_response : forall f h rest,
  Inv TRecvResponse f -> wf_resp_head h -> rh_status h <> 100 -> (List.length (rh_fields h) <= 128)%nat ->
  (forall s, recv_try_response f (render_response_head h ++ rest) <> Panic s) /\
  (forall f' n o, recv_try_response f (render_response_head h ++ rest) = Ok (f', n, o) ->
     n = len (render_response_head h) /\ o = Some (response_of h) /\ Inv TRecvResponse f' /\
     i_should_send_body f' = i_should_send_body f /\ i_await_100 f' = i_await_100 f /\
     recv_response_can_proceed f' = Ok true).
Proof. exact usable_real_head. Qed.

(** ** Non-vacuity.  [await_flow v] is the Await100 state the model reaches from [flow_new] for
    "POST http://a.test/up" with Expect: 100-continue and Content-Length: 5, as HTTP/1.0 and 1.1
    (proofs/C11_examples.v); heads: "HTTP/1.1 100 Continue CRLF CRLF" (25 bytes),
    "HTTP/1.1 403 Forbidden CRLF Connection: close CRLF CRLF" (45 bytes, decision point 43),
    "HTTP/1.1 403 Forbidden CRLF CRLF" (26 bytes). *)
Example c11_nonvacuous :
  reach_await (demo_req V11) = Some (await_flow V11) /\
  reach_await (demo_req V10) = Some (await_flow V10) /\
  Inv TAwait100 (await_flow V11) /\ Inv TAwait100 (await_flow V10) /\
  i_should_send_body (await_flow V10) = true /\ c_analyzed (i_call (await_flow V10)) = true /\
  i_holder (await_flow V10) = HWithBody /\ NoDup (i_reasons (await_flow V10)) /\
  wf_resp_head head100 /\ rh_status head100 = 100 /\ bare head100 /\
  wf_resp_head head403 /\ rh_status head403 <> 100 /\
  wf_resp_head head403_bare /\ bare head403_bare /\
  render_response_head head100 = s2b "HTTP/1.1 100 Continue" ++ CRLF ++ CRLF /\
  render_response_head head403 =
    s2b "HTTP/1.1 403 Forbidden" ++ CRLF ++ s2b "Connection: close" ++ CRLF ++ CRLF /\
  render_response_head head403_bare = s2b "HTTP/1.1 403 Forbidden" ++ CRLF ++ CRLF /\
  decision_point head100 = 25 /\ decision_point head403 = 43 /\ decision_point head403_bare = 26.
Proof.
  split; [exact reach_await_11|]. split; [exact reach_await_10|].
  split; [apply await_flow_inv; right; reflexivity|].
  split; [apply await_flow_inv; left; reflexivity|].
  split; [reflexivity|]. split; [reflexivity|]. split; [reflexivity|].
  split; [exact (inv_nodup _ _ (await_flow_inv V10 (or_introl eq_refl)))|].
  split; [exact head100_wf|]. split; [reflexivity|]. split; [reflexivity|].
  split; [exact head403_wf|]. split; [discriminate|].
  split; [exact head403_bare_wf|]. split; [reflexivity|].
  exact heads_rendered.
Qed.

(** "100 Continue" ++ "xyz" at cuts 0, 10, 23 (right after the status line), 24 (after the CR), 25
    (complete) and 28, for the HTTP/1.0 and the HTTP/1.1 request. *)
Example c11_continue_nonvacuous : forall v, v = V10 \/ v = V11 ->
  let f := await_flow v in
  let s := render_response_head head100 ++ s2b "xyz" in
  try_read_100 f (take 0 s) = (f, Ok 0) /\
  try_read_100 f (take 10 s) = (f, Ok 0) /\
  try_read_100 f (take 23 s) = (f, Ok 0) /\
  try_read_100 f (take 24 s) = (f, Ok 0) /\
  try_read_100 f (take 25 s) = (set_await f false, Ok 25) /\
  try_read_100 f (take 28 s) = (set_await f false, Ok 25) /\
  await_100_proceed (set_await f false) = Ok (TSendBody, set_await f false).
Proof. exact ex_continue_cuts. Qed.

(** "403 Forbidden / Connection: close" ++ "denied" at cuts 0, 24 (right after the status line), 42
    (one byte short of the first field line), 43 (first field line complete: refused although the
    head is not), 45 and the whole stream; refusing again on re-presentation; then proceed and the
    response: 45 bytes consumed, both close reasons recorded, ready to proceed. *)
Example c11_refusal_nonvacuous : forall v, v = V10 \/ v = V11 ->
  let f := await_flow v in
  let s := render_response_head head403 ++ s2b "denied" in
  try_read_100 f (take 0 s) = (f, Ok 0) /\
  try_read_100 f (take 24 s) = (f, Ok 0) /\
  try_read_100 f (take 42 s) = (f, Ok 0) /\
  try_read_100 f (take 43 s) = (refused f, Ok 0) /\
  try_read_100 f (take 45 s) = (refused f, Ok 0) /\
  try_read_100 f s = (refused f, Ok 0) /\
  try_read_100 (refused f) s = (refused f, Ok 0) /\
  i_should_send_body (refused f) = false /\ must_close (refused f) = true /\
  await_100_proceed (refused f) = Ok (TRecvResponse, to_recv (refused f)) /\
  (exists f', recv_try_response (to_recv (refused f)) s = Ok (f', 45, Some (response_of head403)) /\
              i_should_send_body f' = false /\ must_close f' = true /\
              In ServerConnectionClose (i_reasons f') /\ In Not100Continue (i_reasons f') /\
              recv_response_can_proceed f' = Ok true).
Proof. exact ex_refusal_cuts. Qed.

(** A refusal without fields is decided only by the final CRLF CRLF (cuts 24, 25 vs 26). *)
Example c11_refusal_bare_nonvacuous :
  let f := await_flow V11 in
  let s := render_response_head head403_bare ++ s2b "denied" in
  try_read_100 f (take 24 s) = (f, Ok 0) /\
  try_read_100 f (take 25 s) = (f, Ok 0) /\
  try_read_100 f (take 26 s) = (refused f, Ok 0) /\
  try_read_100 f s = (refused f, Ok 0) /\
  i_reasons (refused f) = [Not100Continue].
Proof. exact ex_refusal_bare_cuts. Qed.

(** Give up, send "hello", go to RecvResponse with the flag still set; then 100 ++ 403: skipped
    once, 403 returned; and 100 ++ 100: the second one is handed out. *)
Example c11_late_nonvacuous : forall v, v = V10 \/ v = V11 ->
  exists f3, give_up_and_send (await_flow v) = Some f3 /\
    i_await_100 f3 = true /\ i_holder f3 = HRecvResponse /\
    let s := render_response_head head100 ++ render_response_head head403 in
    recv_try_response f3 s = Ok (set_await f3 false, 25, None) /\
    (exists f4, recv_try_response (set_await f3 false) (drop 25 s) = Ok (f4, 45, Some (response_of head403))) /\
    let s2 := render_response_head head100 ++ render_response_head head100 in
    recv_try_response f3 s2 = Ok (set_await f3 false, 25, None) /\
    recv_try_response (set_await f3 false) (drop 25 s2) =
      Ok (handed_100 (set_await f3 false), 25, Some (response_of head100)).
Proof. exact ex_giveup_late. Qed.

(** The discipline in [c11_never_assert] is needed: a caller that, after a refusal, offers a
    DIFFERENT window holding a bare 100 (the types permit it) hits the assertion. *)
Example c11_assert_reachable_outside_discipline :
  let f := await_flow V11 in
  try_read_100 f (render_response_head head403) = (refused f, Ok 0) /\
  try_read_100 (refused f) (render_response_head head100) =
    (refused f, Panic "flow.rs: assert!(self.inner.should_send_body)").
Proof. exact ex_assert_reachable. Qed.

Print Assumptions c11_undecided_status.
Print Assumptions c11_undecided_line.
Print Assumptions c11_undecided.
Print Assumptions c11_decided.
Print Assumptions c11_verdict_final.
Print Assumptions c11_continue.
Print Assumptions c11_continue_proceed.
Print Assumptions c11_refusal_bare.
Print Assumptions c11_refusal_fields.
Print Assumptions c11_refused_flow.
Print Assumptions c11_refusal_response.
Print Assumptions c11_refusal_response_plain.
Print Assumptions c11_never_body.
Print Assumptions c11_never_body_means.
Print Assumptions c11_giveup.
Print Assumptions c11_giveup_tag.
Print Assumptions c11_late.
Print Assumptions c11_late_not_again.
Print Assumptions c11_late_then_head.
Print Assumptions c11_late_once.
Print Assumptions c11_never_assert.
Print Assumptions c11_assert_only.
Print Assumptions c11_usable_undecided.
Print Assumptions c11_usable_continue.
Print Assumptions c11_usable_refused.
Print Assumptions c11_usable_giveup.
Print Assumptions c11_usable_late.
Print Assumptions c11_usable_late_not_again.
Print Assumptions c11_usable_response.
Print Assumptions c11_nonvacuous.
Print Assumptions c11_continue_nonvacuous.
Print Assumptions c11_refusal_nonvacuous.
Print Assumptions c11_refusal_bare_nonvacuous.
Print Assumptions c11_late_nonvacuous.
Print Assumptions c11_assert_reachable_outside_discipline.

(* ================================================================== the handshake's code itself (translated from the source) *)
(** [Flow<Await100>::try_read_100] is translated on every run by tools/rs2coq2.py (theories/Gen2.v, [gen_try_read_100]) with the
    fields of [self.inner] it touches (close reasons, should_send_body, await_100_continue) as parameters and the result of the
    zero-slot parse as a value (consumed count and status).  proofs/Gen2_equiv_flow.v proves it equal to the model's [try_read_100]
    on every flow and every input: same count, same three fields afterwards, same error; it panics only where the model does (the
    [assert!(should_send_body)]).  So the theorems above about the decision point, the refusal and the cleared flag are statements
    about the code as it is now; hoisting the clearing of the flag, widening the go-ahead test or dropping the close reason changes
    Gen2.v and this equality no longer holds.  Trusted: the translator. *)
From Hoot Require Import GenLib Gen2.
From Hoot.proofs Require Import Gen2_equiv_flow_try100 Gen2_equiv_flow_new Gen2_equiv_flow_response.
Theorem c11_code_try_read_100 : forall f input,
  let g := gen_try_read_100 (i_reasons f) (i_should_send_body f) (i_await_100 f) (parsed_of (try_parse_response 0 input)) in
  match try_read_100 f input with
  | (f', Ok n) => g = Ok (i_reasons f', i_should_send_body f', i_await_100 f', n)
  | (_, Err e) => g = Err e
  | (_, Panic _) => exists s, g = Panic s
  end.
Proof. exact gen_try_read_100_ok. Qed.
Example c11_code_nonvacuous :
  gen_try_read_100 [] true true (Ok (Some (25, 100))) = Ok ([], true, false, 25)
  /\ gen_try_read_100 [] true true (Ok (Some (19, 403))) = Ok ([Not100Continue], false, false, 0)
  /\ gen_try_read_100 [] true true (Err HttpParseTooManyHeaders) = Ok ([Not100Continue], false, false, 0)
  /\ gen_try_read_100 [] true true (Ok None) = Ok ([], true, true, 0).
Proof. vm_compute. repeat split; reflexivity. Qed.
Print Assumptions c11_code_try_read_100.
Print Assumptions c11_code_nonvacuous.

(** The other half of the handshake: a 100 that arrives after the caller stopped waiting is skipped by
    [Flow<RecvResponse>::try_response] exactly while one is still awaited; that function, too, is translated from the source on
    every run and proved equal to the model (also exported by C10). *)
Theorem c11_code_late_100 : forall f input c c' got,
  as_recv_response f = Ok c ->
  call_try_response c input = Ok (c', got) ->
  match recv_try_response f input with
  | Ok (f', used, orsp) =>
      gen_try_response (i_reasons f) (i_await_100 f) (i_status f) (i_location f) (Ok got)
      = Ok (i_reasons f', i_await_100 f', i_status f', i_location f', (used, orsp))
  | Err e => gen_try_response (i_reasons f) (i_await_100 f) (i_status f) (i_location f) (Ok got) = Err e
  | Panic _ => exists s, gen_try_response (i_reasons f) (i_await_100 f) (i_status f) (i_location f) (Ok got) = Panic s
  end.
Proof. exact gen_try_response_ok. Qed.
Theorem c11_code_new_flags : forall h10 cc nb ex,
  gen_flow_new h10 cc nb ex (Ok tt) = Ok ((if h10 then [Http10] else []) ++ (if cc then [ClientConnectionClose] else []), nb, ex).
Proof. exact gen_flow_new_table. Qed.
Print Assumptions c11_code_late_100.
Print Assumptions c11_code_new_flags.

(** What an ERROR of [try_read_100] leaves behind is translated too (the same Rust function in "error-state mode": the values of the
    three fields at the point where it returns an error) and is the model's: the flag is cleared, nothing else changes. *)
Theorem c11_code_try_read_100_after_error : forall f input f' e,
  try_read_100 f input = (f', Err e) ->
  gen_try_read_100_errst (i_reasons f) (i_should_send_body f) (i_await_100 f) (parsed_of (try_parse_response 0 input))
  = Some (i_reasons f', i_should_send_body f', i_await_100 f').
Proof. exact gen_try_read_100_errst_ok. Qed.
Print Assumptions c11_code_try_read_100_after_error.

(* ================================================================== the whole chain in translated code *)
(** [try_read_100] calls [parser::try_parse_response] with zero header slots; both are translated.  Chained: from what httparse returns
    on the input to the flow's fields after the call, the translated code is the model's [try_read_100]
    (proofs/Gen2_equiv_try100_parser.v: [gen_parse0] is the translated parser on the parser model's outcome). *)
From Hoot.proofs Require Import Gen2_equiv_try100_parser.
Theorem c11_code_try_read_100_chain : forall f input,
  let g := gen_try_read_100 (i_reasons f) (i_should_send_body f) (i_await_100 f) (parsed_of (gen_parse0 input)) in
  match try_read_100 f input with
  | (f', Ok n) => g = Ok (i_reasons f', i_should_send_body f', i_await_100 f', n)
  | (_, Err e) => g = Err e
  | (_, Panic _) => exists s, g = Panic s
  end.
Proof. exact gen_try_read_100_chain. Qed.
Print Assumptions c11_code_try_read_100_chain.

(* ================================================================== the Expect test itself (translated from the source) *)
(** [HeaderIterExt::has_expect_100] -- the flag [has_expect] that [c11_code_new_flags] takes as a value -- is translated from src/ext.rs
    and is the model's test: some Expect field with the value 100-continue (proofs/Gen2_equiv_has.v). *)
From Hoot.proofs Require Import Gen2_equiv_has.
Theorem c11_code_has_expect_100 : forall l, gen_has_expect_100 l = headers_has l (s2b "expect") (s2b "100-continue").
Proof. exact gen_has_expect_100_eq. Qed.
Print Assumptions c11_code_has_expect_100.
