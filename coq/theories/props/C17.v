(** Property C17 -- invalid requests are rejected before a single byte is emitted.
    Statements only; the specification predicate [invalid] and the proofs are in
    proofs/C17_proofs.v (the definition is restated below as [c17_invalid_def]). *)
From Hoot Require Import Base Body Url Request Call Flow.
From Hoot.proofs Require Import C17_proofs.
Open Scope N_scope.

(** The specification: the rejection classes of the statement, over the effective header list
    ([hosts a], [cls a], [tes a] are the values of the effective host / content-length /
    transfer-encoding fields; [wanted] is the body writer of the constructor (chunked for the
    with-body constructor, none otherwise); [skip] is "send a body despite the method").
      [content_length_ok v] = v is 1*DIGIT and its value is below 2^64;
      [chunked_value v]     = v is text and equals "chunked" ignoring case;
      [framing_present a]   = a valid content-length or a chunked transfer-encoding is effective;
      [body_announced a w]  = framing present or the constructor asked for a body. *)
Theorem c17_invalid_def : forall a wanted skip,
  invalid a wanted skip =
    (negb (version_supported (am_version a))
     || negb (method_defined (am_version a) (am_method a))
     || (1 <? len (hosts a))
     || (1 <? len (cls a))
     || existsb (fun v => negb (is_text v)) (hosts a)
     || existsb (fun v => negb (content_length_ok v)) (cls a)
     || (negb skip &&
         (if need_request_body (am_method a)
          then negb (body_announced a wanted)
          else body_announced a wanted))).
Proof. reflexivity. Qed.

Theorem c17_content_length_ok_def : forall v,
  content_length_ok v = (is_nonempty v && forallb is_digit v && (dec_value v <? 2 ^ 64)).
Proof. reflexivity. Qed.

Theorem c17_framing_def : forall a wanted,
  body_announced a wanted =
    (existsb content_length_ok (cls a)
     || existsb (fun v => is_text v && beq_bytes (lower v) (s2b "chunked")) (tes a)
     || has_body wanted).
Proof. reflexivity. Qed.

(** Request analysis fails exactly on the invalid requests, with one of its own errors, and never
    panics; on every other request it succeeds and reports the body mode, whether a Host field is
    there, and whether a framing header is there. *)
Theorem c17_iff : forall a wanted skip,
  (exists e, analyze a wanted skip = Err e) <-> invalid a wanted skip = true.
Proof. exact analyze_iff. Qed.

Theorem c17_never_panics : forall a wanted skip site, analyze a wanted skip <> Panic site.
Proof. exact analyze_no_panic. Qed.

Theorem c17_error_class : forall a wanted skip e,
  analyze a wanted skip = Err e -> analysis_error e = true /\ e <> OutputOverflow.
Proof.
  intros a w s e H. pose proof (analyze_err_class a w s e H) as Hc.
  split; [exact Hc|apply analysis_error_not_overflow; exact Hc].
Qed.

Theorem c17_accepted : forall a wanted skip,
  invalid a wanted skip = false ->
  analyze a wanted skip = Ok {| ri_mode := spec_mode a wanted; ri_host := is_nonempty (hosts a);
                                ri_body_header := framing_present a |}.
Proof. exact analyze_valid. Qed.

(** First write of a fresh call ([fresh c]: not analysed yet, nothing written), both single-call
    entry points, EVERY output capacity: refused with an error other than OutputOverflow exactly
    when the request is invalid.  [sendable c] (acceptance direction only): the effective URI has
    an authority (otherwise no Host is derived and a request without any header makes the writer
    panic, see DESIGN.md, findings chapter, "observed"), at most 62 headers were added before (analysis
    pushes up to two more into a 64-slot array), and the URI host is acceptable as a header value. *)
Theorem c17_call_without_body_iff : forall c cap,
  fresh c -> sendable c ->
  ((exists e, call_write_nobody c cap = Err e /\ e <> OutputOverflow) <-> call_invalid c = true).
Proof. exact nobody_iff. Qed.

Theorem c17_call_with_body_iff : forall c input cap,
  fresh c -> sendable c ->
  ((exists e, call_write_body c input cap = Err e /\ e <> OutputOverflow) <-> call_invalid c = true).
Proof. exact body_iff. Qed.

Theorem c17_flow_iff : forall f cap,
  fresh_flow f -> sendable (i_call f) ->
  ((exists e, send_request_write f cap = Err e /\ e <> OutputOverflow) <->
   call_invalid (i_call f) = true).
Proof. exact flow_iff. Qed.

(** Rejection needs none of the [sendable] preconditions: an invalid request is refused with the same
    analysis error whatever the capacity (so before any byte could be emitted). *)
Theorem c17_rejected : forall f,
  fresh_flow f -> call_invalid (i_call f) = true ->
  exists e, analysis_error e = true /\ forall cap, send_request_write f cap = Err e.
Proof. exact flow_invalid. Qed.

(** Nothing emitted, repeatable: after ANY history of writes on an invalid fresh flow the flow is the
    one we started with, nothing has been emitted, the next write (any capacity) is refused with
    the same error, and the flow is not ready to advance. *)
Theorem c17_repeatable : forall f,
  fresh_flow f -> call_invalid (i_call f) = true ->
  exists e, analysis_error e = true /\
    forall caps cap,
      fwrun f caps = {| fw_flow := f; fw_out := [] |} /\
      send_request_write (fw_flow (fwrun f caps)) cap = Err e /\
      send_request_can_proceed (fw_flow (fwrun f caps)) = Ok false.
Proof. exact flow_invalid_repeatable. Qed.

Theorem c17_call_repeatable : forall c,
  fresh c -> call_invalid c = true ->
  exists e, analysis_error e = true /\
    forall ops,
      cwrun c ops = {| cw_call := c; cw_out := [] |} /\
      (forall cap, call_write_nobody (cw_call (cwrun c ops)) cap = Err e) /\
      (forall input cap, call_write_body (cw_call (cwrun c ops)) input cap = Err e).
Proof. exact call_invalid_repeatable. Qed.

(** Every request outside the classes is accepted: the first write succeeds or reports that the
    output buffer is too small for the first line (property C02), never an analysis error. *)
Theorem c17_accept : forall f cap,
  fresh_flow f -> call_invalid (i_call f) = false -> sendable (i_call f) ->
  (exists f' out, send_request_write f cap = Ok (f', out)) \/
  send_request_write f cap = Err OutputOverflow.
Proof. exact flow_valid. Qed.

Theorem c17_call_accept : forall c cap,
  fresh c -> call_invalid c = false -> sendable c ->
  ((exists c' out, call_write_nobody c cap = Ok (c', out)) \/
   call_write_nobody c cap = Err OutputOverflow) /\
  (forall input, (exists c' n out, call_write_body c input cap = Ok (c', n, out)) \/
                 call_write_body c input cap = Err OutputOverflow).
Proof.
  intros c cap Hf Hi Hs. split; [exact (nobody_valid c cap Hf Hi Hs)|].
  intros input. exact (body_valid c input cap Hf Hi Hs).
Qed.

(** Fresh flows are what [Flow::new] returns, also after [send_body_despite_method]. *)
Theorem c17_flow_new_fresh : forall r f,
  flow_new r = Ok f ->
  fresh_flow f /\ c_req (i_call f) = am_new r /\ c_skip (i_call f) = false /\
  c_writer (i_call f) = (if need_request_body (rq_method r) then new_chunked else new_none).
Proof. exact flow_new_fresh. Qed.

Theorem c17_despite_fresh : forall f f',
  fresh_flow f -> send_body_despite_method f = Ok f' ->
  fresh_flow f' /\ c_req (i_call f') = c_req (i_call f) /\
  (i_holder f = HWithoutBody -> c_skip (i_call f') = true /\ c_writer (i_call f') = new_chunked) /\
  (i_holder f = HWithBody -> i_call f' = i_call f).
Proof. exact despite_fresh. Qed.

(* ------------------------------------------------------------------ examples *)

Definition ex_uri : uri := {| u_scheme := s2b "http"; u_auth := s2b "a.test"; u_pq := s2b "/x" |}.
Definition ex_req (m : method) (v : version) (hs : list header) : request :=
  {| rq_method := m; rq_version := v; rq_uri := ex_uri; rq_headers := hs |}.
Definition ex_flow (r : request) : inner :=
  match flow_new r with Ok f => f | _ => set_call_holder
    {| i_call := call_new r new_none; i_holder := HRecvBody; i_reasons := []; i_should_send_body := false;
       i_await_100 := false; i_status := None; i_location := None |} (call_new r new_none) HRecvBody end.
Definition ex_despite (f : inner) : inner :=
  match send_body_despite_method f with Ok f' => f' | _ => f end.
Definition first_write (f : inner) (cap : N) : res bytes :=
  match send_request_write f cap with Ok (_, out) => Ok out | Err e => Err e | Panic s => Panic s end.

Example c17_ex_http2_get :
  let f := ex_flow (ex_req GET V2 []) in
  call_invalid (i_call f) = true /\ first_write f 0 = Err UnsupportedVersion /\
  first_write f 1000 = Err UnsupportedVersion.
Proof. vm_compute. auto. Qed.

Example c17_ex_http10_put :
  let f := ex_flow (ex_req PUT V10 [(s2b "content-length", s2b "5")]) in
  call_invalid (i_call f) = true /\ first_write f 1000 = Err MethodVersionMismatch.
Proof. vm_compute. auto. Qed.

Example c17_ex_two_hosts :
  let f := ex_flow (ex_req GET V11 [(s2b "host", s2b "a.test"); (s2b "host", s2b "b.test")]) in
  call_invalid (i_call f) = true /\ first_write f 1000 = Err TooManyHostHeaders.
Proof. vm_compute. auto. Qed.

Example c17_ex_plus_five :
  let f := ex_flow (ex_req POST V11 [(s2b "content-length", s2b "+5")]) in
  call_invalid (i_call f) = true /\ first_write f 1000 = Err BadContentLengthHeader.
Proof. vm_compute. auto. Qed.

Example c17_ex_get_with_length :
  let f := ex_flow (ex_req GET V11 [(s2b "content-length", s2b "0")]) in
  call_invalid (i_call f) = true /\ first_write f 1000 = Err MethodForbidsBody.
Proof. vm_compute. auto. Qed.

Example c17_ex_post_ok :
  let f := ex_flow (ex_req POST V11 [(s2b "content-length", s2b "5")]) in
  fresh_flow f /\ sendable (i_call f) /\ call_invalid (i_call f) = false /\
  first_write f 1000 =
    Ok (s2b "POST /x HTTP/1.1" ++ CRLF ++ s2b "host: a.test" ++ CRLF ++ s2b "content-length: 5" ++ CRLF ++ CRLF) /\
  first_write f 3 = Err OutputOverflow.
Proof.
  vm_compute. repeat split; auto; try discriminate.
Qed.

Example c17_ex_get_despite :
  let f := ex_despite (ex_flow (ex_req GET V11 [])) in
  fresh_flow f /\ call_invalid (i_call f) = false /\
  first_write f 1000 =
    Ok (s2b "GET /x HTTP/1.1" ++ CRLF ++ s2b "host: a.test" ++ CRLF ++
        s2b "transfer-encoding: chunked" ++ CRLF ++ CRLF).
Proof. vm_compute. repeat split; auto. Qed.

(** Non-vacuity of the premises of the general theorems: an invalid fresh flow and a valid,
    sendable fresh flow exist (the examples above exercise them). *)
Example c17_nonvacuous :
  (let f := ex_flow (ex_req GET V11 [(s2b "content-length", s2b "0")]) in
   fresh_flow f /\ call_invalid (i_call f) = true) /\
  (let f := ex_flow (ex_req POST V11 [(s2b "content-length", s2b "5")]) in
   fresh_flow f /\ sendable (i_call f) /\ call_invalid (i_call f) = false).
Proof. vm_compute. repeat split; auto; try discriminate. Qed.


(* ------------------------------------------------------------------ tie to the source by translation *)
(** The Rust functions below are translated to Gallina from the repository's CURRENT sources on every run
    (tools/rs2coq.py -> theories/Gen.v); they equal the model's functions for all arguments, so the theorems above
    hold for what the code says now. A change of one of these functions that is not an equivalent rewrite breaks the
    proof obligation here. *)
From Hoot Require Import Gen.
From Hoot.proofs Require Import Gen_equiv_ext.
Theorem c17_code_verify_version : forall m v, gen_verify_version m v = verify_version m v.
Proof. exact gen_verify_version_eq. Qed.
Theorem c17_code_is_http10 : forall m, gen_is_http10 m = is_http10 m.
Proof. exact gen_is_http10_eq. Qed.
Theorem c17_code_is_http11 : forall m, gen_is_http11 m = is_http11 m.
Proof. exact gen_is_http11_eq. Qed.
Theorem c17_code_need_request_body : forall m, gen_need_request_body m = need_request_body m.
Proof. exact gen_need_request_body_eq. Qed.

(* ================================================================== strengthening (review 3) *)
(** Proofs: proofs/C17_more.v.

    LEVEL NOTE: WHAT "NOTHING EMITTED / STATE UNCHANGED" MEANS HERE.  The model's write entry points have type
    [res (state * output)]; an [Err] carries neither a state nor output.  So in [c17_rejected] / [c17_repeatable]
    "no byte emitted" and "no new state" hold by the type of the model, and [fwrun] / [cwrun] define a refused
    write as "keep the flow you had".  What is a THEOREM is the statement for the operation language of Script.v
    ([Script.step], the semantics that is compared operation by operation with the real crate: the harness keeps
    using the same Rust object after a real error, and all its later observations are compared with the model's):
    a refused [write_head] leaves the WHOLE script state as it was, and later readiness queries, attempts to
    advance and further writes are answered "false" / "stay" / the same error ([c17_nothing_emitted_flow]).  That
    the Rust object ([&mut self]) and the caller's buffer are bit-for-bit untouched after the [Err] is established
    by that correspondence, not by a Coq proof. *)
From Hoot Require Import Chunk Httparse Parser Script.
From Hoot.proofs Require Import C17_more.

(** RECONCILING [invalid] WITH THE ENGLISH STATEMENT.  [invalid_english]: exactly the classes the statement lists
    ("non-numeric" = not 1*DIGIT).  [invalid_extra]: the two classes the code rejects in addition --
    X1 a Host value that is not text (visible ASCII), X2 an all-digit Content-Length whose value is 2^64 or more.
    The statement's last sentence ("every request outside these classes is accepted") is true of
    [invalid_english \/ invalid_extra], not of [invalid_english] alone ([c17_ex_extra_classes]). *)
Theorem c17_english_def : forall a wanted skip,
  invalid_english a wanted skip =
    (negb (version_supported (am_version a))
     || negb (method_defined (am_version a) (am_method a))
     || (1 <? len (hosts a))
     || (1 <? len (cls a))
     || existsb (fun v => negb (is_nonempty v && forallb is_digit v)) (cls a)
     || (negb skip &&
         (if need_request_body (am_method a)
          then negb (body_announced a wanted)
          else body_announced a wanted))).
Proof. reflexivity. Qed.

Theorem c17_extra_def : forall a,
  invalid_extra a =
    (existsb (fun v => negb (is_text v)) (hosts a)
     || existsb (fun v => is_nonempty v && forallb is_digit v && negb (dec_value v <? 2 ^ 64)) (cls a)).
Proof. reflexivity. Qed.

Theorem c17_invalid_classes : forall a wanted skip,
  invalid a wanted skip = invalid_english a wanted skip || invalid_extra a.
Proof. exact invalid_split. Qed.

Theorem c17_invalid_classes_iff : forall a wanted skip,
  invalid a wanted skip = true <-> invalid_english a wanted skip = true \/ invalid_extra a = true.
Proof. exact invalid_split_iff. Qed.

(** NOTHING EMITTED, AT SCRIPT LEVEL.  [s]: any script state whose object is a flow in SendRequest holding a fresh
    invalid request.  One step: *)
Theorem c17_refused_step : forall s f,
  s_obj s = ObFlow TSendRequest f -> fresh_flow f -> call_invalid (i_call f) = true ->
  exists e, analysis_error e = true /\
    (forall cap, step s (OWriteHead cap) = (s, obs_err e)) /\
    step s OQCanProceed = (s, obs_bool false) /\
    step s OProceed = (s, [w "stay"]).
Proof. exact script_refused. Qed.

(** Any history of head writes (any capacities), readiness queries and attempts to advance: the script state after
    it IS the state before it (the flow, but also the stream / body cursors), and every one of these operations is
    answered, wherever it occurs in the history, with the same error / "false" / "stay". *)
Theorem c17_nothing_emitted_flow : forall s f,
  s_obj s = ObFlow TSendRequest f -> fresh_flow f -> call_invalid (i_call f) = true ->
  exists e, analysis_error e = true /\
    forall ops,
      forallb (fun o => match o with OWriteHead _ | OQCanProceed | OProceed => true | _ => false end) ops = true ->
      run_ops s ops = s /\
      forall o, In o ops ->
        step s o = (s, match o with
                       | OWriteHead _ => obs_err e
                       | OQCanProceed => obs_bool false
                       | _ => [w "stay"]
                       end).
Proof. exact script_refused_history. Qed.

(** The single-call objects of the script ([call_without] / [call_with]). *)
Theorem c17_nothing_emitted_call : forall s h c,
  s_obj s = ObCall h c -> fresh c -> call_invalid c = true ->
  exists e, analysis_error e = true /\
    (h = HWithoutBody -> forall cap, step s (OWriteHead cap) = (s, obs_err e)) /\
    (h = HWithBody -> forall input cap, step s (OWriteBody input cap) = (s, obs_err e)).
Proof. exact script_refused_call. Qed.

(** Such states are what [new r; proceed] produces. *)
Theorem c17_script_new_state : forall r f,
  flow_new r = Ok f ->
  s_obj (run_ops s_init [ONew r; OProceed]) = ObFlow TSendRequest f /\ fresh_flow f /\
  call_invalid (i_call f) =
    invalid (am_new r) (if need_request_body (rq_method r) then new_chunked else new_none) false.
Proof. exact script_new_state. Qed.

(** The extra classes are real and are not among the English ones: a Host of one byte 0xFF; a Content-Length of
    2^64.  2^64 - 1 is accepted. *)
Example c17_ex_extra_classes :
  (let f := ex_flow (ex_req GET V11 [(s2b "host", [255])]) in
   invalid_extra (c_req (i_call f)) = true /\
   invalid_english (c_req (i_call f)) (c_writer (i_call f)) (c_skip (i_call f)) = false /\
   first_write f 1000 = Err BadHostHeader) /\
  (let f := ex_flow (ex_req POST V11 [(s2b "content-length", s2b "18446744073709551616")]) in
   invalid_extra (c_req (i_call f)) = true /\
   invalid_english (c_req (i_call f)) (c_writer (i_call f)) (c_skip (i_call f)) = false /\
   first_write f 1000 = Err BadContentLengthHeader) /\
  (let f := ex_flow (ex_req POST V11 [(s2b "content-length", s2b "18446744073709551615")]) in
   call_invalid (i_call f) = false).
Proof. vm_compute. repeat split. Qed.

(** Script-reached: an HTTP/2 GET.  Seven probing operations later the script state is the very same state, and the
    observations are the error, "false", "stay". *)
Example c17_script_nonvacuous :
  let s := run_ops s_init [OSetStream (s2b "xyz"); ONew (ex_req GET V2 []); OProceed] in
  let probes := [OWriteHead 0; OQCanProceed; OWriteHead 1000; OProceed; OQCanProceed; OWriteHead 7; OProceed] in
  match s_obj s with
  | ObFlow TSendRequest f =>
      fresh_flow f /\ call_invalid (i_call f) = true /\
      run_ops s probes = s /\
      map (fun o => snd (step s o)) probes =
        [obs_err UnsupportedVersion; obs_bool false; obs_err UnsupportedVersion; [w "stay"]; obs_bool false;
         obs_err UnsupportedVersion; [w "stay"]]
  | _ => False
  end.
Proof. vm_compute. repeat split; auto. Qed.

Print Assumptions c17_invalid_def.
Print Assumptions c17_content_length_ok_def.
Print Assumptions c17_framing_def.
Print Assumptions c17_iff.
Print Assumptions c17_never_panics.
Print Assumptions c17_error_class.
Print Assumptions c17_accepted.
Print Assumptions c17_call_without_body_iff.
Print Assumptions c17_call_with_body_iff.
Print Assumptions c17_flow_iff.
Print Assumptions c17_rejected.
Print Assumptions c17_repeatable.
Print Assumptions c17_call_repeatable.
Print Assumptions c17_accept.
Print Assumptions c17_call_accept.
Print Assumptions c17_flow_new_fresh.
Print Assumptions c17_despite_fresh.
Print Assumptions c17_ex_http2_get.
Print Assumptions c17_ex_http10_put.
Print Assumptions c17_ex_two_hosts.
Print Assumptions c17_ex_plus_five.
Print Assumptions c17_ex_get_with_length.
Print Assumptions c17_ex_post_ok.
Print Assumptions c17_ex_get_despite.
Print Assumptions c17_nonvacuous.
Print Assumptions c17_code_verify_version.
Print Assumptions c17_code_is_http10.
Print Assumptions c17_code_is_http11.
Print Assumptions c17_code_need_request_body.
Print Assumptions c17_english_def.
Print Assumptions c17_extra_def.
Print Assumptions c17_invalid_classes.
Print Assumptions c17_invalid_classes_iff.
Print Assumptions c17_refused_step.
Print Assumptions c17_nothing_emitted_flow.
Print Assumptions c17_nothing_emitted_call.
Print Assumptions c17_script_new_state.
Print Assumptions c17_ex_extra_classes.
Print Assumptions c17_script_nonvacuous.

(* ================================================================== Flow<SendRequest>::headers_map *)
(** A request that the analysis refuses is refused by [headers_map] too, with the same error as every head write, and the call
    emits nothing and changes nothing (proofs/HeadersMap.v): the two entry points cannot disagree about validity. *)
From Hoot Require Import Script.
From Hoot.proofs Require Import HeadersMap.
Theorem c17_headers_map_refuses : forall s f e,
  s_obj s = ObFlow TSendRequest f -> analyze_request (i_call f) = Err e ->
  step s OHeadersMap = (s, obs_err e).
Proof.
  intros s f e Ho Ha. rewrite (surjective_pairing (step s OHeadersMap)).
  rewrite headers_map_pure, (headers_map_obs s f Ho), Ha. reflexivity.
Qed.
Theorem c17_headers_map_agrees_with_write : forall f e cap,
  (i_holder f = HWithoutBody \/ (i_holder f = HWithBody /\ is_body (c_phase (i_call f)) = false)) ->
  analyze_request (i_call f) = Err e -> send_request_write f cap = Err e.
Proof. exact headers_map_err_write_err. Qed.
Print Assumptions c17_headers_map_refuses.
Print Assumptions c17_headers_map_agrees_with_write.

(* ================================================================== the request analysis' code itself (translated from the source) *)
(** [AmendedRequest::analyze] (src/client/amended.rs) -- every rejection rule of this property and the choice of the body's framing --
    is translated on every run by tools/rs2coq2.py (theories/Gen2.v, [gen_analyze]; version and method are values, the two header
    accessors of the struct are function parameters, [verify_version] / [need_request_body] / [compare_lowercase_ascii] are the
    translations of src/ext.rs and src/util.rs).  proofs/Gen2_equiv_analyze.v proves it EQUAL to the model's [analyze] for every
    request: same error variant in the same precedence, same framing, same two flags.  So c17_iff and c17_invalid_classes above are
    statements about the code as it is in the repository now; dropping a rule, changing a count bound or the precedence of chunked over
    a length changes Gen2.v and the equality no longer holds.  Trusted: the translator; HeaderValue::to_str as "visible ASCII or tab". *)
From Hoot Require Import GenLib Gen2.
From Hoot.proofs Require Import Gen2_equiv_analyze.
Theorem c17_code_analyze : forall a wanted skip,
  gen_analyze (am_version a) (am_method a) (get_all (am_headers a)) (fun n => first_of (get_all (am_headers a) n)) wanted skip
  = lift_info (analyze a wanted skip).
Proof. exact gen_analyze_eq. Qed.
Print Assumptions c17_code_analyze.

(** "Nothing is emitted and the state is unchanged" includes the flag that remembers that the analysis ran: [Call::analyze_request]
    (src/client/call.rs) is translated in "error-state mode" as well -- the values of its mutable fields at the point where it returns
    an error -- and when the analysis fails they are the values it started with; the flag stays unset, so a retry analyses, and
    fails, again (a flag set before the analysis succeeded would let the retry write a request that was never validated). *)
From Hoot.proofs Require Import Gen2_equiv_call3.
Theorem c17_code_failed_analysis_changes_nothing : forall c e,
  c_analyzed c = false ->
  analyze (c_req c) (c_writer c) (c_skip c) = Err e ->
  gen_call_analyze_request_errst (c_analyzed c) (am_added (c_req c)) (c_writer c)
                                 (lift_info3 (analyze (c_req c) (c_writer c) (c_skip c))) (host_of_call c)
  = Some (false, am_added (c_req c), c_writer c).
Proof. exact gen_call_analyze_request_errst_unchanged. Qed.
Print Assumptions c17_code_failed_analysis_changes_nothing.

(* ================================================================== send_body_despite_method (translated from the source) *)
(** Call<WithoutBody>::into_send_body -- the escape hatch that makes the analysis skip the method/body rule -- is translated on every
    run and proved to be the model's [into_send_body]: refused (assert!) once the request was analysed, otherwise the skip flag set,
    the writer the chunked default, nothing else changed (proofs/Gen2_equiv_small_despite.v). *)
From Hoot.proofs Require Import Gen2_equiv_small_despite.
Theorem c17_code_into_send_body : forall c,
  match into_send_body c, gen_into_send_body (c_analyzed c) (c_skip c) (c_writer c) with
  | Ok c', Ok (skip', w', _) =>
      c_skip c' = skip' /\ c_writer c' = w' /\ c_req c' = c_req c /\ c_analyzed c' = c_analyzed c /\ c_phase c' = c_phase c /\
      c_reader c' = c_reader c /\ c_stop c' = c_stop c
  | Panic _, Panic _ => True
  | _, _ => False
  end.
Proof. exact gen_into_send_body_eq. Qed.
Print Assumptions c17_code_into_send_body.
