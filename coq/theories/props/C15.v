(** Property C15 -- Redirect method rewriting follows the documented table.
    Statements only; proofs are in proofs/C15_proofs.v, where [redirect_method] transcribes the table of
    the statement. *)
From Coq Require Import Lia.
From Hoot Require Import Base Chunk Body Parser Url Request Call Flow.
From Hoot.proofs Require Import C06_proofs C15_proofs.
Open Scope N_scope.

(** The table itself, spelled out against the statement: for 307/308 the method is preserved and the
    redirect is not followed for POST, PUT, PATCH, DELETE; for every other status HEAD stays HEAD, GET
    stays GET and everything else becomes GET.  All statuses (no bound), all nine methods. *)
Theorem c15_table_307_308 : forall status m,
  status = 307 \/ status = 308 ->
  redirect_method status m =
    match m with POST | PUT | PATCH | DELETE => None | _ => Some m end.
Proof. intros status m [-> | ->]; reflexivity. Qed.

Theorem c15_table_other : forall status m,
  status <> 307 -> status <> 308 ->
  redirect_method status m = match m with HEAD => Some HEAD | _ => Some GET end.
Proof.
  intros status m H7 H8. unfold redirect_method.
  destruct (N.eqb_spec status 307); [contradiction|]. destruct (N.eqb_spec status 308); [contradiction|].
  destruct m; reflexivity.
Qed.

(** [as_new_flow] follows the table: not followed = returns no flow and changes nothing; followed =
    the new flow carries the table's method, the resolved target and the original version. *)
Theorem c15_as_new_flow : forall f p loc status orig target,
  i_location f = Some loc -> is_text loc = true -> i_status f = Some status ->
  am_req (c_req (i_call f)) = Some orig ->
  u_scheme (am_eff_uri (c_req (i_call f))) <> [] ->
  resolve (am_eff_uri (c_req (i_call f))) loc = Some target ->
  match redirect_method status (rq_method orig) with
  | None => as_new_flow f p = Ok (f, None)
  | Some nm =>
      exists f' nxt, as_new_flow f p = Ok (f', Some nxt) /\
                     am_method (c_req (i_call nxt)) = nm /\
                     am_eff_uri (c_req (i_call nxt)) = target /\
                     am_version (c_req (i_call nxt)) = rq_version orig
  end.
Proof. exact as_new_flow_method. Qed.

(** The redirect state is entered exactly for 3xx statuses other than 304 -- without a body ... *)
Theorem c15_enter_without_body : forall f r status,
  i_holder f = HRecvResponse -> c_reader (i_call f) = Some r -> i_status f = Some status ->
  NoDup (i_reasons f) -> expects_body r = false ->
  exists f', recv_response_proceed f =
             Ok (Some (if is_redirect_status status then TRedirect else TCleanup, f')) /\
             i_status f' = Some status.
Proof. exact enter_after_head. Qed.

(** ... and after a body. *)
Theorem c15_enter_after_body : forall f status b,
  i_status f = Some status -> recv_body_can_proceed f = Ok b ->
  recv_body_proceed f =
    if b then Ok (Some (if is_redirect_status status then TRedirect else TCleanup, f)) else Ok None.
Proof. exact enter_after_body. Qed.

(** It reports the status that was received. *)
Theorem c15_status : forall f input f' used rsp,
  recv_try_response f input = Ok (f', used, Some rsp) -> i_status f' = Some (rs_status rsp).
Proof. exact status_recorded. Qed.

Theorem c15_redirect_status_iff : forall status,
  is_redirect_status status = true <-> (300 <= status <= 399 /\ status <> 304).
Proof.
  intros status. unfold is_redirect_status.
  destruct (N.leb_spec 300 status) as [H1|H1], (N.leb_spec status 399) as [H2|H2],
           (N.eqb_spec status 304) as [H3|H3]; cbn; split;
    intros HH; try discriminate; try reflexivity; try lia.
Qed.

Example c15_nonvacuous :
  redirect_method 301 POST = Some GET /\ redirect_method 303 HEAD = Some HEAD /\
  redirect_method 307 POST = None /\ redirect_method 308 DELETE = None /\
  redirect_method 307 OPTIONS = Some OPTIONS /\ redirect_method 399 TRACE = Some GET /\
  is_redirect_status 304 = false /\ is_redirect_status 300 = true /\ is_redirect_status 400 = false.
Proof. vm_compute. repeat split. Qed.


(* ------------------------------------------------------------------ tie to the source by translation *)
(** The Rust functions below are translated to Gallina from the repository's CURRENT sources on every run
    (tools/rs2coq.py -> theories/Gen.v); they equal the model's functions for all arguments, so the theorems above
    hold for what the code says now. A change of one of these functions that is not an equivalent rewrite breaks the
    proof obligation here. *)
From Hoot Require Import Gen.
From Hoot.proofs Require Import Gen_equiv.
Theorem c15_code_is_retaining : forall s, gen_is_retaining s = is_retaining s.
Proof. exact gen_is_retaining_eq. Qed.
Theorem c15_code_need_request_body : forall m, gen_need_request_body m = need_request_body m.
Proof. exact gen_need_request_body_eq. Qed.

Print Assumptions c15_table_307_308.
Print Assumptions c15_table_other.
Print Assumptions c15_as_new_flow.
Print Assumptions c15_enter_without_body.
Print Assumptions c15_enter_after_body.
Print Assumptions c15_status.
Print Assumptions c15_redirect_status_iff.
Print Assumptions c15_nonvacuous.
Print Assumptions c15_code_is_retaining.
Print Assumptions c15_code_need_request_body.
