(** Property C15 -- Redirect method rewriting follows the documented table.
    Statements only; proofs are in proofs/C15_proofs.v, where [redirect_method] transcribes the table of
    the statement. *)
From Coq Require Import Lia.
From Hoot Require Import Base Chunk Body Parser Url Request Call Flow.
From Hoot.proofs Require Import C06_proofs C15_proofs.
Open Scope N_scope.

(** The table itself, spelled out against the statement: for 307/308 the method is preserved and the
    redirect is not followed for POST, PUT, PATCH, DELETE; for every other status HEAD stays HEAD, GET
    stays GET and everything else becomes GET.  All statuses (no bound), all nine methods. *)
Theorem c15_table_307_308 : forall status m,
  status = 307 \/ status = 308 ->
  redirect_method status m =
    match m with POST | PUT | PATCH | DELETE => None | _ => Some m end.
Proof. intros status m [-> | ->]; reflexivity. Qed.

Theorem c15_table_other : forall status m,
  status <> 307 -> status <> 308 ->
  redirect_method status m = match m with HEAD => Some HEAD | _ => Some GET end.
Proof.
  intros status m H7 H8. unfold redirect_method.
  destruct (N.eqb_spec status 307); [contradiction|]. destruct (N.eqb_spec status 308); [contradiction|].
  destruct m; reflexivity.
Qed.

(** [as_new_flow] follows the table: not followed = returns no flow and changes nothing; followed =
    the new flow carries the table's method, the resolved target and the original version. *)
Theorem c15_as_new_flow : forall f p loc status orig target,
  i_location f = Some loc -> is_text loc = true -> i_status f = Some status ->
  am_req (c_req (i_call f)) = Some orig ->
  u_scheme (am_eff_uri (c_req (i_call f))) <> [] ->
  resolve (am_eff_uri (c_req (i_call f))) loc = Some target ->
  match redirect_method status (rq_method orig) with
  | None => as_new_flow f p = Ok (f, None)
  | Some nm =>
      exists f' nxt, as_new_flow f p = Ok (f', Some nxt) /\
                     am_method (c_req (i_call nxt)) = nm /\
                     am_eff_uri (c_req (i_call nxt)) = target /\
                     am_version (c_req (i_call nxt)) = rq_version orig
  end.
Proof. exact as_new_flow_method. Qed.

(** The redirect state is entered exactly for 3xx statuses other than 304 -- without a body ... *)
Theorem c15_enter_without_body : forall f r status,
  i_holder f = HRecvResponse -> c_reader (i_call f) = Some r -> i_status f = Some status ->
  NoDup (i_reasons f) -> expects_body r = false ->
  exists f', recv_response_proceed f =
             Ok (Some (if is_redirect_status status then TRedirect else TCleanup, f')) /\
             i_status f' = Some status.
Proof. exact enter_after_head. Qed.

(** ... and after a body. *)
Theorem c15_enter_after_body : forall f status b,
  i_status f = Some status -> recv_body_can_proceed f = Ok b ->
  recv_body_proceed f =
    if b then Ok (Some (if is_redirect_status status then TRedirect else TCleanup, f)) else Ok None.
Proof. exact enter_after_body. Qed.

(** It reports the status that was received. *)
Theorem c15_status : forall f input f' used rsp,
  recv_try_response f input = Ok (f', used, Some rsp) -> i_status f' = Some (rs_status rsp).
Proof. exact status_recorded. Qed.

Theorem c15_redirect_status_iff : forall status,
  is_redirect_status status = true <-> (300 <= status <= 399 /\ status <> 304).
Proof.
  intros status. unfold is_redirect_status.
  destruct (N.leb_spec 300 status) as [H1|H1], (N.leb_spec status 399) as [H2|H2],
           (N.eqb_spec status 304) as [H3|H3]; cbn; split;
    intros HH; try discriminate; try reflexivity; try lia.
Qed.

Example c15_nonvacuous :
  redirect_method 301 POST = Some GET /\ redirect_method 303 HEAD = Some HEAD /\
  redirect_method 307 POST = None /\ redirect_method 308 DELETE = None /\
  redirect_method 307 OPTIONS = Some OPTIONS /\ redirect_method 399 TRACE = Some GET /\
  is_redirect_status 304 = false /\ is_redirect_status 300 = true /\ is_redirect_status 400 = false.
Proof. vm_compute. repeat split. Qed.


(* ------------------------------------------------------------------ tie to the source by translation *)
(** The Rust functions below are translated to Gallina from the repository's CURRENT sources on every run
    (tools/rs2coq.py -> theories/Gen.v); they equal the model's functions for all arguments, so the theorems above
    hold for what the code says now. A change of one of these functions that is not an equivalent rewrite breaks the
    proof obligation here. *)
From Hoot Require Import Gen.
From Hoot.proofs Require Import Gen_equiv_ext.
Theorem c15_code_is_retaining : forall s, gen_is_retaining s = is_retaining s.
Proof. exact gen_is_retaining_eq. Qed.
Theorem c15_code_need_request_body : forall m, gen_need_request_body m = need_request_body m.
Proof. exact gen_need_request_body_eq. Qed.

(* ================================================================== strengthening (review 3) *)
(** Proofs: proofs/C15_more.v. *)
From Hoot Require Import Httparse Script.
From Hoot.proofs Require Import C15_more.

(** THE TABLE AS A TABLE.  Written row by row from the English statement, without reference to the code:
    statuses 307 and 308 preserve the method and are not followed ([None]) for POST, PUT, PATCH, DELETE; every
    other status keeps HEAD and GET and turns every other method into GET.  [redirect_table status m] looks the
    method up in the table selected by the status ([Some None] = not followed). *)
Theorem c15_table_def :
  preserving_statuses = [307; 308] /\
  table_307_308 =
    [ (GET, Some GET); (HEAD, Some HEAD); (OPTIONS, Some OPTIONS); (TRACE, Some TRACE); (CONNECT, Some CONNECT);
      (POST, None); (PUT, None); (PATCH, None); (DELETE, None) ] /\
  table_other_3xx =
    [ (HEAD, Some HEAD); (GET, Some GET);
      (POST, Some GET); (PUT, Some GET); (PATCH, Some GET); (DELETE, Some GET);
      (OPTIONS, Some GET); (TRACE, Some GET); (CONNECT, Some GET) ] /\
  forall status m,
    redirect_table status m =
      lookup_method m (if existsb (N.eqb status) preserving_statuses then table_307_308 else table_other_3xx).
Proof. repeat split. Qed.

(** The table has a row for every method, and it is the function [redirect_method] of the theorems above ... *)
Theorem c15_table_total : forall status m, redirect_table status m = Some (redirect_method status m).
Proof. exact redirect_table_total. Qed.

(** ... and it is, for every status and method, the expression by which [as_new_flow] selects the method (the
    right-hand side is that expression verbatim, Flow.v; [is_retaining] / [need_request_body] are tied to the Rust
    source by [c15_code_*]). *)
Theorem c15_table_matches_code : forall status m,
  redirect_table status m =
    Some (if is_retaining status then
            if need_request_body m then None
            else if method_eqb m DELETE then None
            else Some m
          else match m with GET | HEAD => Some m | _ => Some GET end).
Proof. exact redirect_table_model. Qed.

(** [as_new_flow] read off the table row. *)
Theorem c15_as_new_flow_table : forall f p loc status orig target row,
  i_location f = Some loc -> is_text loc = true -> i_status f = Some status ->
  am_req (c_req (i_call f)) = Some orig ->
  u_scheme (am_eff_uri (c_req (i_call f))) <> [] ->
  resolve (am_eff_uri (c_req (i_call f))) loc = Some target ->
  redirect_table status (rq_method orig) = Some row ->
  match row with
  | None => as_new_flow f p = Ok (f, None)
  | Some nm =>
      exists f' nxt, as_new_flow f p = Ok (f', Some nxt) /\
                     am_method (c_req (i_call nxt)) = nm /\
                     am_eff_uri (c_req (i_call nxt)) = target /\
                     am_version (c_req (i_call nxt)) = rq_version orig
  end.
Proof. exact as_new_flow_table. Qed.

(** "IT REPORTS THAT STATUS", ACROSS THE BODY PATH.  Every operation available between the response head and the
    Redirect state -- leaving RecvResponse, reading body bytes (also a read that fails), setting the
    stop-on-boundary flag, leaving RecvBody -- keeps the recorded status and Location. *)
Theorem c15_status_preserved : forall f f',
  (exists t, recv_response_proceed f = Ok (Some (t, f'))) \/
  (exists i c n o, recv_body_read f i c = Ok (f', n, o)) \/
  (exists i c, f' = recv_body_after_err f i c) \/
  (exists b, recv_body_stop f b = Ok f') \/
  (exists t, recv_body_proceed f = Ok (Some (t, f'))) ->
  i_status f' = i_status f /\ i_location f' = i_location f.
Proof. exact status_preserved. Qed.

(** Hence: whatever sequence of those operations ([after_head], the reflexive-transitive closure of the five
    cases above) leads from the flow [recv_try_response] returned with a response head to a flow [g], [g] reports
    the status of THAT head.  ([recv_try_response] is the only function that writes [i_status]; a caller that
    calls it again while still in RecvResponse presents a new head and gets the new status -- "received" means the
    last head parsed.) *)
Theorem c15_reports_received : forall f0 input f used rsp g,
  recv_try_response f0 input = Ok (f, used, Some rsp) -> after_head f g ->
  i_status g = Some (rs_status rsp).
Proof. exact reports_received. Qed.

Theorem c15_after_head_cases : forall f g,
  after_head f g ->
  g = f \/
  exists f', after_head f' g /\
    ((exists t, recv_response_proceed f = Ok (Some (t, f'))) \/
     (exists i c n o, recv_body_read f i c = Ok (f', n, o)) \/
     (exists i c, f' = recv_body_after_err f i c) \/
     (exists b, recv_body_stop f b = Ok f') \/
     (exists t, recv_body_proceed f = Ok (Some (t, f')))).
Proof.
  intros f g H. destruct H; [left; reflexivity|right; eexists; split; [eassumption|]..]; eauto 10.
Qed.

(** "ENTERED EXACTLY": THE ONLY WAYS IN.  The two proceed functions answer Redirect only with a recorded
    redirect status (and Cleanup only without one); no other proceed function ever answers Redirect. *)
Theorem c15_response_proceed_tags : forall f t f',
  recv_response_proceed f = Ok (Some (t, f')) ->
  t = TRecvBody \/ (t = TRedirect /\ is_redirect f' = true) \/ (t = TCleanup /\ is_redirect f' = false).
Proof. exact response_proceed_tags. Qed.

Theorem c15_body_proceed_tags : forall f t f',
  recv_body_proceed f = Ok (Some (t, f')) ->
  f' = f /\ ((t = TRedirect /\ is_redirect f = true) \/ (t = TCleanup /\ is_redirect f = false)).
Proof. exact body_proceed_tags. Qed.

Theorem c15_no_other_entry : forall f f',
  send_request_proceed f <> Ok (Some (TRedirect, f')) /\
  await_100_proceed f <> Ok (TRedirect, f') /\
  send_body_proceed f <> Ok (Some (TRedirect, f')).
Proof.
  intros f f'. split; [apply send_request_proceed_not_redirect|].
  split; [apply await_proceed_not_redirect|apply send_body_proceed_not_redirect].
Qed.

Theorem c15_is_redirect_def : forall f,
  is_redirect f = match i_status f with Some st => is_redirect_status st | None => false end.
Proof. intros f. unfold is_redirect. destruct (i_status f); reflexivity. Qed.

Theorem c15_as_new_flow_keeps_status : forall f p f' n,
  as_new_flow f p = Ok (f', n) -> i_status f' = i_status f.
Proof. exact as_new_flow_keeps. Qed.

(** For the operation language of Script.v (every operation of the API): a step ends with a flow [f] in the
    Redirect state only if [f] was already there, or the step was [proceed] in RecvResponse / RecvBody with the
    proceed function answering Redirect, or it was [as_new_flow] on a Redirect flow. *)
Theorem c15_step_entry : forall s o f,
  s_obj (fst (step s o)) = ObFlow TRedirect f ->
  s_obj s = ObFlow TRedirect f \/
  (exists f0, o = OProceed /\ s_obj s = ObFlow TRecvResponse f0 /\
              recv_response_proceed f0 = Ok (Some (TRedirect, f))) \/
  (exists f0, o = OProceed /\ s_obj s = ObFlow TRecvBody f0 /\
              recv_body_proceed f0 = Ok (Some (TRedirect, f))) \/
  (exists p f0 n, o = OAsNewFlow p /\ s_obj s = ObFlow TRedirect f0 /\ as_new_flow f0 p = Ok (f, n)).
Proof.
  intros s o f H. destruct (step_entry s o f H); eauto 10.
Qed.

(** Hence after EVERY history of operations a flow in the Redirect state reports a 3xx status other than 304. *)
Theorem c15_only_entries : forall ops f,
  s_obj (run_ops s_init ops) = ObFlow TRedirect f ->
  exists st, i_status f = Some st /\ is_redirect_status st = true.
Proof. exact only_entries. Qed.

(** EXAMPLES REACHED THROUGH THE SCRIPT, instantiating the hypotheses of [c15_enter_without_body],
    [c15_enter_after_body] and [c15_as_new_flow]. *)
Definition ex15_uri : uri := {| u_scheme := s2b "http"; u_auth := s2b "a.test"; u_pq := s2b "/x" |}.
Definition ex15_req (m : method) : request :=
  {| rq_method := m; rq_version := V11; rq_uri := ex15_uri; rq_headers := [] |}.
Definition ex15_head (status_line : bytes) (fields : bytes) : bytes :=
  status_line ++ CRLF ++ s2b "location: /y" ++ CRLF ++ fields ++ CRLF.
(** POST with a chunked 3-byte body, then the response head [r]; GET, then [r]. *)
Definition ex15_post_ops (r : bytes) : list op :=
  [ONew (ex15_req POST); OProceed; OWriteHead 1000; OProceed; OWriteBody (s2b "abc") 100; OWriteBody [] 100;
   OProceed; ORawTryResponse r].
Definition ex15_get_ops (r : bytes) : list op :=
  [ONew (ex15_req GET); OProceed; OWriteHead 1000; OProceed; ORawTryResponse r].

(** 307 to a POST, no response body: Redirect is entered from RecvResponse, reports 307, and the redirect is not
    followed under either policy (nothing changed). *)
Example c15_script_307_post :
  let r := ex15_head (s2b "HTTP/1.1 307 Temporary Redirect") [] in
  match s_obj (run_ops s_init (ex15_post_ops r)), s_obj (run_ops s_init (ex15_post_ops r ++ [OProceed])) with
  | ObFlow TRecvResponse f0, ObFlow TRedirect f =>
      (i_holder f0 = HRecvResponse /\ c_reader (i_call f0) = Some RNoBody /\ i_status f0 = Some 307 /\
       NoDup (i_reasons f0) /\ expects_body RNoBody = false) /\
      recv_response_proceed f0 = Ok (Some (TRedirect, f)) /\
      (i_location f = Some (s2b "/y") /\ is_text (s2b "/y") = true /\ i_status f = Some 307 /\
       am_req (c_req (i_call f)) = Some (ex15_req POST) /\
       u_scheme (am_eff_uri (c_req (i_call f))) <> [] /\
       match resolve (am_eff_uri (c_req (i_call f))) (s2b "/y") with
       | Some t => u_auth t = s2b "a.test" /\ u_pq t = s2b "/y"
       | None => False
       end) /\
      redirect_table 307 POST = Some None /\
      as_new_flow f Never = Ok (f, None) /\ as_new_flow f SameHost = Ok (f, None)
  | _, _ => False
  end.
Proof. vm_compute. repeat split; auto; try discriminate; try constructor. Qed.

(** 303 to the same POST: followed, and the new flow is a GET to the resolved target. *)
Example c15_script_303_post :
  let r := ex15_head (s2b "HTTP/1.1 303 See Other") [] in
  match s_obj (run_ops s_init (ex15_post_ops r ++ [OProceed])) with
  | ObFlow TRedirect f =>
      i_status f = Some 303 /\ redirect_table 303 POST = Some (Some GET) /\
      match as_new_flow f Never with
      | Ok (_, Some nxt) =>
          am_method (c_req (i_call nxt)) = GET /\ am_version (c_req (i_call nxt)) = V11 /\
          u_pq (am_eff_uri (c_req (i_call nxt))) = s2b "/y"
      | _ => False
      end /\
      snd (step (run_ops s_init (ex15_post_ops r ++ [OProceed; OAsNewFlow Never; OFollow])) OQMethod) = [TW (s2b "GET")]
  | _ => False
  end.
Proof. vm_compute. repeat split. Qed.

(** 304 with a Location: not a redirect, Cleanup.  300 and 399: Redirect. *)
Example c15_script_304_300_399 :
  (match s_obj (run_ops s_init (ex15_get_ops (ex15_head (s2b "HTTP/1.1 304 Not Modified") []) ++ [OProceed])) with
   | ObFlow TCleanup f => i_status f = Some 304
   | _ => False
   end) /\
  (match s_obj (run_ops s_init (ex15_get_ops (ex15_head (s2b "HTTP/1.1 300 Multiple Choices") []) ++ [OProceed])) with
   | ObFlow TRedirect f => i_status f = Some 300
   | _ => False
   end) /\
  (match s_obj (run_ops s_init (ex15_get_ops (ex15_head (s2b "HTTP/1.1 399 X") []) ++ [OProceed])) with
   | ObFlow TRedirect f => i_status f = Some 399
   | _ => False
   end).
Proof. vm_compute. repeat split. Qed.

(** 301 WITH a 3-byte body: RecvBody, two reads, then Redirect is entered from RecvBody and still reports 301
    and the Location; the hypotheses of [c15_enter_after_body] hold before the proceed. *)
Example c15_script_301_body :
  let r := ex15_head (s2b "HTTP/1.1 301 Moved Permanently") (s2b "content-length: 3" ++ CRLF) in
  let ops := ex15_get_ops r ++ [OProceed; ORawRead (s2b "ab") 100; OStop true; ORawRead (s2b "c") 100] in
  match s_obj (run_ops s_init ops), s_obj (run_ops s_init (ops ++ [OProceed])) with
  | ObFlow TRecvBody f0, ObFlow TRedirect f =>
      i_status f0 = Some 301 /\ recv_body_can_proceed f0 = Ok true /\
      recv_body_proceed f0 = Ok (Some (TRedirect, f)) /\
      i_status f = Some 301 /\ i_location f = Some (s2b "/y") /\
      match as_new_flow f SameHost with
      | Ok (_, Some nxt) => am_method (c_req (i_call nxt)) = GET
      | _ => False
      end
  | _, _ => False
  end.
Proof. vm_compute. repeat split. Qed.

Print Assumptions c15_table_307_308.
Print Assumptions c15_table_other.
Print Assumptions c15_as_new_flow.
Print Assumptions c15_enter_without_body.
Print Assumptions c15_enter_after_body.
Print Assumptions c15_status.
Print Assumptions c15_redirect_status_iff.
Print Assumptions c15_nonvacuous.
Print Assumptions c15_code_is_retaining.
Print Assumptions c15_code_need_request_body.
Print Assumptions c15_table_def.
Print Assumptions c15_table_total.
Print Assumptions c15_table_matches_code.
Print Assumptions c15_as_new_flow_table.
Print Assumptions c15_status_preserved.
Print Assumptions c15_reports_received.
Print Assumptions c15_after_head_cases.
Print Assumptions c15_response_proceed_tags.
Print Assumptions c15_body_proceed_tags.
Print Assumptions c15_no_other_entry.
Print Assumptions c15_is_redirect_def.
Print Assumptions c15_as_new_flow_keeps_status.
Print Assumptions c15_step_entry.
Print Assumptions c15_only_entries.
Print Assumptions c15_script_307_post.
Print Assumptions c15_script_303_post.
Print Assumptions c15_script_304_300_399.
Print Assumptions c15_script_301_body.

(* ================================================================== the code's own table (translated fragments) *)
(** The expression that picks the method of the redirected request inside [as_new_flow] (`let new_method = ...`) and the status
    test of [Inner::is_redirect] are translated from src/client/flow.rs on every run (theories/Gen.v, FRAGMENTS of tools/rs2coq.py);
    proofs/Gen_equiv_flow.v proves them equal, for every status and method, to the table of the statement and to what the model
    computes.  (A fragment the translator no longer finds is reported in the evidence and tied by the correspondence check only.) *)
From Hoot Require Import Gen.
From Hoot.proofs Require Import Gen_equiv_flow.
Theorem c15_code_redirect_method : forall status m, gen_redirect_method status m = redirect_method status m.
Proof. exact gen_redirect_method_spec. Qed.
Theorem c15_code_is_redirect_status : forall v, gen_is_redirect_status v = ((300 <=? v) && (v <=? 399)) && negb (v =? 304).
Proof. exact gen_is_redirect_status_spec. Qed.
Theorem c15_code_is_redirect_is_model : forall f,
  is_redirect f = match i_status f with Some s => gen_is_redirect_status s | None => false end.
Proof. exact is_redirect_gen. Qed.
Print Assumptions c15_code_redirect_method.
Print Assumptions c15_code_is_redirect_status.
Print Assumptions c15_code_is_redirect_is_model.

(* ================================================================== as_new_flow itself (translated from the source) *)
(** [Flow<Redirect>::as_new_flow] (src/client/flow.rs) is translated on every run by tools/rs2coq2.py (theories/Gen2.v,
    [gen_as_new_flow]): the Location must be there and be text, the status is unwrapped, the target is resolved, the method table is
    applied, the previous request is taken, the next flow is built, and the inherited headers the next request suppresses are pushed in
    order -- with the url resolution, the "may this target keep the credentials" test and the two constructions as parameters.
    proofs/Gen2_equiv_redirect.v proves that, instantiated with the model's readings of those parameters, it agrees with the model's
    [as_new_flow] on every flow and policy: same error, same panic sites, not followed exactly when the model does not follow, and
    otherwise the same suppression list, method and target.  Trusted: the translator; the url crate stays modelled. *)
From Hoot Require Import GenLib Gen2.
From Hoot.proofs Require Import Gen2_equiv_redirect.
Theorem c15_code_as_new_flow : forall f policy,
  let g := gen_as_new_flow [] (i_location f) (i_status f) (am_method (c_req (i_call f))) policy
             (resolve_of (c_req (i_call f))) (keep_of (c_req (i_call f))) (take_of (c_req (i_call f))) (Ok tt) in
  match as_new_flow f policy with
  | Ok (_, Some nf) => g = Ok (am_unset (c_req (i_call nf)), Some (am_method (c_req (i_call nf)), am_eff_uri (c_req (i_call nf))))
  | Ok (_, None)    => g = Ok ([], None)
  | Err e           => g = Err e
  | Panic _         => exists s, g = Panic s
  end.
Proof. exact gen_as_new_flow_ok. Qed.
Print Assumptions c15_code_as_new_flow.
