(** Property C20 -- The public request and response head parsers (src/parser.rs over httparse)
    return, for any well-formed head followed by arbitrary bytes, the head's method or status, its
    version and all header fields together with exactly the head's length; "incomplete" for every
    strict prefix of a head within the caller's field limit; and a too-many-headers error exactly
    when the complete head has more fields than that limit.  The partial response parser never
    reports a field that is not completely present in its input and never fails on a prefix of a
    well-formed head that respects the limit.

    Statements only.  The specification side (head records [resp_head] / [req_head], [render_*],
    [wf_*], [headers_of], [complete_fields]) is proofs/C05_spec.v and is written without reference
    to the parser; the proofs are in proofs/C05_stable.v, C05_roundtrip.v, C20_proofs.v.
    All statements are for unbounded inputs; [slots : nat] is the caller's field limit. *)
From Hoot Require Import Base Httparse Parser.
From Hoot.proofs Require Import C05_stable C05_spec C05_roundtrip C20_proofs C05_proofs C05_examples.
Open Scope N_scope.

(** ** The central lemma, for ARBITRARY bytes [b], [x] (not only well-formed heads): a verdict of
    the httparse model other than "partial" is final -- more bytes change neither the verdict, nor
    the consumed length, nor anything it has stored.  (Response version: C05.) *)
Theorem c20_hp_stable_request : forall slots b x,
  fst (parse_request slots b) <> SPartial -> parse_request slots (b ++ x) = parse_request slots b.
Proof. exact hp_stable_request_full. Qed.

Theorem c20_request_consumed_le : forall slots b n v,
  parse_request slots b = (SComplete n, v) -> n <= len b.
Proof. exact request_consumed_le. Qed.

(** ** try_parse_response *)

(** A well-formed head within the limit, followed by anything: exactly the head's length, version,
    status and all fields (names lower-cased by the map, repeated names with their values in order,
    surrounding white space stripped: [response_of]). *)
Theorem c20_response_complete : forall slots h rest,
  wf_resp_head h -> (List.length (rh_fields h) <= slots)%nat ->
  try_parse_response slots (render_response_head h ++ rest) =
    Ok (Some (len (render_response_head h), response_of h)).
Proof. exact response_complete. Qed.

(** Every strict prefix (the empty one included): "incomplete", never an error, never a response. *)
Theorem c20_response_prefix : forall slots h p x,
  wf_resp_head h -> (List.length (rh_fields h) <= slots)%nat ->
  render_response_head h = p ++ x -> x <> [] ->
  try_parse_response slots p = Ok None.
Proof. exact response_prefix. Qed.

(** Too many headers exactly when the complete head has more fields than the limit ... *)
Theorem c20_response_limit : forall slots h rest,
  wf_resp_head h ->
  (try_parse_response slots (render_response_head h ++ rest) = Err HttpParseTooManyHeaders
   <-> (slots < List.length (rh_fields h))%nat).
Proof. exact response_limit_iff. Qed.

(** ... and as soon as field line number slots+1 is complete, whatever follows it. *)
Theorem c20_response_limit_early : forall slots h fs1 f fs2 any,
  wf_resp_head h -> rh_fields h = fs1 ++ f :: fs2 -> List.length fs1 = slots ->
  try_parse_response slots (render_status_line h ++ render_lines fs1 ++ render_field f ++ any) =
    Err HttpParseTooManyHeaders.
Proof. exact response_too_many. Qed.

(** ** try_parse_request.  [wf_req_head] is httparse's view of a request head; the wrapper hands
    the method to http::Method, which wants its own (smaller) character table: the second premise. *)
Theorem c20_request_complete : forall slots h rest,
  wf_req_head h -> forallb is_http_method_char (qh_method h) = true ->
  (List.length (qh_fields h) <= slots)%nat ->
  try_parse_request slots (render_request_head h ++ rest) =
    Ok (Some (len (render_request_head h), request_of h)).
Proof. exact request_complete. Qed.

Theorem c20_request_prefix : forall slots h p x,
  wf_req_head h -> (List.length (qh_fields h) <= slots)%nat ->
  render_request_head h = p ++ x -> x <> [] ->
  try_parse_request slots p = Ok None.
Proof. exact request_prefix. Qed.

Theorem c20_request_limit : forall slots h rest,
  wf_req_head h -> forallb is_http_method_char (qh_method h) = true ->
  (try_parse_request slots (render_request_head h ++ rest) = Err HttpParseTooManyHeaders
   <-> (slots < List.length (qh_fields h))%nat).
Proof. exact request_limit_iff. Qed.

Theorem c20_request_limit_early : forall slots h fs1 f fs2 any,
  wf_req_head h -> qh_fields h = fs1 ++ f :: fs2 -> List.length fs1 = slots ->
  try_parse_request slots (render_request_line h ++ render_lines fs1 ++ render_field f ++ any) =
    Err HttpParseTooManyHeaders.
Proof. exact request_too_many. Qed.

(** ** try_parse_partial_response *)

(** On every prefix [p] of a well-formed head (the whole head included) in which at most [slots]
    field lines are complete: the answer is "nothing yet", or the head's version and status with
    exactly the fields whose lines are completely contained in [p] ([complete_fields h p], a prefix
    of the head's field list), in order, cut at the first empty-valued field (where the code under
    test stops copying).  In particular never a field that is not completely present ... *)
Theorem c20_partial_sound : forall slots h p x,
  wf_resp_head h -> render_response_head h = p ++ x ->
  (List.length (complete_fields h p) <= slots)%nat ->
  try_parse_partial_response slots p = Ok None \/
  try_parse_partial_response slots p = Ok (Some (partial_response_of h (complete_fields h p))).
Proof. exact partial_response_sound. Qed.

(** ... and never an error. *)
Theorem c20_partial_total : forall slots h p x,
  wf_resp_head h -> render_response_head h = p ++ x ->
  (List.length (complete_fields h p) <= slots)%nat ->
  exists o, try_parse_partial_response slots p = Ok o.
Proof. exact partial_response_total. Qed.

(** For arbitrary input: whatever the parser has stored (version, code, fields) after [b] is still
    there, in the same positions, after [b ++ x]: stored fields were complete. *)
Theorem c20_partial_mono : forall slots b x,
  let v := snd (parse_response slots b) in
  let v' := snd (parse_response slots (b ++ x)) in
  (hv_version v = None \/ hv_version v' = hv_version v) /\
  (hv_code v = None \/ hv_code v' = hv_code v) /\
  exists t, hv_headers v' = hv_headers v ++ t.
Proof. exact partial_view_mono. Qed.

(** What [complete_fields h p] is: a prefix of the head's field list ... *)
Theorem c20_complete_fields_prefix : forall h p, exists t, rh_fields h = complete_fields h p ++ t.
Proof. exact complete_fields_prefix. Qed.

(** ... whose rendered lines are, byte for byte, inside [p]. *)
Theorem c20_complete_fields_contained : forall h p x,
  render_response_head h = p ++ x -> complete_fields h p <> [] ->
  exists q, p = render_status_line h ++ render_lines (complete_fields h p) ++ q.
Proof. exact complete_fields_contained. Qed.

(** Sanity of the specification: [status_digits] is the decimal rendering. *)
Theorem c20_status_digits : forall s, 100 <= s <= 999 -> status_digits s = dec_of s.
Proof. exact status_digits_dec. Qed.

(** The exact state of httparse on a prefix: status line, [k] complete field lines and a strict
    prefix [q] of the next line ([next_line]: field line k+1, or the final blank line). *)
Theorem c20_partial_view : forall slots h k q y,
  wf_resp_head h -> (k <= List.length (rh_fields h))%nat -> (k <= slots)%nat ->
  next_line (rh_fields h) k = q ++ y -> y <> [] ->
  parse_response slots (render_status_line h ++ render_lines (firstn k (rh_fields h)) ++ q) =
    (SPartial, response_view h (firstn k (rh_fields h))).
Proof. exact response_partial_view. Qed.

(** ** Non-vacuity.  [demo_head] (proofs/C05_examples.v) is
      HTTP/1.1 200 OK / Set-Cookie: a=1 / X-Empty:<SP><HTAB> / Set-Cookie:<SP><SP>b<0xC8><SP>c<HTAB>
    (68 bytes; a repeated name, an empty value, obs-text, inner and surrounding white space). *)
Example c20_response_nonvacuous :
  wf_resp_head demo_head /\
  try_parse_response 3 (render_response_head demo_head ++ s2b "body") =
    Ok (Some (68, {| rs_version := 1; rs_status := 200;
                     rs_headers := [ (s2b "set-cookie", [s2b "a=1"; [98; 200; 32; 99]]);
                                     (s2b "x-empty", [[]]) ] |})) /\
  try_parse_response 3 (take 0 (render_response_head demo_head)) = Ok None /\
  try_parse_response 3 (take 40 (render_response_head demo_head)) = Ok None /\
  try_parse_response 3 (take 67 (render_response_head demo_head)) = Ok None /\
  try_parse_response 2 (render_response_head demo_head) = Err HttpParseTooManyHeaders /\
  try_parse_response 2 (take 66 (render_response_head demo_head)) = Err HttpParseTooManyHeaders.
Proof. split; [exact demo_head_wf|]. vm_compute. repeat split. Qed.

(** [demo_request] is  OPTIONS /a?b=c HTTP/1.1 / Host: h / Accept:<SP>*/*<SP>  (50 bytes). *)
Example c20_request_nonvacuous :
  wf_req_head demo_request /\ forallb is_http_method_char (qh_method demo_request) = true /\
  try_parse_request 2 (render_request_head demo_request ++ s2b "body") =
    Ok (Some (50, {| pq_method := s2b "OPTIONS"; pq_version := 1;
                     pq_headers := [ (s2b "host", [s2b "h"]); (s2b "accept", [s2b "*/*"]) ] |})) /\
  try_parse_request 2 (take 0 (render_request_head demo_request)) = Ok None /\
  try_parse_request 2 (take 30 (render_request_head demo_request)) = Ok None /\
  try_parse_request 2 (take 49 (render_request_head demo_request)) = Ok None /\
  try_parse_request 1 (render_request_head demo_request) = Err HttpParseTooManyHeaders.
Proof. split; [exact demo_request_wf|]. vm_compute. repeat split. Qed.

(** The partial parser on prefixes of [demo_head]: 5 bytes: nothing; 12 bytes ("HTTP/1.1 200"):
    status, no fields; 40 bytes (inside the second field line): the first field; the whole head:
    still only the first field, because the second one has an empty value. *)
Example c20_partial_nonvacuous :
  try_parse_partial_response 3 (take 5 (render_response_head demo_head)) = Ok None /\
  try_parse_partial_response 3 (take 12 (render_response_head demo_head)) =
    Ok (Some {| rs_version := 1; rs_status := 200; rs_headers := [] |}) /\
  complete_fields demo_head (take 40 (render_response_head demo_head)) = firstn 1 (rh_fields demo_head) /\
  try_parse_partial_response 3 (take 40 (render_response_head demo_head)) =
    Ok (Some {| rs_version := 1; rs_status := 200; rs_headers := [ (s2b "set-cookie", [s2b "a=1"]) ] |}) /\
  try_parse_partial_response 3 (render_response_head demo_head) =
    Ok (Some {| rs_version := 1; rs_status := 200; rs_headers := [ (s2b "set-cookie", [s2b "a=1"]) ] |}).
Proof. vm_compute. repeat split. Qed.

Print Assumptions c20_hp_stable_request.
Print Assumptions c20_request_consumed_le.
Print Assumptions c20_response_complete.
Print Assumptions c20_response_prefix.
Print Assumptions c20_response_limit.
Print Assumptions c20_response_limit_early.
Print Assumptions c20_request_complete.
Print Assumptions c20_request_prefix.
Print Assumptions c20_request_limit.
Print Assumptions c20_request_limit_early.
Print Assumptions c20_partial_sound.
Print Assumptions c20_partial_total.
Print Assumptions c20_partial_mono.
Print Assumptions c20_complete_fields_prefix.
Print Assumptions c20_complete_fields_contained.
Print Assumptions c20_status_digits.
Print Assumptions c20_partial_view.
Print Assumptions c20_response_nonvacuous.
Print Assumptions c20_request_nonvacuous.
Print Assumptions c20_partial_nonvacuous.
