(** Property C20 -- The public request and response head parsers (src/parser.rs over httparse)
    return, for any well-formed head followed by arbitrary bytes, the head's method or status, its
    version and all header fields together with exactly the head's length; "incomplete" for every
    strict prefix of a head within the caller's field limit; and a too-many-headers error exactly
    when the complete head has more fields than that limit.  The partial response parser never
    reports a field that is not completely present in its input and never fails on a prefix of a
    well-formed head that respects the limit.

    Statements only.  The specification side (head records [resp_head] / [req_head], [render_*],
    [wf_*], [headers_of], [complete_fields]) is proofs/C05_spec.v and is written without reference
    to the parser; the proofs are in proofs/C05_stable.v, C05_roundtrip.v, C20_proofs.v.
    All statements are for unbounded inputs; [slots : nat] is the caller's field limit.
    The second half of the file (after review 2: proofs/C20_more.v, C20_present.v, C20_partial_spec.v,
    C05_hmap.v, C05_rfc_bytes.v) adds: the partial parser on ARBITRARY input (every reported field is a
    complete line of the input; reports only grow), the request parser on methods outside http's
    table, and the byte classes / well-formedness written from the RFCs. *)
From Hoot Require Import Base Httparse Parser.
From Hoot.proofs Require Import C05_stable C05_spec C05_roundtrip C20_proofs C05_proofs C05_examples.
From Hoot.proofs Require Import C05_hmap C05_rfc_bytes C20_more C05_more C20_partial_spec C20_present.
Open Scope N_scope.

(** ** The central lemma, for ARBITRARY bytes [b], [x] (not only well-formed heads): a verdict of
    the httparse model other than "partial" is final -- more bytes change neither the verdict, nor
    the consumed length, nor anything it has stored.  (Response version: C05.) *)
Theorem c20_hp_stable_request : forall slots b x,
  fst (parse_request slots b) <> SPartial -> parse_request slots (b ++ x) = parse_request slots b.
Proof. exact hp_stable_request_full. Qed.

Theorem c20_request_consumed_le : forall slots b n v,
  parse_request slots b = (SComplete n, v) -> n <= len b.
Proof. exact request_consumed_le. Qed.

(** ** try_parse_response *)

(** A well-formed head within the limit, followed by anything: exactly the head's length, version,
    status and all fields (names lower-cased by the map, repeated names with their values in order,
    surrounding white space stripped: [response_of]). *)
Theorem c20_response_complete : forall slots h rest,
  wf_resp_head h -> (List.length (rh_fields h) <= slots)%nat ->
  try_parse_response slots (render_response_head h ++ rest) =
    Ok (Some (len (render_response_head h), response_of h)).
Proof. exact response_complete. Qed.

(** Every strict prefix (the empty one included): "incomplete", never an error, never a response. *)
Theorem c20_response_prefix : forall slots h p x,
  wf_resp_head h -> (List.length (rh_fields h) <= slots)%nat ->
  render_response_head h = p ++ x -> x <> [] ->
  try_parse_response slots p = Ok None.
Proof. exact response_prefix. Qed.

(** Too many headers exactly when the complete head has more fields than the limit ... *)
Theorem c20_response_limit : forall slots h rest,
  wf_resp_head h ->
  (try_parse_response slots (render_response_head h ++ rest) = Err HttpParseTooManyHeaders
   <-> (slots < List.length (rh_fields h))%nat).
Proof. exact response_limit_iff. Qed.

(** ... and as soon as field line number slots+1 is complete, whatever follows it. *)
Theorem c20_response_limit_early : forall slots h fs1 f fs2 any,
  wf_resp_head h -> rh_fields h = fs1 ++ f :: fs2 -> List.length fs1 = slots ->
  try_parse_response slots (render_status_line h ++ render_lines fs1 ++ render_field f ++ any) =
    Err HttpParseTooManyHeaders.
Proof. exact response_too_many. Qed.

(** ** try_parse_request.  [wf_req_head] is httparse's view of a request head; the wrapper hands
    the method to http::Method, which wants its own (smaller) character table: the second premise. *)
Theorem c20_request_complete : forall slots h rest,
  wf_req_head h -> forallb is_http_method_char (qh_method h) = true ->
  (List.length (qh_fields h) <= slots)%nat ->
  try_parse_request slots (render_request_head h ++ rest) =
    Ok (Some (len (render_request_head h), request_of h)).
Proof. exact request_complete. Qed.

Theorem c20_request_prefix : forall slots h p x,
  wf_req_head h -> (List.length (qh_fields h) <= slots)%nat ->
  render_request_head h = p ++ x -> x <> [] ->
  try_parse_request slots p = Ok None.
Proof. exact request_prefix. Qed.

Theorem c20_request_limit : forall slots h rest,
  wf_req_head h -> forallb is_http_method_char (qh_method h) = true ->
  (try_parse_request slots (render_request_head h ++ rest) = Err HttpParseTooManyHeaders
   <-> (slots < List.length (qh_fields h))%nat).
Proof. exact request_limit_iff. Qed.

Theorem c20_request_limit_early : forall slots h fs1 f fs2 any,
  wf_req_head h -> qh_fields h = fs1 ++ f :: fs2 -> List.length fs1 = slots ->
  try_parse_request slots (render_request_line h ++ render_lines fs1 ++ render_field f ++ any) =
    Err HttpParseTooManyHeaders.
Proof. exact request_too_many. Qed.

(** ** try_parse_partial_response *)

(** On every prefix [p] of a well-formed head (the whole head included) in which at most [slots]
    field lines are complete: the answer is "nothing yet", or the head's version and status with
    exactly the fields whose lines are completely contained in [p] ([complete_fields h p], a prefix
    of the head's field list), in order, cut at the first empty-valued field (where the code under
    test stops copying).  In particular never a field that is not completely present ... *)
Theorem c20_partial_sound : forall slots h p x,
  wf_resp_head h -> render_response_head h = p ++ x ->
  (List.length (complete_fields h p) <= slots)%nat ->
  try_parse_partial_response slots p = Ok None \/
  try_parse_partial_response slots p = Ok (Some (partial_response_of h (complete_fields h p))).
Proof. exact partial_response_sound. Qed.

(** ... and never an error. *)
Theorem c20_partial_total : forall slots h p x,
  wf_resp_head h -> render_response_head h = p ++ x ->
  (List.length (complete_fields h p) <= slots)%nat ->
  exists o, try_parse_partial_response slots p = Ok o.
Proof. exact partial_response_total. Qed.

(** For arbitrary input: whatever the parser has stored (version, code, fields) after [b] is still
    there, in the same positions, after [b ++ x]: stored fields were complete. *)
Theorem c20_partial_mono : forall slots b x,
  let v := snd (parse_response slots b) in
  let v' := snd (parse_response slots (b ++ x)) in
  (hv_version v = None \/ hv_version v' = hv_version v) /\
  (hv_code v = None \/ hv_code v' = hv_code v) /\
  exists t, hv_headers v' = hv_headers v ++ t.
Proof. exact partial_view_mono. Qed.

(** What [complete_fields h p] is: a prefix of the head's field list ... *)
Theorem c20_complete_fields_prefix : forall h p, exists t, rh_fields h = complete_fields h p ++ t.
Proof. exact complete_fields_prefix. Qed.

(** ... whose rendered lines are, byte for byte, inside [p]. *)
Theorem c20_complete_fields_contained : forall h p x,
  render_response_head h = p ++ x -> complete_fields h p <> [] ->
  exists q, p = render_status_line h ++ render_lines (complete_fields h p) ++ q.
Proof. exact complete_fields_contained. Qed.

(** Sanity of the specification: [status_digits] is the decimal rendering. *)
Theorem c20_status_digits : forall s, 100 <= s <= 999 -> status_digits s = dec_of s.
Proof. exact status_digits_dec. Qed.

(** The exact state of httparse on a prefix: status line, [k] complete field lines and a strict
    prefix [q] of the next line ([next_line]: field line k+1, or the final blank line). *)
Theorem c20_partial_view : forall slots h k q y,
  wf_resp_head h -> (k <= List.length (rh_fields h))%nat -> (k <= slots)%nat ->
  next_line (rh_fields h) k = q ++ y -> y <> [] ->
  parse_response slots (render_status_line h ++ render_lines (firstn k (rh_fields h)) ++ q) =
    (SPartial, response_view h (firstn k (rh_fields h))).
Proof. exact response_partial_view. Qed.

(** ** Non-vacuity.  [demo_head] (proofs/C05_examples.v) is
      HTTP/1.1 200 OK / Set-Cookie: a=1 / X-Empty:<SP><HTAB> / Set-Cookie:<SP><SP>b<0xC8><SP>c<HTAB>
    (68 bytes; a repeated name, an empty value, obs-text, inner and surrounding white space). *)
Example c20_response_nonvacuous :
  wf_resp_head demo_head /\
  try_parse_response 3 (render_response_head demo_head ++ s2b "body") =
    Ok (Some (68, {| rs_version := 1; rs_status := 200;
                     rs_headers := [ (s2b "set-cookie", [s2b "a=1"; [98; 200; 32; 99]]);
                                     (s2b "x-empty", [[]]) ] |})) /\
  try_parse_response 3 (take 0 (render_response_head demo_head)) = Ok None /\
  try_parse_response 3 (take 40 (render_response_head demo_head)) = Ok None /\
  try_parse_response 3 (take 67 (render_response_head demo_head)) = Ok None /\
  try_parse_response 2 (render_response_head demo_head) = Err HttpParseTooManyHeaders /\
  try_parse_response 2 (take 66 (render_response_head demo_head)) = Err HttpParseTooManyHeaders.
Proof. split; [exact demo_head_wf|]. vm_compute. repeat split. Qed.

(** [demo_request] is  OPTIONS /a?b=c HTTP/1.1 / Host: h / Accept:<SP>*/*<SP>  (50 bytes). *)
Example c20_request_nonvacuous :
  wf_req_head demo_request /\ forallb is_http_method_char (qh_method demo_request) = true /\
  try_parse_request 2 (render_request_head demo_request ++ s2b "body") =
    Ok (Some (50, {| pq_method := s2b "OPTIONS"; pq_version := 1;
                     pq_headers := [ (s2b "host", [s2b "h"]); (s2b "accept", [s2b "*/*"]) ] |})) /\
  try_parse_request 2 (take 0 (render_request_head demo_request)) = Ok None /\
  try_parse_request 2 (take 30 (render_request_head demo_request)) = Ok None /\
  try_parse_request 2 (take 49 (render_request_head demo_request)) = Ok None /\
  try_parse_request 1 (render_request_head demo_request) = Err HttpParseTooManyHeaders.
Proof. split; [exact demo_request_wf|]. vm_compute. repeat split. Qed.

(** The partial parser on prefixes of [demo_head]: 5 bytes: nothing; 12 bytes ("HTTP/1.1 200"):
    status, no fields; 40 bytes (inside the second field line): the first field; the whole head:
    still only the first field, because the second one has an empty value. *)
Example c20_partial_nonvacuous :
  try_parse_partial_response 3 (take 5 (render_response_head demo_head)) = Ok None /\
  try_parse_partial_response 3 (take 12 (render_response_head demo_head)) =
    Ok (Some {| rs_version := 1; rs_status := 200; rs_headers := [] |}) /\
  complete_fields demo_head (take 40 (render_response_head demo_head)) = firstn 1 (rh_fields demo_head) /\
  try_parse_partial_response 3 (take 40 (render_response_head demo_head)) =
    Ok (Some {| rs_version := 1; rs_status := 200; rs_headers := [ (s2b "set-cookie", [s2b "a=1"]) ] |}) /\
  try_parse_partial_response 3 (render_response_head demo_head) =
    Ok (Some {| rs_version := 1; rs_status := 200; rs_headers := [ (s2b "set-cookie", [s2b "a=1"]) ] |}).
Proof. vm_compute. repeat split. Qed.

(** * Strengthening after review 2 (proofs/C20_more.v, C05_hmap.v, C05_rfc_bytes.v) *)

(** ** The partial parser *)

(** The strong form of [c20_partial_sound]: "nothing yet" is answered only when NO field line is complete in the
    input (so a parser that always answers "nothing yet" does not satisfy it); otherwise the report is the head's
    version, status and exactly the complete fields (up to the first empty-valued one). *)
Theorem c20_partial_sound_strong : forall slots h p x,
  wf_resp_head h -> render_response_head h = p ++ x ->
  (List.length (complete_fields h p) <= slots)%nat ->
  (try_parse_partial_response slots p = Ok None /\ complete_fields h p = []) \/
  try_parse_partial_response slots p = Ok (Some (partial_response_of h (complete_fields h p))).
Proof. exact partial_response_sound_strong. Qed.

(** "Never reports a field that is not completely present", for ARBITRARY bytes [b], [x], at the wrapper: once a
    response has been reported after [b], then after [b ++ x] the parser either refuses the input (the new bytes
    were malformed) or reports the same version and status and a field list that extends the earlier one ([hs],
    then [hs ++ t]).  Later bytes never retract or alter what was reported: it was complete. *)
Theorem c20_partial_wrapper_mono : forall slots b x r,
  try_parse_partial_response slots b = Ok (Some r) ->
  (exists e, try_parse_partial_response slots (b ++ x) = Err e) \/
  (exists r' hs t,
     try_parse_partial_response slots (b ++ x) = Ok (Some r') /\
     rs_version r' = rs_version r /\ rs_status r' = rs_status r /\
     rs_headers r = hm_of_list hs /\ rs_headers r' = hm_of_list (hs ++ t)).
Proof. exact partial_wrapper_mono. Qed.

(** The same without [hm_of_list]: every name keeps its values, in order, possibly with more after them; iterating
    yields the earlier fields and the new ones. *)
Theorem c20_partial_wrapper_mono_values : forall slots b x r r',
  try_parse_partial_response slots b = Ok (Some r) ->
  try_parse_partial_response slots (b ++ x) = Ok (Some r') ->
  rs_version r' = rs_version r /\ rs_status r' = rs_status r /\
  exists t, (forall k, hm_get_all (rs_headers r') k = hm_get_all (rs_headers r) k ++ map snd (fields_named k t)) /\
            Permutation.Permutation (hm_iter (rs_headers r')) (hm_iter (rs_headers r) ++ map norm_header t).
Proof. exact partial_wrapper_mono_values. Qed.

Theorem c20_partial_wrapper_not_none : forall slots b x r,
  try_parse_partial_response slots b = Ok (Some r) -> try_parse_partial_response slots (b ++ x) <> Ok None.
Proof. exact partial_wrapper_not_none. Qed.

(** ** The request parser and methods outside http's table *)

(** A well-formed head (httparse's view) whose method has a byte outside http's METHOD_CHARS: RequestInvalidMethod ... *)
Theorem c20_request_bad_method : forall slots h rest,
  wf_req_head h -> forallb is_http_method_char (qh_method h) = false ->
  (List.length (qh_fields h) <= slots)%nat ->
  try_parse_request slots (render_request_head h ++ rest) = Err RequestInvalidMethod.
Proof. exact request_bad_method. Qed.

(** ... so the method premise of [c20_request_complete] is exact. *)
Theorem c20_request_complete_iff : forall slots h rest,
  wf_req_head h -> (List.length (qh_fields h) <= slots)%nat ->
  (try_parse_request slots (render_request_head h ++ rest) = Ok (Some (len (render_request_head h), request_of h))
   <-> forallb is_http_method_char (qh_method h) = true).
Proof. exact request_complete_iff. Qed.

(** In RFC terms (proofs/C05_rfc_bytes.v: [rfc_wf_req_head] has method = token = 1*tchar, written from RFC 9110): the
    byte classes used by [wf_req_head] / [wf_field] are the RFC ones, http's method table is [tchar] minus the five
    characters  # $ % & ' , and an RFC-well-formed request is refused exactly when its method contains one of them. *)
Theorem c20_method_table_gap : forall b, rfc_tchar b = is_http_method_char b || one_of "#$%&'" b.
Proof. exact http_method_char_gap. Qed.

Theorem c20_method_bytes_table : forall b, is_method_token b && negb (b =? 32) = rfc_VCHAR b.
Proof. exact method_token_is_vchar. Qed.

Theorem c20_target_bytes_table : forall b, is_uri_token b = rfc_VCHAR b && negb (one_of "<>" b).
Proof. exact uri_token_is_vchar. Qed.

Theorem c20_rfc_wf_request : forall h, rfc_wf_req_head h -> wf_req_head h.
Proof. exact rfc_wf_req_head_wf. Qed.

Theorem c20_rfc_wf_response : forall h, rfc_wf_resp_head h -> wf_resp_head h.
Proof. exact rfc_wf_resp_head_wf. Qed.

Theorem c20_rfc_request_method : forall slots h rest,
  rfc_wf_req_head h -> (List.length (qh_fields h) <= slots)%nat ->
  (existsb (one_of "#$%&'") (qh_method h) = true ->
     try_parse_request slots (render_request_head h ++ rest) = Err RequestInvalidMethod) /\
  (existsb (one_of "#$%&'") (qh_method h) = false ->
     try_parse_request slots (render_request_head h ++ rest) = Ok (Some (len (render_request_head h), request_of h))).
Proof. exact rfc_request_method. Qed.

(** ** Non-vacuity of the additions *)

(** [odd_method_request] is  A#B /x HTTP/1.1 / Host: h : well-formed by the RFC grammar, refused by http. *)
Example c20_bad_method_nonvacuous :
  rfc_wf_req_head odd_method_request /\ wf_req_head odd_method_request /\
  forallb rfc_tchar (qh_method odd_method_request) = true /\
  forallb is_http_method_char (qh_method odd_method_request) = false /\
  try_parse_request 4 (render_request_head odd_method_request ++ s2b "zz") = Err RequestInvalidMethod /\
  try_parse_request 4 (take 10 (render_request_head odd_method_request)) = Ok None.
Proof.
  split; [exact odd_method_request_rfc_wf|]. split; [exact (rfc_wf_req_head_wf _ odd_method_request_rfc_wf)|].
  vm_compute. repeat split.
Qed.

(** Monotonicity on bytes that are NOT a prefix of a well-formed head in the sense of [wf_resp_head] (bare LF line
    ends):  "HTTP/1.1 200 OK<LF>A:1<LF>b: 2<CR><LF>A: 3"  reports a:1, b:2 (the last line is incomplete); with
    "<CR><LF>C:4<LF><LF>rest" appended it reports a:1,3 b:2 c:4; with a NUL appended it is refused. *)
Example c20_partial_mono_nonvacuous :
  let b := s2b "HTTP/1.1 200 OK" ++ [10] ++ s2b "A:1" ++ [10] ++ s2b "b: 2" ++ [13; 10] ++ s2b "A: 3" in
  let x := [13; 10] ++ s2b "C:4" ++ [10; 10] ++ s2b "rest" in
  try_parse_partial_response 8 b =
    Ok (Some {| rs_version := 1; rs_status := 200; rs_headers := [ ([97], [[49]]); ([98], [[50]]) ] |}) /\
  try_parse_partial_response 8 (b ++ x) =
    Ok (Some {| rs_version := 1; rs_status := 200;
                rs_headers := [ ([97], [[49]; [51]]); ([98], [[50]]); ([99], [[52]]) ] |}) /\
  try_parse_partial_response 8 (b ++ [0]) = Err HttpParseFail.
Proof. vm_compute. repeat split. Qed.

(** [c20_partial_view] and the early-limit theorems on [demo_head] / [demo_request] (the review found no example):
    two complete lines and 3 bytes of the third; the third line complete with 2 slots, then garbage. *)
Example c20_view_limit_nonvacuous :
  next_line (rh_fields demo_head) 2 = s2b "Set" ++ drop 3 (next_line (rh_fields demo_head) 2) /\
  parse_response 5 (render_status_line demo_head ++ render_lines (firstn 2 (rh_fields demo_head)) ++ s2b "Set") =
    (SPartial, response_view demo_head (firstn 2 (rh_fields demo_head))) /\
  try_parse_response 2 (render_status_line demo_head ++ render_lines (firstn 2 (rh_fields demo_head)) ++
                        render_field (nth 2 (rh_fields demo_head) {| f_name := []; f_ows1 := []; f_value := []; f_ows2 := [] |}) ++
                        [0; 255]) = Err HttpParseTooManyHeaders /\
  try_parse_request 1 (render_request_line demo_request ++ render_lines (firstn 1 (qh_fields demo_request)) ++
                       render_field (nth 1 (qh_fields demo_request) {| f_name := []; f_ows1 := []; f_value := []; f_ows2 := [] |}) ++
                       [0; 255]) = Err HttpParseTooManyHeaders.
Proof. vm_compute. repeat split. Qed.

(** ** The partial parser's report without model functions.  [fields_before_empty] (proofs/C20_partial_spec.v) are the
    fields before the first empty-valued one (where the code under test stops copying); [fields_called k] /
    [norm_field] as in C05.  Whatever is reported on a prefix [p] of a well-formed head is the head's version and
    status and, for every name, the values of exactly the complete fields of that name, in order. *)
Theorem c20_partial_reports : forall slots h p x r,
  wf_resp_head h -> render_response_head h = p ++ x ->
  (List.length (complete_fields h p) <= slots)%nat ->
  try_parse_partial_response slots p = Ok (Some r) ->
  rs_version r = rh_version h /\ rs_status r = rh_status h /\
  (forall k, hm_get_all (rs_headers r) k =
             map f_value (fields_called k (fields_before_empty (complete_fields h p)))) /\
  Permutation.Permutation (hm_iter (rs_headers r)) (map norm_field (fields_before_empty (complete_fields h p))).
Proof. exact partial_response_reports. Qed.

Example c20_partial_reports_nonvacuous :
  fields_before_empty (complete_fields demo_head (render_response_head demo_head)) = firstn 1 (rh_fields demo_head) /\
  hm_get_all (rs_headers (partial_response_of demo_head (rh_fields demo_head))) (s2b "set-cookie") = [s2b "a=1"].
Proof. vm_compute. repeat split. Qed.

(** ** "Never reports a field that is not completely present in its input", literally and for ARBITRARY input.
    [field_line (name, v) l] (proofs/C20_present.v, over the RFC byte classes):
      l = name ":" ws1 v ws2 eol,  name = 1*tchar, ws1 / ws2 = *( SP / HTAB ), v made of field-content bytes,
      eol = CRLF or a bare LF (which the code under test accepts).
    For every field (k, v) the partial parser reports, the input contains such a line, as one contiguous block,
    with [k] the lower-cased name. *)
Theorem c20_partial_field_present : forall slots b r k v,
  try_parse_partial_response slots b = Ok (Some r) -> In (k, v) (hm_iter (rs_headers r)) ->
  exists name l pre post, k = lower name /\ b = pre ++ l ++ post /\ field_line (name, v) l.
Proof. exact partial_field_present. Qed.

(** All at once: the reported map is built from (a prefix of) a list of fields whose lines follow one another in
    the input. *)
Theorem c20_partial_lines_present : forall slots b r,
  try_parse_partial_response slots b = Ok (Some r) ->
  exists hs pre lines post,
    rs_headers r = hm_of_list (until_empty_value hs) /\
    b = pre ++ concat lines ++ post /\ Forall2 field_line hs lines.
Proof. exact partial_lines_present. Qed.

Example c20_partial_present_nonvacuous :
  let b := s2b "HTTP/1.1 200 OK" ++ [10] ++ s2b "A:1" ++ [10] ++ s2b "b: 2" ++ [13; 10] ++ s2b "A: 3" in
  (exists r, try_parse_partial_response 8 b = Ok (Some r) /\
             In (s2b "a", s2b "1") (hm_iter (rs_headers r)) /\ In (s2b "b", s2b "2") (hm_iter (rs_headers r)) /\
             ~ In (s2b "a", s2b "3") (hm_iter (rs_headers r))) /\
  field_line (s2b "A", s2b "1") (s2b "A:1" ++ [10]) /\
  field_line (s2b "b", s2b "2") (s2b "b: 2" ++ [13; 10]).
Proof.
  split; [eexists; split; [vm_compute; reflexivity|]|].
  - split; [left; reflexivity|]. split; [right; left; reflexivity|].
    intros [H|[H|[]]]; discriminate.
  - split.
    + exists [], [], [10]. repeat split; try reflexivity; try discriminate. right; reflexivity.
    + exists [32], [], [13; 10]. repeat split; try reflexivity; try discriminate. left; reflexivity.
Qed.

Print Assumptions c20_hp_stable_request.
Print Assumptions c20_request_consumed_le.
Print Assumptions c20_response_complete.
Print Assumptions c20_response_prefix.
Print Assumptions c20_response_limit.
Print Assumptions c20_response_limit_early.
Print Assumptions c20_request_complete.
Print Assumptions c20_request_prefix.
Print Assumptions c20_request_limit.
Print Assumptions c20_request_limit_early.
Print Assumptions c20_partial_sound.
Print Assumptions c20_partial_total.
Print Assumptions c20_partial_mono.
Print Assumptions c20_complete_fields_prefix.
Print Assumptions c20_complete_fields_contained.
Print Assumptions c20_status_digits.
Print Assumptions c20_partial_view.
Print Assumptions c20_response_nonvacuous.
Print Assumptions c20_request_nonvacuous.
Print Assumptions c20_partial_nonvacuous.
Print Assumptions c20_partial_sound_strong.
Print Assumptions c20_partial_wrapper_mono.
Print Assumptions c20_partial_wrapper_mono_values.
Print Assumptions c20_partial_wrapper_not_none.
Print Assumptions c20_request_bad_method.
Print Assumptions c20_request_complete_iff.
Print Assumptions c20_method_table_gap.
Print Assumptions c20_method_bytes_table.
Print Assumptions c20_target_bytes_table.
Print Assumptions c20_rfc_wf_request.
Print Assumptions c20_rfc_wf_response.
Print Assumptions c20_rfc_request_method.
Print Assumptions c20_bad_method_nonvacuous.
Print Assumptions c20_partial_mono_nonvacuous.
Print Assumptions c20_view_limit_nonvacuous.
Print Assumptions c20_partial_reports.
Print Assumptions c20_partial_reports_nonvacuous.
Print Assumptions c20_partial_field_present.
Print Assumptions c20_partial_lines_present.
Print Assumptions c20_partial_present_nonvacuous.

(* ================================================================== src/parser.rs itself (translated from the source) *)
(** The three public head parsers are translated on every run by tools/rs2coq2.py (theories/Gen2.v: [gen_try_parse_response],
    [gen_try_parse_partial_response], [gen_try_parse_request]; httparse's outcome and the fields it filled in are values -- httparse
    itself stays modelled --, the http builder is the model's reading of it) and proved EQUAL to the model's bridge functions on
    whatever the parser model returns (proofs/Gen2_equiv_parser.v): the error mapping, Complete / Partial, the version / status /
    method conversions, which fields are copied and where the copy stops, what is returned. *)
From Hoot Require Import GenLib Gen2.
From Hoot.proofs Require Import Gen2_equiv_parser.
Theorem c20_code_try_parse_response : forall slots input,
  gen_try_parse_response input (hp_of (fst (parse_response slots input))) (hv_version (snd (parse_response slots input)))
    (hv_code (snd (parse_response slots input))) (hv_headers (snd (parse_response slots input)))
  = try_parse_response slots input.
Proof. exact gen_try_parse_response_eq. Qed.
Print Assumptions c20_code_try_parse_response.
Theorem c20_code_try_parse_partial_response : forall slots input,
  gen_try_parse_partial_response input (hp_of (fst (parse_response slots input))) (hv_version (snd (parse_response slots input)))
    (hv_code (snd (parse_response slots input))) (hv_headers (snd (parse_response slots input)))
  = try_parse_partial_response slots input.
Proof. exact gen_try_parse_partial_response_eq. Qed.
Print Assumptions c20_code_try_parse_partial_response.
Theorem c20_code_try_parse_request : forall slots input,
  gen_try_parse_request input (hp_of (fst (parse_request slots input))) (hq_version (snd (parse_request slots input)))
    (hq_method (snd (parse_request slots input))) (hq_headers (snd (parse_request slots input)))
  = try_parse_request slots input.
Proof. exact gen_try_parse_request_eq. Qed.
Print Assumptions c20_code_try_parse_request.
