(** Property C09 -- Flows follow the documented state graph; the readiness query agrees with advancing.

    "Driving a flow through any sequence of permitted calls never panics and always lands in the
    successor state the documented state graph prescribes for what has been sent and received so
    far [...].  In every state the advertised readiness query is true exactly when advancing
    succeeds, and a flow that advanced is fully usable in its new state."

    Statements only; the proofs are in proofs/C09_inv.v (the invariant [Inv]), C09_chunk.v,
    C09_calls.v, C09_flow.v (one lemma per operation of Flow.v), AfterErr.v (the state a failed
    body read leaves) and C09_proofs.v (script level).

    Hypotheses that the proofs forced, all explicit below:
    - [~ Known s o]: finding F18, a second [as_new_flow] on a Redirect flow whose request has been
      taken panics ([c09_known_refuted]).
    - [in_quantifier s o] (defined in C09_proofs.v) excludes three panics of the model that the
      design records as outside the property's quantifier: a request URI without scheme or
      authority ([abs_uri]; zero effective headers underflow [header_count - 1], and
      [expect(base uri to be a url)] in [as_new_flow]); a [header()] call when 62 headers have
      already been added (64 slots, analysis needs two; the property quantifies over 0..60
      additions); [try_read_100] after a refusal on a window that parses as a complete 100 response
      ([assert!(should_send_body)], reachable only by violating the re-presentation discipline,
      see C12). *)
From Coq Require Import Lia ZArith.
From Hoot Require Import Base Chunk Body Httparse Parser Url Request Call Flow Script.
From Hoot.proofs Require Import C06_proofs C09_inv C09_calls C09_flow C09_proofs.
Open Scope N_scope.

(* ------------------------------------------------------------------ creation *)

(** [Flow::new] never panics (and never fails), for every request. *)
Theorem c09_new_total : forall r, exists f, flow_new r = Ok f.
Proof. intros r. destruct (flow_new_shape r) as (rs & _ & H). eauto. Qed.

(** For a request with an absolute URI the new flow satisfies the invariant of Prepare. *)
Theorem c09_new : forall r, abs_uri (rq_uri r) -> exists f, flow_new r = Ok f /\ Inv TPrepare f.
Proof.
  intros r Hu. pose proof (flow_new_inv r Hu) as H.
  destruct (flow_new r) as [f|e|s]; cbn in H; try contradiction. eauto.
Qed.

(* ------------------------------------------------------------------ one theorem per operation *)
(** [safe P r]: [r] is not a panic and a returned value satisfies [P] (errors leave the caller with
    the flow it had -- except a failed body read, which leaves the chunked decoder in the state it
    had reached: [c09_read_after_err]); [total P r]: [r] is a value satisfying [P]. *)

Theorem c09_header : forall f k v,
  Inv TPrepare f -> len (am_added (c_req (i_call f))) < HEADER_BUDGET ->
  safe (Inv TPrepare) (prepare_header f k v).
Proof. exact prepare_header_safe. Qed.

Theorem c09_despite : forall f, Inv TPrepare f -> total (Inv TPrepare) (send_body_despite_method f).
Proof. exact despite_total. Qed.

Theorem c09_prepare_proceed : forall f, Inv TPrepare f -> Inv TSendRequest f.
Proof. exact prepare_proceed. Qed.

Theorem c09_write_head : forall f cap,
  Inv TSendRequest f -> safe (fun r => Inv TSendRequest (fst r)) (send_request_write f cap).
Proof. exact send_request_write_safe. Qed.

Theorem c09_try_read_100 : forall f win,
  Inv TAwait100 f -> ~ misuse_100 f win ->
  Inv TAwait100 (fst (try_read_100 f win)) /\ safe (fun _ => True) (snd (try_read_100 f win)).
Proof. exact try_read_100_safe. Qed.

Theorem c09_write_body : forall f input cap,
  Inv TSendBody f -> safe (fun r => Inv TSendBody (fst (fst r))) (send_body_write f input cap).
Proof. exact send_body_write_safe. Qed.

Theorem c09_direct_write : forall f amount,
  Inv TSendBody f -> safe (Inv TSendBody) (send_body_direct f amount).
Proof. exact send_body_direct_safe. Qed.

Theorem c09_send_body_queries : forall f n,
  Inv TSendBody f ->
  total (fun _ => True) (send_body_max_input f n) /\ total (fun _ => True) (send_body_is_chunked f) /\
  total (fun _ => True) (send_body_can_proceed f).
Proof. exact send_body_queries_total. Qed.

Theorem c09_try_response : forall f input,
  Inv TRecvResponse f -> safe (fun r => Inv TRecvResponse (fst (fst r))) (recv_try_response f input).
Proof. exact recv_try_response_safe. Qed.

Theorem c09_read : forall f input cap,
  Inv TRecvBody f -> safe (fun r => Inv TRecvBody (fst (fst r))) (recv_body_read f input cap).
Proof. exact recv_body_read_safe. Qed.

(** When [read] returns an error the Rust decoder has been mutated in place: the flow the caller holds
    afterwards is [recv_body_after_err f input cap] (Flow.v; what [Script.do_read] continues from).
    It satisfies the invariant of RecvBody again (in particular the decoder is never left in the
    transient Trailer state), so every call permitted in RecvBody remains panic-free after an error. *)
Theorem c09_read_after_err : forall f input cap,
  Inv TRecvBody f -> Inv TRecvBody (recv_body_after_err f input cap).
Proof. exact AfterErr.recv_body_after_err_inv. Qed.

Theorem c09_stop : forall f b, Inv TRecvBody f -> total (Inv TRecvBody) (recv_body_stop f b).
Proof. exact recv_body_stop_total. Qed.

Theorem c09_recv_body_queries : forall f,
  Inv TRecvBody f ->
  total (fun _ => True) (recv_body_on_boundary f) /\ total (fun _ => True) (recv_body_can_proceed f).
Proof. exact recv_body_queries_total. Qed.

Theorem c09_redirect_proceed : forall f, Inv TRedirect f -> Inv TCleanup f.
Proof. exact redirect_proceed. Qed.

(** [as_new_flow] outside the Known class: no panic, the redirect flow remains one, and a new flow is
    a proper Prepare flow. *)
Theorem c09_as_new_flow : forall f p,
  Inv TRedirect f -> ~ Taken f ->
  safe (fun r => Inv TRedirect (fst r) /\
                 match snd r with Some n => Inv TPrepare n | None => fst r = f end)
       (as_new_flow f p).
Proof. exact as_new_flow_safe. Qed.

(* ------------------------------------------------------------------ readiness <=> advancing *)

(** In each of the four states with a readiness query: the query never fails; it is true exactly
    when [proceed] yields a new state, and false exactly when [proceed] returns [None] (a premature
    attempt "stays": no panic, no error). *)
Definition readiness_agrees (can : res bool) (pr : res (option (tag * inner))) : Prop :=
  (exists b, can = Ok b) /\
  (can = Ok true <-> exists x, pr = Ok (Some x)) /\
  (can = Ok false <-> pr = Ok None).

Theorem c09_ready_iff : forall f,
  (Inv TSendRequest f -> readiness_agrees (send_request_can_proceed f) (send_request_proceed f)) /\
  (Inv TSendBody f -> readiness_agrees (send_body_can_proceed f) (send_body_proceed f)) /\
  (Inv TRecvResponse f -> readiness_agrees (recv_response_can_proceed f) (recv_response_proceed f)) /\
  (Inv TRecvBody f -> readiness_agrees (recv_body_can_proceed f) (recv_body_proceed f)).
Proof. exact ready_iff_all. Qed.

(** Await100 has no readiness query: advancing always succeeds. *)
Theorem c09_await_100_proceed : forall f,
  Inv TAwait100 f -> exists t' f', await_100_proceed f = Ok (t', f') /\ Inv t' f'.
Proof. exact await_100_proceed_inv. Qed.

(* ------------------------------------------------------------------ the documented successor *)

(** The state graph of the module documentation ([head_successor], [await_successor],
    [response_successor], [body_successor] are defined in proofs/C09_flow.v):
    - after the head: Await100 if a body is due and Expect: 100-continue was requested, SendBody if
      a body is due, else RecvResponse;
    - after Await100: SendBody unless the server refused (then no body is due any more), else
      RecvResponse;
    - after the body: RecvResponse;
    - after the response head: the body state iff a non-empty body is expected, else Redirect iff
      the status is 3xx other than 304, else Cleanup (C06);
    - after the response body: Redirect iff 3xx other than 304, else Cleanup;
    - Redirect -> Cleanup ([c09_redirect_proceed]).
    Every new state satisfies the invariant ("a flow that advanced is fully usable"). *)
Theorem c09_successor : forall f t' f',
  (Inv TSendRequest f -> send_request_proceed f = Ok (Some (t', f')) ->
     t' = (if i_should_send_body f then (if i_await_100 f then TAwait100 else TSendBody)
           else TRecvResponse) /\
     Inv t' f' /\ i_should_send_body f' = i_should_send_body f) /\
  (Inv TAwait100 f -> await_100_proceed f = Ok (t', f') ->
     t' = (if i_should_send_body f then TSendBody else TRecvResponse) /\
     Inv t' f' /\ i_should_send_body f' = i_should_send_body f) /\
  (Inv TSendBody f -> send_body_proceed f = Ok (Some (t', f')) ->
     t' = TRecvResponse /\ Inv t' f') /\
  (Inv TRecvResponse f -> recv_response_proceed f = Ok (Some (t', f')) ->
     t' = (if need_response_body (i_call f) then TRecvBody
           else if is_redirect f then TRedirect else TCleanup) /\
     Inv t' f' /\ i_status f' = i_status f) /\
  (Inv TRecvBody f -> recv_body_proceed f = Ok (Some (t', f')) ->
     t' = (if is_redirect f then TRedirect else TCleanup) /\ Inv t' f' /\ f' = f).
Proof. exact successor_all. Qed.

(** The successor of the response head is C06's [successor] of the reader and status recorded. *)
Theorem c09_successor_c06 : forall f r status,
  c_reader (i_call f) = Some r -> i_status f = Some status ->
  response_successor f = successor r status.
Proof. exact response_successor_c06. Qed.

(** Ghost-free reading of "a body is due" while the head is being prepared / sent: the method takes
    a body, or [send_body_despite_method] was called ([c_skip] is set by exactly that call).  Later
    it only changes by a refusal in Await100 ([refuse] sets it to false); in SendBody it is true. *)
Theorem c09_body_due : forall t f,
  Inv t f ->
  (t = TPrepare \/ t = TSendRequest ->
     i_should_send_body f = need_request_body (am_method (c_req (i_call f))) || c_skip (i_call f)) /\
  (t = TSendBody -> i_should_send_body f = true).
Proof. exact body_due_all. Qed.

(* ------------------------------------------------------------------ histories *)

(** One step of the script machine from any state satisfying the invariant ([SInv]: the object is
    absent, a single call satisfying [CallInv], or a flow in state [t] satisfying [Inv t]; a pending
    redirected flow satisfies [Inv TPrepare]): the observation is not [panic] and the invariant
    holds again.  This is "fully usable": every call the types permit in the state is panic-free. *)
Theorem c09_step : forall s o,
  SInv s -> ~ Known s o -> in_quantifier s o ->
  snd (step s o) <> obs_panic /\ SInv (fst (step s o)).
Proof. exact step_good. Qed.

Theorem c09_usable : forall t f s o,
  Inv t f -> s_obj s = ObFlow t f -> NextInv (s_next s) ->
  ~ Known s o -> in_quantifier s o ->
  snd (step s o) <> obs_panic /\ SInv (fst (step s o)).
Proof.
  intros t f s o Hi Eo Hn HK HQ. apply step_good; [|exact HK|exact HQ].
  split; [rewrite Eo; exact Hi|exact Hn].
Qed.

(** Histories of ANY length from the initial state: no step observes a panic, and the invariant
    holds in the final state -- and hence after every prefix ([c09_history_prefix]). *)
Theorem c09_history : forall ops,
  admissible s_init ops ->
  Forall (fun o => o <> obs_panic) (obs_run s_init ops) /\ SInv (run_ops s_init ops).
Proof. intros ops H. exact (history_good ops s_init sinv_init H). Qed.

Theorem c09_history_from : forall s ops,
  SInv s -> admissible s ops ->
  Forall (fun o => o <> obs_panic) (obs_run s ops) /\ SInv (run_ops s ops).
Proof. intros s ops HS H. exact (history_good ops s HS H). Qed.

Theorem c09_history_prefix : forall p q,
  admissible s_init (p ++ q) ->
  match s_obj (run_ops s_init p) with
  | ObNone => True
  | ObFlow t f => Inv t f
  | ObCall h c => CallInv h c
  end.
Proof. intros p q H. exact (proj1 (history_inv_everywhere p q s_init sinv_init H)). Qed.

(* ------------------------------------------------------------------ the Known class is real *)

Definition ex_uri : uri := {| u_scheme := s2b "http"; u_auth := s2b "a.test"; u_pq := s2b "/x" |}.

Definition ex_get : request :=
  {| rq_method := GET; rq_version := V11; rq_uri := ex_uri; rq_headers := [] |}.

Definition ex_302 : bytes :=
  s2b "HTTP/1.1 302 Found" ++ CRLF ++ s2b "location: /y" ++ CRLF ++ s2b "content-length: 0" ++ CRLF ++ CRLF.

(** GET, 302 with Location, Redirect state, [as_new_flow], the new flow followed and redirected once more, Redirect
    state of the second hop, first [as_new_flow] there (succeeds, takes the request). *)
Definition ex_redirect : list op :=
  [ONew ex_get; OProceed; OWriteHead 1000; OProceed; OSetStream (ex_302 ++ ex_302); OArrive 1000; OTryResponse;
   OProceed; OQStatus; OAsNewFlow Never; OFollow; OProceed; OWriteHead 1000; OProceed; OTryResponse; OProceed;
   OAsNewFlow Never].

(** F18: after an admissible history, a second [as_new_flow] (in the Known class, inside the
    quantifier otherwise) panics -- on a flow that was itself created by following a redirect (the target URI
    it carries still resolves, then the request that was already taken is taken again).  On a first-hop flow the
    second call finds only the placeholder request, whose URI is not absolute, and reports BadLocationHeader
    (since the repair of F19). *)
Theorem c09_known_refuted :
  exists ops o,
    admissible s_init ops /\ in_quantifier (run_ops s_init ops) o /\ Known (run_ops s_init ops) o /\
    snd (step (run_ops s_init ops) o) = obs_panic.
Proof.
  exists ex_redirect, (OAsNewFlow Never).
  split; [apply admissible_b_sound; vm_compute; reflexivity|].
  split; [apply inq_b_sound; vm_compute; reflexivity|].
  split; [apply known_b_complete; vm_compute; reflexivity|vm_compute; reflexivity].
Qed.

(* ------------------------------------------------------------------ non-vacuity *)

Definition ex_post : request :=
  {| rq_method := POST; rq_version := V11; rq_uri := ex_uri;
     rq_headers := [(s2b "expect", s2b "100-continue")] |}.

Definition ex_403 : bytes :=
  s2b "HTTP/1.1 403 Forbidden" ++ CRLF ++ s2b "content-length: 0" ++ CRLF ++ CRLF.

(** POST with Expect: 100-continue, an added header, head written, Await100, the server refuses with
    403 (seen in two arrivals, looked at three times), RecvResponse, Cleanup: 24 operations
    including readiness queries in every state. *)
Definition ex_history : list op :=
  [ONew ex_post; OHeader (s2b "x-a") (s2b "1"); OQMethod; OProceed; OQCanProceed; OWriteHead 1000;
   OQCanProceed; OProceed; OQKeepAwait; OSetStream ex_403; OArrive 10; OTry100; OArrive 100; OTry100;
   OTry100; OQKeepAwait; OProceed; OQCanProceed; OTryResponse; OQCanProceed; OProceed; OQMustClose;
   OQCloseReason; OProceed].

Definition tag_trace (s : sstate) (ops : list op) : list (option tag) :=
  (fix go (s : sstate) (ops : list op) : list (option tag) :=
     match ops with
     | [] => []
     | o :: t => let s' := fst (step s o) in
                 match s_obj s' with ObFlow tg _ => Some tg | _ => None end :: go s' t
     end) s ops.

Example c09_history_nonvacuous :
  admissible s_init ex_history /\
  List.length ex_history = 24%nat /\
  nth 8 (obs_run s_init ex_history) [] = obs_bool true /\       (* still awaiting 100 *)
  nth 15 (obs_run s_init ex_history) [] = obs_bool false /\     (* refused *)
  nth 7 (tag_trace s_init ex_history) None = Some TAwait100 /\
  nth 16 (tag_trace s_init ex_history) None = Some TRecvResponse /\
  nth 21 (obs_run s_init ex_history) [] = obs_bool true /\      (* must close: Not100Continue *)
  match s_obj (run_ops s_init ex_history) with ObFlow TCleanup _ => True | _ => False end.
Proof.
  split; [apply admissible_b_sound; vm_compute; reflexivity|].
  vm_compute. repeat split.
Qed.

(** The redirect history is admissible as well, reaches Redirect, and the flow produced by
    [as_new_flow] can be followed and driven on. *)
Example c09_redirect_nonvacuous :
  admissible s_init (ex_redirect ++ [OFollow; OQUri; OProceed; OWriteHead 1000; OProceed]) /\
  nth 7 (tag_trace s_init ex_redirect) None = Some TRedirect /\
  match s_obj (run_ops s_init (ex_redirect ++ [OFollow; OQUri; OProceed; OWriteHead 1000; OProceed])) with
  | ObFlow TRecvResponse _ => True
  | _ => False
  end.
Proof.
  split; [apply admissible_b_sound; vm_compute; reflexivity|].
  vm_compute. repeat split.
Qed.

(** Premature advance attempts in every state with a readiness query: "none", never a panic. *)
Example c09_premature_nonvacuous :
  obs_run s_init [ONew ex_post; OProceed; OPremature] = [[w "ok"]; [w "state"; tag_name TSendRequest]; [w "none"]] /\
  admissible s_init [ONew ex_post; OProceed; OPremature] /\
  admissible s_init [ONew ex_get; OProceed; OWriteHead 1000; OProceed; OPremature] /\
  nth 4 (obs_run s_init [ONew ex_get; OProceed; OWriteHead 1000; OProceed; OPremature]) [] = [w "none"].
Proof.
  split; [vm_compute; reflexivity|].
  split; [apply admissible_b_sound; vm_compute; reflexivity|].
  split; [apply admissible_b_sound; vm_compute; reflexivity|vm_compute; reflexivity].
Qed.


(* ------------------------------------------------------------------ tie to the source by translation *)
(** The Rust functions below are translated to Gallina from the repository's CURRENT sources on every run
    (tools/rs2coq.py -> theories/Gen.v); they equal the model's functions for all arguments, so the theorems above
    hold for what the code says now. A change of one of these functions that is not an equivalent rewrite breaks the
    proof obligation here. *)
From Hoot Require Import Gen.
From Hoot.proofs Require Import Gen_equiv_ext.
Theorem c09_code_need_request_body : forall m, gen_need_request_body m = need_request_body m.
Proof. exact gen_need_request_body_eq. Qed.

Print Assumptions c09_new_total.
Print Assumptions c09_new.
Print Assumptions c09_header.
Print Assumptions c09_despite.
Print Assumptions c09_prepare_proceed.
Print Assumptions c09_write_head.
Print Assumptions c09_try_read_100.
Print Assumptions c09_write_body.
Print Assumptions c09_direct_write.
Print Assumptions c09_send_body_queries.
Print Assumptions c09_try_response.
Print Assumptions c09_read.
Print Assumptions c09_read_after_err.
Print Assumptions c09_stop.
Print Assumptions c09_recv_body_queries.
Print Assumptions c09_redirect_proceed.
Print Assumptions c09_as_new_flow.
Print Assumptions c09_ready_iff.
Print Assumptions c09_await_100_proceed.
Print Assumptions c09_successor.
Print Assumptions c09_successor_c06.
Print Assumptions c09_body_due.
Print Assumptions c09_step.
Print Assumptions c09_usable.
Print Assumptions c09_history.
Print Assumptions c09_history_from.
Print Assumptions c09_history_prefix.
Print Assumptions c09_known_refuted.
Print Assumptions c09_history_nonvacuous.
Print Assumptions c09_redirect_nonvacuous.
Print Assumptions c09_premature_nonvacuous.
Print Assumptions c09_code_need_request_body.
