(** Property C09 -- Flows follow the documented state graph; the readiness query agrees with advancing.

    "Driving a flow through any sequence of permitted calls never panics and always lands in the
    successor state the documented state graph prescribes for what has been sent and received so
    far [...].  In every state the advertised readiness query is true exactly when advancing
    succeeds, and a flow that advanced is fully usable in its new state."

    Statements only; the proofs are in proofs/C09_inv.v (the invariant [Inv]), C09_chunk.v,
    C09_calls.v, C09_flow.v (one lemma per operation of Flow.v), AfterErr.v (the state a failed
    body read leaves) and C09_proofs.v (script level).

    Hypotheses that the proofs forced, all explicit below:
    - [~ Known s o]: finding F18, a second [as_new_flow] on a Redirect flow whose request has been
      taken panics ([c09_known_refuted]).
    - [in_quantifier s o] (defined in C09_proofs.v) excludes three panics of the model that the
      design records as outside the property's quantifier: a request URI without scheme or
      authority ([abs_uri]; zero effective headers underflow [header_count - 1], and
      [expect(base uri to be a url)] in [as_new_flow]); a [header()] call when 62 headers have
      already been added (64 slots, analysis needs two; the property quantifies over 0..60
      additions); [try_read_100] after a refusal on a window that parses as a complete 100 response
      ([assert!(should_send_body)], reachable only by violating the re-presentation discipline,
      see C12). *)
(** Added after review 1 (sections at the end of the file):
    - "the successor from the HISTORY": the flags [c09_successor] reads are tied to facts computed from
      the script ([c09_hist_flags]) and the successor is restated on those facts ([c09_successor_hist],
      proofs/C09_hist.v);
    - "the tracked try_read_100 needs no side condition": the third excluded class above is a lemma for
      the tracked [OTry100] ([c09_tracked_never_misuse], [c09_history2]; proofs/C09_discipline.v); the
      condition remains for [ORawTry100] only (and for [OSetStream] under a refused flow). *)
From Coq Require Import Lia ZArith.
From Hoot Require Import Base Chunk Body Httparse Parser Url Request Call Flow Script.
From Hoot.proofs Require Import C06_proofs C09_inv C09_calls C09_flow C09_proofs.
Open Scope N_scope.

(* ------------------------------------------------------------------ creation *)

(** [Flow::new] never panics (and never fails), for every request. *)
Theorem c09_new_total : forall r, exists f, flow_new r = Ok f.
Proof. intros r. destruct (flow_new_shape r) as (rs & _ & H). eauto. Qed.

(** For a request with an absolute URI the new flow satisfies the invariant of Prepare. *)
Theorem c09_new : forall r, abs_uri (rq_uri r) -> exists f, flow_new r = Ok f /\ Inv TPrepare f.
Proof.
  intros r Hu. pose proof (flow_new_inv r Hu) as H.
  destruct (flow_new r) as [f|e|s]; cbn in H; try contradiction. eauto.
Qed.

(* ------------------------------------------------------------------ one theorem per operation *)
(** [safe P r]: [r] is not a panic and a returned value satisfies [P] (errors leave the caller with
    the flow it had -- except a failed body read, which leaves the chunked decoder in the state it
    had reached: [c09_read_after_err]); [total P r]: [r] is a value satisfying [P]. *)

Theorem c09_header : forall f k v,
  Inv TPrepare f -> len (am_added (c_req (i_call f))) < HEADER_BUDGET ->
  safe (Inv TPrepare) (prepare_header f k v).
Proof. exact prepare_header_safe. Qed.

Theorem c09_despite : forall f, Inv TPrepare f -> total (Inv TPrepare) (send_body_despite_method f).
Proof. exact despite_total. Qed.

Theorem c09_prepare_proceed : forall f, Inv TPrepare f -> Inv TSendRequest f.
Proof. exact prepare_proceed. Qed.

Theorem c09_write_head : forall f cap,
  Inv TSendRequest f -> safe (fun r => Inv TSendRequest (fst r)) (send_request_write f cap).
Proof. exact send_request_write_safe. Qed.

Theorem c09_try_read_100 : forall f win,
  Inv TAwait100 f -> ~ misuse_100 f win ->
  Inv TAwait100 (fst (try_read_100 f win)) /\ safe (fun _ => True) (snd (try_read_100 f win)).
Proof. exact try_read_100_safe. Qed.

Theorem c09_write_body : forall f input cap,
  Inv TSendBody f -> safe (fun r => Inv TSendBody (fst (fst r))) (send_body_write f input cap).
Proof. exact send_body_write_safe. Qed.

Theorem c09_direct_write : forall f amount,
  Inv TSendBody f -> safe (Inv TSendBody) (send_body_direct f amount).
Proof. exact send_body_direct_safe. Qed.

Theorem c09_send_body_queries : forall f n,
  Inv TSendBody f ->
  total (fun _ => True) (send_body_max_input f n) /\ total (fun _ => True) (send_body_is_chunked f) /\
  total (fun _ => True) (send_body_can_proceed f).
Proof. exact send_body_queries_total. Qed.

Theorem c09_try_response : forall f input,
  Inv TRecvResponse f -> safe (fun r => Inv TRecvResponse (fst (fst r))) (recv_try_response f input).
Proof. exact recv_try_response_safe. Qed.

Theorem c09_read : forall f input cap,
  Inv TRecvBody f -> safe (fun r => Inv TRecvBody (fst (fst r))) (recv_body_read f input cap).
Proof. exact recv_body_read_safe. Qed.

(** When [read] returns an error the Rust decoder has been mutated in place: the flow the caller holds
    afterwards is [recv_body_after_err f input cap] (Flow.v; what [Script.do_read] continues from).
    It satisfies the invariant of RecvBody again (in particular the decoder is never left in the
    transient Trailer state), so every call permitted in RecvBody remains panic-free after an error. *)
Theorem c09_read_after_err : forall f input cap,
  Inv TRecvBody f -> Inv TRecvBody (recv_body_after_err f input cap).
Proof. exact AfterErr.recv_body_after_err_inv. Qed.

Theorem c09_stop : forall f b, Inv TRecvBody f -> total (Inv TRecvBody) (recv_body_stop f b).
Proof. exact recv_body_stop_total. Qed.

Theorem c09_recv_body_queries : forall f,
  Inv TRecvBody f ->
  total (fun _ => True) (recv_body_on_boundary f) /\ total (fun _ => True) (recv_body_can_proceed f).
Proof. exact recv_body_queries_total. Qed.

Theorem c09_redirect_proceed : forall f, Inv TRedirect f -> Inv TCleanup f.
Proof. exact redirect_proceed. Qed.

(** [as_new_flow] outside the Known class: no panic, the redirect flow remains one, and a new flow is
    a proper Prepare flow. *)
Theorem c09_as_new_flow : forall f p,
  Inv TRedirect f -> ~ Taken f ->
  safe (fun r => Inv TRedirect (fst r) /\
                 match snd r with Some n => Inv TPrepare n | None => fst r = f end)
       (as_new_flow f p).
Proof. exact as_new_flow_safe. Qed.

(* ------------------------------------------------------------------ readiness <=> advancing *)

(** In each of the four states with a readiness query: the query never fails; it is true exactly
    when [proceed] yields a new state, and false exactly when [proceed] returns [None] (a premature
    attempt "stays": no panic, no error). *)
Definition readiness_agrees (can : res bool) (pr : res (option (tag * inner))) : Prop :=
  (exists b, can = Ok b) /\
  (can = Ok true <-> exists x, pr = Ok (Some x)) /\
  (can = Ok false <-> pr = Ok None).

Theorem c09_ready_iff : forall f,
  (Inv TSendRequest f -> readiness_agrees (send_request_can_proceed f) (send_request_proceed f)) /\
  (Inv TSendBody f -> readiness_agrees (send_body_can_proceed f) (send_body_proceed f)) /\
  (Inv TRecvResponse f -> readiness_agrees (recv_response_can_proceed f) (recv_response_proceed f)) /\
  (Inv TRecvBody f -> readiness_agrees (recv_body_can_proceed f) (recv_body_proceed f)).
Proof. exact ready_iff_all. Qed.

(** Await100 has no readiness query: advancing always succeeds. *)
Theorem c09_await_100_proceed : forall f,
  Inv TAwait100 f -> exists t' f', await_100_proceed f = Ok (t', f') /\ Inv t' f'.
Proof. exact await_100_proceed_inv. Qed.

(* ------------------------------------------------------------------ the documented successor *)

(** The state graph of the module documentation ([head_successor], [await_successor],
    [response_successor], [body_successor] are defined in proofs/C09_flow.v):
    - after the head: Await100 if a body is due and Expect: 100-continue was requested, SendBody if
      a body is due, else RecvResponse;
    - after Await100: SendBody unless the server refused (then no body is due any more), else
      RecvResponse;
    - after the body: RecvResponse;
    - after the response head: the body state iff a non-empty body is expected, else Redirect iff
      the status is 3xx other than 304, else Cleanup (C06);
    - after the response body: Redirect iff 3xx other than 304, else Cleanup;
    - Redirect -> Cleanup ([c09_redirect_proceed]).
    Every new state satisfies the invariant ("a flow that advanced is fully usable"). *)
Theorem c09_successor : forall f t' f',
  (Inv TSendRequest f -> send_request_proceed f = Ok (Some (t', f')) ->
     t' = (if i_should_send_body f then (if i_await_100 f then TAwait100 else TSendBody)
           else TRecvResponse) /\
     Inv t' f' /\ i_should_send_body f' = i_should_send_body f) /\
  (Inv TAwait100 f -> await_100_proceed f = Ok (t', f') ->
     t' = (if i_should_send_body f then TSendBody else TRecvResponse) /\
     Inv t' f' /\ i_should_send_body f' = i_should_send_body f) /\
  (Inv TSendBody f -> send_body_proceed f = Ok (Some (t', f')) ->
     t' = TRecvResponse /\ Inv t' f') /\
  (Inv TRecvResponse f -> recv_response_proceed f = Ok (Some (t', f')) ->
     t' = (if need_response_body (i_call f) then TRecvBody
           else if is_redirect f then TRedirect else TCleanup) /\
     Inv t' f' /\ i_status f' = i_status f) /\
  (Inv TRecvBody f -> recv_body_proceed f = Ok (Some (t', f')) ->
     t' = (if is_redirect f then TRedirect else TCleanup) /\ Inv t' f' /\ f' = f).
Proof. exact successor_all. Qed.

(** The successor of the response head is C06's [successor] of the reader and status recorded. *)
Theorem c09_successor_c06 : forall f r status,
  c_reader (i_call f) = Some r -> i_status f = Some status ->
  response_successor f = successor r status.
Proof. exact response_successor_c06. Qed.

(** Ghost-free reading of "a body is due" while the head is being prepared / sent: the method takes
    a body, or [send_body_despite_method] was called ([c_skip] is set by exactly that call).  Later
    it only changes by a refusal in Await100 ([refuse] sets it to false); in SendBody it is true. *)
Theorem c09_body_due : forall t f,
  Inv t f ->
  (t = TPrepare \/ t = TSendRequest ->
     i_should_send_body f = need_request_body (am_method (c_req (i_call f))) || c_skip (i_call f)) /\
  (t = TSendBody -> i_should_send_body f = true).
Proof. exact body_due_all. Qed.

(* ------------------------------------------------------------------ histories *)

(** One step of the script machine from any state satisfying the invariant ([SInv]: the object is
    absent, a single call satisfying [CallInv], or a flow in state [t] satisfying [Inv t]; a pending
    redirected flow satisfies [Inv TPrepare]): the observation is not [panic] and the invariant
    holds again.  This is "fully usable": every call the types permit in the state is panic-free. *)
Theorem c09_step : forall s o,
  SInv s -> ~ Known s o -> in_quantifier s o ->
  snd (step s o) <> obs_panic /\ SInv (fst (step s o)).
Proof. exact step_good. Qed.

Theorem c09_usable : forall t f s o,
  Inv t f -> s_obj s = ObFlow t f -> NextInv (s_next s) ->
  ~ Known s o -> in_quantifier s o ->
  snd (step s o) <> obs_panic /\ SInv (fst (step s o)).
Proof.
  intros t f s o Hi Eo Hn HK HQ. apply step_good; [|exact HK|exact HQ].
  split; [rewrite Eo; exact Hi|exact Hn].
Qed.

(** Histories of ANY length from the initial state: no step observes a panic, and the invariant
    holds in the final state -- and hence after every prefix ([c09_history_prefix]). *)
Theorem c09_history : forall ops,
  admissible s_init ops ->
  Forall (fun o => o <> obs_panic) (obs_run s_init ops) /\ SInv (run_ops s_init ops).
Proof. intros ops H. exact (history_good ops s_init sinv_init H). Qed.

Theorem c09_history_from : forall s ops,
  SInv s -> admissible s ops ->
  Forall (fun o => o <> obs_panic) (obs_run s ops) /\ SInv (run_ops s ops).
Proof. intros s ops HS H. exact (history_good ops s HS H). Qed.

Theorem c09_history_prefix : forall p q,
  admissible s_init (p ++ q) ->
  match s_obj (run_ops s_init p) with
  | ObNone => True
  | ObFlow t f => Inv t f
  | ObCall h c => CallInv h c
  end.
Proof. intros p q H. exact (proj1 (history_inv_everywhere p q s_init sinv_init H)). Qed.

(* ------------------------------------------------------------------ the Known class is real *)

Definition ex_uri : uri := {| u_scheme := s2b "http"; u_auth := s2b "a.test"; u_pq := s2b "/x" |}.

Definition ex_get : request :=
  {| rq_method := GET; rq_version := V11; rq_uri := ex_uri; rq_headers := [] |}.

Definition ex_302 : bytes :=
  s2b "HTTP/1.1 302 Found" ++ CRLF ++ s2b "location: /y" ++ CRLF ++ s2b "content-length: 0" ++ CRLF ++ CRLF.

(** GET, 302 with Location, Redirect state, [as_new_flow], the new flow followed and redirected once more, Redirect
    state of the second hop, first [as_new_flow] there (succeeds, takes the request). *)
Definition ex_redirect : list op :=
  [ONew ex_get; OProceed; OWriteHead 1000; OProceed; OSetStream (ex_302 ++ ex_302); OArrive 1000; OTryResponse;
   OProceed; OQStatus; OAsNewFlow Never; OFollow; OProceed; OWriteHead 1000; OProceed; OTryResponse; OProceed;
   OAsNewFlow Never].

(** F18: after an admissible history, a second [as_new_flow] (in the Known class, inside the
    quantifier otherwise) panics -- on a flow that was itself created by following a redirect (the target URI
    it carries still resolves, then the request that was already taken is taken again).  On a first-hop flow the
    second call finds only the placeholder request, whose URI is not absolute, and reports BadLocationHeader
    (since the repair of F19). *)
Theorem c09_known_refuted :
  exists ops o,
    admissible s_init ops /\ in_quantifier (run_ops s_init ops) o /\ Known (run_ops s_init ops) o /\
    snd (step (run_ops s_init ops) o) = obs_panic.
Proof.
  exists ex_redirect, (OAsNewFlow Never).
  split; [apply admissible_b_sound; vm_compute; reflexivity|].
  split; [apply inq_b_sound; vm_compute; reflexivity|].
  split; [apply known_b_complete; vm_compute; reflexivity|vm_compute; reflexivity].
Qed.

(* ------------------------------------------------------------------ non-vacuity *)

Definition ex_post : request :=
  {| rq_method := POST; rq_version := V11; rq_uri := ex_uri;
     rq_headers := [(s2b "expect", s2b "100-continue")] |}.

Definition ex_403 : bytes :=
  s2b "HTTP/1.1 403 Forbidden" ++ CRLF ++ s2b "content-length: 0" ++ CRLF ++ CRLF.

(** POST with Expect: 100-continue, an added header, head written, Await100, the server refuses with
    403 (seen in two arrivals, looked at three times), RecvResponse, Cleanup: 24 operations
    including readiness queries in every state. *)
Definition ex_history : list op :=
  [ONew ex_post; OHeader (s2b "x-a") (s2b "1"); OQMethod; OProceed; OQCanProceed; OWriteHead 1000;
   OQCanProceed; OProceed; OQKeepAwait; OSetStream ex_403; OArrive 10; OTry100; OArrive 100; OTry100;
   OTry100; OQKeepAwait; OProceed; OQCanProceed; OTryResponse; OQCanProceed; OProceed; OQMustClose;
   OQCloseReason; OProceed].

Definition tag_trace (s : sstate) (ops : list op) : list (option tag) :=
  (fix go (s : sstate) (ops : list op) : list (option tag) :=
     match ops with
     | [] => []
     | o :: t => let s' := fst (step s o) in
                 match s_obj s' with ObFlow tg _ => Some tg | _ => None end :: go s' t
     end) s ops.

Example c09_history_nonvacuous :
  admissible s_init ex_history /\
  List.length ex_history = 24%nat /\
  nth 8 (obs_run s_init ex_history) [] = obs_bool true /\       (* still awaiting 100 *)
  nth 15 (obs_run s_init ex_history) [] = obs_bool false /\     (* refused *)
  nth 7 (tag_trace s_init ex_history) None = Some TAwait100 /\
  nth 16 (tag_trace s_init ex_history) None = Some TRecvResponse /\
  nth 21 (obs_run s_init ex_history) [] = obs_bool true /\      (* must close: Not100Continue *)
  match s_obj (run_ops s_init ex_history) with ObFlow TCleanup _ => True | _ => False end.
Proof.
  split; [apply admissible_b_sound; vm_compute; reflexivity|].
  vm_compute. repeat split.
Qed.

(** The redirect history is admissible as well, reaches Redirect, and the flow produced by
    [as_new_flow] can be followed and driven on. *)
Example c09_redirect_nonvacuous :
  admissible s_init (ex_redirect ++ [OFollow; OQUri; OProceed; OWriteHead 1000; OProceed]) /\
  nth 7 (tag_trace s_init ex_redirect) None = Some TRedirect /\
  match s_obj (run_ops s_init (ex_redirect ++ [OFollow; OQUri; OProceed; OWriteHead 1000; OProceed])) with
  | ObFlow TRecvResponse _ => True
  | _ => False
  end.
Proof.
  split; [apply admissible_b_sound; vm_compute; reflexivity|].
  vm_compute. repeat split.
Qed.

(** Premature advance attempts in every state with a readiness query: "none", never a panic. *)
Example c09_premature_nonvacuous :
  obs_run s_init [ONew ex_post; OProceed; OPremature] = [[w "ok"]; [w "state"; tag_name TSendRequest]; [w "none"]] /\
  admissible s_init [ONew ex_post; OProceed; OPremature] /\
  admissible s_init [ONew ex_get; OProceed; OWriteHead 1000; OProceed; OPremature] /\
  nth 4 (obs_run s_init [ONew ex_get; OProceed; OWriteHead 1000; OProceed; OPremature]) [] = [w "none"].
Proof.
  split; [vm_compute; reflexivity|].
  split; [apply admissible_b_sound; vm_compute; reflexivity|].
  split; [apply admissible_b_sound; vm_compute; reflexivity|vm_compute; reflexivity].
Qed.


(* ------------------------------------------------------------------ tie to the source by translation *)
(** The Rust functions below are translated to Gallina from the repository's CURRENT sources on every run
    (tools/rs2coq.py -> theories/Gen.v); they equal the model's functions for all arguments, so the theorems above
    hold for what the code says now. A change of one of these functions that is not an equivalent rewrite breaks the
    proof obligation here. *)
From Hoot Require Import Gen.
From Hoot.proofs Require Import Gen_equiv_ext.
Theorem c09_code_need_request_body : forall m, gen_need_request_body m = need_request_body m.
Proof. exact gen_need_request_body_eq. Qed.

(* ------------------------------------------------------------------ the successor from the HISTORY *)
(** [c09_successor] above reads the flags the model keeps.  Here the flags are tied to facts computed
    from the script alone (proofs/C09_hist.v: [hist], [hstep], [hist_of]):
      hs_method / hs_despite   the method of the request the exchange was created from ([ONew]'s
                               argument; for a followed redirect the request of the new flow), and
                               whether [send_body_despite_method] was called;   hs_due := their "or";
      hs_expect                the ORIGINAL headers of that request contain expect: 100-continue;
      hs_refused               [try_read_100] was shown a refusal (C10's [refusal_seen]; wire reading:
                               [c10_refusal_wire]);
      hs_cleared               [try_read_100] was shown a window it decides on, or [try_response] was
                               shown a complete bare 100 head (the one late 100 that is skipped);
      hs_status / hs_mode      status of the last head [try_response] returned / C06's rule
                               [rfc_body_mode] for (request method, last returned non-100 head).
    and the documented graph is a function of these facts ([graph_successor]). *)
From Hoot.proofs Require Import C09_hist.

(** The facts move by [hstep] with every operation. *)
Theorem c09_hist_step : forall ops o,
  hist_of (ops ++ [o]) = hstep (run_ops s_init ops) (hist_of ops) o.
Proof. exact hist_step. Qed.

(** After EVERY admissible history, whatever flow the script holds: a body is still to be sent iff
    one is due and no refusal was seen; the flow still waits for a 100 iff Expect was requested and
    nothing cleared it; the status is that of the head returned; in RecvResponse the installed body
    mode is C06's rule for the head returned; before the response nothing of that is set. *)
Theorem c09_hist_flags : forall ops t f,
  admissible s_init ops -> s_obj (run_ops s_init ops) = ObFlow t f ->
  let h := hist_of ops in
  i_should_send_body f = hs_due h && negb (hs_refused h) /\
  i_await_100 f = hs_expect h && negb (hs_cleared h) /\
  i_status f = hs_status h /\
  (t = TPrepare \/ t = TSendRequest -> hs_refused h = false /\ hs_cleared h = false) /\
  (t = TAwait100 -> hs_due h = true) /\
  (sending t = true -> hs_mode h = None) /\
  (t = TRecvResponse -> c_reader (i_call f) = hs_mode h).
Proof.
  intros ops t f Ha Ho. destruct (hist_flow ops t f Ha Ho) as (H1 & H2 & H3 & _ & H5 & H6 & H7 & H8).
  cbv zeta. auto 10.
Qed.

(** ... and the method the facts speak about is the method of the request the flow holds (the request
    is only ever taken out in Redirect, by [as_new_flow]). *)
Theorem c09_hist_method : forall ops t f r,
  admissible s_init ops -> s_obj (run_ops s_init ops) = ObFlow t f ->
  am_req (c_req (i_call f)) = Some r -> rq_method r = hs_method (hist_of ops).
Proof.
  intros ops t f r Ha Ho Hr. destruct (hist_flow ops t f Ha Ho) as (_ & _ & _ & H4 & _). exact (H4 r Hr).
Qed.

(** The successor theorem on histories: whenever [proceed] reports a new state after an admissible
    history, it is [graph_successor] of the state it was in and the facts of the history, and the
    flow satisfies the invariant of the new state. *)
Theorem c09_successor_hist : forall ops t f t',
  admissible s_init ops -> s_obj (run_ops s_init ops) = ObFlow t f ->
  snd (step (run_ops s_init ops) OProceed) = [w "state"; tag_name t'] ->
  t' = graph_successor t (hist_of ops) /\
  exists f', s_obj (fst (step (run_ops s_init ops) OProceed)) = ObFlow t' f' /\ Inv t' f'.
Proof. exact successor_hist. Qed.

(** Without looking at the observation: the tag either stays (not ready / Cleanup) or becomes the
    graph's successor. *)
Theorem c09_successor_hist_tag : forall ops t f t' f',
  admissible s_init ops -> s_obj (run_ops s_init ops) = ObFlow t f ->
  s_obj (fst (step (run_ops s_init ops) OProceed)) = ObFlow t' f' ->
  (t' = t /\ f' = f) \/ (t' = graph_successor t (hist_of ops) /\ Inv t' f').
Proof. exact successor_hist_tag. Qed.

(** [graph_successor], clause by clause in the words of the property.
    After the head: Await100 iff a body is due and Expect was requested; SendBody iff a body is due
    and Expect was not requested; RecvResponse iff no body is due. *)
Theorem c09_graph_head : forall h,
  (graph_successor TSendRequest h = TAwait100 <-> hs_due h = true /\ hs_expect h = true) /\
  (graph_successor TSendRequest h = TSendBody <-> hs_due h = true /\ hs_expect h = false) /\
  (graph_successor TSendRequest h = TRecvResponse <-> hs_due h = false).
Proof. exact graph_head. Qed.

(** After Await100: SendBody iff no refusal was seen, RecvResponse iff one was. *)
Theorem c09_graph_await : forall h,
  (graph_successor TAwait100 h = TSendBody <-> hs_refused h = false) /\
  (graph_successor TAwait100 h = TRecvResponse <-> hs_refused h = true).
Proof. exact graph_await. Qed.

(** After the response head: C06's [successor] of (rule for the head returned, its status). *)
Theorem c09_graph_response : forall h r st,
  hs_mode h = Some r -> hs_status h = Some st ->
  graph_successor TRecvResponse h = successor r st.
Proof. intros h r st Hm Hs. rewrite (graph_response h r Hm), Hs. reflexivity. Qed.

(** After the body: Redirect iff the status returned is 3xx other than 304 (else Cleanup);
    the body is followed by RecvResponse, Prepare by SendRequest, Redirect by Cleanup. *)
Theorem c09_graph_body : forall h,
  (graph_successor TRecvBody h = TRedirect <->
   exists st, hs_status h = Some st /\ 300 <= st <= 399 /\ st <> 304) /\
  (graph_successor TRecvBody h = TRedirect \/ graph_successor TRecvBody h = TCleanup) /\
  graph_successor TSendBody h = TRecvResponse /\ graph_successor TPrepare h = TSendRequest /\
  graph_successor TRedirect h = TCleanup.
Proof.
  intros h. split; [exact (graph_body h)|]. split; [|repeat split].
  unfold graph_successor. destruct (redirect_of (hs_status h)); auto.
Qed.

(** Non-vacuity on [ex_history] (POST with Expect, refused by a 403 with Content-Length: 0): the facts
    and the successor before each of its three decisive [proceed] calls. *)
Example c09_successor_hist_nonvacuous :
  admissible s_init ex_history /\
  hist_of (firstn 7 ex_history) =
    {| hs_method := POST; hs_despite := false; hs_expect := true; hs_refused := false;
       hs_cleared := false; hs_status := None; hs_mode := None |} /\
  snd (step (run_ops s_init (firstn 7 ex_history)) OProceed) = [w "state"; tag_name TAwait100] /\
  graph_successor TSendRequest (hist_of (firstn 7 ex_history)) = TAwait100 /\
  hist_of (firstn 16 ex_history) =
    {| hs_method := POST; hs_despite := false; hs_expect := true; hs_refused := true;
       hs_cleared := true; hs_status := None; hs_mode := None |} /\
  snd (step (run_ops s_init (firstn 16 ex_history)) OProceed) = [w "state"; tag_name TRecvResponse] /\
  graph_successor TAwait100 (hist_of (firstn 16 ex_history)) = TRecvResponse /\
  hist_of (firstn 20 ex_history) =
    {| hs_method := POST; hs_despite := false; hs_expect := true; hs_refused := true;
       hs_cleared := true; hs_status := Some 403; hs_mode := Some (RLength 0) |} /\
  snd (step (run_ops s_init (firstn 20 ex_history)) OProceed) = [w "state"; tag_name TCleanup] /\
  graph_successor TRecvResponse (hist_of (firstn 20 ex_history)) = TCleanup.
Proof.
  split; [apply admissible_b_sound; vm_compute; reflexivity|].
  vm_compute. repeat split.
Qed.

(** OBSERVATION (outside the property's quantifier, which ranges over request configurations
    with / without Expect): an [expect: 100-continue] header added through [Flow<Prepare>::header]
    is written to the wire but is NOT honoured -- [await_100_continue] is computed once, in
    [Flow::new], from the original request.  The history below is admissible, its head carries the
    Expect field, and [proceed] goes straight to SendBody (no Await100); [hs_expect] is false, so
    this is what [c09_successor_hist] prescribes. *)
Definition ex_post_plain : request :=
  {| rq_method := POST; rq_version := V11; rq_uri := ex_uri; rq_headers := [] |}.

Definition ex_expect_added : list op :=
  [ONew ex_post_plain; OHeader (s2b "expect") (s2b "100-continue"); OProceed; OWriteHead 1000].

Example c09_expect_added_not_honoured :
  admissible s_init ex_expect_added /\
  nth 3 (obs_run s_init ex_expect_added) [] =
    [w "ok"; TN 84;
     TH (s2b "POST /x HTTP/1.1" ++ CRLF ++ s2b "expect: 100-continue" ++ CRLF ++ s2b "host: a.test" ++ CRLF
         ++ s2b "transfer-encoding: chunked" ++ CRLF ++ CRLF)] /\
  hs_expect (hist_of ex_expect_added) = false /\ hs_due (hist_of ex_expect_added) = true /\
  snd (step (run_ops s_init ex_expect_added) OProceed) = [w "state"; tag_name TSendBody] /\
  graph_successor TSendRequest (hist_of ex_expect_added) = TSendBody.
Proof.
  split; [apply admissible_b_sound; vm_compute; reflexivity|].
  vm_compute. repeat split.
Qed.

(* ------------------------------------------------------------------ the tracked try_read_100 needs no side condition *)
(** [in_quantifier] asks for [~ misuse_100 f (window s)] at the tracked [OTry100] as well.  That is a
    lemma, not a premise: the script presents stream[consumed..arrived], arrivals only append, and a
    refusal consumes nothing -- so after a refusal every later tracked window extends (or is a
    prefix of) the refused one, and such a window never parses as a 100 (C11 [c11_never_assert],
    C12 [c12_try100_after_refusal]).  The state invariant is
      [DInv s]: if the flow is in Await100 and no longer wants to send, no prefix of the unconsumed
                stream parses as a complete 100 head;
    [in_quantifier2] (proofs/C09_discipline.v) is [in_quantifier] without any condition on [OTry100];
    it keeps [~ misuse_100] for [ORawTry100] and asks the two operations that can introduce bytes
    unrelated to the stream ([ORawTry100] provoking the first refusal, [OSetStream] under a refused
    flow) not to break [DInv]; [admissible2] is [admissible] with [in_quantifier2]. *)
From Hoot.proofs Require Import C09_discipline.

(** A refusal on one window of the stream rules out a 100 in every window of it. *)
Theorem c09_refusal_blocks : forall consumed stream n,
  C12_flow.refusal_window (take n (drop consumed stream)) -> no_100_ahead consumed stream.
Proof. exact refusal_blocks. Qed.

Theorem c09_tracked_never_misuse : forall s f,
  DInv s -> s_obj s = ObFlow TAwait100 f -> ~ misuse_100 f (window s).
Proof. exact tracked_never_misuse. Qed.

(** One step: no panic, both invariants again. *)
Theorem c09_step2 : forall s o,
  SInv s -> DInv s -> ~ Known s o -> in_quantifier2 s o ->
  snd (step s o) <> obs_panic /\ SInv (fst (step s o)) /\ DInv (fst (step s o)).
Proof.
  intros s o HS HD HK HQ. destruct (step_good2 s o HS HD HK HQ) as [[H1 H2] H3]. auto.
Qed.

(** Histories of any length under the weaker conditions. *)
Theorem c09_history2 : forall ops,
  admissible2 s_init ops ->
  Forall (fun o => o <> obs_panic) (obs_run s_init ops) /\ SInv (run_ops s_init ops) /\
  DInv (run_ops s_init ops).
Proof. intros ops H. exact (history_good2 ops s_init sinv_init dinv_init H). Qed.

(** They imply the conditions the theorems above were stated with ... *)
Theorem c09_admissible2 : forall ops, admissible2 s_init ops -> admissible s_init ops.
Proof. intros ops H. exact (admissible2_admissible ops s_init sinv_init dinv_init H). Qed.

(** ... so e.g. the history-level successor theorem holds under them. *)
Theorem c09_successor_hist2 : forall ops t f t',
  admissible2 s_init ops -> s_obj (run_ops s_init ops) = ObFlow t f ->
  snd (step (run_ops s_init ops) OProceed) = [w "state"; tag_name t'] ->
  t' = graph_successor t (hist_of ops) /\
  exists f', s_obj (fst (step (run_ops s_init ops) OProceed)) = ObFlow t' f' /\ Inv t' f'.
Proof. intros ops t f t' H. exact (successor_hist ops t f t' (c09_admissible2 ops H)). Qed.

(** [ex_history] satisfies the weaker conditions (checked without looking at any tracked window); its
    third [OTry100] is a re-presentation after the refusal: the flow no longer wants to send, and
    the tracked window is nevertheless safe. *)
Example c09_history2_nonvacuous :
  admissible2 s_init ex_history /\
  match s_obj (run_ops s_init (firstn 14 ex_history)) with
  | ObFlow TAwait100 f => i_should_send_body f = false /\ nth 14 ex_history OProceed = OTry100
  | _ => False
  end.
Proof.
  split; [apply admissible2_b_sound; vm_compute; reflexivity|]. vm_compute. split; reflexivity.
Qed.

(** The remaining side condition on [ORawTry100] is needed: a refusal provoked with raw bytes while
    the stream holds a 100 makes the next TRACKED call hit [assert!(should_send_body)]. *)
Definition ex_raw_then_tracked : list op :=
  [ONew ex_post; OProceed; OWriteHead 1000; OProceed;
   OSetStream (s2b "HTTP/1.1 100 Continue" ++ CRLF ++ CRLF); OArrive 1000; ORawTry100 ex_403].

Example c09_raw_then_tracked_panics :
  admissible s_init ex_raw_then_tracked /\
  refusal_window_b ex_403 = true /\
  C12_flow.parses_100 (window (run_ops s_init ex_raw_then_tracked)) /\
  snd (step (run_ops s_init ex_raw_then_tracked) OTry100) = obs_panic.
Proof.
  split; [apply admissible_b_sound; vm_compute; reflexivity|].
  split; [vm_compute; reflexivity|].
  split; [|vm_compute; reflexivity].
  eexists _, _. split; vm_compute; reflexivity.
Qed.

(* ------------------------------------------------------------------ the parser-level tests of the history facts, on the wire *)
(** [hs_refused] uses C10's [refusal_seen] (wire reading: [c10_refusal_wire] in props/C10.v).  The two
    tests behind [hs_cleared], for streams that begin with a well-formed head (grammar of
    proofs/C05_spec.v): [try_read_100] decides exactly from C11's decision point on; [try_response]
    sees "a 100" exactly when the complete head has status 100 and no field line. *)
From Hoot.proofs Require Import C05_spec C10_wire C09_hist_wire.

Theorem c09_decided_wire : forall h rest n,
  wf_resp_head h ->
  decided (take n (render_response_head h ++ rest)) = (C11_proofs.decision_point h <=? n).
Proof. exact decided_exact. Qed.

Theorem c09_sees_100_wire : forall h rest,
  wf_resp_head h -> (List.length (rh_fields h) <= 128)%nat ->
  sees_100 (render_response_head h ++ rest) = (rh_status h =? 100) && C10_wire.is_nil (rh_fields h).
Proof. exact sees_100_complete. Qed.

Example c09_wire_tests_nonvacuous :
  wf_resp_head h_403_close /\ C11_proofs.decision_point h_403_close = 43 /\
  decided (take 42 (render_response_head h_403_close ++ s2b "x")) = false /\
  decided (take 43 (render_response_head h_403_close ++ s2b "x")) = true /\
  sees_100 (render_response_head h_403_close ++ s2b "x") = false /\
  sees_100 (s2b "HTTP/1.1 100 Continue" ++ CRLF ++ CRLF ++ s2b "HTTP/1.1 200 OK") = true.
Proof. split; [exact wf_h_403_close|]. vm_compute. repeat split; reflexivity. Qed.

Print Assumptions c09_new_total.
Print Assumptions c09_new.
Print Assumptions c09_header.
Print Assumptions c09_despite.
Print Assumptions c09_prepare_proceed.
Print Assumptions c09_write_head.
Print Assumptions c09_try_read_100.
Print Assumptions c09_write_body.
Print Assumptions c09_direct_write.
Print Assumptions c09_send_body_queries.
Print Assumptions c09_try_response.
Print Assumptions c09_read.
Print Assumptions c09_read_after_err.
Print Assumptions c09_stop.
Print Assumptions c09_recv_body_queries.
Print Assumptions c09_redirect_proceed.
Print Assumptions c09_as_new_flow.
Print Assumptions c09_ready_iff.
Print Assumptions c09_await_100_proceed.
Print Assumptions c09_successor.
Print Assumptions c09_successor_c06.
Print Assumptions c09_body_due.
Print Assumptions c09_step.
Print Assumptions c09_usable.
Print Assumptions c09_history.
Print Assumptions c09_history_from.
Print Assumptions c09_history_prefix.
Print Assumptions c09_known_refuted.
Print Assumptions c09_history_nonvacuous.
Print Assumptions c09_redirect_nonvacuous.
Print Assumptions c09_premature_nonvacuous.
Print Assumptions c09_code_need_request_body.
Print Assumptions c09_hist_step.
Print Assumptions c09_hist_flags.
Print Assumptions c09_successor_hist.
Print Assumptions c09_successor_hist_tag.
Print Assumptions c09_graph_head.
Print Assumptions c09_graph_await.
Print Assumptions c09_graph_response.
Print Assumptions c09_graph_body.
Print Assumptions c09_successor_hist_nonvacuous.
Print Assumptions c09_expect_added_not_honoured.
Print Assumptions c09_refusal_blocks.
Print Assumptions c09_tracked_never_misuse.
Print Assumptions c09_step2.
Print Assumptions c09_history2.
Print Assumptions c09_admissible2.
Print Assumptions c09_successor_hist2.
Print Assumptions c09_history2_nonvacuous.
Print Assumptions c09_raw_then_tracked_panics.
Print Assumptions c09_decided_wire.
Print Assumptions c09_sees_100_wire.
Print Assumptions c09_wire_tests_nonvacuous.
Print Assumptions c09_hist_method.

(* ================================================================== the successor decisions of the code itself (translated from the source) *)
(** The five [proceed] functions of src/client/flow.rs that branch are translated on every run by tools/rs2coq2.py as decision
    skeletons ([theories/Gen2.v], [gen_next_*]: the conditions of the Rust function over its flags -- can_proceed(), should_send_body,
    await_100_continue, need_response_body(), is_close_delimited(), is_redirect() --, the XxxResult variant each path returns and
    the close reasons added on the way; everything that only moves values between typestate wrappers is skipped).
    proofs/Gen2_equiv_flow.v proves: whenever the model's [proceed] succeeds, the successor it yields (or "stays") is the one the
    translated decision computes from the model's own flags, and the close reasons it adds are the ones the code adds.  So the
    successor clauses of c09_successor / c09_step are tied to the source text by proof: a change of one of these decisions
    (e.g. entering Redirect only with a Location, dropping the Await100 edge) changes Gen2.v and the tables below no longer hold.
    The tables are proved by evaluating the generated boolean functions on all combinations of flags, so any equivalent nesting
    or ordering of the tests is accepted.  Trusted: the translator (which statements it skips). *)
From Hoot Require Import GenLib Gen2.
From Hoot.proofs Require Import Gen2_equiv_flow_graph.
Theorem c09_code_send_request_table : forall cp ssb aw,
  gen_next_send_request cp ssb aw =
  (if negb cp then None else Some (if ssb then (if aw then TAwait100 else TSendBody) else TRecvResponse), []).
Proof. exact gen_next_send_request_table. Qed.
Theorem c09_code_await_100_table : forall ssb, gen_next_await_100 ssb = (Some (if ssb then TSendBody else TRecvResponse), []).
Proof. exact gen_next_await_100_table. Qed.
Theorem c09_code_send_body_table : forall cp, gen_next_send_body cp = (if negb cp then None else Some TRecvResponse, []).
Proof. exact gen_next_send_body_table. Qed.
Theorem c09_code_recv_response_table : forall cp nb cd ir,
  gen_next_recv_response cp nb cd ir =
  if negb cp then (None, [])
  else if nb then (Some TRecvBody, if cd then [CloseDelimitedBody] else [])
  else (Some (if ir then TRedirect else TCleanup), []).
Proof. exact gen_next_recv_response_table. Qed.
Theorem c09_code_recv_body_table : forall cp ir,
  gen_next_recv_body cp ir = (if negb cp then None else Some (if ir then TRedirect else TCleanup), []).
Proof. exact gen_next_recv_body_table. Qed.
Theorem c09_code_send_request : forall f r,
  send_request_proceed f = Ok r ->
  exists cp, send_request_can_proceed f = Ok cp /\
             fst (gen_next_send_request cp (i_should_send_body f) (i_await_100 f)) = option_map fst r /\
             snd (gen_next_send_request cp (i_should_send_body f) (i_await_100 f)) = [].
Proof. exact gen_next_send_request_ok. Qed.
Theorem c09_code_await_100 : forall f t f',
  await_100_proceed f = Ok (t, f') -> gen_next_await_100 (i_should_send_body f) = (Some t, []).
Proof. exact gen_next_await_100_ok. Qed.
Theorem c09_code_send_body : forall f r,
  send_body_proceed f = Ok r ->
  exists cp, send_body_can_proceed f = Ok cp /\ gen_next_send_body cp = (option_map fst r, []).
Proof. exact gen_next_send_body_ok. Qed.
Theorem c09_code_recv_response : forall f r,
  recv_response_proceed f = Ok r ->
  exists cp, recv_response_can_proceed f = Ok cp /\
    let g := gen_next_recv_response cp (need_response_body (i_call f)) (close_flag f) (is_redirect f) in
    fst g = option_map fst r /\
    match r with
    | Some (_, f') => add_all (i_reasons f) (snd g) = Ok (i_reasons f')
    | None => snd g = []
    end.
Proof. exact gen_next_recv_response_ok. Qed.
Theorem c09_code_recv_body : forall f r,
  recv_body_proceed f = Ok r ->
  exists cp, recv_body_can_proceed f = Ok cp /\ gen_next_recv_body cp (is_redirect f) = (option_map fst r, []).
Proof. exact gen_next_recv_body_ok. Qed.
Print Assumptions c09_code_send_request_table.
Print Assumptions c09_code_await_100_table.
Print Assumptions c09_code_send_body_table.
Print Assumptions c09_code_recv_response_table.
Print Assumptions c09_code_recv_body_table.
Print Assumptions c09_code_send_request.
Print Assumptions c09_code_await_100.
Print Assumptions c09_code_send_body.
Print Assumptions c09_code_recv_response.
Print Assumptions c09_code_recv_body.

(* ================================================================== the flags the decisions read (translated from the source) *)
(** The decision skeletons above take [is_redirect], [need_response_body] and the receiving state's [can_proceed] as flags.  The
    functions that compute them -- [Inner::is_redirect] (3xx except 304), [BodyState::need_response_body] (no body / zero length),
    [Call<RecvBody>::is_ended] / [is_close_delimited] / [is_on_chunk_boundary] and [Flow<RecvBody>::can_proceed] -- are translated
    on every run as well and proved equal to the model's (proofs/Gen2_equiv_small_flags.v; a panic for a panic: the unwrap of a
    missing reader). *)
From Hoot.proofs Require Import Gen2_equiv_small_flags.
Theorem c09_code_is_redirect : forall f, gen_inner_is_redirect (i_status f) = is_redirect f.
Proof. exact gen_inner_is_redirect_eq. Qed.
Print Assumptions c09_code_is_redirect.
Theorem c09_code_need_response_body : forall c, gen_need_response_body (c_reader c) = need_response_body c.
Proof. exact gen_need_response_body_eq. Qed.
Print Assumptions c09_code_need_response_body.
Theorem c09_code_recv_body_can_proceed : forall f,
  i_holder f = HRecvBody ->
  same_res (gen_recv_body_can_proceed (c_reader (i_call f))) (recv_body_can_proceed f).
Proof. exact gen_recv_body_can_proceed_eq. Qed.
Print Assumptions c09_code_recv_body_can_proceed.
Theorem c09_code_call_reader_questions : forall c,
  same_res (gen_call_is_ended (c_reader c)) (bind (reader_of c) (fun r => Ok (reader_is_ended r))) /\
  same_res (gen_call_is_close_delimited (c_reader c)) (bind (reader_of c) (fun r => Ok (reader_is_close r))) /\
  same_res (gen_call_is_on_chunk_boundary (c_reader c)) (bind (reader_of c) (fun r => Ok (reader_on_boundary r))).
Proof.
  intros c. split; [exact (gen_call_is_ended_eq c)|split; [exact (gen_call_is_close_delimited_eq c)|exact (gen_call_is_on_chunk_boundary_eq c)]].
Qed.
Print Assumptions c09_code_call_reader_questions.

(* ================================================================== the tests behind can_proceed (translated from the source) *)
(** Phase::is_prelude / is_body, the three is_finished functions of the calls, the guard of do_into_receive, Call::into_body and
    Flow<SendRequest>::can_proceed are translated on every run and proved to be the model's tests (proofs/Gen2_equiv_small_proceed.v). *)
From Hoot.proofs Require Import Gen2_equiv_small_proceed.
Theorem c09_code_phase_tests : forall p, gen_phase_is_prelude p = is_prelude p /\ gen_phase_is_body p = is_body p.
Proof. intros p. split; [apply gen_phase_is_prelude_eq|apply gen_phase_is_body_eq]. Qed.
Print Assumptions c09_code_phase_tests.
Theorem c09_code_is_finished : forall c,
  gen_call_wob_is_finished (c_phase c) = negb (is_prelude (c_phase c)) /\
  gen_call_wb_is_finished (w_mode (c_writer c)) (w_ended (c_writer c)) = w_ended (c_writer c) /\
  gen_call_rr_is_finished (c_reader c) = match c_reader c with Some _ => true | None => false end.
Proof. intros c. split; [apply gen_call_wob_is_finished_eq|split; [apply gen_call_wb_is_finished_eq|apply gen_call_rr_is_finished_eq]]. Qed.
Print Assumptions c09_code_is_finished.
Theorem c09_code_do_into_receive : forall c,
  match into_receive c with
  | Ok _ => gen_do_into_receive (w_mode (c_writer c)) (w_ended (c_writer c)) = Ok (w_mode (c_writer c), w_ended (c_writer c), tt)
  | Err e => gen_do_into_receive (w_mode (c_writer c)) (w_ended (c_writer c)) = Err e
  | Panic _ => False
  end.
Proof. exact gen_do_into_receive_eq. Qed.
Print Assumptions c09_code_do_into_receive.
Theorem c09_code_into_body : forall r,
  gen_call_into_body r =
  match r with
  | None => Err IncompleteResponse
  | Some RNoBody => Ok None
  | Some _ => Ok (Some tt)
  end.
Proof. exact gen_call_into_body_table. Qed.
Print Assumptions c09_code_into_body.
Theorem c09_code_send_request_can_proceed : forall f,
  match send_request_can_proceed f, gen_send_request_can_proceed (holder_view_of f) with
  | Ok a, Ok b => a = b
  | Panic _, Panic _ => True
  | _, _ => False
  end.
Proof. exact gen_send_request_can_proceed_eq. Qed.
Print Assumptions c09_code_send_request_can_proceed.
