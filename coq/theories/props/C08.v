(** Property C08 -- Length- and close-delimited response bodies arrive verbatim, never over-read.
    Statements only; proofs are in proofs/C08_proofs.v. *)
From Hoot Require Import Base Chunk Body Parser Request Call Flow.
From Hoot.proofs Require Import C08_proofs.
Open Scope N_scope.

(** One read with Content-Length: moves min(input, output space, remaining) bytes, verbatim. *)
Theorem c08_len_step : forall c lft win cap,
  c_reader c = Some (RLength lft) ->
  call_read c win cap =
    let n := N.min (N.min (len win) cap) lft in
    Ok (set_reader c (Some (RLength (lft - n))), n, take n win).
Proof. exact read_length. Qed.

(** Every schedule of arrivals and output sizes, of any length, over any stream (body followed by
    arbitrary further bytes): consumed + remaining = N, hence never a byte beyond N is consumed; the
    delivered bytes are exactly the first [consumed] bytes after the head, in order. *)
Theorem c08_len_invariant : forall stream total c sched,
  c_reader c = Some (RLength total) ->
  exists lft,
    c_reader (r_call (rrun stream (rstart c) sched)) = Some (RLength lft) /\
    r_consumed (rrun stream (rstart c) sched) + lft = total /\
    r_delivered (rrun stream (rstart c) sched) = take (r_consumed (rrun stream (rstart c) sched)) stream.
Proof. intros. exact (invlen_run stream total sched (rstart c) (invlen_start stream total c H)). Qed.

(** The body is complete exactly when N bytes were delivered (remaining = 0). *)
Theorem c08_len_complete : forall lft, reader_is_ended (RLength lft) = (lft =? 0).
Proof. reflexivity. Qed.

(** Close-delimited: every offered byte that fits is passed through unchanged; the delivered bytes
    are exactly the consumed prefix of the stream, for every schedule. *)
Theorem c08_close_step : forall c win cap,
  c_reader c = Some RClose ->
  call_read c win cap = let n := N.min (len win) cap in Ok (set_reader c (Some RClose), n, take n win).
Proof. exact read_close. Qed.

Theorem c08_close_invariant : forall stream c sched,
  c_reader c = Some RClose ->
  c_reader (r_call (rrun stream (rstart c) sched)) = Some RClose /\
  r_delivered (rrun stream (rstart c) sched) = take (r_consumed (rrun stream (rstart c) sched)) stream.
Proof.
  intros. apply (invclose_run stream sched (rstart c)). split; [assumption|]. cbn. destruct stream; reflexivity.
Qed.

(** A close-delimited body may proceed at any time ... *)
Theorem c08_close_proceed : forall f c,
  i_holder f = HRecvBody -> i_call f = c -> c_reader c = Some RClose ->
  recv_body_can_proceed f = Ok true.
Proof.
  intros f c Hh Hc Hr. unfold recv_body_can_proceed, as_recv_body, reader_of. rewrite Hh, Hc. cbn. rewrite Hr. reflexivity.
Qed.

(** ... and the connection is always marked for closing when its body state is entered. *)
Theorem c08_close_mustclose : forall f,
  i_holder f = HRecvResponse -> c_reader (i_call f) = Some RClose -> NoDup (i_reasons f) ->
  exists f', recv_response_proceed f = Ok (Some (TRecvBody, f')) /\
             In CloseDelimitedBody (i_reasons f') /\ must_close f' = true /\
             c_reader (i_call f') = Some RClose /\ i_holder f' = HRecvBody.
Proof. exact close_delimited_marks. Qed.

(** Non-vacuity: N = 3, stream "abc" followed by "HTTP", reads of 2 then 100 bytes with everything arrived. *)
Definition demo_call (r : reader) : call :=
  {| c_req := am_new placeholder; c_analyzed := true; c_phase := PRecvBody;
     c_writer := new_none; c_reader := Some r; c_skip := false; c_stop := false |}.

Example c08_nonvacuous :
  let t := rrun [97; 98; 99; 72; 84; 84; 80] (rstart (demo_call (RLength 3))) [(100, 2); (100, 100); (100, 100)] in
  r_consumed t = 3 /\ r_delivered t = [97; 98; 99] /\ c_reader (r_call t) = Some (RLength 0).
Proof. vm_compute. auto. Qed.

Print Assumptions c08_len_step.
Print Assumptions c08_len_invariant.
Print Assumptions c08_len_complete.
Print Assumptions c08_close_step.
Print Assumptions c08_close_invariant.
Print Assumptions c08_close_proceed.
Print Assumptions c08_close_mustclose.
Print Assumptions c08_nonvacuous.
