(** Property C08 -- Length- and close-delimited response bodies arrive verbatim, never over-read.
    Statements only; proofs are in proofs/C08_proofs.v. *)
From Coq Require Import Lia.
From Hoot Require Import Base Chunk Body Parser Url Request Call Flow Script.
From Hoot.proofs Require Import C06_proofs C06_spec C06_more C08_proofs C08_flowrun C08_head.
Open Scope N_scope.

(** One read with Content-Length: moves min(input, output space, remaining) bytes, verbatim. *)
Theorem c08_len_step : forall c lft win cap,
  c_reader c = Some (RLength lft) ->
  call_read c win cap =
    let n := N.min (N.min (len win) cap) lft in
    Ok (set_reader c (Some (RLength (lft - n))), n, take n win).
Proof. exact read_length. Qed.

(** Every schedule of arrivals and output sizes, of any length, over any stream (body followed by
    arbitrary further bytes): consumed + remaining = N, hence never a byte beyond N is consumed; the
    delivered bytes are exactly the first [consumed] bytes after the head, in order. *)
Theorem c08_len_invariant : forall stream total c sched,
  c_reader c = Some (RLength total) ->
  exists lft,
    c_reader (r_call (rrun stream (rstart c) sched)) = Some (RLength lft) /\
    r_consumed (rrun stream (rstart c) sched) + lft = total /\
    r_delivered (rrun stream (rstart c) sched) = take (r_consumed (rrun stream (rstart c) sched)) stream.
Proof. intros. exact (invlen_run stream total sched (rstart c) (invlen_start stream total c H)). Qed.

(** The body is complete exactly when N bytes were delivered (remaining = 0). *)
Theorem c08_len_complete : forall lft, reader_is_ended (RLength lft) = (lft =? 0).
Proof. reflexivity. Qed.

(** Close-delimited: every offered byte that fits is passed through unchanged; the delivered bytes
    are exactly the consumed prefix of the stream, for every schedule. *)
Theorem c08_close_step : forall c win cap,
  c_reader c = Some RClose ->
  call_read c win cap = let n := N.min (len win) cap in Ok (set_reader c (Some RClose), n, take n win).
Proof. exact read_close. Qed.

Theorem c08_close_invariant : forall stream c sched,
  c_reader c = Some RClose ->
  c_reader (r_call (rrun stream (rstart c) sched)) = Some RClose /\
  r_delivered (rrun stream (rstart c) sched) = take (r_consumed (rrun stream (rstart c) sched)) stream.
Proof.
  intros. apply (invclose_run stream sched (rstart c)). split; [assumption|]. cbn. destruct stream; reflexivity.
Qed.

(** A close-delimited body may proceed at any time ... *)
Theorem c08_close_proceed : forall f c,
  i_holder f = HRecvBody -> i_call f = c -> c_reader c = Some RClose ->
  recv_body_can_proceed f = Ok true.
Proof.
  intros f c Hh Hc Hr. unfold recv_body_can_proceed, as_recv_body, reader_of. rewrite Hh, Hc. cbn. rewrite Hr. reflexivity.
Qed.

(** ... and the connection is always marked for closing when its body state is entered. *)
Theorem c08_close_mustclose : forall f,
  i_holder f = HRecvResponse -> c_reader (i_call f) = Some RClose -> NoDup (i_reasons f) ->
  exists f', recv_response_proceed f = Ok (Some (TRecvBody, f')) /\
             In CloseDelimitedBody (i_reasons f') /\ must_close f' = true /\
             c_reader (i_call f') = Some RClose /\ i_holder f' = HRecvBody.
Proof. exact close_delimited_marks. Qed.

(** Non-vacuity: N = 3, stream "abc" followed by "HTTP", reads of 2 then 100 bytes with everything arrived. *)
Definition demo_call (r : reader) : call :=
  {| c_req := am_new placeholder; c_analyzed := true; c_phase := PRecvBody;
     c_writer := new_none; c_reader := Some r; c_skip := false; c_stop := false |}.

Example c08_nonvacuous :
  let t := rrun [97; 98; 99; 72; 84; 84; 80] (rstart (demo_call (RLength 3))) [(100, 2); (100, 100); (100, 100)] in
  r_consumed t = 3 /\ r_delivered t = [97; 98; 99] /\ c_reader (r_call t) = Some (RLength 0).
Proof. vm_compute. auto. Qed.

(* ====================================================================================== *)
(** * Strengthening after review 2: the observation points ([Flow<RecvBody>::read], [can_proceed],
    [proceed]) over whole schedules

    [frun stream t sched] (proofs/C08_flowrun.v) runs a schedule of items (k, cap, stop) through the
    flow: set stop-on-chunk-boundary to [stop], then read with the first [k] unconsumed stream bytes as
    input and [cap] bytes of output space.  The run FAILS as soon as one read fails, so "= Ok t" below
    says that no read of the schedule fails (this excludes the "reader that always errs" reading of the
    totalised [rrun] above).  [same_shell f f']: holder, close reasons, status, location unchanged. *)

(** Content-Length N, any schedule, any stream (body followed by anything): no read fails; the
    reader counts down from N; never more than N is consumed; what was delivered is exactly the
    consumed prefix of the stream; and the body is complete -- [can_proceed] answers true -- exactly
    when N bytes were consumed, equivalently delivered. *)
Theorem c08_len_complete_run : forall stream total f sched,
  i_holder f = HRecvBody -> c_reader (i_call f) = Some (RLength total) ->
  exists t,
    frun stream (fstart f) sched = Ok t /\
    i_holder (ft_flow t) = HRecvBody /\
    c_reader (i_call (ft_flow t)) = Some (RLength (total - ft_consumed t)) /\
    ft_consumed t <= total /\
    ft_out t = take (ft_consumed t) stream /\ len (ft_out t) = ft_consumed t /\
    recv_body_can_proceed (ft_flow t) = Ok (ft_consumed t =? total) /\
    (recv_body_can_proceed (ft_flow t) = Ok true <-> ft_consumed t = total) /\
    (recv_body_can_proceed (ft_flow t) = Ok true <-> len (ft_out t) = total) /\
    same_shell f (ft_flow t).
Proof. exact len_complete_run. Qed.

(** Close-delimited, any schedule: no read fails; every delivered byte is the next stream byte; the
    flow may proceed after every read (and [proceed] then leaves the body state); the close reasons,
    hence [must_close], are not touched by reading. *)
Theorem c08_close_run : forall stream f sched,
  i_holder f = HRecvBody -> c_reader (i_call f) = Some RClose ->
  exists t,
    frun stream (fstart f) sched = Ok t /\
    i_holder (ft_flow t) = HRecvBody /\ c_reader (i_call (ft_flow t)) = Some RClose /\
    ft_out t = take (ft_consumed t) stream /\ len (ft_out t) = ft_consumed t /\
    recv_body_can_proceed (ft_flow t) = Ok true /\
    recv_body_proceed (ft_flow t) = Ok (Some (if is_redirect f then TRedirect else TCleanup, ft_flow t)) /\
    same_shell f (ft_flow t) /\ must_close (ft_flow t) = must_close f.
Proof. exact close_run. Qed.

(** "The connection is always marked for closing", from the head to the end: entering the body state
    with a close-delimited reader records the reason, and after any reads, and in the flow handed to
    the Redirect / Cleanup state, [must_close] still holds. *)
Theorem c08_close_mustclose_persists : forall f,
  i_holder f = HRecvResponse -> c_reader (i_call f) = Some RClose -> NoDup (i_reasons f) ->
  exists f1,
    recv_response_proceed f = Ok (Some (TRecvBody, f1)) /\
    forall stream sched,
      exists t tg,
        frun stream (fstart f1) sched = Ok t /\
        In CloseDelimitedBody (i_reasons (ft_flow t)) /\ must_close (ft_flow t) = true /\
        recv_body_proceed (ft_flow t) = Ok (Some (tg, ft_flow t)) /\ (tg = TRedirect \/ tg = TCleanup).
Proof. exact close_mustclose_persists. Qed.

(** A single read on a length-delimited, close-delimited or absent body never fails, on any input. *)
Theorem c08_read_never_fails : forall f r win cap,
  i_holder f = HRecvBody -> c_reader (i_call f) = Some r ->
  (forall d, r <> RChunked d) ->
  exists f' i o, recv_body_read f win cap = Ok (f', i, o) /\ same_shell f f'.
Proof. exact read_never_fails. Qed.

(** ** "A response with Content-Length N" / "a close-delimited response": from the head to the reads

    [framing] is the body-framing rule of C06 written from the statement (proofs/C06_spec.v);
    since the repair of the C06 redirect finding the code follows it without exception.  The
    hypotheses speak about the response [rsp] that [try_response] actually returned. *)

(** The body state is entered with the reader the rule prescribes for the parsed head. *)
Theorem c08_from_head : forall f input f' used rsp r,
  i_holder f = HRecvResponse -> NoDup (i_reasons f) ->
  recv_try_response f input = Ok (f', used, Some rsp) -> rs_status rsp <> 100 ->
  let hd := method_eqb (am_method (c_req (i_call f))) HEAD in
  let cn := method_eqb (am_method (c_req (i_call f))) CONNECT in
  let v11 := negb (rs_version rsp =? 0) in
  let cl := lookup_text (rs_headers rsp) (s2b "content-length") in
  let te := lookup_text (rs_headers rsp) (s2b "transfer-encoding") in
  framing hd cn (rs_status rsp) v11 cl te (Ok r) ->
  exists f'',
    recv_response_proceed f' = Ok (Some (successor r (rs_status rsp), f'')) /\
    c_reader (i_call f'') = Some r /\ i_holder f'' = HRecvBody /\ NoDup (i_reasons f') /\
    c_reader (i_call f') = Some r /\ i_holder f' = HRecvResponse.
Proof. exact from_head. Qed.

(** Content-Length N > 0, end to end: after the head the flow enters the body state, and over any
    schedule on any stream no read fails, at most N bytes are consumed, the delivered bytes are the
    consumed prefix, the flow may proceed exactly when N were consumed, and reading does not change
    whether the connection must be closed. *)
Theorem c08_length_end_to_end : forall f input f' used rsp n,
  i_holder f = HRecvResponse -> NoDup (i_reasons f) ->
  recv_try_response f input = Ok (f', used, Some rsp) -> rs_status rsp <> 100 ->
  let hd := method_eqb (am_method (c_req (i_call f))) HEAD in
  let cn := method_eqb (am_method (c_req (i_call f))) CONNECT in
  let v11 := negb (rs_version rsp =? 0) in
  let cl := lookup_text (rs_headers rsp) (s2b "content-length") in
  let te := lookup_text (rs_headers rsp) (s2b "transfer-encoding") in
  framing hd cn (rs_status rsp) v11 cl te (Ok (RLength n)) -> n <> 0 ->
  exists f'',
    recv_response_proceed f' = Ok (Some (TRecvBody, f'')) /\
    forall stream sched,
      exists t,
        frun stream (fstart f'') sched = Ok t /\
        ft_consumed t <= n /\ ft_out t = take (ft_consumed t) stream /\ len (ft_out t) = ft_consumed t /\
        (recv_body_can_proceed (ft_flow t) = Ok true <-> ft_consumed t = n) /\
        must_close (ft_flow t) = must_close f'.
Proof. exact length_end_to_end. Qed.

(** Close-delimited, end to end: the body state is entered with the connection marked for closing;
    over any schedule no read fails, what is consumed is delivered unchanged, the flow may proceed
    after every read, and the mark and its reason stay. *)
Theorem c08_close_end_to_end : forall f input f' used rsp,
  i_holder f = HRecvResponse -> NoDup (i_reasons f) ->
  recv_try_response f input = Ok (f', used, Some rsp) -> rs_status rsp <> 100 ->
  let hd := method_eqb (am_method (c_req (i_call f))) HEAD in
  let cn := method_eqb (am_method (c_req (i_call f))) CONNECT in
  let v11 := negb (rs_version rsp =? 0) in
  let cl := lookup_text (rs_headers rsp) (s2b "content-length") in
  let te := lookup_text (rs_headers rsp) (s2b "transfer-encoding") in
  framing hd cn (rs_status rsp) v11 cl te (Ok RClose) ->
  exists f'',
    recv_response_proceed f' = Ok (Some (TRecvBody, f'')) /\ must_close f'' = true /\
    forall stream sched,
      exists t,
        frun stream (fstart f'') sched = Ok t /\
        ft_out t = take (ft_consumed t) stream /\ len (ft_out t) = ft_consumed t /\
        recv_body_can_proceed (ft_flow t) = Ok true /\ must_close (ft_flow t) = true /\
        In CloseDelimitedBody (i_reasons (ft_flow t)).
Proof. exact close_end_to_end. Qed.

(** ** Non-vacuity on flows produced by RUNNING the model (GET http://a.test/x, head written, the
    response head parsed from a stream in which the body and the start of a next response follow) *)

Definition ex_uri : uri := {| u_scheme := s2b "http"; u_auth := s2b "a.test"; u_pq := s2b "/x" |}.
Definition ex_get : request := {| rq_method := GET; rq_version := V11; rq_uri := ex_uri; rq_headers := [] |}.
Definition after_bytes : bytes := s2b "abcHTTP/1.1 200".
Definition to_head (resp : bytes) : list op :=
  [ONew ex_get; OProceed; OWriteHead 1000; OProceed; OSetStream (resp ++ after_bytes); OArrive 1000; OTryResponse].
Definition to_body (resp : bytes) : list op := to_head resp ++ [OProceed].
Definition flow_at (ops : list op) : option (tag * inner) :=
  match s_obj (run_ops s_init ops) with ObFlow t f => Some (t, f) | _ => None end.

Definition resp_len3 : bytes := s2b "HTTP/1.1 200 OK" ++ CRLF ++ s2b "content-length: 3" ++ CRLF ++ CRLF.
Definition resp_close : bytes := s2b "HTTP/1.1 200 OK" ++ CRLF ++ s2b "server: x" ++ CRLF ++ CRLF.

(** Content-Length 3: after a 2-byte read the flow may not proceed; after the third byte it may, the
    bytes of the next response are untouched, and the connection is not marked for closing. *)
Example c08_len_run_nonvacuous :
  exists f, flow_at (to_body resp_len3) = Some (TRecvBody, f) /\
    i_holder f = HRecvBody /\ c_reader (i_call f) = Some (RLength 3) /\
    (exists t, frun after_bytes (fstart f) [(100, 2, false)] = Ok t /\
               ft_consumed t = 2 /\ ft_out t = s2b "ab" /\ recv_body_can_proceed (ft_flow t) = Ok false) /\
    (exists t, frun after_bytes (fstart f) [(100, 2, false); (100, 100, true); (100, 100, false)] = Ok t /\
               ft_consumed t = 3 /\ ft_out t = s2b "abc" /\ recv_body_can_proceed (ft_flow t) = Ok true /\
               recv_body_proceed (ft_flow t) = Ok (Some (TCleanup, ft_flow t)) /\ must_close (ft_flow t) = false).
Proof.
  eexists. split; [vm_compute; reflexivity|]. split; [vm_compute; reflexivity|]. split; [vm_compute; reflexivity|].
  split; eexists; (split; [vm_compute; reflexivity|]); repeat split; vm_compute; reflexivity.
Qed.

(** No framing header on a 200: the state reached by the model satisfies the hypotheses of
    [c08_close_mustclose(_persists)]; the body state is entered with [must_close]; reads pass
    everything offered through (here also the bytes that look like a next response: until the
    connection closes they ARE body); the flow may proceed at any point, to Cleanup, still marked, with
    the close-delimited reason reported. *)
Example c08_close_nonvacuous :
  exists f0 f, flow_at (to_head resp_close) = Some (TRecvResponse, f0) /\
    i_holder f0 = HRecvResponse /\ c_reader (i_call f0) = Some RClose /\ i_reasons f0 = [] /\
    recv_response_proceed f0 = Ok (Some (TRecvBody, f)) /\
    flow_at (to_body resp_close) = Some (TRecvBody, f) /\
    i_holder f = HRecvBody /\ c_reader (i_call f) = Some RClose /\ must_close f = true /\
    recv_body_can_proceed f = Ok true /\
    exists t, frun after_bytes (fstart f) [(3, 2, false); (100, 100, true); (100, 5, false)] = Ok t /\
              ft_consumed t = len after_bytes /\ ft_out t = after_bytes /\
              recv_body_can_proceed (ft_flow t) = Ok true /\
              recv_body_proceed (ft_flow t) = Ok (Some (TCleanup, ft_flow t)) /\
              must_close (ft_flow t) = true /\
              close_reason (ft_flow t) = Some (s2b "response body is close delimited").
Proof.
  do 2 eexists. split; [vm_compute; reflexivity|]. split; [vm_compute; reflexivity|].
  split; [vm_compute; reflexivity|]. split; [vm_compute; reflexivity|]. split; [vm_compute; reflexivity|].
  split; [vm_compute; reflexivity|]. split; [vm_compute; reflexivity|]. split; [vm_compute; reflexivity|].
  split; [vm_compute; reflexivity|]. split; [vm_compute; reflexivity|].
  eexists. split; [vm_compute; reflexivity|]. repeat split; vm_compute; reflexivity.
Qed.

(** The hypotheses of the end-to-end theorems on the model's flow in RecvResponse: the head with
    "content-length: 3" is prescribed [RLength 3] by the rule, the head without framing header
    [RClose]. *)
Example c08_end_to_end_nonvacuous :
  exists f, flow_at [ONew ex_get; OProceed; OWriteHead 1000; OProceed] = Some (TRecvResponse, f) /\
    i_holder f = HRecvResponse /\ i_reasons f = [] /\
    (exists f' rsp,
       recv_try_response f (resp_len3 ++ after_bytes) = Ok (f', len resp_len3, Some rsp) /\ rs_status rsp = 200 /\
       framing (method_eqb (am_method (c_req (i_call f))) HEAD) (method_eqb (am_method (c_req (i_call f))) CONNECT)
               (rs_status rsp) (negb (rs_version rsp =? 0))
               (lookup_text (rs_headers rsp) (s2b "content-length"))
               (lookup_text (rs_headers rsp) (s2b "transfer-encoding")) (Ok (RLength 3))) /\
    (exists f' rsp,
       recv_try_response f (resp_close ++ after_bytes) = Ok (f', len resp_close, Some rsp) /\ rs_status rsp = 200 /\
       framing (method_eqb (am_method (c_req (i_call f))) HEAD) (method_eqb (am_method (c_req (i_call f))) CONNECT)
               (rs_status rsp) (negb (rs_version rsp =? 0))
               (lookup_text (rs_headers rsp) (s2b "content-length"))
               (lookup_text (rs_headers rsp) (s2b "transfer-encoding")) (Ok RClose)).
Proof.
  eexists. split; [vm_compute; reflexivity|]. split; [vm_compute; reflexivity|]. split; [vm_compute; reflexivity|].
  split.
  - do 2 eexists. split; [vm_compute; reflexivity|]. split; [vm_compute; reflexivity|].
    apply framing_model; [apply lookup_text_plain|vm_compute; reflexivity].
  - do 2 eexists. split; [vm_compute; reflexivity|]. split; [vm_compute; reflexivity|].
    apply framing_model; [apply lookup_text_plain|vm_compute; reflexivity].
Qed.

Print Assumptions c08_len_step.
Print Assumptions c08_len_invariant.
Print Assumptions c08_len_complete.
Print Assumptions c08_close_step.
Print Assumptions c08_close_invariant.
Print Assumptions c08_close_proceed.
Print Assumptions c08_close_mustclose.
Print Assumptions c08_nonvacuous.
Print Assumptions c08_len_complete_run.
Print Assumptions c08_close_run.
Print Assumptions c08_close_mustclose_persists.
Print Assumptions c08_read_never_fails.
Print Assumptions c08_len_run_nonvacuous.
Print Assumptions c08_close_nonvacuous.
Print Assumptions c08_from_head.
Print Assumptions c08_length_end_to_end.
Print Assumptions c08_close_end_to_end.
Print Assumptions c08_end_to_end_nonvacuous.

(* ================================================================== the code's own arithmetic (translated fragments) *)
(** The expressions that size one read of a Content-Length body and of a close-delimited body are translated from src/body.rs
    on every run (theories/Gen.v, FRAGMENTS of tools/rs2coq.py); proofs/Gen_equiv_frag.v proves them equal to "min(input, output
    space, remaining)" / "min(input, output space)" for all arguments and to what the model's reader computes. *)
From Hoot Require Import Gen.
From Hoot.proofs Require Import Gen_equiv_frag_c08.
Theorem c08_code_read_limit : forall src_len dst_len left, gen_read_limit_n src_len dst_len left = N.min (N.min src_len dst_len) left.
Proof. exact gen_read_limit_n_spec. Qed.
Theorem c08_code_read_unlimit : forall src_len dst_len, gen_read_unlimit_n src_len dst_len = N.min src_len dst_len.
Proof. exact gen_read_unlimit_n_spec. Qed.
Theorem c08_code_length_is_model : forall lft src room stop,
  reader_read (RLength lft) src room stop =
  Ok (RLength (lft - gen_read_limit_n (len src) room lft), gen_read_limit_n (len src) room lft,
      take (gen_read_limit_n (len src) room lft) src).
Proof. exact reader_read_length_gen. Qed.
Theorem c08_code_close_is_model : forall src room stop,
  reader_read RClose src room stop =
  Ok (RClose, gen_read_unlimit_n (len src) room, take (gen_read_unlimit_n (len src) room) src).
Proof. exact reader_read_close_gen. Qed.
Print Assumptions c08_code_read_limit.
Print Assumptions c08_code_read_unlimit.
Print Assumptions c08_code_length_is_model.
Print Assumptions c08_code_close_is_model.
Theorem c08_code_left_usize : forall left, left < 18446744073709551616 -> gen_read_left_usize left = left.
Proof. exact gen_read_left_usize_spec. Qed.
Print Assumptions c08_code_left_usize.

(* ================================================================== the readers' code itself (whole functions translated from the source) *)
(** [theories/Gen2.v] is regenerated on every run by tools/rs2coq2.py from src/body.rs ([BodyReader::read], [read_limit],
    [read_unlimit], [read_chunked], the queries); proofs/Gen2_equiv_body.v and Gen2_equiv_reader_chunked.v prove the translation
    equivalent to the model for every reader state, input and output buffer (declared lengths below 2^64, which is what the parser
    of Content-Length yields).  The two statements below are c08_len_step / c08_close_step about the code: exactly
    min(input, output room, remaining) resp. min(input, output room) bytes are copied to the front of the output buffer, the rest of
    the buffer is untouched, and the remaining length counts down by exactly that.  Trusted: the translator. *)
From Hoot Require Import GenLib Gen2.
From Hoot.proofs Require Import Gen2_equiv_rel Gen2_equiv_reader Gen2_transport_read_nc.
Theorem c08_code_read_equiv : forall r src dst stop,
  (forall d, r <> RChunked d) -> limit_fits r src dst ->
  rd_rel dst (gen_br_read r src dst stop) (reader_read r src (len dst) stop).
Proof. exact gen_br_read_nonchunked_equiv. Qed.
Theorem c08_code_len_step : forall lft src dst stop,
  lft < U64_LIMIT ->
  let n := N.min (N.min (len src) (len dst)) lft in
  gen_br_read (RLength lft) src dst stop = Ok (RLength (lft - n), take n src ++ drop (len (take n src)) dst, (n, len (take n src))).
Proof.
  intros lft src dst stop Hl n. apply gen_read_nc_ok_of_model; [discriminate|left; exact Hl|]. reflexivity.
Qed.
Theorem c08_code_close_step : forall src dst stop,
  let n := N.min (len src) (len dst) in
  gen_br_read RClose src dst stop = Ok (RClose, take n src ++ drop (len (take n src)) dst, (n, len (take n src))).
Proof.
  intros src dst stop n. apply gen_read_nc_ok_of_model; [discriminate|exact I|]. reflexivity.
Qed.
Theorem c08_code_is_ended : forall r, gen_br_is_ended r = reader_is_ended r.
Proof. exact gen_br_is_ended_eq. Qed.
Theorem c08_code_body_mode : forall r, gen_br_body_mode r = reader_mode r.
Proof. exact gen_br_body_mode_eq. Qed.
Example c08_code_nonvacuous :
  gen_br_read (RLength 3) (s2b "abcdef") [0; 0; 0; 0; 0] false = Ok (RLength 0, s2b "abc" ++ [0; 0], (3, 3))
  /\ gen_br_read RClose (s2b "abcdef") [0; 0] false = Ok (RClose, s2b "ab", (2, 2)).
Proof. vm_compute. split; reflexivity. Qed.
Print Assumptions c08_code_read_equiv.
Print Assumptions c08_code_len_step.
Print Assumptions c08_code_close_step.
Print Assumptions c08_code_is_ended.
Print Assumptions c08_code_body_mode.
Print Assumptions c08_code_nonvacuous.
