(** Property C19 -- Sending a body always makes progress when progress is possible.

    "A body write with non-empty input consumes at least one byte whenever the output buffer has room
    for the smallest chunk (6 bytes; 1 byte for a length-delimited body), and never less than it would
    have consumed had only the advertised maximum input for that buffer been offered; offering more
    input never reduces progress. A caller looping until its input is empty therefore terminates for
    every buffer of at least that size."

    Statements only; proofs are in proofs/C19_proofs.v (on top of proofs/C18_proofs.v). Everything is
    for unbounded input lengths and capacities. *)
From Hoot Require Import Base Chunk Body Request Call.
From Hoot.proofs Require Import C18_hex C18_proofs C04_proofs C19_proofs.
Open Scope N_scope.

(** What "consumed" means: one write of a non-empty input on a call in its chunked body phase (not
    finished) always succeeds, leaves the call unchanged and reports [consumed_n (len input) cap]
    bytes, where [consumed_n] is the closed arithmetic function of props/C18.v
    ([c18_consumed_n_unfold]); the output fits the capacity. *)
Theorem c19_consumed : forall c input cap,
  chunked_body c false -> input <> [] ->
  exists out, call_write_body c input cap = Ok (c, consumed_n (len input) cap, out) /\ len out <= cap.
Proof. exact call_chunked_ok. Qed.

(** Progress. Six bytes ("1\r\nX\r\n") are sufficient and necessary. *)
Theorem c19_progress : forall inlen cap,
  1 <= inlen -> 6 <= cap -> 1 <= consumed_n inlen cap.
Proof. exact progress_n. Qed.

Theorem c19_progress_call : forall c input cap,
  chunked_body c false -> 1 <= len input -> 6 <= cap ->
  exists used out, call_write_body c input cap = Ok (c, used, out) /\ 1 <= used.
Proof. exact progress_call. Qed.

Theorem c19_no_room : forall inlen cap, cap < 6 -> consumed_n inlen cap = 0.
Proof. exact no_room_n. Qed.

(** Length-delimited body: the count is min(capacity, input, remaining) (see [c04_write]), so one
    byte of room suffices. *)
Theorem c19_progress_sized : forall c lft input cap,
  sized_body c lft false -> 1 <= cap -> 1 <= lft -> 1 <= len input <= lft ->
  exists c' used out, call_write_body c input cap = Ok (c', used, out) /\ 1 <= used.
Proof. exact progress_sized_call. Qed.

(** Offering more input never reduces progress. *)
Theorem c19_mono_input : forall a b cap, a <= b -> consumed_n a cap <= consumed_n b cap.
Proof. exact consumed_mono_input. Qed.

(** Offering at least the advertised maximum consumes at least the advertised maximum. *)
Theorem c19_not_below_max : forall inlen cap,
  calculate_max_input cap <= inlen -> calculate_max_input cap <= consumed_n inlen cap.
Proof. exact not_below_max_n. Qed.

(** The caller loop [send_all] ("offer the unconsumed rest with [cap] bytes of room until the input
    is empty", fuel = input length, [None] = out of fuel or refused) always finishes. *)
Theorem c19_loop : forall c input cap out,
  chunked_body c false -> 6 <= cap ->
  exists out', send_all (List.length input) c input cap out = Some (c, out').
Proof. exact send_all_chunked. Qed.

Theorem c19_loop_sized : forall c lft input cap out,
  sized_body c lft false -> 1 <= cap -> len input <= lft ->
  exists c' ended',
    send_all (List.length input) c input cap out = Some (c', out ++ input) /\
    sized_body c' (lft - len input) ended'.
Proof. exact send_all_sized. Qed.

(** Non-vacuity: concrete calls satisfy the premises; 30000 bytes offered with 21 bytes of room (the
    witness that refuted this property before the repairs) now make progress; the loop sends
    40 bytes through a 6-byte buffer in exactly 40 rounds. *)
Definition demo_chunked : call :=
  {| c_req := am_new placeholder; c_analyzed := true; c_phase := PBody;
     c_writer := new_chunked; c_reader := None; c_skip := false; c_stop := false |}.
Definition demo_sized : call :=
  {| c_req := am_new placeholder; c_analyzed := true; c_phase := PBody;
     c_writer := new_sized 50; c_reader := None; c_skip := false; c_stop := false |}.

Example c19_nonvacuous :
  chunked_body demo_chunked false /\ sized_body demo_sized 50 false /\
  consumed_n 30000 21 = 15 /\ calculate_max_input 21 = 13 /\
  (match send_all 40 demo_chunked (repeat 97 40) 6 [] with
   | Some (_, out) => len out = 240
   | None => False
   end) /\
  send_all 39 demo_chunked (repeat 97 40) 6 [] = None /\
  (match send_all 40 demo_sized (repeat 97 40) 7 [] with
   | Some (c', out) => out = repeat 97 40 /\ left_to_send (c_writer c') = Some 10
   | None => False
   end).
Proof. vm_compute. repeat split. Qed.


(* ------------------------------------------------------------------ tie to the source by translation *)
(** The Rust functions below are translated to Gallina from the repository's CURRENT sources on every run
    (tools/rs2coq.py -> theories/Gen.v); they equal the model's functions for all arguments, so the theorems above
    hold for what the code says now. A change of one of these functions that is not an equivalent rewrite breaks the
    proof obligation here. *)
From Hoot Require Import Gen.
From Hoot.proofs Require Import Gen_equiv_body.
Theorem c19_code_max_chunk_fit : forall a m, gen_max_chunk_fit a m = max_chunk_fit a m.
Proof. exact gen_max_chunk_fit_eq. Qed.
Theorem c19_code_calculate_max_input : forall n, gen_calculate_max_input n = calculate_max_input n.
Proof. exact gen_calculate_max_input_eq. Qed.

(* ================================================================== strengthening (review 3) *)
(** Proofs: proofs/C18_reach.v, proofs/C19_more.v.

    LENGTH-DELIMITED BODIES.  For a sized body the clauses "never less than with the advertised maximum
    offered" and "offering more input never reduces progress" hold on the domain the writer ACCEPTS (input
    within what is left of the announced Content-Length): [c19_mono_input_sized], [c19_not_below_max_sized].
    Beyond that domain a write is not shortened, it is REFUSED for every capacity
    ([c19_sized_overoffer_refused], [Err BodyLargerThanContentLength]; an [Err] carries no call, no count and
    no output: nothing is consumed, the caller keeps the call it had), so the unrestricted reading of
    monotonicity is false: [c19_mono_unrestricted_refuted] (5 bytes left: offering 5 consumes 5, offering 6
    consumes nothing).  The property's quantifier ranges over (input length, output length) pairs "around
    multiples of the chunk size" and "whole-body loops with a fixed buffer size", i.e. over chunked writes and
    over callers sending the body they announced; it does not range over inputs exceeding the announced length
    (that refusal is property C04's clause).  The supported reading is the restricted one. *)
From Hoot Require Import Httparse Parser Url Flow Script.
From Hoot.proofs Require Import C17_proofs C18_reach C19_more.

Theorem c19_mono_input_sized : forall c lft i1 i2 cap c1 n1 o1,
  sized_body c lft false -> len i1 <= len i2 -> len i2 <= lft ->
  call_write_body c i1 cap = Ok (c1, n1, o1) ->
  exists c2 n2 o2, call_write_body c i2 cap = Ok (c2, n2, o2) /\ n1 <= n2.
Proof. exact mono_input_sized. Qed.

(** The advertised maximum for a sized body and a buffer of [cap] bytes is [cap] ([c18_advertised]).  Offering at
    least that much (within the announced length) gives exactly the result of offering the first [cap] bytes
    only, and [cap] bytes are consumed. *)
Theorem c19_not_below_max_sized : forall c lft input cap,
  sized_body c lft false -> cap <= len input -> len input <= lft ->
  call_write_body c input cap = call_write_body c (take cap input) cap /\
  exists c', call_write_body c input cap = Ok (c', cap, take cap input).
Proof. exact not_below_max_sized. Qed.

Theorem c19_sized_overoffer_refused : forall c lft input cap,
  sized_body c lft false -> lft < len input ->
  call_write_body c input cap = Err BodyLargerThanContentLength.
Proof. exact sized_refusal. Qed.

(** AT THE FLOW-LEVEL ENTRY POINT, BOTH FRAMINGS.  [accepts f input]: [f] is a flow in SendBody whose body is
    not finished, and [input] is anything (chunked) or within the rest of the announced length (sized). *)
Theorem c19_accepts_def : forall f input,
  accepts f input <->
  i_holder f = HWithBody /\
  (chunked_body (i_call f) false \/ exists lft, sized_body (i_call f) lft false /\ len input <= lft).
Proof. intros; reflexivity. Qed.

(** Progress: non-empty accepted input, room for the smallest chunk -- 6 bytes when [is_chunked] answers true, 1
    byte otherwise -- then at least one byte is consumed (and the output fits). *)
Theorem c19_progress_flow : forall f input cap b,
  accepts f input -> 1 <= len input ->
  send_body_is_chunked f = Ok b -> (if b then 6 else 1) <= cap ->
  exists f' used out, send_body_write f input cap = Ok (f', used, out) /\ 1 <= used /\ len out <= cap.
Proof. exact progress_flow. Qed.

(** Never less than the advertised maximum [m] the flow reports for that buffer, when at least [m] is offered. *)
Theorem c19_not_below_max_flow : forall f input cap m,
  accepts f input -> 1 <= len input ->
  send_body_max_input f cap = Ok m -> m <= len input ->
  exists f' used out, send_body_write f input cap = Ok (f', used, out) /\ m <= used.
Proof. exact not_below_max_flow. Qed.

(** Offering more (accepted) input never reduces progress. *)
Theorem c19_mono_flow : forall f i1 i2 cap,
  accepts f i2 -> 1 <= len i1 -> len i1 <= len i2 ->
  exists f1 u1 o1 f2 u2 o2,
    send_body_write f i1 cap = Ok (f1, u1, o1) /\ send_body_write f i2 cap = Ok (f2, u2, o2) /\ u1 <= u2.
Proof. exact mono_flow. Qed.

Theorem c19_refused_flow : forall f lft input cap,
  i_holder f = HWithBody -> sized_body (i_call f) lft false -> lft < len input ->
  send_body_write f input cap = Err BodyLargerThanContentLength.
Proof. exact flow_sized_refusal. Qed.

(** The caller loop on [Flow<SendBody>::write] ([send_all_flow]: [send_all] with [send_body_write]) finishes
    within [length input] rounds. *)
Theorem c19_send_all_flow_def : forall fuel f input cap out,
  send_all_flow fuel f input cap out =
    match input with
    | [] => Some (f, out)
    | _ :: _ =>
        match fuel with
        | O => None
        | S k =>
            match send_body_write f input cap with
            | Ok (f', used, o) => send_all_flow k f' (drop used input) cap (out ++ o)
            | _ => None
            end
        end
    end.
Proof. intros fuel f input; destruct fuel, input; reflexivity. Qed.

Theorem c19_loop_flow : forall f input cap out,
  i_holder f = HWithBody -> chunked_body (i_call f) false -> 6 <= cap ->
  exists out', send_all_flow (List.length input) f input cap out = Some (f, out').
Proof. exact loop_flow_chunked. Qed.

Theorem c19_loop_flow_sized : forall f lft input cap out,
  i_holder f = HWithBody -> sized_body (i_call f) lft false -> 1 <= cap -> len input <= lft ->
  exists f' e, send_all_flow (List.length input) f input cap out = Some (f', out ++ input) /\
               i_holder f' = HWithBody /\ sized_body (i_call f') (lft - len input) e.
Proof. exact loop_flow_sized. Qed.

(** Reachability: the flow [send_request_proceed] hands to SendBody (theorem [c18_send_body_reached] in
    props/C18.v gives [i_holder f = HWithBody] and [body_state_of c0 (i_call f)]) accepts every input when the
    request is chunked and every input within the announced Content-Length otherwise. *)
Theorem c19_reached_accepts : forall c0 f input,
  i_holder f = HWithBody -> body_state_of c0 (i_call f) ->
  (forall v t, has_chunked_te (c_req c0) = false -> cls (c_req c0) = v :: t -> len input <= dec_value v) ->
  accepts f input.
Proof. exact reached_accepts. Qed.

(** Examples REACHED BY RUNNING THE MODEL: POST through new / proceed / write_head / proceed. *)
Definition ex19_uri : uri := {| u_scheme := s2b "http"; u_auth := s2b "a.test"; u_pq := s2b "/up" |}.
Definition ex19_post (hs : list header) : request :=
  {| rq_method := POST; rq_version := V11; rq_uri := ex19_uri; rq_headers := hs |}.
Definition ex19_ops (hs : list header) : list op :=
  [ONew (ex19_post hs); OProceed; OWriteHead 1000; OProceed].

(** Chunked: [accepts] holds; 300 bytes offered with 21 bytes of room (the shape of the old F7 witness) consume
    15; with 5 bytes of room nothing; 40 bytes go through a 6-byte buffer in exactly 40 rounds. *)
Example c19_flow_nonvacuous_chunked :
  match s_obj (run_ops s_init (ex19_ops [])) with
  | ObFlow TSendBody f =>
      accepts f (repeat 97 300) /\ send_body_is_chunked f = Ok true /\
      send_body_max_input f 21 = Ok 13 /\
      (match send_body_write f (repeat 97 300) 21 with Ok (f', used, out) => f' = f /\ used = 15 /\ len out = 20
                                                  | _ => False end) /\
      (match send_body_write f (repeat 97 300) 5 with Ok (_, used, out) => used = 0 /\ out = [] | _ => False end) /\
      (match send_all_flow 40 f (repeat 97 40) 6 [] with Some (f', out) => f' = f /\ len out = 240 | None => False end) /\
      send_all_flow 39 f (repeat 97 40) 6 [] = None
  | _ => False
  end.
Proof. vm_compute. repeat split; auto. Qed.

(** Content-Length: 50 -- 40 bytes are accepted, go through a 7-byte buffer verbatim, 10 are left. *)
Example c19_flow_nonvacuous_sized :
  match s_obj (run_ops s_init (ex19_ops [(s2b "content-length", s2b "50")])) with
  | ObFlow TSendBody f =>
      accepts f (repeat 97 40) /\ send_body_is_chunked f = Ok false /\ send_body_max_input f 7 = Ok 7 /\
      (match send_body_write f (repeat 97 40) 1 with Ok (_, used, _) => used = 1 | _ => False end) /\
      (match send_all_flow 40 f (repeat 97 40) 7 [] with
       | Some (f', out) => out = repeat 97 40 /\ sized_body (i_call f') 10 false
       | None => False
       end)
  | _ => False
  end.
Proof.
  vm_compute. repeat split; auto. right. exists 50. vm_compute. repeat split; auto. discriminate.
Qed.

(** The unrestricted reading of monotonicity refuted on a model-reached call (Content-Length: 5): offering the 5
    announced bytes consumes 5; offering 6 is refused and consumes nothing. *)
Theorem c19_mono_unrestricted_refuted :
  exists f i1 i2 cap,
    s_obj (run_ops s_init (ex19_ops [(s2b "content-length", s2b "5")])) = ObFlow TSendBody f /\
    sized_body (i_call f) 5 false /\ len i1 <= len i2 /\
    (exists f1 o1, send_body_write f i1 cap = Ok (f1, 5, o1)) /\
    send_body_write f i2 cap = Err BodyLargerThanContentLength /\
    call_write_body (i_call f) i2 cap = Err BodyLargerThanContentLength.
Proof.
  eexists. exists (s2b "abcde"), (s2b "abcdef"), 10.
  split; [vm_compute; reflexivity|]. split; [vm_compute; repeat split|].
  split; [vm_compute; discriminate|]. split; [do 2 eexists; vm_compute; reflexivity|].
  split; vm_compute; reflexivity.
Qed.

Print Assumptions c19_consumed.
Print Assumptions c19_progress.
Print Assumptions c19_progress_call.
Print Assumptions c19_no_room.
Print Assumptions c19_progress_sized.
Print Assumptions c19_mono_input.
Print Assumptions c19_not_below_max.
Print Assumptions c19_loop.
Print Assumptions c19_loop_sized.
Print Assumptions c19_nonvacuous.
Print Assumptions c19_code_max_chunk_fit.
Print Assumptions c19_code_calculate_max_input.
Print Assumptions c19_mono_input_sized.
Print Assumptions c19_not_below_max_sized.
Print Assumptions c19_sized_overoffer_refused.
Print Assumptions c19_accepts_def.
Print Assumptions c19_progress_flow.
Print Assumptions c19_not_below_max_flow.
Print Assumptions c19_mono_flow.
Print Assumptions c19_refused_flow.
Print Assumptions c19_send_all_flow_def.
Print Assumptions c19_loop_flow.
Print Assumptions c19_loop_flow_sized.
Print Assumptions c19_reached_accepts.
Print Assumptions c19_flow_nonvacuous_chunked.
Print Assumptions c19_flow_nonvacuous_sized.
Print Assumptions c19_mono_unrestricted_refuted.

(* ================================================================== BodyWriter::write itself (translated from the source) *)
(** The function whose progress this property is about is translated on every run (theories/Gen2.v, [gen_bw_write], with its chunk
    loop) and proved to produce, for every body mode, flag, input and capacity, the model's result -- same mode and flag, same bytes
    appended, same consumed count, the same refusal (proofs/Gen2_equiv_writer.v; for a sized body one of the three quantities is
    below 2^64, as every real one is).  The progress theorems above are about [writer_write]; with this they are about the code. *)
From Hoot Require Import GenLib Gen2.
From Hoot.proofs Require Import Gen2_equiv_rel Gen2_equiv_writer.
Theorem c19_code_write_equiv : forall m e input avail out0,
  sized_fits m avail input ->
  wr_rel avail out0 (gen_bw_write m e input avail out0) (writer_write {| w_mode := m; w_ended := e |} input avail).
Proof. exact gen_bw_write_equiv. Qed.
Print Assumptions c19_code_write_equiv.
