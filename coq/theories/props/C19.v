(** Property C19 -- Sending a body always makes progress when progress is possible.

    "A body write with non-empty input consumes at least one byte whenever the output buffer has room
    for the smallest chunk (6 bytes; 1 byte for a length-delimited body), and never less than it would
    have consumed had only the advertised maximum input for that buffer been offered; offering more
    input never reduces progress. A caller looping until its input is empty therefore terminates for
    every buffer of at least that size."

    Statements only; proofs are in proofs/C19_proofs.v (on top of proofs/C18_proofs.v). Everything is
    for unbounded input lengths and capacities. *)
From Hoot Require Import Base Chunk Body Request Call.
From Hoot.proofs Require Import C18_hex C18_proofs C04_proofs C19_proofs.
Open Scope N_scope.

(** What "consumed" means: one write of a non-empty input on a call in its chunked body phase (not
    finished) always succeeds, leaves the call unchanged and reports [consumed_n (len input) cap]
    bytes, where [consumed_n] is the closed arithmetic function of props/C18.v
    ([c18_consumed_n_unfold]); the output fits the capacity. *)
Theorem c19_consumed : forall c input cap,
  chunked_body c false -> input <> [] ->
  exists out, call_write_body c input cap = Ok (c, consumed_n (len input) cap, out) /\ len out <= cap.
Proof. exact call_chunked_ok. Qed.

(** Progress. Six bytes ("1\r\nX\r\n") are sufficient and necessary. *)
Theorem c19_progress : forall inlen cap,
  1 <= inlen -> 6 <= cap -> 1 <= consumed_n inlen cap.
Proof. exact progress_n. Qed.

Theorem c19_progress_call : forall c input cap,
  chunked_body c false -> 1 <= len input -> 6 <= cap ->
  exists used out, call_write_body c input cap = Ok (c, used, out) /\ 1 <= used.
Proof. exact progress_call. Qed.

Theorem c19_no_room : forall inlen cap, cap < 6 -> consumed_n inlen cap = 0.
Proof. exact no_room_n. Qed.

(** Length-delimited body: the count is min(capacity, input, remaining) (see [c04_write]), so one
    byte of room suffices. *)
Theorem c19_progress_sized : forall c lft input cap,
  sized_body c lft false -> 1 <= cap -> 1 <= lft -> 1 <= len input <= lft ->
  exists c' used out, call_write_body c input cap = Ok (c', used, out) /\ 1 <= used.
Proof. exact progress_sized_call. Qed.

(** Offering more input never reduces progress. *)
Theorem c19_mono_input : forall a b cap, a <= b -> consumed_n a cap <= consumed_n b cap.
Proof. exact consumed_mono_input. Qed.

(** Offering at least the advertised maximum consumes at least the advertised maximum. *)
Theorem c19_not_below_max : forall inlen cap,
  calculate_max_input cap <= inlen -> calculate_max_input cap <= consumed_n inlen cap.
Proof. exact not_below_max_n. Qed.

(** The caller loop [send_all] ("offer the unconsumed rest with [cap] bytes of room until the input
    is empty", fuel = input length, [None] = out of fuel or refused) always finishes. *)
Theorem c19_loop : forall c input cap out,
  chunked_body c false -> 6 <= cap ->
  exists out', send_all (List.length input) c input cap out = Some (c, out').
Proof. exact send_all_chunked. Qed.

Theorem c19_loop_sized : forall c lft input cap out,
  sized_body c lft false -> 1 <= cap -> len input <= lft ->
  exists c' ended',
    send_all (List.length input) c input cap out = Some (c', out ++ input) /\
    sized_body c' (lft - len input) ended'.
Proof. exact send_all_sized. Qed.

(** Non-vacuity: concrete calls satisfy the premises; 30000 bytes offered with 21 bytes of room (the
    witness that refuted this property before the repairs) now make progress; the loop sends
    40 bytes through a 6-byte buffer in exactly 40 rounds. *)
Definition demo_chunked : call :=
  {| c_req := am_new placeholder; c_analyzed := true; c_phase := PBody;
     c_writer := new_chunked; c_reader := None; c_skip := false; c_stop := false |}.
Definition demo_sized : call :=
  {| c_req := am_new placeholder; c_analyzed := true; c_phase := PBody;
     c_writer := new_sized 50; c_reader := None; c_skip := false; c_stop := false |}.

Example c19_nonvacuous :
  chunked_body demo_chunked false /\ sized_body demo_sized 50 false /\
  consumed_n 30000 21 = 15 /\ calculate_max_input 21 = 13 /\
  (match send_all 40 demo_chunked (repeat 97 40) 6 [] with
   | Some (_, out) => len out = 240
   | None => False
   end) /\
  send_all 39 demo_chunked (repeat 97 40) 6 [] = None /\
  (match send_all 40 demo_sized (repeat 97 40) 7 [] with
   | Some (c', out) => out = repeat 97 40 /\ left_to_send (c_writer c') = Some 10
   | None => False
   end).
Proof. vm_compute. repeat split. Qed.


(* ------------------------------------------------------------------ tie to the source by translation *)
(** The Rust functions below are translated to Gallina from the repository's CURRENT sources on every run
    (tools/rs2coq.py -> theories/Gen.v); they equal the model's functions for all arguments, so the theorems above
    hold for what the code says now. A change of one of these functions that is not an equivalent rewrite breaks the
    proof obligation here. *)
From Hoot Require Import Gen.
From Hoot.proofs Require Import Gen_equiv.
Theorem c19_code_max_chunk_fit : forall a m, gen_max_chunk_fit a m = max_chunk_fit a m.
Proof. exact gen_max_chunk_fit_eq. Qed.
Theorem c19_code_calculate_max_input : forall n, gen_calculate_max_input n = calculate_max_input n.
Proof. exact gen_calculate_max_input_eq. Qed.

Print Assumptions c19_consumed.
Print Assumptions c19_progress.
Print Assumptions c19_progress_call.
Print Assumptions c19_no_room.
Print Assumptions c19_progress_sized.
Print Assumptions c19_mono_input.
Print Assumptions c19_not_below_max.
Print Assumptions c19_loop.
Print Assumptions c19_loop_sized.
Print Assumptions c19_nonvacuous.
Print Assumptions c19_code_max_chunk_fit.
Print Assumptions c19_code_calculate_max_input.
