(** Property C10 -- The connection-reuse verdict is exactly the disjunction of the close conditions.
    Statements only; proofs are in proofs/C10_proofs.v (per-operation lemmas) and proofs/C10_hist.v
    (the invariant over every history).

    The specification side (all defined in proofs/C10_proofs.v, none of it reads [i_reasons]):
      [facts]            record of five booleans h10, ccl, n100, scl, cdl;
      [fact_holds x g]   the boolean of [g] that reason [x] stands for;
      [facts_new r]      h10 := the version of [r] is HTTP/1.0, ccl := [r] has Connection: close;
      [facts_base g]     keeps h10/ccl of [g], clears the other three;
      [refusal_seen w]   [try_read_100] was shown a complete non-100 head or a head with fields;
      [resp_close rsp]   the response handed back has Connection: close;
      [reader_close_of f] the body reader of [f] is close-delimited;
      [gstep s g o]      the ghost step: how the facts change when [Script.step s o] runs
                         (ONew: [facts_new]; OFollow of a pending new flow: [facts_base];
                          try100 in Await100: n100 ||= [refusal_seen] of the bytes shown;
                          try_response in RecvResponse returning [Some rsp]: scl ||= [resp_close rsp];
                          proceed in RecvResponse reaching RecvBody: cdl ||= [reader_close_of];
                          every other operation: unchanged);
      [facts_of ops]     the facts after the history [ops] from [s_init].
    The histories are lists of [Script.op] run by [Script.run_ops] / [Script.step], the same step
    function the correspondence check executes; no bound on their length. *)
(** Added after review 1 (section "the two server-side facts, on the wire" at the end; proofs/C10_wire.v):
    [refusal_seen] and [resp_close] are related to descriptions of the bytes in the C05_spec grammar
    ([c10_refusal_wire], [c10_n100_wire], [c10_scl_wire]) and the two classes in which the facts deviate
    from the wording of the property are named ([c10_100_with_fields_refuses],
    [c10_partial_redirect_closes], with the reviewer's witnesses as Examples). *)
From Coq Require Import List.
From Hoot Require Import Base Chunk Body Httparse Parser Url Request Call Flow Script.
From Hoot.proofs Require Import Reasons C10_proofs C10_hist.
Open Scope N_scope.

(* ------------------------------------------------------------------ creation *)

(** After [flow_new r] (which cannot fail) the reasons are, as a set, {Http10 iff HTTP/1.0} and
    {ClientConnectionClose iff the request has Connection: close}; no duplicates. *)
Theorem c10_new : forall r,
  exists f, flow_new r = Ok f /\ NoDup (i_reasons f) /\
    (forall x, In x (i_reasons f) <->
               (x = Http10 /\ rq_version r = V10) \/
               (x = ClientConnectionClose /\
                headers_has (rq_headers r) (s2b "connection") (s2b "close") = true)) /\
    (forall x, In x (i_reasons f) <-> fact_holds x (facts_new r) = true).
Proof.
  intros r. destruct (new_spec r) as (f & H1 & H2 & H3 & H4 & _). exists f. auto.
Qed.

(* ------------------------------------------------------------------ operations that leave the reasons alone *)

Theorem c10_prepare_header : forall f k v f',
  prepare_header f k v = Ok f' -> i_reasons f' = i_reasons f.
Proof. intros f k v f' H. exact (proj1 (prepare_header_keeps f k v f' H)). Qed.

Theorem c10_send_body_despite_method : forall f f',
  send_body_despite_method f = Ok f' -> i_reasons f' = i_reasons f.
Proof. intros f f' H. exact (proj1 (send_body_despite_method_keeps f f' H)). Qed.

Theorem c10_send_request_write : forall f cap f' out,
  send_request_write f cap = Ok (f', out) -> i_reasons f' = i_reasons f.
Proof. intros f cap f' out H. exact (proj1 (send_request_write_keeps f cap f' out H)). Qed.

Theorem c10_send_request_proceed : forall f t f',
  send_request_proceed f = Ok (Some (t, f')) -> i_reasons f' = i_reasons f.
Proof. intros f t f' H. exact (proj1 (send_request_proceed_keeps f t f' H)). Qed.

Theorem c10_await_100_proceed : forall f t f',
  await_100_proceed f = Ok (t, f') -> i_reasons f' = i_reasons f.
Proof. intros f t f' H. exact (proj1 (await_100_proceed_keeps f t f' H)). Qed.

Theorem c10_send_body_write : forall f input cap f' used out,
  send_body_write f input cap = Ok (f', used, out) -> i_reasons f' = i_reasons f.
Proof. intros f input cap f' used out H. exact (proj1 (send_body_write_keeps f input cap f' used out H)). Qed.

Theorem c10_send_body_direct : forall f amount f',
  send_body_direct f amount = Ok f' -> i_reasons f' = i_reasons f.
Proof. intros f amount f' H. exact (proj1 (send_body_direct_keeps f amount f' H)). Qed.

Theorem c10_send_body_proceed : forall f t f',
  send_body_proceed f = Ok (Some (t, f')) -> i_reasons f' = i_reasons f.
Proof. intros f t f' H. exact (proj1 (send_body_proceed_keeps f t f' H)). Qed.

Theorem c10_recv_body_read : forall f input cap f' i o,
  recv_body_read f input cap = Ok (f', i, o) -> i_reasons f' = i_reasons f.
Proof. intros f input cap f' i o H. exact (proj1 (recv_body_read_keeps f input cap f' i o H)). Qed.

(** A failed read leaves the flow as [recv_body_after_err f input cap] (the chunked decoder keeps the
    state it had reached; that is what the history theorems below continue from): same reasons. *)
Theorem c10_recv_body_read_failed : forall f input cap,
  i_reasons (recv_body_after_err f input cap) = i_reasons f.
Proof. intros f input cap. exact (proj1 (recv_body_after_err_keeps f input cap)). Qed.

Theorem c10_recv_body_stop : forall f b f',
  recv_body_stop f b = Ok f' -> i_reasons f' = i_reasons f.
Proof. intros f b f' H. exact (proj1 (recv_body_stop_keeps f b f' H)). Qed.

Theorem c10_recv_body_proceed : forall f t f',
  recv_body_proceed f = Ok (Some (t, f')) -> f' = f.
Proof. exact recv_body_proceed_keeps. Qed.

(* ------------------------------------------------------------------ operations that add a reason *)

(** [try_read_100] (the flow is handed back whatever the result): the reasons afterwards are those
    before plus Not100Continue exactly if a refusal was seen; still no duplicates; the first reason
    stays the first; and on a refusal the call reports [Ok 0] -- in particular the push did not
    panic. *)
Theorem c10_try_read_100 : forall f input,
  NoDup (i_reasons f) ->
  NoDup (i_reasons (fst (try_read_100 f input))) /\
  (forall y, In y (i_reasons (fst (try_read_100 f input))) <->
             In y (i_reasons f) \/ (y = Not100Continue /\ refusal_seen input = true)) /\
  (forall y, hd_error (i_reasons f) = Some y ->
             hd_error (i_reasons (fst (try_read_100 f input))) = Some y) /\
  (refusal_seen input = true -> snd (try_read_100 f input) = Ok 0).
Proof.
  intros f input Hnd. destruct (try_read_100_spec f input Hnd) as [(H1 & _ & H3 & H4) H5]. auto.
Qed.

(** [try_response]: plus ServerConnectionClose exactly if a response is returned and it carries
    Connection: close. *)
Theorem c10_recv_try_response : forall f input f' used got,
  NoDup (i_reasons f) ->
  recv_try_response f input = Ok (f', used, got) ->
  NoDup (i_reasons f') /\
  (forall y, In y (i_reasons f') <->
             In y (i_reasons f) \/
             (y = ServerConnectionClose /\
              match got with Some rsp => resp_close rsp | None => false end = true)) /\
  (forall y, hd_error (i_reasons f) = Some y -> hd_error (i_reasons f') = Some y).
Proof.
  intros f input f' used got Hnd H.
  destruct (recv_try_response_spec f input f' used got Hnd H) as (H1 & _ & H3 & H4). auto.
Qed.

(** ... and the only ways it can fail are the holder check and the call level (no push panic). *)
Theorem c10_recv_try_response_no_push_panic : forall f input c r,
  NoDup (i_reasons f) -> as_recv_response f = Ok c -> call_try_response c input = Ok r ->
  exists x, recv_try_response f input = Ok x.
Proof. exact recv_try_response_no_push_panic. Qed.

(** [RecvResponse::proceed]: plus CloseDelimitedBody exactly if the body state is entered with a
    close-delimited reader. *)
Theorem c10_recv_response_proceed : forall f t f',
  NoDup (i_reasons f) ->
  recv_response_proceed f = Ok (Some (t, f')) ->
  NoDup (i_reasons f') /\
  (forall y, In y (i_reasons f') <->
             In y (i_reasons f) \/
             (y = CloseDelimitedBody /\
              match t with TRecvBody => reader_close_of f' | _ => false end = true)) /\
  (forall y, hd_error (i_reasons f) = Some y -> hd_error (i_reasons f') = Some y).
Proof.
  intros f t f' Hnd H.
  destruct (recv_response_proceed_spec f t f' Hnd H) as (H1 & _ & H3 & H4). auto.
Qed.

Theorem c10_recv_response_proceed_no_push_panic : forall f c,
  NoDup (i_reasons f) -> as_recv_response f = Ok c ->
  exists x, recv_response_proceed f = Ok x.
Proof. exact recv_response_proceed_no_push_panic. Qed.

(* ------------------------------------------------------------------ every history *)

(** The facts of a history are computed by [gstep] alongside [Script.step]. *)
Theorem c10_facts_step : forall ops o,
  facts_of (ops ++ [o]) = gstep (run_ops s_init ops) (facts_of ops) o.
Proof. exact facts_step. Qed.

(** For EVERY history (no length bound), whatever flow the script holds: its reason list has no
    duplicates and contains exactly the reasons whose fact holds in the history. *)
Theorem c10_invariant : forall ops t f,
  s_obj (run_ops s_init ops) = ObFlow t f ->
  NoDup (i_reasons f) /\ (forall x, In x (i_reasons f) <-> fact_holds x (facts_of ops) = true).
Proof. intros ops t f H. destruct (flow_invariant ops t f H) as (H1 & H2 & _). auto. Qed.

(** Hence the verdict is the disjunction of the five conditions -- in every state, in particular
    in Redirect and Cleanup ... *)
Theorem c10_verdict : forall ops t f,
  s_obj (run_ops s_init ops) = ObFlow t f ->
  must_close f = h10 (facts_of ops) || ccl (facts_of ops) || scl (facts_of ops)
                 || n100 (facts_of ops) || cdl (facts_of ops).
Proof. intros ops t f H. exact (verdict_of_inv _ _ (flow_invariant ops t f H)). Qed.

(** ... which is what the script observes there with [q_must_close]. *)
Theorem c10_verdict_observed : forall ops t f,
  s_obj (run_ops s_init ops) = ObFlow t f -> t = TRedirect \/ t = TCleanup ->
  snd (step (run_ops s_init ops) OQMustClose) =
  obs_bool (h10 (facts_of ops) || ccl (facts_of ops) || scl (facts_of ops) || n100 (facts_of ops)
            || cdl (facts_of ops)).
Proof. exact verdict_observed. Qed.

(** A reason is given exactly when the connection must close (any flow value). *)
Theorem c10_reason_iff : forall f, (exists b, close_reason f = Some b) <-> must_close f = true.
Proof. exact reason_iff. Qed.

(** The reason given names a condition that actually holds in the history. *)
Theorem c10_reason_true : forall ops t f x,
  s_obj (run_ops s_init ops) = ObFlow t f ->
  close_reason f = Some (explain x) -> fact_holds x (facts_of ops) = true.
Proof. intros ops t f x H. exact (reason_true_of_inv _ f x (flow_invariant ops t f H)). Qed.

Theorem c10_reason_names : forall ops t f b,
  s_obj (run_ops s_init ops) = ObFlow t f ->
  close_reason f = Some b -> exists x, b = explain x /\ fact_holds x (facts_of ops) = true.
Proof. intros ops t f b H. exact (reason_names_of_inv _ f b (flow_invariant ops t f H)). Qed.

(** Until the next [ONew]/[OFollow], a recorded reason is never removed. *)
Theorem c10_reasons_never_removed : forall ops1 ops2 t1 f1 t2 f2 x,
  same_exchange ops2 = true ->
  s_obj (run_ops s_init ops1) = ObFlow t1 f1 ->
  s_obj (run_ops s_init (ops1 ++ ops2)) = ObFlow t2 f2 ->
  In x (i_reasons f1) -> In x (i_reasons f2).
Proof. exact reasons_monotone. Qed.

(* ------------------------------------------------------------------ redirects *)

(** [as_new_flow] does not touch the reasons of the redirect flow, and the flow it makes has
    exactly the reasons of [flow_new] on the rebuilt request (new method; version, URI and headers
    of the original): Http10 / ClientConnectionClose of the original request, nothing else. *)
Theorem c10_new_flow_fresh : forall f p f' n,
  as_new_flow f p = Ok (f', Some n) ->
  exists orig nm nf,
    freq f = Some orig /\ flow_new (rebuilt orig nm) = Ok nf /\ i_reasons n = i_reasons nf /\
    freq n = Some (rebuilt orig nm) /\ NoDup (i_reasons n) /\
    (forall x, In x (i_reasons n) <->
               (x = Http10 /\ rq_version orig = V10) \/
               (x = ClientConnectionClose /\
                headers_has (rq_headers orig) (s2b "connection") (s2b "close") = true)) /\
    i_reasons f' = i_reasons f.
Proof. exact new_flow_fresh. Qed.

(** In a history: the pending new flow carries exactly the h10/ccl facts of the exchange it came
    from (and following it restarts the facts from those two, see [gstep]). *)
Theorem c10_next_invariant : forall ops n,
  s_next (run_ops s_init ops) = Some n ->
  NoDup (i_reasons n) /\
  (forall x, In x (i_reasons n) <-> fact_holds x (facts_base (facts_of ops)) = true).
Proof. intros ops n H. destruct (next_invariant ops n H) as (H1 & H2 & _). auto. Qed.

(* ------------------------------------------------------------------ lost message boundaries *)

(** If the body state was entered with a close-delimited reader, every later state of that
    exchange (any operations other than ONew/OFollow, any number of them) is must-close. *)
Theorem c10_close_delimited_never_reused : forall ops1 ops2 f f',
  s_obj (run_ops s_init ops1) = ObFlow TRecvResponse f ->
  recv_response_proceed f = Ok (Some (TRecvBody, f')) ->
  reader_close_of f' = true ->
  same_exchange ops2 = true ->
  forall t f2, s_obj (run_ops s_init (ops1 ++ OProceed :: ops2)) = ObFlow t f2 ->
               cdl (facts_of (ops1 ++ OProceed :: ops2)) = true /\ must_close f2 = true.
Proof. exact close_delimited_never_reused. Qed.

(* ------------------------------------------------------------------ non-vacuity *)

(** HTTP/1.1 POST with Expect: 100-continue, refused by a 403 carrying Connection: close and no
    framing, driven to Cleanup: three of the five facts hold, the other two do not. *)
Example c10_nonvacuous_refused :
  facts_of demo_refused = {| h10 := false; ccl := false; n100 := true; scl := true; cdl := true |} /\
  final_view demo_refused =
    Some (TCleanup, [Not100Continue; ServerConnectionClose; CloseDelimitedBody], true,
          Some (explain Not100Continue)).
Proof. vm_compute. split; reflexivity. Qed.

(** HTTP/1.1 GET answered with Content-Length: 0: no fact holds, the connection is reusable. *)
Example c10_nonvacuous_keepalive :
  facts_of demo_keepalive = facts0 /\ final_view demo_keepalive = Some (TCleanup, [], false, None).
Proof. vm_compute. split; reflexivity. Qed.

(** HTTP/1.0 GET with Connection: close, redirected: verdict in the Redirect state; the followed
    flow starts from h10/ccl again and later gains cdl from a close-delimited answer. *)
Example c10_nonvacuous_redirect :
  final_view demo_redirect =
    Some (TRedirect, [Http10; ClientConnectionClose], true, Some (explain Http10)) /\
  final_view (demo_redirect ++ [OAsNewFlow Never; OFollow]) =
    Some (TPrepare, [Http10; ClientConnectionClose], true, Some (explain Http10)) /\
  facts_of (demo_redirect ++ [OAsNewFlow Never; OFollow; OProceed; OWriteHead 1000; OProceed;
                              ORawTryResponse (s2b "HTTP/1.0 200 OK" ++ CRLF ++ CRLF); OProceed; OProceed]) =
    {| h10 := true; ccl := true; n100 := false; scl := false; cdl := true |}.
Proof. vm_compute. repeat split; reflexivity. Qed.

(** The hypotheses of [c10_close_delimited_never_reused] are satisfiable: the first seven
    operations of [demo_refused] reach RecvResponse, and proceeding enters RecvBody close-delimited. *)
Example c10_nonvacuous_close_delimited :
  match s_obj (run_ops s_init (firstn 7 demo_refused)) with
  | ObFlow TRecvResponse f =>
      match recv_response_proceed f with
      | Ok (Some (TRecvBody, f')) => reader_close_of f'
      | _ => false
      end
  | _ => false
  end = true /\ same_exchange (skipn 8 demo_refused) = true.
Proof. vm_compute. split; reflexivity. Qed.

(* ------------------------------------------------------------------ the two server-side facts, on the wire *)
(** [refusal_seen] and [resp_close] above are computed from what the parser returned.  The theorems
    below relate them to descriptions of the BYTES written with the grammar of proofs/C05_spec.v
    ([resp_head], [render_status_line], [render_field], [render_response_head], [wf_resp_head]) and
    the words of the property (definitions in proofs/C10_wire.v):
      [refusal_wire w]         "a non-100 response arrived": [w] begins with a complete status line
                               whose status is not 100, followed by the empty line (a head without
                               fields) or by at least one complete field line;
      [hundred_with_fields w]  status 100 followed by a complete field line;
      [conn_close fd]          the field line [fd] has the name Connection (any letter case) and, after
                               removal of the optional white space, exactly the value "close".
    Two classes in which the model deviates from the wording are made explicit:
      (a) a "100 Continue" WITH header fields counts as a refusal ([c10_100_with_fields_refuses]) --
          outside the property (the quantifier's server behaviours have a bare interim 100);
      (b) in the F10 class (a 3xx head with Location returned before it is complete) the response
          handed back carries a synthetic "connection: close" that is not on the wire, and scl is
          true there: the verdict is must-close ([c10_partial_redirect_closes]), which is what the
          property's last sentence asks for; [c10_scl_wire] is therefore stated for complete heads. *)
From Hoot.proofs Require Import C05_spec C20_proofs C10_wire.

(** Bytes of the shape the property describes are seen as a refusal (any continuation). *)
Theorem c10_refusal_wire_seen : forall w, refusal_wire w -> refusal_seen w = true.
Proof. exact refusal_wire_seen. Qed.

(** Every window of a stream that begins with a well-formed head: a refusal is seen exactly from the
    decision point on (the status line and the complete line after it), unless the head is a bare 100. *)
Theorem c10_refusal_exact : forall h rest n,
  wf_resp_head h ->
  refusal_seen (take n (render_response_head h ++ rest)) =
    (C11_proofs.decision_point h <=? n) && negb ((rh_status h =? 100) && is_nil (rh_fields h)).
Proof. exact refusal_seen_exact. Qed.

(** The equivalence on well-formed input. *)
Theorem c10_refusal_wire : forall h rest n,
  wf_resp_head h ->
  let w := take n (render_response_head h ++ rest) in
  refusal_seen w = true <-> refusal_wire w \/ hundred_with_fields w.
Proof. exact refusal_seen_wire. Qed.

Theorem c10_refusal_wire_non100 : forall h rest n,
  wf_resp_head h -> rh_status h <> 100 ->
  (refusal_seen (take n (render_response_head h ++ rest)) = true <-> C11_proofs.decision_point h <= n).
Proof. exact refusal_seen_wire_non100. Qed.

(** History level: if the fact n100 holds, some [try_read_100] of the history (tracked or raw, executed
    in Await100) was shown a window accepted by [refusal_seen] -- which, when that window is a window
    of a well-formed head, is a non-100 response or a 100 with fields ([c10_refusal_wire]). *)
Theorem c10_n100_wire : forall ops,
  n100 (facts_of ops) = true ->
  exists ops1 o ops2 w,
    ops = ops1 ++ o :: ops2 /\ shows_100 (run_ops s_init ops1) o w /\ refusal_seen w = true.
Proof. exact n100_shown. Qed.

(** Deviation (a). *)
Theorem c10_100_with_fields_refuses : forall w, hundred_with_fields w -> refusal_seen w = true.
Proof. exact hundred_with_fields_seen. Qed.

(** The reviewer's witness, by running the model: POST with Expect, the server answers
    "100 Continue" with a field x: y; the fact n100 and the reason "got non-100 response before
    sending body" result although the response is a 100. *)
Example c10_100_with_fields_witness :
  hundred_with_fields w_100_fields /\
  refusal_seen w_100_fields = true /\
  facts_of demo_100_fields = {| h10 := false; ccl := false; n100 := true; scl := false; cdl := false |} /\
  final_view demo_100_fields = Some (TCleanup, [Not100Continue], true, Some (explain Not100Continue)).
Proof.
  split.
  { exists h_100_fields, fd_x_y, [], []. split; [exact wf_h_100_fields|].
    split; [reflexivity|]. split; [reflexivity|]. vm_compute. reflexivity. }
  vm_compute. repeat split; reflexivity.
Qed.

(** The response of a well-formed head carries Connection: close iff one of its field lines is a
    Connection field with the value close. *)
Theorem c10_resp_close_wire : forall h,
  resp_close (response_of h) = true <-> exists fd, In fd (rh_fields h) /\ conn_close fd.
Proof. exact resp_close_wire. Qed.

(** scl on the wire: [try_response] shown a complete well-formed head (at most 128 fields; anything
    may follow) and returning a response returns that head's response, consumes exactly the head,
    and the response counts for scl iff the head has such a field line. *)
Theorem c10_scl_wire : forall f h rest f' used rsp,
  wf_resp_head h -> (List.length (rh_fields h) <= 128)%nat ->
  recv_try_response f (render_response_head h ++ rest) = Ok (f', used, Some rsp) ->
  rsp = response_of h /\ used = len (render_response_head h) /\
  (resp_close rsp = true <-> exists fd, In fd (rh_fields h) /\ conn_close fd).
Proof. exact scl_wire. Qed.

(** Deviation (b), the F10 class: the full parser has not seen a complete head, [try_response] returns
    a response all the same (a 3xx with Location): it carries Connection: close, the reason is
    recorded and the flow is must-close. *)
Theorem c10_partial_redirect_closes : forall f w f' used rsp,
  NoDup (i_reasons f) ->
  recv_try_response f w = Ok (f', used, Some rsp) ->
  try_parse_response (N.to_nat MAX_RESPONSE_HEADERS) w = Ok None ->
  resp_close rsp = true /\ In ServerConnectionClose (i_reasons f') /\ must_close f' = true.
Proof. exact partial_redirect_closes. Qed.

(** ... in a history: scl holds afterwards and whatever flow the script then holds is must-close. *)
Theorem c10_partial_redirect_history : forall ops f w f' used rsp o,
  s_obj (run_ops s_init ops) = ObFlow TRecvResponse f ->
  (o = ORawTryResponse w \/ (o = OTryResponse /\ w = window (run_ops s_init ops))) ->
  recv_try_response f w = Ok (f', used, Some rsp) ->
  try_parse_response (N.to_nat MAX_RESPONSE_HEADERS) w = Ok None ->
  scl (facts_of (ops ++ [o])) = true /\
  forall t2 f2, s_obj (run_ops s_init (ops ++ [o])) = ObFlow t2 f2 -> must_close f2 = true.
Proof. exact partial_redirect_history. Qed.

(** The reviewer's witness, by running the model: GET; the window holds "302 Found", a Location field
    and the beginning of another field name -- no Connection field anywhere, the full parser says
    "incomplete"; scl is true and the reason is "server sent Connection: close". *)
Example c10_partial_redirect_witness :
  try_parse_response (N.to_nat MAX_RESPONSE_HEADERS) w_partial_302 = Ok None /\
  match try_parse_partial_response (N.to_nat MAX_RESPONSE_HEADERS) w_partial_302 with
  | Ok (Some r) => resp_close r = false /\ hm_iter (rs_headers r) = [(s2b "location", s2b "/y")]
  | _ => False
  end /\
  facts_of demo_partial_302 = {| h10 := false; ccl := false; n100 := false; scl := true; cdl := false |} /\
  final_view demo_partial_302 =
    Some (TRedirect, [ServerConnectionClose], true, Some (explain ServerConnectionClose)).
Proof. vm_compute. repeat split; reflexivity. Qed.

(** Non-vacuity of the wire theorems.  The refusing head of [demo_refused] is the rendering of a
    well-formed [resp_head] with one field line (second alternative of [refusal_wire]); a bare 403 is
    the first alternative; both are seen as refusals at the decision point and not before. *)
Example c10_refusal_wire_nonvacuous :
  wf_resp_head h_403_close /\ render_response_head h_403_close = demo_refused_head /\
  refusal_wire demo_refused_head /\
  refusal_wire (render_response_head h_403_bare ++ s2b "more") /\
  C11_proofs.decision_point h_403_close = 43 /\
  refusal_seen (take 42 demo_refused_head) = false /\ refusal_seen (take 43 demo_refused_head) = true.
Proof.
  split; [exact wf_h_403_close|]. split; [exact render_h_403_close|].
  split.
  { exists h_403_close. split; [exact wf_h_403_close|]. split; [discriminate|]. right.
    exists fd_conn_close, [], CRLF. split; [reflexivity|]. vm_compute. reflexivity. }
  split.
  { exists h_403_bare. split; [exact wf_h_403_bare|]. split; [discriminate|]. left.
    split; [reflexivity|]. eexists. reflexivity. }
  vm_compute. repeat split; reflexivity.
Qed.

(** [c10_scl_wire] on a state reached by the model: the first six operations of [demo_refused] lead
    to RecvResponse; shown the 403 head with "Connection: close" the flow returns its response, and
    the field line is there on the wire. *)
Example c10_scl_wire_nonvacuous :
  match s_obj (run_ops s_init (firstn 6 demo_refused)) with
  | ObFlow TRecvResponse f =>
      match recv_try_response f (render_response_head h_403_close ++ []) with
      | Ok (_, used, Some rsp) => used = 45 /\ resp_close rsp = true
      | _ => False
      end
  | _ => False
  end /\
  In fd_conn_close (rh_fields h_403_close) /\ conn_close fd_conn_close.
Proof. vm_compute. repeat split; auto. Qed.

Print Assumptions c10_new.
Print Assumptions c10_prepare_header.
Print Assumptions c10_send_body_despite_method.
Print Assumptions c10_send_request_write.
Print Assumptions c10_send_request_proceed.
Print Assumptions c10_await_100_proceed.
Print Assumptions c10_send_body_write.
Print Assumptions c10_send_body_direct.
Print Assumptions c10_send_body_proceed.
Print Assumptions c10_recv_body_read.
Print Assumptions c10_recv_body_read_failed.
Print Assumptions c10_recv_body_stop.
Print Assumptions c10_recv_body_proceed.
Print Assumptions c10_try_read_100.
Print Assumptions c10_recv_try_response.
Print Assumptions c10_recv_try_response_no_push_panic.
Print Assumptions c10_recv_response_proceed.
Print Assumptions c10_recv_response_proceed_no_push_panic.
Print Assumptions c10_facts_step.
Print Assumptions c10_invariant.
Print Assumptions c10_verdict.
Print Assumptions c10_verdict_observed.
Print Assumptions c10_reason_iff.
Print Assumptions c10_reason_true.
Print Assumptions c10_reason_names.
Print Assumptions c10_reasons_never_removed.
Print Assumptions c10_new_flow_fresh.
Print Assumptions c10_next_invariant.
Print Assumptions c10_close_delimited_never_reused.
Print Assumptions c10_nonvacuous_refused.
Print Assumptions c10_nonvacuous_keepalive.
Print Assumptions c10_nonvacuous_redirect.
Print Assumptions c10_nonvacuous_close_delimited.
Print Assumptions c10_refusal_wire_seen.
Print Assumptions c10_refusal_exact.
Print Assumptions c10_refusal_wire.
Print Assumptions c10_refusal_wire_non100.
Print Assumptions c10_n100_wire.
Print Assumptions c10_100_with_fields_refuses.
Print Assumptions c10_100_with_fields_witness.
Print Assumptions c10_resp_close_wire.
Print Assumptions c10_scl_wire.
Print Assumptions c10_partial_redirect_closes.
Print Assumptions c10_partial_redirect_history.
Print Assumptions c10_partial_redirect_witness.
Print Assumptions c10_refusal_wire_nonvacuous.
Print Assumptions c10_scl_wire_nonvacuous.

(* ================================================================== where the code records close reasons (translated from the source) *)
(** Three of the five places where src/client/flow.rs records a close reason are translated on every run by tools/rs2coq2.py
    (theories/Gen2.v) and proved equal to the model (proofs/Gen2_equiv_flow.v): [Flow::new] (HTTP/1.0 and the request's
    Connection: close; also the should_send_body / await_100_continue flags), [Flow<RecvResponse>::try_response] (the server's
    Connection: close, the status and the last Location; a delayed 100 is skipped and records nothing) and
    [Flow<RecvResponse>::proceed] (close-delimited body, only when a body follows; exported by C09).  The fourth, the refusal while
    awaiting 100, is [gen_try_read_100] (exported by C11).  Inputs the functions take from the http crate (version test, header
    tests, parsed response) are parameters.  Trusted: the translator. *)
From Hoot Require Import GenLib Gen2.
From Hoot.proofs Require Import Gen2_equiv_flow_new Gen2_equiv_flow_response.
Theorem c10_code_new_table : forall h10 cc nb ex,
  gen_flow_new h10 cc nb ex (Ok tt) = Ok ((if h10 then [Http10] else []) ++ (if cc then [ClientConnectionClose] else []), nb, ex).
Proof. exact gen_flow_new_table. Qed.
Theorem c10_code_new : forall r f,
  flow_new r = Ok f ->
  gen_flow_new (is_v10 (rq_version r)) (headers_has (rq_headers r) (s2b "connection") (s2b "close"))
               (need_request_body (rq_method r)) (headers_has (rq_headers r) (s2b "expect") (s2b "100-continue")) (Ok tt)
  = Ok (i_reasons f, i_should_send_body f, i_await_100 f).
Proof. exact gen_flow_new_ok. Qed.
Theorem c10_code_try_response : forall f input c c' got,
  as_recv_response f = Ok c ->
  call_try_response c input = Ok (c', got) ->
  match recv_try_response f input with
  | Ok (f', used, orsp) =>
      gen_try_response (i_reasons f) (i_await_100 f) (i_status f) (i_location f) (Ok got)
      = Ok (i_reasons f', i_await_100 f', i_status f', i_location f', (used, orsp))
  | Err e => gen_try_response (i_reasons f) (i_await_100 f) (i_status f) (i_location f) (Ok got) = Err e
  | Panic _ => exists s, gen_try_response (i_reasons f) (i_await_100 f) (i_status f) (i_location f) (Ok got) = Panic s
  end.
Proof. exact gen_try_response_ok. Qed.
Print Assumptions c10_code_new_table.
Print Assumptions c10_code_new.
Print Assumptions c10_code_try_response.

(** The header test behind "Connection: close" and "Expect: 100-continue" ([HeaderIterExt::has], src/ext.rs: some field of that name
    has that value, whichever position it is in) is translated from the source as well and proved equal to the model's [headers_has]. *)
From Hoot.proofs Require Import Gen2_equiv_has.
Theorem c10_code_headers_has : forall l k v, gen_headers_has l k v = headers_has l k v.
Proof. exact gen_headers_has_eq. Qed.
Print Assumptions c10_code_headers_has.

(* ================================================================== the close-reason list itself (translated from the source) *)
(** [add_close_reason] (each reason recorded once, in order), [CloseReason::explain], and [close_reason] / [must_close_connection] of
    the Redirect and Cleanup states (the first recorded reason, explained; must close exactly when there is one) are translated on
    every run (theories/Gen2.v) and proved EQUAL to the model's [add_reason], [explain], [close_reason], [must_close]
    (proofs/Gen2_equiv_small_reasons.v).  The larger translations above use the model's [add_reason] for the calls of
    [add_close_reason]: with this equality that reading is the code's own function. *)
From Hoot.proofs Require Import Gen2_equiv_small_reasons.
Theorem c10_code_add_close_reason : forall rs r,
  gen_add_close_reason rs r = bind (add_reason rs r) (fun rs' => Ok (rs', tt)).
Proof. exact gen_add_close_reason_eq. Qed.
Print Assumptions c10_code_add_close_reason.
Theorem c10_code_explain : forall r, gen_explain r = explain r.
Proof. exact gen_explain_eq. Qed.
Print Assumptions c10_code_explain.
Theorem c10_code_close_reason : forall f,
  gen_close_reason (i_reasons f) = close_reason f /\ gen_redirect_close_reason (i_reasons f) = close_reason f.
Proof. intros f. split; [exact (gen_close_reason_eq f)|exact (gen_redirect_close_reason_eq f)]. Qed.
Print Assumptions c10_code_close_reason.
Theorem c10_code_must_close : forall f,
  gen_must_close (i_reasons f) = must_close f /\ gen_redirect_must_close (i_reasons f) = must_close f.
Proof. intros f. split; [exact (gen_must_close_eq f)|exact (gen_redirect_must_close_eq f)]. Qed.
Print Assumptions c10_code_must_close.
Theorem c10_code_must_close_iff : forall rs, gen_must_close rs = true <-> rs <> [].
Proof. exact gen_must_close_iff. Qed.
Print Assumptions c10_code_must_close_iff.

(* ================================================================== the vector behind the list (translated from the source) *)
(** src/util.rs ArrayVec::push / truncate / deref are translated as well (theories/Gen2.v: len and arr as the two fields, a store by
    index that panics out of bounds).  On the visible part arr[..len] the code's push appends, keeps the capacity, and panics exactly
    when the vector is full: the model's [push_reason] on a vector of capacity CLOSE_REASON_CAP (proofs/Gen2_equiv_arrayvec.v). *)
From Hoot.proofs Require Import Gen2_equiv_arrayvec.
Theorem c10_code_arrayvec_push : forall n (arr : list reason) r,
  len arr = CLOSE_REASON_CAP -> n <= len arr ->
  match push_reason (gen_arrayvec_deref reason n arr) r with
  | Ok rs' => exists arr', gen_arrayvec_push reason n arr r = Ok (n + 1, arr', tt) /\ len arr' = len arr /\
                           gen_arrayvec_deref reason (n + 1) arr' = rs'
  | Panic _ => exists site, gen_arrayvec_push reason n arr r = Panic site
  | Err _ => False
  end.
Proof. exact gen_arrayvec_push_is_push_reason. Qed.
Print Assumptions c10_code_arrayvec_push.
Theorem c10_code_arrayvec_push_any : forall T n arr v,
  n < len arr ->
  exists arr', gen_arrayvec_push T n arr v = Ok (n + 1, arr', tt) /\
               len arr' = len arr /\
               gen_arrayvec_deref T (n + 1) arr' = gen_arrayvec_deref T n arr ++ [v].
Proof. exact gen_arrayvec_push_ok. Qed.
Print Assumptions c10_code_arrayvec_push_any.

(* ================================================================== what a failed try_response leaves behind (translated from the source) *)
(** Flow<RecvResponse>::try_response translated in error-state mode ([gen_try_response_errst]): when it fails, close reasons, the
    await flag, status and location are as they were -- no close reason is recorded for a response that was never produced
    (proofs/Gen2_equiv_flow_response_errst.v). *)
From Hoot.proofs Require Import Gen2_equiv_flow_response_errst.
Theorem c10_code_failed_try_response_changes_nothing : forall rs aw st loc cr x,
  gen_try_response_errst rs aw st loc cr = Some x -> x = (rs, aw, st, loc).
Proof. exact gen_try_response_errst_unchanged. Qed.
Print Assumptions c10_code_failed_try_response_changes_nothing.
