(** * Url: reference resolution as used by [AmendedRequest::new_uri_from_location]:
    [Url::parse(base).join(location)] then [to_string().parse::<Uri>()].
    Modelled as RFC 3986 section 5.2 (strict) plus the normalisations the url crate performs on the
    grammar of property C14 (scheme/host lower-casing, default-port elision, empty path -> "/",
    fragment dropped by http::Uri).  MODELLED, NOT VERIFIED outside that grammar. *)
From Hoot Require Import Base.
Open Scope N_scope.

Record uri := { u_scheme : bytes; u_auth : bytes; u_pq : bytes }.

(** [Uri::host()]: authority without the port (grammar: no userinfo, no IPv6 literal). *)
Fixpoint until (c : N) (s : bytes) : bytes :=
  match s with
  | [] => []
  | b :: t => if b =? c then [] else b :: until c t
  end.
Fixpoint after (c : N) (s : bytes) : option bytes :=
  match s with
  | [] => None
  | b :: t => if b =? c then Some t else after c t
  end.

Definition uri_host (u : uri) : bytes := until 58 (u_auth u).

Definition uri_path (u : uri) : bytes := until 63 (u_pq u).
Definition uri_query (u : uri) : option bytes := after 63 (u_pq u).

(** Parsed reference (RFC 3986 appendix B), fragment already removed. *)
Record ref := { r_scheme : option bytes; r_auth : option bytes; r_path : bytes; r_query : option bytes }.

Definition is_scheme_char (b : N) : bool :=
  is_alpha b || is_digit b || (b =? 43) || (b =? 45) || (b =? 46).

(** If [s] = scheme ":" rest with a syntactically valid scheme, return (scheme, rest). *)
Definition split_scheme (s : bytes) : option (bytes * bytes) :=
  match s with
  | [] => None
  | c :: _ =>
      if negb (is_alpha c) then None
      else
        (fix go (l acc : bytes) : option (bytes * bytes) :=
           match l with
           | [] => None
           | b :: t => if b =? 58 then Some (rev acc, t)
                       else if is_scheme_char b then go t (b :: acc) else None
           end) s []
  end.

(** Longest prefix without '/', '?'. *)
Fixpoint until_path_or_query (s : bytes) : bytes * bytes :=
  match s with
  | [] => ([], [])
  | b :: t => if (b =? 47) || (b =? 63) then ([], s)
              else let '(a, r) := until_path_or_query t in (b :: a, r)
  end.

Definition parse_ref (loc : bytes) : ref :=
  let nofrag := until 35 loc in
  let '(sch, rest) := match split_scheme nofrag with
                      | Some (s, r) => (Some s, r)
                      | None => (None, nofrag)
                      end in
  let '(auth, rest2) := match rest with
                        | 47 :: 47 :: t => let '(a, r) := until_path_or_query t in (Some a, r)
                        | _ => (None, rest)
                        end in
  {| r_scheme := sch; r_auth := auth; r_path := until 63 rest2; r_query := after 63 rest2 |}.

(** Path as segments: "/a/b" -> ["a"; "b"], "/" -> [""], "" -> []. Paths here are empty or absolute. *)
Definition segments (p : bytes) : list bytes :=
  match p with
  | 47 :: t => split_on 47 t []
  | _ => match p with [] => [] | _ => split_on 47 p [] end
  end.

Fixpoint join_segments (segs : list bytes) : bytes :=
  match segs with
  | [] => []
  | s :: t => 47 :: s ++ join_segments t
  end.

Definition is_dot (s : bytes) := beq_bytes s [46].
Definition is_dotdot (s : bytes) := beq_bytes s [46; 46].

(** remove_dot_segments on a segment list; [out] is the reversed output stack. *)
Fixpoint rds (segs : list bytes) (out : list bytes) : list bytes :=
  match segs with
  | [] => rev out
  | s :: t =>
      let last := match t with [] => true | _ => false end in
      if is_dot s then rds t (if last then [] :: out else out)
      else if is_dotdot s then
        let out' := tl out in
        rds t (if last then [] :: out' else out')
      else rds t (s :: out)
  end.

Definition remove_dot_segments (p : bytes) : bytes :=
  match p with
  | [] => []
  | _ => join_segments (rds (segments p) [])
  end.

(** RFC 3986 5.2.3 merge; the base always has an authority here. *)
Definition merge (base_path rel : bytes) : bytes :=
  match base_path with
  | [] => 47 :: rel
  | _ =>
      let segs := segments base_path in
      join_segments (removelast segs) ++ 47 :: rel
  end.

(** Authority normalisation: lower-case host, numeric port without leading zeros, default elided. *)
Definition default_port (scheme : bytes) : option N :=
  if beq_bytes scheme (s2b "http") then Some 80
  else if beq_bytes scheme (s2b "https") then Some 443
  else None.

Definition parse_port (p : bytes) : option (option N) :=
  match p with
  | [] => Some None
  | _ => if forallb is_digit p then
           match parse_digits 10 decval p 0 with
           | Some n => if n <? 65536 then Some (Some n) else None
           | None => None
           end
         else None
  end.

Definition norm_auth (scheme auth : bytes) : option bytes :=
  let host := lower (until 58 auth) in
  match host with
  | [] => None
  | _ =>
    match after 58 auth with
    | None => Some host
    | Some p =>
        match parse_port p with
        | None => None
        | Some None => Some host
        | Some (Some n) =>
            match default_port scheme with
            | Some d => if n =? d then Some host else Some (host ++ 58 :: dec_of n)
            | None => Some (host ++ 58 :: dec_of n)
            end
        end
    end
  end.

Definition mk_pq (path : bytes) (q : option bytes) : bytes :=
  (match path with [] => [47] | _ => path end) ++ match q with Some x => 63 :: x | None => [] end.

(** Resolve [loc] against [base]. [None] = unresolvable (reported as BadLocationHeader). *)
Definition resolve (base : uri) (loc : bytes) : option uri :=
  let r := parse_ref loc in
  let bscheme := lower (u_scheme base) in
  let bpath := match uri_path base with [] => [47] | p => p end in
  let '(scheme, auth, path, query) :=
      match r_scheme r with
      | Some s =>
          (lower s, match r_auth r with Some a => a | None => [] end,
           remove_dot_segments (r_path r), r_query r)
      | None =>
          match r_auth r with
          | Some a => (bscheme, a, remove_dot_segments (r_path r), r_query r)
          | None =>
              match r_path r with
              | [] => (bscheme, u_auth base, remove_dot_segments bpath,
                       match r_query r with Some q => Some q | None => uri_query base end)
              | 47 :: _ => (bscheme, u_auth base, remove_dot_segments (r_path r), r_query r)
              | _ => (bscheme, u_auth base, remove_dot_segments (merge bpath (r_path r)), r_query r)
              end
          end
      end in
  match norm_auth scheme auth with
  | None => None
  | Some a => Some {| u_scheme := scheme; u_auth := a; u_pq := mk_pq path query |}
  end.
