(** * Call: model of src/client/call.rs. *)
From Hoot Require Import Base Chunk Body Httparse Parser Url Request.
Open Scope N_scope.

Inductive phase := PLine | PHeaders (i : N) | PBody | PRecvResponse | PRecvBody.

Definition is_prelude (p : phase) : bool := match p with PLine | PHeaders _ => true | _ => false end.
Definition is_body (p : phase) : bool := match p with PBody => true | _ => false end.

Record call := {
  c_req : amended;
  c_analyzed : bool;
  c_phase : phase;
  c_writer : writer;
  c_reader : option reader;
  c_skip : bool;      (* skip_method_body_check *)
  c_stop : bool       (* stop_on_chunk_boundary *)
}.

Definition call_new (r : request) (w : writer) : call :=
  {| c_req := am_new r; c_analyzed := false; c_phase := PLine; c_writer := w;
     c_reader := None; c_skip := false; c_stop := false |}.

Definition set_req (c : call) (a : amended) : call :=
  {| c_req := a; c_analyzed := c_analyzed c; c_phase := c_phase c; c_writer := c_writer c;
     c_reader := c_reader c; c_skip := c_skip c; c_stop := c_stop c |}.
Definition set_phase (c : call) (p : phase) : call :=
  {| c_req := c_req c; c_analyzed := c_analyzed c; c_phase := p; c_writer := c_writer c;
     c_reader := c_reader c; c_skip := c_skip c; c_stop := c_stop c |}.
Definition set_writer (c : call) (w : writer) : call :=
  {| c_req := c_req c; c_analyzed := c_analyzed c; c_phase := c_phase c; c_writer := w;
     c_reader := c_reader c; c_skip := c_skip c; c_stop := c_stop c |}.
Definition set_reader (c : call) (r : option reader) : call :=
  {| c_req := c_req c; c_analyzed := c_analyzed c; c_phase := c_phase c; c_writer := c_writer c;
     c_reader := r; c_skip := c_skip c; c_stop := c_stop c |}.
Definition set_stop (c : call) (b : bool) : call :=
  {| c_req := c_req c; c_analyzed := c_analyzed c; c_phase := c_phase c; c_writer := c_writer c;
     c_reader := c_reader c; c_skip := c_skip c; c_stop := b |}.

(** [analyze_request]: runs once; an error leaves the call unchanged (not cached). *)
Definition analyze_request (c : call) : res call :=
  if c_analyzed c then Ok c else
  do info <- analyze (c_req c) (c_writer c) (c_skip c);
  do a1 <-
     (if ri_host info then Ok (c_req c)
      else match u_auth (am_eff_uri (c_req c)) with
           | [] => Ok (c_req c)                 (* URI without authority: no Host is added *)
           | _ => am_set_header (c_req c) (s2b "Host") (uri_host (am_eff_uri (c_req c)))
           end);
  do a2 <-
     (if negb (ri_body_header info) && has_body (ri_mode info)
      then do h <- body_header (ri_mode info); am_set_header a1 (fst h) (snd h)
      else Ok a1);
  Ok {| c_req := a2; c_analyzed := true; c_phase := c_phase c; c_writer := ri_mode info;
        c_reader := c_reader c; c_skip := c_skip c; c_stop := c_stop c |}.

Definition header_line (h : header) (last : bool) : bytes :=
  fst h ++ [58; 32] ++ snd h ++ CRLF ++ (if last then CRLF else []).

(** [do_write_headers]: whole lines, as many as fit; the blank line is glued to the last one. *)
Fixpoint write_headers (hs : list header) (index last_index : N) (avail : N) (out : bytes)
  : N * bytes :=
  match hs with
  | [] => (index, out)
  | h :: t =>
      let line := header_line h (index =? last_index) in
      if len line <=? avail
      then write_headers t (N.succ index) last_index (avail - len line) (out ++ line)
      else (index, out)
  end.

(** [try_write_prelude]: new phase and the bytes written. *)
Definition try_write_prelude (a : amended) (p : phase) (cap : N) : res (phase * bytes) :=
  let hs := am_headers a in
  let count := len hs in
  let headers_part (i : N) (avail : N) (out : bytes) : res (phase * bytes) :=
      if count =? 0 then Panic "call.rs: header_count - 1 underflow" else
      let '(i', out') := write_headers (drop i hs) i (count - 1) avail out in
      let p' := if i' =? count then PBody else PHeaders i' in
      match out' with
      | [] => if is_body p' then Ok (p', out') else Err OutputOverflow
      | _ => Ok (p', out')
      end in
  match p with
  | PLine =>
      let line := prelude_line a in
      if len line <=? cap then headers_part 0 (cap - len line) line
      else Err OutputOverflow
  | PHeaders i => headers_part i cap []
  | PBody => Ok (p, [])
  | _ => Err OutputOverflow
  end.

(** [Call<WithoutBody>::write]. *)
Definition call_write_nobody (c : call) (cap : N) : res (call * bytes) :=
  do c1 <- analyze_request c;
  do r <- try_write_prelude (c_req c1) (c_phase c1) cap;
  Ok (set_phase c1 (fst r), snd r).

(** [Call<WithBody>::write]: call, input consumed, bytes written. *)
Definition call_write_body (c : call) (input : bytes) (cap : N) : res (call * N * bytes) :=
  do c1 <- analyze_request c;
  if is_prelude (c_phase c1) then
    do r <- try_write_prelude (c_req c1) (c_phase c1) cap;
    Ok (set_phase c1 (fst r), 0, snd r)
  else if is_body (c_phase c1) then
    if (match input with [] => false | _ => true end) && w_ended (c_writer c1)
    then Err BodyContentAfterFinish
    else if match left_to_send (c_writer c1) with Some l => l <? len input | None => false end
    then Err BodyLargerThanContentLength
    else
      do r <- writer_write (c_writer c1) input cap;
      let '(w, used, out) := r in Ok (set_writer c1 w, used, out)
  else Ok (c1, 0, []).

Definition call_direct_write (c : call) (amount : N) : res call :=
  match left_to_send (c_writer c) with
  | Some l =>
      if l <? amount then Err BodyLargerThanContentLength
      else do w <- writer_direct (c_writer c) amount; Ok (set_writer c w)
  | None => Err BodyIsChunked
  end.

(** [do_into_receive]. *)
Definition into_receive (c : call) : res call :=
  if w_ended (c_writer c) then Ok (set_phase c PRecvResponse) else Err UnfinishedRequest.

Definition into_send_body (c : call) : res call :=
  if c_analyzed c then Panic "call.rs: assert!(!self.analyzed)" else
  Ok {| c_req := c_req c; c_analyzed := c_analyzed c; c_phase := c_phase c; c_writer := new_chunked;
        c_reader := c_reader c; c_skip := true; c_stop := c_stop c |}.

Definition call_body_mode (c : call) : body_mode :=
  match c_reader c with Some r => reader_mode r | None => BMChunked end.

Definition need_response_body (c : call) : bool :=
  match c_reader c with
  | Some RNoBody => false
  | Some (RLength n) => negb (n =? 0)
  | _ => true
  end.

Definition is_redirection (status : N) : bool := (300 <=? status) && (status <=? 399).

(** Header lookup used for the body mode: first field of that name, only if it is text. *)
Definition lookup_text (m : hmap) (k : bytes) : option bytes :=
  match hm_get m k with
  | Some v => if is_text v then Some v else None
  | None => None
  end.

(** [Call<RecvResponse>::try_response]. *)
Definition call_try_response (c : call) (input : bytes) : res (call * option (N * response)) :=
  do first <- try_parse_response (N.to_nat MAX_RESPONSE_HEADERS) input;
  do got <-
     match first with
     | Some v => Ok (Some v)
     | None =>
         do p <- try_parse_partial_response (N.to_nat MAX_RESPONSE_HEADERS) input;
         match p with
         | Some r =>
             if is_redirection (rs_status r) && hm_contains (rs_headers r) (s2b "location")
             then Ok (Some (len input,
                            {| rs_version := rs_version r; rs_status := rs_status r;
                               rs_headers := hm_insert (rs_headers r) (s2b "connection") (s2b "close") |}))
             else Ok None
         | None => Ok None
         end
     end;
  match got with
  | None => Ok (c, None)
  | Some (used, r) =>
      if rs_status r =? 100 then
        match rs_headers r with
        | [] => Ok (c, Some (used, r))
        | _ => Err HeadersWith100
        end
      else
        let cl_raw := hm_get (rs_headers r) (s2b "content-length") in
        if match cl_raw with Some v => negb (is_text v) | None => false end
        then Err BadContentLengthHeader
        else
          let m := am_method (c_req c) in
          do rd <- for_response (rs_version r =? 0) (method_eqb m HEAD) (method_eqb m CONNECT)
                                (rs_status r)
                                (lookup_text (rs_headers r) (s2b "content-length"))
                                (lookup_text (rs_headers r) (s2b "transfer-encoding"));
          Ok (set_reader c (Some rd), Some (used, r))
  end.

(** [Call<RecvBody>::read]. *)
Definition call_read (c : call) (input : bytes) (cap : N) : res (call * N * bytes) :=
  match c_reader c with
  | None => Panic "call.rs: reader.unwrap() in read"
  | Some r =>
      if reader_is_ended r then Ok (c, 0, [])
      else
        do x <- reader_read r input cap (c_stop c);
        let '(r', i, o) := x in Ok (set_reader c (Some r'), i, o)
  end.

(** The call after a [read] that returned an error: the body reader keeps the state it had reached. *)
Definition call_read_after_err (c : call) (input : bytes) (cap : N) : call :=
  match c_reader c with
  | Some r => if reader_is_ended r then c else set_reader c (Some (reader_after_err r input cap (c_stop c)))
  | None => c
  end.
